(* Driver for the extracted models: one line of decimal integers in, one line
   out.  The only hand-written glue is decimal <-> extracted Z conversion,
   validated on every run by the echo cases and by the vm_compute cross-sample. *)
module M = Model

let rec pos_of_int (n : int) : M.positive =
  if n = 1 then M.XH
  else if n land 1 = 0 then M.XO (pos_of_int (n lsr 1)) else M.XI (pos_of_int (n lsr 1))
let z_of_small (n : int) : M.z = if n = 0 then M.Z0 else if n > 0 then M.Zpos (pos_of_int n) else M.Zneg (pos_of_int (-n))
let ten = z_of_small 10

let z_of_string (s : string) : M.z =
  let neg = String.length s > 0 && s.[0] = '-' in
  let acc = ref M.Z0 in
  String.iteri (fun i c ->
    if not (i = 0 && neg) then begin
      if c < '0' || c > '9' then failwith ("bad integer: " ^ s);
      acc := M.Z.add (M.Z.mul !acc ten) (z_of_small (Char.code c - 48)) end) s;
  if neg then M.Z.opp !acc else !acc

let rec int_of_pos = function M.XH -> 1 | M.XO p -> 2 * int_of_pos p | M.XI p -> 2 * int_of_pos p + 1
let int_of_small = function M.Z0 -> 0 | M.Zpos p -> int_of_pos p | M.Zneg p -> - (int_of_pos p)

let string_of_z (v : M.z) : string =
  match v with
  | M.Z0 -> "0"
  | _ ->
    let neg = (match v with M.Zneg _ -> true | _ -> false) in
    let v = if neg then M.Z.opp v else v in
    let buf = Buffer.create 20 in
    let rec go v acc =
      match v with
      | M.Z0 -> acc
      | _ -> let (q, r) = M.Z.quotrem v ten in
             go q (Char.chr (48 + int_of_small r) :: acc) in
    List.iter (Buffer.add_char buf) (go v []);
    (if neg then "-" else "") ^ Buffer.contents buf

let () =
  try
    while true do
      let line = input_line stdin in
      let toks = List.filter (fun s -> s <> "") (String.split_on_char ' ' line) in
      let inp = List.map z_of_string toks in
      let out = M.run_wire inp in
      print_string (String.concat " " (List.map string_of_z out));
      print_newline ()
    done
  with End_of_file -> ()
