"""C12 -- ISO-TP reassembly returns exactly the transmitted telegrams.

Theorems: coq/Properties/C12.v.  Tie: correspondence of Model/IsoTp.v with
odxtools.isotp_state_machine on segmented, interleaved frame streams (passive and
active decoder, callbacks, frames sent) plus the direct oracle: the telegrams
reported per id are the transmitted ones; the text-log reader gives the same.
"""
import itertools

import common
import isotp_common as ic
from common import Check

RX_POOL = [0x7E0, 0x7E8, 0x123, 0x6F1, 0x18DA10F1, 0x18DAF110]  # 11 bit and 29 bit (normal fixed addressing) identifiers
NOISE_POOL = [0x001, 0x7DF, 0x555, 0x18DB33F1]


def boundary_lengths(fsz):
    s = {1, 2, 6, 7, 8, 9, fsz - 3, fsz - 2, fsz - 1, fsz, 4094, 4095}
    for k in (1, 2, 3, 14, 15, 16, 17, 31, 32, 33):
        base = (fsz - 2) + (fsz - 1) * k
        s |= {base - 1, base, base + 1}
    return sorted(x for x in s if 1 <= x <= 4095)


def rand_telegram(rng, n):
    return bytes(rng.randrange(256) for _ in range(n))


def gen_stream_case(rng, max_len=None):
    nid = rng.choice([1, 1, 2, 2, 3])
    rx = rng.sample(RX_POOL, nid)
    fsz = rng.choice([8, 8, 8, 12, 16, 24, 64])
    streams = []
    sent = {}
    for rid in rx:
        ts = []
        fr = []
        for _ in range(rng.randint(1, 3)):
            if rng.random() < 0.6:
                n = rng.choice(boundary_lengths(fsz))
            else:
                n = rng.randint(1, 300)
            if max_len:
                n = min(n, max_len)
            t = rand_telegram(rng, n)
            segs = ic.segment(fsz, t)
            pad = ic.make_pad(rng, len(segs[-1]), fsz, rng.choice([0, 1, 1, 2]))
            segs = ic.segment(fsz, t, pad)
            ts.append(t)
            fr.extend((rid, f) for f in segs)
        sent[rid] = ts
        streams.append(fr)
    # interleave
    merged = []
    idx = [0] * len(streams)
    while any(idx[i] < len(streams[i]) for i in range(len(streams))):
        live = [i for i in range(len(streams)) if idx[i] < len(streams[i])]
        i = rng.choice(live)
        merged.append(streams[i][idx[i]])
        idx[i] += 1
        r = rng.random()
        if r < 0.15:  # flow control frame (on an rx id or on a foreign id)
            merged.append((rng.choice(rx + NOISE_POOL),
                           bytes([0x30 | rng.choice([0, 0, 1, 2, 2, 7, 15]), rng.choice([0, 8, 255]), 0]) +
                           bytes(rng.choice([0, 5]))))
        elif r < 0.25:  # unrelated id, arbitrary content
            merged.append((rng.choice(NOISE_POOL), rand_telegram(rng, rng.randint(0, 8))))
        elif r < 0.40:  # a burst of frames of ONE unrelated id which look like ISO-TP frames themselves
            nid_ = rng.choice(NOISE_POOL)
            k0 = rng.randrange(16)
            for j in range(rng.randint(2, 4)):
                kind = rng.choice(["sf", "cf", "cf", "ff"])
                if kind == "sf":
                    d = bytes([3, 0xDE, 0xAD, 0xBE]) + bytes(4)
                elif kind == "cf":
                    d = bytes([0x20 | ((k0 + j) % 16)]) + rand_telegram(rng, 7)
                else:
                    d = bytes([0x10, 20]) + rand_telegram(rng, 6)
                merged.append((nid_, d))
    return rx, fsz, merged, sent


SNOOP_RX, SNOOP_TX = 123, 456  # the CAN ids of the shipped somersault database (decimal in the ODX)


def snoop_cases(rng, n):
    """frame streams on the two ids of the somersault ECU whose telegrams the database cannot decode (so that the
    tool prints their bytes), with the telegrams in the order of their completion"""
    out = []
    for _ in range(n):
        per = []
        for rid, sid in ((SNOOP_RX, 0xAB), (SNOOP_TX, 0xEB)):
            fr = []
            for _ in range(rng.randint(1, 3)):
                t = bytes([sid]) + rand_telegram(rng, rng.choice([0, 1, 5, 6, 7, 12, 13, 30, 100]))
                segs = ic.segment(8, t, b"\x55" * rng.choice([0, 0, 1]))
                fr.extend((rid, f, t if i == len(segs) - 1 else None) for i, f in enumerate(segs))
            per.append(fr)
        merged, want = [], []
        while any(per):
            src = rng.choice([x for x in per if x])
            rid, f, done = src.pop(0)
            merged.append((rid, f))
            if done is not None:
                want.append(["req" if rid == SNOOP_RX else "resp", done.hex()])
            if rng.random() < 0.2:
                merged.append((rng.choice([SNOOP_RX, SNOOP_TX] + NOISE_POOL), bytes([0x30, 0, 0])))
            if rng.random() < 0.2:
                merged.append((rng.choice(NOISE_POOL + [0x123, 0x456]), bytes([3, 1, 2, 3])))
        out.append((merged, want))
    return out


def check_case(ck, rx, frames, sent, mres_passive, mres_active, tx, psize, pval, label):
    """returns True when everything agrees"""
    ok = True
    for active, mres in ((False, mres_passive), (True, mres_active)):
        if active and tx is None:
            continue
        trace, err = ic.run_impl(rx, tx or [], psize, pval, frames, active)
        rep = {"rx": rx, "tx": tx, "padding": [psize, pval], "active": active,
               "frames": [[fid, bytes(d).hex()] for fid, d in frames], "label": label}
        if err:
            ck.violation(f"processing frame {err[0]}: {err[1]}", rep)
            return False
        # direct oracle: per id exactly the transmitted telegrams, in order, once
        got = {}
        for ts, _, _ in trace:
            for tid, t in ts:
                got.setdefault(tid, []).append(bytes(t))
        want = {k: v for k, v in sent.items() if v}
        if got != want:
            bad = next(k for k in set(got) | set(want) if got.get(k) != want.get(k))
            rep["id"] = bad
            rep["expected_lengths"] = [len(x) for x in want.get(bad, [])]
            rep["reported"] = [x.hex() for x in got.get(bad, [])][:4]
            ck.violation(f"telegrams reported for id {bad:#x} differ from the transmitted ones", rep)
            return False
        if active:
            # every first frame is answered at once by exactly one CTS frame on the paired id
            for (fid, d), (ts, cbs, snt) in zip(frames, trace):
                if fid in rx and len(d) >= 2 and d[0] >> 4 == 1:
                    want_tx = tx[rx.index(fid)]
                    fcs = [s for s in snt if s[0] == want_tx and len(s[1]) >= 3 and s[1][0] == 0x30]
                    if len(fcs) != 1 or len(snt) != 1:
                        rep["sent"] = snt
                        ck.violation("first frame not answered by exactly one clear-to-send "
                                     "flow-control frame on the paired id", rep)
                        return False
        if mres is not None and trace != mres:
            st = next((i for i, (a, b) in enumerate(zip(trace, mres)) if a != b), None)
            rep["step"] = st
            rep["impl"] = trace[st] if st is not None else None
            rep["model"] = mres[st] if st is not None else None
            rep["broken"] = "correspondence IsoTp.run_case vs decode_rx_frame"
            ck.violation(f"implementation and model disagree at frame {st}; direct oracle passed",
                         rep, found_input=False)
            ok = False
    return ok


def main(argv=None):
    ck = Check("C12", argv)
    ck.prologue()
    rng = ck.rng
    cases = []  # (rx, frames, sent, tx, psize, pval, label)
    quick = ck.tier == "quick"
    if ck.replay:
        import json
        rp = json.load(open(ck.replay))["replay"]
        frames = [(fid, bytes.fromhex(h)) for fid, h in rp["frames"]]
        cases.append((rp["rx"], frames, None, rp.get("tx"), rp["padding"][0], rp["padding"][1], "replay"))
    else:
        # 1. single id, every boundary length, every frame size, three padding modes
        for fsz in ic.FD_SIZES:
            lens = boundary_lengths(fsz) if quick or fsz != 8 else range(1, 4096)
            for n in lens:
                t = rand_telegram(rng, n)
                for mode in ((0, 1) if quick else (0, 1, 2)):
                    segs = ic.segment(fsz, t)
                    pad = ic.make_pad(rng, len(segs[-1]), fsz, mode)
                    frames = [(0x7E8, f) for f in ic.segment(fsz, t, pad)]
                    cases.append(([0x7E8], frames, {0x7E8: [t]}, [0x7E0], rng.choice([0, 8]), 0xAA,
                                  f"single fsz={fsz} n={n} pad={mode}"))
        # 1a. telegrams of more than 4095 bytes (first frame with the 32 bit length), alone and between short ones
        for fsz, n in ((8, 4096), (8, 4097), (8, 5000), (64, 4096), (64, 4158), (12, 4100)) if quick else \
                [(f_, n_) for f_ in ic.FD_SIZES for n_ in (4096, 4097, 4102, 4103, 5000, 8191, 8192, 70000)]:
            t = rand_telegram(rng, n)
            t0, t2 = rand_telegram(rng, 5), rand_telegram(rng, 30)
            segs = ic.segment(fsz, t)
            pad = ic.make_pad(rng, len(segs[-1]), fsz, rng.choice([0, 1, 2]))
            frames = [(0x7E8, f) for t_, p_ in ((t0, b""), (t, pad), (t2, b"")) for f in ic.segment(fsz, t_, p_)]
            cases.append(([0x7E8], frames, {0x7E8: [t0, t, t2]}, [0x7E0], rng.choice([0, 8]), 0xAA, f"long fsz={fsz} n={n}"))
        # 1b. a transfer of 254..258 consecutive frames (the block size of the active decoder's flow control is 255)
        # directly followed by another segmented transfer on the same id
        for fsz in (8, 12):
            for k in (254, 255, 256, 257, 258):
                n1 = (fsz - 2) + (fsz - 1) * k - rng.choice([0, 1, fsz - 2])
                if n1 > 4095:
                    continue
                t1, t2 = rand_telegram(rng, n1), rand_telegram(rng, rng.choice([fsz, 20, 100]))
                frames = [(0x7E8, f) for t in (t1, t2) for f in ic.segment(fsz, t)]
                cases.append(([0x7E8], frames, {0x7E8: [t1, t2]}, [0x7E0], 8, 0xAA, f"block-boundary fsz={fsz} cfs={k}"))
        # 2. exhaustive interleavings of two short transfers (<= 7 frames)
        ta = rand_telegram(rng, 20)  # FF + 2 CF
        tb = rand_telegram(rng, 27)  # FF + 3 CF
        fa = [(0x7E0, f) for f in ic.segment(8, ta)]
        fb = [(0x7E8, f) for f in ic.segment(8, tb, b"\xaa" * 1)]
        n = len(fa) + len(fb)
        for pos in itertools.combinations(range(n), len(fa)):
            merged, ia, ib = [], 0, 0
            for i in range(n):
                if i in pos:
                    merged.append(fa[ia]); ia += 1
                else:
                    merged.append(fb[ib]); ib += 1
            cases.append(([0x7E0, 0x7E8], merged, {0x7E0: [ta], 0x7E8: [tb]}, [0x700, 0x708], 0, 0,
                          "exhaustive-interleaving"))
        for flag in range(16):
            for pos in range(len(fa) + 1):
                for fcid in (0x7E0, 0x7E8):
                    st = fa[:pos] + [(fcid, bytes([0x30 | flag, 0, 0]))] + fa[pos:]
                    cases.append(([0x7E0, 0x7E8], st, {0x7E0: [ta]}, [0x700, 0x708], 0, 0, "fc-sweep"))
        ck.coverage["exhaustive_interleavings"] = sum(1 for c in cases if c[6] == "exhaustive-interleaving")
        # 3. random interleaved multi-id streams with flow control and noise
        for _ in range(300 if quick else 6000):
            rx, fsz, merged, sent = gen_stream_case(rng)
            # (29 bit receive identifiers are answered on 29 bit transmit identifiers)
            tx = [0x700 + i if r <= 0x7FF else 0x18DAF100 + i for i, r in enumerate(rx)]
            cases.append((rx, merged, sent, tx, rng.choice([0, 8, 12]), rng.choice([0xAA, 0x00]),
                          f"random fsz={fsz}"))
    # model
    wires_p = [ic.wire_case(rx, [], 0, 0, fr, False) for rx, fr, *_ in cases]
    wires_a = [ic.wire_case(rx, tx, ps, pv, fr, True) for rx, fr, _, tx, ps, pv, _ in cases]
    mp = ma = None
    if ck.model_available():
        try:
            mres = common.run_model_ocaml(wires_p + wires_a, chunk=20)
            mp, ma = mres[:len(cases)], mres[len(cases):]
            small = [i for i, c in enumerate(cases) if sum(len(d) for _, d in c[1]) < 600]
            idx = sorted(rng.sample(small, min(len(small), 40 if quick else 200)))
            cres = common.run_model_coq([wires_a[i] for i in idx], tag="c12", chunk=10)
            if any(c != ma[i] for i, c in zip(idx, cres)):
                ck.note_broken("extracted model and vm_compute disagree")
            ck.coverage["evaluated_in_coq"] = len(idx)
            # the Python reference segmenter equals the Coq specification `segment`
            segcases, segwant = [], []
            for fsz in ic.FD_SIZES:
                for n in boundary_lengths(fsz)[:30] + [4096, 4097 + fsz]:
                    t = rand_telegram(rng, n)
                    pad = bytes([0xCC]) * rng.randint(0, 3)
                    segcases.append([ic.M_SEG, [fsz, list(t), list(pad)]])
                    segwant.append([list(f) for f in ic.segment(fsz, t, pad)])
            if common.run_model_ocaml(segcases, chunk=10) != segwant:
                ck.note_broken("Coq `segment` specification and the harness segmenter disagree")
            ck.coverage["segment_spec_cases"] = len(segcases)
        except Exception as e:  # noqa
            ck.note_broken(f"model execution failed: {e}")
            mp = ma = None
    else:
        ck.note_broken("model not built (Run.vo / extracted driver missing)")
    nlog = 0
    for i, (rx, frames, sent, tx, ps, pv, label) in enumerate(cases):
        if sent is None:  # replay: derive nothing, only correspondence + provenance-free run
            sent_eff = {}
            trace, err = ic.run_impl(rx, tx or [], ps, pv, frames, False)
            for ts, _, _ in trace:
                for tid, t in ts:
                    sent_eff.setdefault(tid, []).append(bytes(t))
            sent = sent_eff
        ck.count((rx, [(f, bytes(d)) for f, d in frames]), nontrivial=len(frames) >= 2)
        ck.hist("frames_per_case", min(len(frames), 100) // 10 * 10)
        ck.hist("kind", label.split(" ")[0])
        ok = check_case(ck, rx, frames, sent, mp[i] if mp else None, ma[i] if ma else None, tx, ps, pv, label)
        if i % 97 == 0:
            ck.sample({"rx": rx, "label": label, "frames": [[f, bytes(d).hex()] for f, d in frames[:6]],
                       "n_frames": len(frames)})
        # text logs (only frames the log syntax can express: non-empty data)
        if ok and (i % 3 == 0 or not quick) and all(len(d) > 0 for _, d in frames):
            nlog += 1
            direct = []
            for ts, _, _ in ic.run_impl(rx, [], 0, 0, frames, False)[0]:
                direct.extend(ts)
            for style in (0, 1, 2, 3, "split"):
                # lines which are no frames (blank, white space, comments) and CRLF line ends change nothing
                junk = {rng.randrange(len(frames) + 1): rng.choice(ic.JUNK_LINES) for _ in range(rng.choice([0, 1, 2]))}
                eol = rng.choice(["\n", "\n", "\r\n"])
                if style == "split":
                    # a log rotated into two files at any line, read by the same reassembler one after the other
                    cut = rng.randrange(len(frames) + 1)
                    got, warn = ic.run_impl_log(rx, frames, lambda k, d: 1, None, "\n", split_at=cut)
                else:
                    got, warn = ic.run_impl_log(rx, frames, lambda k, d: style, junk, eol)
                ck.hist("log_junk", f"{len(junk)} junk lines, eol {eol!r}")
                if got != direct:
                    ck.violation(
                        f"read_telegrams over log format {style} reports different telegrams than decode_rx_frame",
                        {"rx": rx, "style": style, "frames": [[f, bytes(d).hex()] for f, d in frames],
                         "junk_lines": {str(k): v for k, v in junk.items()}, "eol": eol, "stderr": warn[:300]})
                    break
    ck.coverage["log_cases"] = nlog
    # the snoop tool end to end: ids from the database, in hex and in decimal on the command line
    if not ck.replay:
        nsn = 0
        for frames, want in snoop_cases(rng, 6 if quick else 60):
            for rx_arg, tx_arg in ((None, None), (hex(SNOOP_RX), hex(SNOOP_TX)), (str(SNOOP_RX), str(SNOOP_TX))):
                style = rng.choice([0, 1])
                junk = {rng.randrange(len(frames) + 1): rng.choice(ic.JUNK_LINES)} if rng.random() < 0.5 else None
                text = ic.log_text(frames, lambda k, d: style, junk)
                got, out, err = ic.run_snoop(text, rx_arg, tx_arg)
                nsn += 1
                ck.count(("snoop", rx_arg, text))
                if err or got != want:
                    ck.violation(f"odxtools snoop (--rx {rx_arg} --tx {tx_arg}; None = from the database) on a candump log "
                                 f"{'raised ' + err if err else 'reports other telegrams than the transmitted ones'}",
                                 {"snoop": True, "rx_arg": rx_arg, "tx_arg": tx_arg, "log": text, "expected": want, "reported": got})
                    break
        ck.coverage["snoop_runs"] = nsn
    ck.assumptions = ["normal (not extended/mixed) ISO-TP addressing", "telegram lengths 1..4095 (12-bit first-frame length)"]
    ck.finish(
        trusted_base=[
            "Coq 8.16.1 kernel; no axioms (all theorems closed under the global context)",
            "translator: IsoTp enum codes copied into Generated.v",
            "extraction (ExtrOcamlBasic) + ocaml/driver.ml, cross-checked against vm_compute on a sample",
            "harness: reference segmenter (checked equal to the Coq `segment` on samples), stream generator, FakeBus stub",
            "modelled not verified: bitstruct nibble unpacking, asyncio/regex log reader (covered by the direct oracle only)",
        ],
        rule="single-id transfers at every boundary length (SF/FF/CF boundaries, >16 CFs, 4094/4095; thorough: all 1..4095 for 8-byte frames) "
        "x 8 frame sizes x padding modes; all interleavings of two transfers (7 frames); random 1-3 id streams with flow-control "
        "and foreign-id frames; each on the passive and the active decoder; non-trivial = at least two frames")


if __name__ == "__main__":
    main()
