#!/venv/bin/python
"""Fail-closed translator: /repo sources -> coq/Generated.v (constants only).

Every table the Coq models depend on is re-read from /repo's working tree on
every run.  Unknown AST shapes raise TranslateError: the caller reports a
broken tie, nothing is guessed.  Generated.v is only rewritten when its
content changes, so an unchanged tree costs a no-op `make`.
"""
import ast
import os
import sys

REPO = os.environ.get("VERIF_REPO", "/repo")
HERE = os.path.dirname(os.path.abspath(__file__))
OUT = os.path.join(os.path.dirname(HERE), "coq", "Generated.v")


class TranslateError(Exception):
    pass


def _parse(rel):
    p = os.path.join(REPO, rel)
    with open(p) as f:
        return ast.parse(f.read(), p)


def _find_class(mod, name):
    for n in ast.walk(mod):
        if isinstance(n, ast.ClassDef) and n.name == name:
            return n
    raise TranslateError(f"class {name} not found")


def _int_const(node, what):
    if isinstance(node, ast.Constant) and isinstance(node.value, int) and not isinstance(
            node.value, bool):
        return node.value
    if isinstance(node, ast.UnaryOp) and isinstance(node.op, ast.USub):
        return -_int_const(node.operand, what)
    raise TranslateError(f"{what}: expected integer literal, got {ast.dump(node)}")


def enum_int_members(rel, cls):
    c = _find_class(_parse(rel), cls)
    out = {}
    for st in c.body:
        if isinstance(st, ast.Assign) and len(st.targets) == 1 and isinstance(
                st.targets[0], ast.Name):
            out[st.targets[0].id] = _int_const(st.value, f"{cls}.{st.targets[0].id}")
    return out


def layer_priorities():
    mod = _parse("odxtools/diaglayers/diaglayertype.py")
    c = _find_class(mod, "DiagLayerType")
    for n in ast.walk(c):
        if isinstance(n, ast.AnnAssign) and isinstance(
                n.target, ast.Name) and n.target.id == "PRIORITY_OF_DIAG_LAYER_TYPE":
            if not isinstance(n.value, ast.Dict):
                raise TranslateError("priority table is not a dict literal")
            out = {}
            for k, v in zip(n.value.keys, n.value.values):
                if not (isinstance(k, ast.Attribute) and isinstance(k.value, ast.Name) and
                        k.value.id == "DiagLayerType"):
                    raise TranslateError("priority key shape")
                out[k.attr] = _int_const(v, "priority " + k.attr)
            return out
    raise TranslateError("PRIORITY_OF_DIAG_LAYER_TYPE not found")


def ddd_routing():
    """C09: which NOT-INHERITED list of a PARENT-REF is applied to which list of the data dictionary.
    Every call `self._compute_available_ddd_spec_items(lambda ddd_spec: ddd_spec.X, lambda parent_ref: parent_ref.Y)`
    of hierarchyelement.py yields the pair (X, Y); any other argument shape is an error.  Also returns the
    (accessor, exclusion attribute) pairs of the value-inherited layer-level lists (diag comms, global negative
    responses) found in the `not_inherited_fn` helpers."""
    mod = _parse("odxtools/diaglayers/hierarchyelement.py")
    pairs = []
    for n in ast.walk(mod):
        if isinstance(n, ast.Call) and isinstance(n.func, ast.Attribute) and n.func.attr == "_compute_available_ddd_spec_items":
            if len(n.args) != 2 or n.keywords:
                raise TranslateError("_compute_available_ddd_spec_items: expected two positional lambdas")
            names = []
            for a, var in zip(n.args, ("ddd_spec", "parent_ref")):
                if not (isinstance(a, ast.Lambda) and len(a.args.args) == 1 and a.args.args[0].arg == var and
                        isinstance(a.body, ast.Attribute) and isinstance(a.body.value, ast.Name) and a.body.value.id == var):
                    raise TranslateError(f"_compute_available_ddd_spec_items: argument is not `lambda {var}: {var}.<attr>`")
                names.append(a.body.attr)
            pairs.append(tuple(names))
    if not pairs:
        raise TranslateError("no call of _compute_available_ddd_spec_items found")
    return pairs


def strict_mode_discipline():
    """C17: (1) odxraise raises iff strict_mode is set *at the time of the call* and
    otherwise only logs; (2) no module binds the value of strict_mode at import time.
    Returns the number of import-time bindings found."""
    mod = _parse("odxtools/exceptions.py")
    fn = None
    for n in mod.body:
        if isinstance(n, ast.FunctionDef) and n.name == "odxraise":
            fn = n
    if fn is None:
        raise TranslateError("odxraise not found")
    body = [b for b in fn.body if not (isinstance(b, ast.Expr) and isinstance(b.value, ast.Constant))]
    if len(body) != 1 or not isinstance(body[0], ast.If):
        raise TranslateError("odxraise: expected a single if statement")
    top = body[0]
    names = {x.id for x in ast.walk(top.test) if isinstance(x, ast.Name)}
    if "strict_mode" not in names or not names <= {"strict_mode", "TYPE_CHECKING"}:
        raise TranslateError("odxraise: the guard must test the module level strict_mode")
    if not all(isinstance(x, ast.Raise) for b in top.body for x in ([b] if not isinstance(b, ast.If) else b.body + b.orelse)):
        raise TranslateError("odxraise: the strict branch must raise")
    for x in top.orelse:
        for y in ast.walk(x):
            if isinstance(y, ast.Raise):
                raise TranslateError("odxraise: the lenient branch must not raise")
    # import-time bindings of the flag anywhere in the package
    count = 0
    root = os.path.join(REPO, "odxtools")
    for d, _, fs in os.walk(root):
        for f in fs:
            if not f.endswith(".py"):
                continue
            rel = os.path.relpath(os.path.join(d, f), REPO)
            if rel == os.path.join("odxtools", "exceptions.py"):
                continue
            for n in ast.walk(_parse(rel)):
                if isinstance(n, ast.ImportFrom) and n.module and n.module.split(".")[-1] == "exceptions":
                    if any(a.name == "strict_mode" for a in n.names):
                        count += 1
    return count


def coq_name(s):
    return "[" + "; ".join(str(ord(ch)) for ch in s) + "]"


def coq_names(lst):
    return "[\n    " + ";\n    ".join(coq_name(s) for s in lst) + "\n  ]"


def runtime_tables():
    """Tables which are facts about the Python runtime the code runs on
    (keyword list) or reflective facts about a class (attribute names)."""
    import keyword
    sys.path.insert(0, REPO)
    from odxtools.nameditemlist import NamedItemList
    reserved = sorted(set(dir(NamedItemList)) | set(NamedItemList().__dict__.keys()))
    for r in reserved:
        if not r.isascii():
            raise TranslateError("non-ascii attribute name")
    return list(keyword.kwlist), reserved


# names which a parser accepts as an alternative spelling of something the writer emits under another name
XML_READ_ALIASES = {
    "VALUE": "COMPARAM-REF/VALUE is the ODX 2.0 spelling of SIMPLE-VALUE (comparaminstance.py); written as SIMPLE-VALUE",
}


def xml_names():
    """tag / attribute names the from_et parsers read (string literals of find / findtext / iterfind /
    findall / get / attrib[...]) and the names which occur in the jinja templates of the writer"""
    import glob
    import json
    import re
    pat = re.compile(r"[A-Z][A-Z0-9-]*(/[A-Z][A-Z0-9-]*)*")
    reads = set()
    files = sorted(glob.glob(os.path.join(REPO, "odxtools", "**", "*.py"), recursive=True))
    if len(files) < 50:
        raise TranslateError("odxtools sources not found")
    for p in files:
        rel = os.path.relpath(p, REPO)
        if rel.startswith(os.path.join("odxtools", "cli")):
            continue
        tree = _parse(rel)
        for n in ast.walk(tree):
            if (isinstance(n, ast.Call) and isinstance(n.func, ast.Attribute) and
                    n.func.attr in ("find", "findtext", "iterfind", "findall", "get") and n.args and
                    isinstance(n.args[0], ast.Constant) and isinstance(n.args[0].value, str)):
                v = n.args[0].value
                if pat.fullmatch(v):
                    reads.update(v.split("/"))
            if (isinstance(n, ast.Subscript) and isinstance(n.value, ast.Attribute) and n.value.attr == "attrib" and
                    isinstance(n.slice, ast.Constant) and isinstance(n.slice.value, str) and pat.fullmatch(n.slice.value)):
                reads.add(n.slice.value)
    writes = set()
    tfiles = sorted(glob.glob(os.path.join(REPO, "odxtools", "templates", "**", "*.jinja2"), recursive=True))
    if len(tfiles) < 20:
        raise TranslateError("templates not found")
    for p in tfiles:
        with open(p) as f:
            t = f.read()
        t = re.sub(r"\{#.*?#\}", "", t, flags=re.S)      # jinja comments emit nothing
        writes.update(re.findall(r"</?([A-Z][A-Z0-9-]*)", t))
        writes.update(re.findall(r"\"([A-Z][A-Z0-9-]*)\"", t))
        writes.update(re.findall(r"\s([A-Z][A-Z0-9-]*)=", t))
    kf = os.path.join(os.path.dirname(HERE), "known_findings.json")
    gaps = set()
    with open(kf) as f:
        for e in json.load(f).get("findings", []):
            if e.get("property") == "C11":
                gaps.update(e.get("xml_names", []))
    reads -= set(XML_READ_ALIASES)
    return sorted(reads), sorted(writes), sorted(gaps)


def generate():
    parts = []
    parts.append("(* GENERATED by harness/translate.py from /repo -- do not edit *)\n"
                 "From Coq Require Import ZArith List.\nImport ListNotations.\nOpen Scope Z_scope.\n")
    iso = enum_int_members("odxtools/isotp_state_machine.py", "IsoTp")
    for k in ("FRAME_TYPE_SINGLE", "FRAME_TYPE_FIRST", "FRAME_TYPE_CONSECUTIVE",
              "FRAME_TYPE_FLOW_CONTROL", "FLOW_CONTROL_CONTINUE", "FLOW_CONTROL_WAIT",
              "FLOW_CONTROL_ABORT"):
        if k not in iso:
            raise TranslateError(f"IsoTp.{k} missing")
        parts.append(f"Definition isotp_{k.lower()} : Z := {iso[k]}.")
    pr = layer_priorities()
    for k in ("PROTOCOL", "FUNCTIONAL_GROUP", "BASE_VARIANT", "ECU_VARIANT", "ECU_SHARED_DATA"):
        if k not in pr:
            raise TranslateError(f"priority of {k} missing")
        parts.append(f"Definition prio_{k.lower()} : Z := {pr[k]}.")
    parts.append("Definition ddd_routing : list (list Z * list Z) :=\n  [\n    " +
                 ";\n    ".join(f"({coq_name(a)}, {coq_name(b)})" for a, b in ddd_routing()) + "\n  ].")
    parts.append(f"Definition strict_mode_import_bindings : Z := {strict_mode_discipline()}.")
    kw, reserved = runtime_tables()
    parts.append("Definition keywords : list (list Z) :=\n  " + coq_names(kw) + ".")
    parts.append("Definition reserved : list (list Z) :=\n  " + coq_names(reserved) + ".")
    reads, writes, gaps = xml_names()
    parts.append("Definition xml_reads : list (list Z) :=\n  " + coq_names(reads) + ".")
    parts.append("Definition xml_writes : list (list Z) :=\n  " + coq_names(writes) + ".")
    parts.append("Definition xml_known_gaps : list (list Z) :=\n  " + (coq_names(gaps) if gaps else "[]") + ".")
    return "\n".join(parts) + "\n"


def main():
    try:
        text = generate()
    except TranslateError as e:
        print(f"TRANSLATE-ERROR: {e}")
        return 2
    old = None
    if os.path.exists(OUT):
        with open(OUT) as f:
            old = f.read()
    if old != text:
        with open(OUT, "w") as f:
            f.write(text)
        print("Generated.v rewritten")
    else:
        print("Generated.v unchanged")
    return 0


if __name__ == "__main__":
    sys.exit(main())
