"""C05 -- encoding a message and decoding it returns the values that were encoded."""
import codec_checks

if __name__ == "__main__":
    codec_checks.main("C05")
