"""Shared code of the codec checks (C01-C05, C08, C17): abstract descriptions,
their rendering as ODX XML (own emitter, loaded through odxtools' parser) and as
wire tokens for the Coq model, generators, and the implementation runner."""
import signal
import warnings
import xml.etree.ElementTree as ET
from xml.sax.saxutils import escape

M_CODEC = 1

BT = ["A_INT32", "A_UINT32", "A_FLOAT32", "A_FLOAT64", "A_UNICODE2STRING", "A_BYTEFIELD", "A_ASCIISTRING",
      "A_UTF8STRING"]
BINT, BUINT, BF32, BF64, BUNI, BBYTES, BASCII, BUTF8 = range(8)
ENC = ["NONE", "BCD-P", "BCD-UP", "1C", "2C", "SM", "UTF-8", "UCS-2", "ISO-8859-1", "ISO-8859-2"]
TERM = ["ZERO", "HEX-FF", "END-OF-PDU"]


# ---------------------------------------------------------------------------
# abstract syntax (plain dicts)
# ---------------------------------------------------------------------------
def std(bt, bl, en=None, hl=True, mask=None):
    return dict(k="std", bt=bt, en=en, hl=hl, bl=bl, mask=mask)


def minmax(bt, minl, maxl, term, en=None, hl=True):
    return dict(k="minmax", bt=bt, en=en, hl=hl, minl=minl, maxl=maxl, term=term)


def leading(bt, bl, en=None, hl=True):
    return dict(k="leading", bt=bt, en=en, hl=hl, bl=bl)


def paramlen(bt, key, en=None, hl=True):
    return dict(k="paramlen", bt=bt, en=en, hl=hl, key=key)


def simple(dct, compu=None, pt=None):
    if pt is None:
        pt = dct["bt"] if dct["bt"] in (BINT, BUINT, BBYTES) else BUNI
    return dict(k="simple", dct=dct, compu=compu or dict(k="ident"), pt=pt)


def linear(off, num, den, lo=None, hi=None):
    return dict(k="linear", off=off, num=num, den=den, lo=lo, hi=hi)


def struct(params, byte_size=None):
    return dict(k="struct", params=params, bs=byte_size)


def param(name, kind, bytepos=None, bitpos=None):
    return dict(name=name, bytepos=bytepos, bitpos=bitpos, kind=kind)


# ---------------------------------------------------------------------------
# wire
# ---------------------------------------------------------------------------
def w_opt(x):
    return [] if x is None else [x]


def w_value(v):
    if v is None:
        return [3]
    if isinstance(v, bool):
        raise TypeError("bool values are outside the model")
    if isinstance(v, int):
        return [0, v]
    if isinstance(v, (bytes, bytearray)):
        return [1, list(v)]
    if isinstance(v, str):
        return [2, [ord(c) for c in v]]
    if isinstance(v, dict):
        return [4, [[[ord(c) for c in k], w_value(x)] for k, x in v.items()]]
    if isinstance(v, (list, tuple)):
        return [5, [w_value(x) for x in v]]
    raise TypeError(type(v))


def unw_value(t):
    c = t[0]
    if c == 0:
        return t[1]
    if c == 1:
        return bytes(t[1])
    if c == 2:
        return "".join(chr(x) for x in t[1])
    if c == 3:
        return None
    if c == 4:
        return {"".join(chr(x) for x in k): unw_value(v) for k, v in t[1]}
    return [unw_value(x) for x in t[1]]


def w_name(s):
    return [ord(c) for c in s]


def w_dct(d):
    base = [d["bt"], w_opt(d["en"]), d["hl"]]
    if d["k"] == "std":
        return [0] + base + [d["bl"], w_opt(d["mask"])]
    if d["k"] == "minmax":
        return [1] + base + [d["minl"], w_opt(d["maxl"]), d["term"]]
    if d["k"] == "leading":
        return [2] + base + [d["bl"]]
    return [3] + base + [w_name(d["key"])]


def w_compu(c):
    if c["k"] == "ident":
        return [0]
    return [1, c["off"], c["num"], c["den"], w_opt(c["lo"]), w_opt(c["hi"])]


def w_dop(d):
    k = d["k"]
    if k == "simple":
        return [0, w_dct(d["dct"]), w_compu(d["compu"]), d["pt"]]
    if k == "struct":
        return [1, [w_param(p) for p in d["params"]], w_opt(d["bs"])]
    if k == "static":
        return [2, w_dop(d["s"]), d["n"], d["isz"]]
    if k == "dynlen":
        return [3, w_dop(d["s"]), d["offset"], d["cb"], d["cbit"], w_dop(d["cnt"])]
    if k == "eop":
        return [4, w_dop(d["s"])]
    if k == "endmarker":
        return [5, w_dop(d["s"]), w_dop(d["tdop"]), w_value(d["tval"])]
    if k == "mux":
        wc = lambda c: [w_name(c["name"]), c.get("lo", 0), c.get("hi", 0), [] if c["s"] is None else [w_dop(c["s"])]]
        return [6, d["bp"], d["kb"], d["kbit"], w_dop(d["key"]), [wc(c) for c in d["cases"]],
                [] if d["dflt"] is None else [wc(d["dflt"])]]
    raise ValueError(k)


def w_param(p):
    kd = p["kind"]
    k = kd["k"]
    if k == "coded":
        wk = [0, w_dct(kd["dct"]), w_value(kd["v"])]
    elif k == "value":
        wk = [1, w_dop(kd["dop"]), [] if kd.get("dflt") is None else [w_value(kd["dflt"])]]
    elif k == "reserved":
        wk = [2, kd["bl"]]
    elif k == "physconst":
        wk = [3, w_dop(kd["dop"]), w_value(kd["v"])]
    elif k == "matchreq":
        wk = [4, kd["rqpos"], kd["len"]]
    elif k == "nrc":
        wk = [5, w_dct(kd["dct"]), [w_value(x) for x in kd["vs"]]]
    elif k == "lenkey":
        wk = [6, w_dop(kd["dop"])]
    else:
        raise ValueError(k)
    return [w_name(p["name"]), w_opt(p["bytepos"]), w_opt(p["bitpos"]), wk]


def case_encode(params, req, value):
    return [M_CODEC, [1, [w_param(p) for p in params], [] if req is None else [list(req)], w_value(value)]]


def case_decode(params, msg):
    return [M_CODEC, [2, [w_param(p) for p in params], list(msg)]]


def case_static(params, rqprefix=b""):
    return [M_CODEC, [3, [w_param(p) for p in params], list(rqprefix)]]


# ---------------------------------------------------------------------------
# ODX emission
# ---------------------------------------------------------------------------
class Emitter:
    """Collects the data objects of one document; every dop gets its own id."""

    def __init__(self):
        self.n = 0
        self.dops, self.structs, self.statics, self.dynlens, self.eops, self.endmarkers = [], [], [], [], [], []
        self.muxs = []

    def fresh(self, p):
        self.n += 1
        return f"{p}{self.n}"

    def x_dct(self, d):
        at = f'BASE-DATA-TYPE="{BT[d["bt"]]}"'
        if d["en"] is not None:
            at += f' BASE-TYPE-ENCODING="{ENC[d["en"]]}"'
        if d["hl"] is not True:
            at += ' IS-HIGHLOW-BYTE-ORDER="false"'
        k = d["k"]
        if k == "std":
            body = f"<BIT-LENGTH>{d['bl']}</BIT-LENGTH>"
            if d["mask"] is not None:
                body += f"<BIT-MASK>{d['mask']:X}</BIT-MASK>"
            return f'<DIAG-CODED-TYPE {at} xsi:type="STANDARD-LENGTH-TYPE">{body}</DIAG-CODED-TYPE>'
        if k == "minmax":
            body = ""
            if d["maxl"] is not None:
                body += f"<MAX-LENGTH>{d['maxl']}</MAX-LENGTH>"
            body += f"<MIN-LENGTH>{d['minl']}</MIN-LENGTH>"
            return (f'<DIAG-CODED-TYPE {at} TERMINATION="{TERM[d["term"]]}" xsi:type="MIN-MAX-LENGTH-TYPE">'
                    f'{body}</DIAG-CODED-TYPE>')
        if k == "leading":
            return (f'<DIAG-CODED-TYPE {at} xsi:type="LEADING-LENGTH-INFO-TYPE"><BIT-LENGTH>{d["bl"]}</BIT-LENGTH>'
                    f'</DIAG-CODED-TYPE>')
        return (f'<DIAG-CODED-TYPE {at} xsi:type="PARAM-LENGTH-INFO-TYPE"><LENGTH-KEY-REF ID-REF="LK.{d["key"]}"/>'
                f'</DIAG-CODED-TYPE>')

    def x_compu(self, c):
        if c["k"] == "ident":
            return "<COMPU-METHOD><CATEGORY>IDENTICAL</CATEGORY></COMPU-METHOD>"
        lim = ""
        if c["lo"] is not None:
            lim += f'<LOWER-LIMIT INTERVAL-TYPE="CLOSED">{c["lo"]}</LOWER-LIMIT>'
        if c["hi"] is not None:
            lim += f'<UPPER-LIMIT INTERVAL-TYPE="CLOSED">{c["hi"]}</UPPER-LIMIT>'
        return ("<COMPU-METHOD><CATEGORY>LINEAR</CATEGORY><COMPU-INTERNAL-TO-PHYS><COMPU-SCALES><COMPU-SCALE>"
                f"{lim}<COMPU-RATIONAL-COEFFS><COMPU-NUMERATOR><V>{c['off']}</V><V>{c['num']}</V></COMPU-NUMERATOR>"
                f"<COMPU-DENOMINATOR><V>{c['den']}</V></COMPU-DENOMINATOR></COMPU-RATIONAL-COEFFS></COMPU-SCALE>"
                "</COMPU-SCALES></COMPU-INTERNAL-TO-PHYS></COMPU-METHOD>")

    def dop_id(self, d):
        """emit the data object (recursively) and return its id"""
        k = d["k"]
        if k == "simple":
            i = self.fresh("dop")
            self.dops.append(f'<DATA-OBJECT-PROP ID="{i}"><SHORT-NAME>{i}</SHORT-NAME>{self.x_compu(d["compu"])}'
                             f'{self.x_dct(d["dct"])}<PHYSICAL-TYPE BASE-DATA-TYPE="{BT[d["pt"]]}"/>'
                             f'</DATA-OBJECT-PROP>')
            return i
        if k == "struct":
            i = self.fresh("st")
            bs = "" if d["bs"] is None else f"<BYTE-SIZE>{d['bs']}</BYTE-SIZE>"
            ps = "".join(self.x_param(p) for p in d["params"])
            self.structs.append(f'<STRUCTURE ID="{i}"><SHORT-NAME>{i}</SHORT-NAME>{bs}<PARAMS>{ps}</PARAMS></STRUCTURE>')
            return i
        if k == "static":
            si = self.dop_id(d["s"])
            i = self.fresh("sf")
            self.statics.append(f'<STATIC-FIELD ID="{i}"><SHORT-NAME>{i}</SHORT-NAME><BASIC-STRUCTURE-REF ID-REF="{si}"/>'
                                f'<FIXED-NUMBER-OF-ITEMS>{d["n"]}</FIXED-NUMBER-OF-ITEMS>'
                                f'<ITEM-BYTE-SIZE>{d["isz"]}</ITEM-BYTE-SIZE></STATIC-FIELD>')
            return i
        if k == "dynlen":
            si = self.dop_id(d["s"])
            ci = self.dop_id(d["cnt"])
            i = self.fresh("dl")
            bitp = "" if d["cbit"] == 0 else f"<BIT-POSITION>{d['cbit']}</BIT-POSITION>"
            self.dynlens.append(f'<DYNAMIC-LENGTH-FIELD ID="{i}"><SHORT-NAME>{i}</SHORT-NAME>'
                                f'<BASIC-STRUCTURE-REF ID-REF="{si}"/><OFFSET>{d["offset"]}</OFFSET>'
                                f'<DETERMINE-NUMBER-OF-ITEMS><BYTE-POSITION>{d["cb"]}</BYTE-POSITION>{bitp}'
                                f'<DATA-OBJECT-PROP-REF ID-REF="{ci}"/></DETERMINE-NUMBER-OF-ITEMS>'
                                f'</DYNAMIC-LENGTH-FIELD>')
            return i
        if k == "eop":
            si = self.dop_id(d["s"])
            i = self.fresh("eo")
            # (MAX- / MIN-NUMBER-OF-ITEMS are not enforced on either side: the field takes and returns any number of items)
            lim = "" if d.get("maxn") is None else f'<MAX-NUMBER-OF-ITEMS>{d["maxn"]}</MAX-NUMBER-OF-ITEMS><MIN-NUMBER-OF-ITEMS>0</MIN-NUMBER-OF-ITEMS>'
            self.eops.append(f'<END-OF-PDU-FIELD ID="{i}"><SHORT-NAME>{i}</SHORT-NAME>'
                             f'<BASIC-STRUCTURE-REF ID-REF="{si}"/>{lim}</END-OF-PDU-FIELD>')
            return i
        if k == "endmarker":
            si = self.dop_id(d["s"])
            ti = self.dop_id(d["tdop"])
            i = self.fresh("em")
            self.endmarkers.append(f'<DYNAMIC-ENDMARKER-FIELD ID="{i}"><SHORT-NAME>{i}</SHORT-NAME>'
                                   f'<BASIC-STRUCTURE-REF ID-REF="{si}"/><DYN-END-DOP-REF ID-REF="{ti}">'
                                   f'<TERMINATION-VALUE>{x_val(d["tval"])}</TERMINATION-VALUE></DYN-END-DOP-REF>'
                                   f'</DYNAMIC-ENDMARKER-FIELD>')
            return i
        if k == "mux":
            ki = self.dop_id(d["key"])
            i = self.fresh("mx")

            def sref(c):
                return "" if c["s"] is None else f'<STRUCTURE-REF ID-REF="{self.dop_id(c["s"])}"/>'

            def lim(tag, v, is_open):
                return f'<{tag} INTERVAL-TYPE="{"OPEN" if is_open else "CLOSED"}">{v}</{tag}>'

            dc = ""
            if d["dflt"] is not None:
                dc = f'<DEFAULT-CASE><SHORT-NAME>{d["dflt"]["name"]}</SHORT-NAME>{sref(d["dflt"])}</DEFAULT-CASE>'
            cs = "".join(f'<CASE><SHORT-NAME>{c["name"]}</SHORT-NAME>{sref(c)}{lim("LOWER-LIMIT", c["lo"], c.get("lo_open"))}'
                         f'{lim("UPPER-LIMIT", c["hi"], c.get("hi_open"))}</CASE>' for c in d["cases"])
            self.muxs.append(f'<MUX ID="{i}"><SHORT-NAME>{i}</SHORT-NAME><BYTE-POSITION>{d["bp"]}</BYTE-POSITION>'
                             f'<SWITCH-KEY><BYTE-POSITION>{d["kb"]}</BYTE-POSITION><BIT-POSITION>{d["kbit"]}</BIT-POSITION>'
                             f'<DATA-OBJECT-PROP-REF ID-REF="{ki}"/></SWITCH-KEY>{dc}'
                             + (f'<CASES>{cs}</CASES>' if cs else "") + '</MUX>')
            return i
        raise ValueError(k)

    def x_param(self, p):
        kd = p["kind"]
        k = kd["k"]
        pos = ""
        if p["bytepos"] is not None:
            pos += f"<BYTE-POSITION>{p['bytepos']}</BYTE-POSITION>"
        bitpos = "" if p["bitpos"] is None else f"<BIT-POSITION>{p['bitpos']}</BIT-POSITION>"
        sn = f"<SHORT-NAME>{p['name']}</SHORT-NAME>"
        if k == "coded":
            return (f'<PARAM xsi:type="CODED-CONST">{sn}{pos}{bitpos}<CODED-VALUE>{x_val(kd["v"])}</CODED-VALUE>'
                    f'{self.x_dct(kd["dct"])}</PARAM>')
        if k == "value":
            dflt = "" if kd.get("dflt") is None else f"<PHYSICAL-DEFAULT-VALUE>{x_val(kd['dflt'])}</PHYSICAL-DEFAULT-VALUE>"
            return f'<PARAM xsi:type="VALUE">{sn}{pos}{bitpos}{dflt}<DOP-REF ID-REF="{self.dop_id(kd["dop"])}"/></PARAM>'
        if k == "reserved":
            return f'<PARAM xsi:type="RESERVED">{sn}{pos}{bitpos}<BIT-LENGTH>{kd["bl"]}</BIT-LENGTH></PARAM>'
        if k == "physconst":
            return (f'<PARAM xsi:type="PHYS-CONST">{sn}{pos}{bitpos}<PHYS-CONSTANT-VALUE>{x_val(kd["v"])}'
                    f'</PHYS-CONSTANT-VALUE><DOP-REF ID-REF="{self.dop_id(kd["dop"])}"/></PARAM>')
        if k == "matchreq":
            return (f'<PARAM xsi:type="MATCHING-REQUEST-PARAM">{sn}{pos}<REQUEST-BYTE-POS>{kd["rqpos"]}</REQUEST-BYTE-POS>'
                    f'<BYTE-LENGTH>{kd["len"]}</BYTE-LENGTH></PARAM>')
        if k == "nrc":
            vs = "".join(f"<CODED-VALUE>{x_val(v)}</CODED-VALUE>" for v in kd["vs"])
            return (f'<PARAM xsi:type="NRC-CONST">{sn}{pos}{bitpos}<CODED-VALUES>{vs}</CODED-VALUES>'
                    f'{self.x_dct(kd["dct"])}</PARAM>')
        if k == "lenkey":
            return (f'<PARAM ID="LK.{p["name"]}" xsi:type="LENGTH-KEY">{sn}{pos}{bitpos}'
                    f'<DOP-REF ID-REF="{self.dop_id(kd["dop"])}"/></PARAM>')
        raise ValueError(k)


def x_val(v):
    if isinstance(v, (bytes, bytearray)):
        return bytes(v).hex()
    return escape(str(v))


def emit_document(messages):
    """messages: list of (name, params, is_response) -> ODX XML text"""
    em = Emitter()
    reqs, resps = "", ""
    for name, params, is_resp in messages:
        ps = "".join(em.x_param(p) for p in params)
        if is_resp:
            resps += f'<POS-RESPONSE ID="{name}"><SHORT-NAME>{name}</SHORT-NAME><PARAMS>{ps}</PARAMS></POS-RESPONSE>'
        else:
            reqs += f'<REQUEST ID="{name}"><SHORT-NAME>{name}</SHORT-NAME><PARAMS>{ps}</PARAMS></REQUEST>'

    def sec(tag, items):
        return f"<{tag}>{''.join(items)}</{tag}>" if items else ""

    ddds = ("<DIAG-DATA-DICTIONARY-SPEC>" + sec("DATA-OBJECT-PROPS", em.dops) + sec("STRUCTURES", em.structs) +
            sec("STATIC-FIELDS", em.statics) + sec("DYNAMIC-LENGTH-FIELDS", em.dynlens) +
            sec("DYNAMIC-ENDMARKER-FIELDS", em.endmarkers) + sec("END-OF-PDU-FIELDS", em.eops) + sec("MUXS", em.muxs) +
            "</DIAG-DATA-DICTIONARY-SPEC>")
    return ('<?xml version="1.0" encoding="UTF-8"?>'
            '<ODX MODEL-VERSION="2.2.0" xmlns:xsi="http://www.w3.org/2001/XMLSchema-instance">'
            '<DIAG-LAYER-CONTAINER ID="DLC"><SHORT-NAME>DLC</SHORT-NAME><BASE-VARIANTS>'
            '<BASE-VARIANT ID="BV"><SHORT-NAME>BV</SHORT-NAME>' + ddds +
            (f"<REQUESTS>{reqs}</REQUESTS>" if reqs else "") +
            (f"<POS-RESPONSES>{resps}</POS-RESPONSES>" if resps else "") +
            '</BASE-VARIANT></BASE-VARIANTS></DIAG-LAYER-CONTAINER></ODX>')


# ---------------------------------------------------------------------------
# implementation runner
# ---------------------------------------------------------------------------
class Hang(Exception):
    pass


def _alarm(*a):
    raise Hang()


def load_messages(messages):
    """returns {name: coding object} or raises"""
    from odxtools.database import Database
    xml = emit_document(messages)
    db = Database()
    db._process_xml_tree(ET.fromstring(xml))
    db.refresh()
    layer = db.diag_layers[0]
    raw = layer.diag_layer_raw
    out = {}
    for r in raw.requests:
        out[r.short_name] = r
    for r in raw.positive_responses:
        out[r.short_name] = r
    return out


def canon_value(v):
    if v is None:
        return [3]
    if isinstance(v, bool):
        return [0, int(v)]
    if isinstance(v, int):
        return [0, v]
    if isinstance(v, float):
        return [6, v.hex()]
    if isinstance(v, (bytes, bytearray)):
        return [1, list(v)]
    if isinstance(v, str):
        return [2, [ord(c) for c in v]]
    if isinstance(v, dict):
        return [4, [[[ord(c) for c in k], canon_value(x)] for k, x in v.items()]]
    if isinstance(v, (list, tuple)):
        return [5, [canon_value(x) for x in v]]
    return [7, type(v).__name__]


def classify_exc(e):
    from odxtools.exceptions import DecodeError, DecodeMismatch, EncodeError, OdxError
    if isinstance(e, Hang):
        return [-1, 8]
    if isinstance(e, DecodeMismatch):
        return [-1, 3]
    if isinstance(e, DecodeError):
        return [-1, 2]
    if isinstance(e, EncodeError):
        return [-1, 1]
    if isinstance(e, OdxError):
        return [-1, 4]
    return [-1, 5, type(e).__name__]


def guarded(fn, timeout=5):
    """run fn under an alarm and with all warnings recorded; returns (result|None, exception|None, warnings)"""
    old = signal.signal(signal.SIGALRM, _alarm)
    signal.alarm(timeout)
    try:
        with warnings.catch_warnings(record=True) as ws:
            warnings.simplefilter("always")
            try:
                r = fn()
                return r, None, ws
            except BaseException as e:  # noqa
                if isinstance(e, (KeyboardInterrupt, SystemExit)):
                    raise
                return None, e, ws
    finally:
        signal.alarm(0)
        signal.signal(signal.SIGALRM, old)


def impl_encode(obj, value, req=None):
    """returns canonical outcome: [0, bytes, warned] or [-1, class, ...] ; rejected classes 1 and 4 are merged"""
    from odxtools.exceptions import OdxWarning

    def go():
        if req is not None:
            return obj.encode(coded_request=bytes(req), **value)
        return obj.encode(**value)

    if not isinstance(value, dict):
        # the public API only takes keyword arguments; go through encode_into_pdu
        from odxtools.encodestate import EncodeState

        def go():  # noqa
            es = EncodeState(is_end_of_pdu=True, triggering_request=None if req is None else bytes(req))
            obj.encode_into_pdu(value, es)
            return es.coded_message

    r, e, ws = guarded(go)
    if e is not None:
        c = classify_exc(e)
        if c[:2] == [-1, 4]:
            c = [-1, 1]
        return c
    warned = any(issubclass(w.category, OdxWarning) for w in ws)
    return [0, list(r), warned]


def impl_decode(obj, msg):
    r, e, ws = guarded(lambda: obj.decode(bytes(msg)))
    if e is not None:
        return classify_exc(e)
    return [0, canon_value(r)]


def impl_static(obj, rqprefix=b""):
    def go():
        sb = obj.get_static_bit_length()
        req = [[ord(c) for c in p.short_name] for p in obj.required_parameters]
        free = [[ord(c) for c in p.short_name] for p in obj.free_parameters]
        return sb, req, free

    r, e, _ = guarded(go)
    if e is not None:
        return classify_exc(e)
    sb, req, free = r
    r2, e2, _ = guarded(lambda: obj.coded_const_prefix(bytes(rqprefix)) if rqprefix else obj.coded_const_prefix())
    if e2 is not None:
        pre = classify_exc(e2)
        if pre[:2] == [-1, 4]:
            pre = [-1, 1]
    else:
        pre = [0, list(r2)]
    return [[] if sb is None else [sb], req, free, pre]


def norm_model_enc(m):
    """model encode outcome -> same canonical form as impl_encode"""
    return m


# ---------------------------------------------------------------------------
# generators
# ---------------------------------------------------------------------------
BL_POOL = [1, 2, 3, 4, 5, 7, 8, 8, 8, 9, 12, 15, 16, 16, 17, 24, 31, 32, 32, 33, 40, 63, 64]


class Gen:

    def __init__(self, rng, dynamic=True, fields=True, positions=True, max_depth=3, muxs=True):
        self.rng = rng
        self.muxs = muxs
        self.dynamic = dynamic
        self.fields = fields
        self.positions = positions
        self.max_depth = max_depth
        self.nparam = 0

    def name(self):
        self.nparam += 1
        return f"p{self.nparam}"

    # --- diag coded types / simple dops
    def int_dct(self, small=False):
        r = self.rng
        bt = r.choice([BUINT, BUINT, BINT])
        bl = r.choice([1, 3, 4, 8, 8, 12, 16]) if small else r.choice(BL_POOL)
        if bt == BUINT:
            en = r.choice([None, None, None, 0, 1, 2])
        else:
            en = r.choice([None, 4, 4, 3, 5])
            bl = max(bl, 2)
        hl = r.random() < 0.7
        mask = None
        if r.random() < 0.12 and en in (None, 0):
            mask = r.getrandbits(bl) | 1
        return std(bt, bl, en, hl, mask)

    def bytes_dct(self):
        r = self.rng
        return std(BBYTES, 8 * r.choice([1, 2, 3, 4, 8]), r.choice([None, None, 0]), r.random() < 0.8,
                   None if r.random() < 0.85 else r.getrandbits(16) | 0x8001)

    def str_dct(self):
        r = self.rng
        bt = r.choice([BASCII, BUTF8, BUNI])
        n = r.choice([1, 2, 3, 4, 6])
        if bt == BUNI:
            n = 2 * r.choice([1, 2, 3])
        en = r.choice([None, None, None, 6, 8, 7]) if bt != BUNI else r.choice([None, None, 7])
        if r.random() < 0.06:
            en = r.choice([1, 4, 0])  # illegal encoding for a string object: odxraise at run time
        return std(bt, 8 * n, en, r.random() < 0.7)

    def dyn_dct(self, lenkeys):
        r = self.rng
        bt = r.choice([BBYTES, BBYTES, BASCII, BUTF8, BUNI])
        k = r.choice(["minmax", "minmax", "leading", "paramlen"] if lenkeys else ["minmax", "minmax", "leading"])
        hl = r.random() < 0.7
        if k == "minmax":
            minl = r.choice([0, 0, 1, 2])
            maxl = r.choice([None, None, minl + r.choice([0, 1, 3, 6])])
            if bt == BUNI:
                minl *= 2
                maxl = None if maxl is None else 2 * maxl
            return minmax(bt, minl, maxl, r.choice([0, 0, 1, 2]), None, hl)
        if k == "leading":
            return leading(bt, r.choice([8, 8, 16, 4, 12]), None, hl)
        return paramlen(bt, r.choice(lenkeys), None, hl)

    def compu_for(self, dct):
        r = self.rng
        if dct["bt"] in (BINT, BUINT) and dct["k"] == "std" and dct["mask"] is None and dct["en"] in (None, 0, 4) \
                and dct["bl"] <= 24 and r.random() < 0.35:
            bl = dct["bl"]
            off = r.choice([0, 0, 1, -3, 10, 100])
            num = r.choice([1, 1, 2, 3, -1, -2, 5, 0])
            den = r.choice([1, 1, 1, 2, 4])
            lo = hi = None
            if r.random() < 0.5:
                top = (1 << min(bl, 16)) - 1 if dct["bt"] == BUINT else (1 << (min(bl, 16) - 1)) - 1
                lo = r.choice([None, 0, 1])
                hi = r.choice([None, top, max(top // 2, 1)])
            return linear(off, num, den, lo, hi)
        return None

    def simple_dop(self, lenkeys=(), allow_dyn=True, small=False):
        r = self.rng
        x = r.random()
        if allow_dyn and self.dynamic and x < 0.25:
            d = self.dyn_dct(list(lenkeys))
        elif x < 0.7:
            d = self.int_dct(small)
        elif x < 0.85:
            d = self.bytes_dct()
        else:
            d = self.str_dct()
        return simple(d, self.compu_for(d))

    # --- values
    def value_for_simple(self, dop, stream="valid"):
        r = self.rng
        d = dop["dct"]
        c = dop["compu"]
        bt = d["bt"]
        if stream == "illtyped":
            return r.choice([None, "x", b"\x01", -1, 1 << 70, [1], {"a": 1}, ""])
        if bt in (BINT, BUINT):
            bl = d["bl"] if d["k"] in ("std", "leading") else r.choice([8, 16])
            en = d["en"]
            if bt == BUINT:
                if en == 1:
                    hi = 10 ** (bl // 4) - 1
                elif en == 2:
                    hi = 10 ** (bl // 8) - 1
                else:
                    hi = (1 << bl) - 1
                lo = 0
            else:
                hi = (1 << (bl - 1)) - 1
                lo = -hi - (1 if en in (None, 4) else 0)
            if stream == "boundary":
                iv = r.choice([lo - 1, lo, lo + 1, hi - 1, hi, hi + 1, 0, -1, hi + 2, (1 << bl), (1 << bl) - 1])
            else:
                iv = r.choice([lo, hi, 0, r.randint(lo, hi), r.randint(lo, hi), min(hi, r.choice([1, 2, 9, 10, 99]))])
            if c["k"] == "linear":
                # choose a physical value whose internal value is (about) iv
                from fractions import Fraction
                if c["den"] != 0:
                    return round(Fraction(c["off"] + c["num"] * iv, c["den"]))
            return iv
        # lengths
        if d["k"] == "std":
            nbytes = d["bl"] // 8
        elif d["k"] == "minmax":
            mx = d["maxl"] if d["maxl"] is not None else d["minl"] + 5
            nbytes = r.randint(d["minl"], mx)
            if stream == "boundary":
                nbytes = r.choice([max(0, d["minl"] - 1), d["minl"], mx, mx + 1])
        else:
            nbytes = r.choice([0, 1, 2, 3, 5])
        if stream == "boundary" and d["k"] == "std":
            nbytes = r.choice([max(0, nbytes - 1), nbytes, nbytes + 1])
        if bt == BBYTES:
            alpha = [0x00, 0xFF, 0x01, 0x80, 0x7F, r.randrange(256)]
            return bytes(r.choice(alpha) for _ in range(nbytes))
        # strings: number of characters chosen so that the byte length mostly fits
        if bt == BUNI:
            nch = nbytes // 2
            alpha = "aZ0éĀ€"
            if stream == "boundary":
                alpha += "\U0001F600\x00￿"
        else:
            nch = nbytes
            alpha = "abXY09 _"
            if stream == "boundary" or r.random() < 0.1:
                alpha += "éÿĀ\x00\x7f"
        return "".join(r.choice(alpha) for _ in range(nch))

    def value_for_dop(self, dop, stream="valid", depth=0):
        r = self.rng
        k = dop["k"]
        if k == "simple":
            return self.value_for_simple(dop, stream)
        if k == "struct":
            return self.values_for_params(dop["params"], stream, depth + 1)
        if stream == "illtyped" and r.random() < 0.3:
            return r.choice([None, 5, {"a": 1}, "x"])
        if k == "mux":
            alts = list(dop["cases"]) + ([dop["dflt"]] if dop["dflt"] is not None else [])
            x = r.random()
            if stream == "illtyped" and r.random() < 0.5:
                spec = r.choice([None, "nocase", 99, b"c1", ["c1"], -1])
                c = r.choice(alts) if alts else None
            elif not alts:
                spec, c = r.choice(["c1", 0, None]), None
            else:
                c = r.choice(alts)
                if x < 0.6 or "lo" not in c:
                    spec = c["name"]
                    if x > 0.9:
                        spec = r.choice([0, 255, None])  # (mostly) the default case, by number
                else:
                    spec = r.choice([c["lo"], c["hi"], r.randint(min(c["lo"], c["hi"]), max(c["lo"], c["hi"]))])
                    if stream == "boundary":
                        spec = r.choice([c["lo"] - 1, c["hi"] + 1, spec])
            cv = self.value_for_dop(c["s"], stream, depth + 1) if c is not None and c["s"] is not None else \
                r.choice([{}, {}, None, {"a": 1}])
            if stream == "valid" and r.random() < 0.1 and isinstance(spec, str):
                return {spec: cv}
            return [spec, cv]
        if k == "static":
            n = dop["n"] if stream != "boundary" or r.random() < 0.6 else max(0, dop["n"] + r.choice([-1, 1]))
            return [self.value_for_dop(dop["s"], stream, depth + 1) for _ in range(n)]
        n = r.choice([0, 1, 2, 3])
        return [self.value_for_dop(dop["s"], stream, depth + 1) for _ in range(n)]

    def values_for_params(self, params, stream="valid", depth=0):
        r = self.rng
        v = {}
        for p in params:
            kd = p["kind"]
            k = kd["k"]
            if k == "value":
                if kd.get("dflt") is not None and r.random() < 0.5:
                    continue
                if stream == "illtyped" and r.random() < 0.25:
                    if r.random() < 0.5:
                        continue  # missing required parameter
                v[p["name"]] = self.value_for_dop(kd["dop"], stream, depth)
            elif k == "lenkey":
                if r.random() < 0.25:
                    v[p["name"]] = 8 * r.choice([0, 1, 2, 3])
            elif k == "coded" and r.random() < 0.1:
                v[p["name"]] = kd["v"] if r.random() < 0.6 else 0
            elif k == "physconst" and r.random() < 0.1:
                v[p["name"]] = kd["v"] if r.random() < 0.6 else 1
            elif k == "reserved" and r.random() < 0.08:
                # (a decoded message handed back to the encoder carries values for the reserved parameters)
                v[p["name"]] = r.choice([0, 1, (1 << kd["bl"]) - 1])
        if stream == "illtyped" and r.random() < 0.2:
            v["unknown_param"] = 1
        return v

    # --- parameters and structures
    def dop(self, depth, lenkeys=(), last=False):
        r = self.rng
        x = r.random()
        if depth < self.max_depth and x < 0.18:
            return self.structure(depth + 1)
        if self.fields and depth < self.max_depth and x < 0.30:
            s = self.structure(depth + 1, nonempty=r.random() < 0.9, allow_dyn=r.random() < 0.35)
            fk = r.choice(["static", "dynlen", "eop" if last else "dynlen", "endmarker"])
            if fk == "static":
                need = self.static_size(s)
                isz = (need if need is not None else 2) + r.choice([0, 0, 1, -1 if r.random() < 0.2 else 0])
                return dict(k="static", s=s, n=r.choice([0, 1, 2, 3]), isz=max(isz, 0))
            if fk == "dynlen":
                # (a 16 bit item count in front of items of zero size makes both sides build lists of up to 65535 empty
                # items: correct, but it dominates the run time of the model)
                # (the same holds for items which may occupy nothing: only items of a positive static size get a wide count)
                # (... and items which are nothing but BYTE-SIZE padding are "decoded" beyond the end of the PDU without error)
                wide_ok = (self.static_size(s) or 0) > 0 and s["bs"] is None and bool(s["params"])
                cnt = simple(std(BUINT, r.choice([8, 8, 4, 16] if wide_ok else [8, 8, 4]), None, r.random() < 0.7))
                cb, cbit = r.choice([(0, 0), (0, 0), (1, 0), (0, 2)])
                off = cb + (cnt["dct"]["bl"] + cbit + 7) // 8 + r.choice([0, 0, 1])
                return dict(k="dynlen", s=s, offset=off, cb=cb, cbit=cbit, cnt=cnt)
            if fk == "eop":
                return dict(k="eop", s=s, maxn=r.choice([None, None, 1, 2]))
            t = simple(std(BUINT, r.choice([8, 8, 8, 16]), None, True))
            return dict(k="endmarker", s=s, tdop=t, tval=r.choice([0, 255, 170]))
        if self.muxs and depth < self.max_depth and x < 0.37:
            return self.mux_dop(depth)
        return self.simple_dop(lenkeys, allow_dyn=True)

    def mux_dop(self, depth):
        """a multiplexer: an unsigned switch key, 0..3 cases over small key ranges (mostly disjoint and ascending,
        sometimes overlapping, empty or with OPEN limits), with or without content structure, optional default case"""
        r = self.rng
        kbl = r.choice([8, 8, 8, 4, 16])
        key = simple(std(BUINT, kbl, None, r.random() < 0.8))
        kb = r.choice([0, 0, 0, 1])
        kbit = r.choice([0, 0, 0, 0, 3])
        kend = kb + (kbit + kbl + 7) // 8
        bp = r.choice([kend, kend, kend, kend, kend + 1, 0])

        def content():
            if r.random() < 0.25:
                return None
            return self.structure(depth + 1, allow_dyn=r.random() < 0.3)

        cases = []
        lo = r.choice([0, 1, 1, 2])
        for i in range(r.choice([0, 1, 2, 2, 3])):
            hi = lo + r.choice([0, 0, 1, 3])
            if r.random() < 0.06:
                hi = lo - 1  # a case which never applies
            cases.append(dict(name=f"c{i + 1}", lo=lo, hi=hi, s=content(), lo_open=r.random() < 0.05,
                              hi_open=r.random() < 0.05))
            lo = max(lo, hi) + r.choice([1, 1, 1, 2, 0])
        dflt = dict(name="dflt", s=content()) if r.random() < 0.5 else None
        return dict(k="mux", bp=bp, kb=kb, kbit=kbit, key=key, cases=cases, dflt=dflt)

    def static_size(self, d):
        """byte size of a dop if static, else None (python mirror, only used to pick plausible sizes)"""
        if d["k"] == "simple":
            return (d["dct"]["bl"] + 7) // 8 if d["dct"]["k"] == "std" else None
        if d["k"] == "struct":
            if d["bs"] is not None:
                return d["bs"]
            cur = 0
            mx = 0
            for p in d["params"]:
                kd = p["kind"]
                if kd["k"] in ("coded", "nrc"):
                    bl = kd["dct"]["bl"] if kd["dct"]["k"] == "std" else None
                elif kd["k"] in ("value", "physconst", "lenkey"):
                    sz = self.static_size(kd["dop"])
                    bl = None if sz is None else (kd["dop"]["dct"]["bl"] if kd["dop"]["k"] == "simple" else 8 * sz)
                elif kd["k"] == "reserved":
                    bl = kd["bl"]
                else:
                    bl = 8 * kd["len"]
                if bl is None:
                    return None
                if p["bytepos"] is not None:
                    cur = p["bytepos"]
                cur += ((p["bitpos"] or 0) + bl + 7) // 8
                mx = max(mx, cur)
            return mx
        return None

    def params(self, depth, n=None, response=False, nonempty=False, allow_dyn=True):
        r = self.rng
        n = n if n is not None else r.choice([0, 1, 2, 2, 3, 3, 4, 5])
        if nonempty:
            n = max(n, 1)
        ps = []
        lenkeys = []
        cursor = 0  # rough byte cursor used to choose plausible explicit positions
        for i in range(n):
            last = i == n - 1
            nm = self.name()
            x = r.random()
            bitpos = None
            if x < 0.2:
                d = std(BUINT, r.choice([8, 8, 16, 4]), None, r.random() < 0.8)
                top = (1 << d["bl"]) - 1
                kind = dict(k="coded", dct=d, v=r.choice([0, 1, top, r.randint(0, top), 0x22 & top]))
                bl = d["bl"]
            elif x < 0.27:
                kind = dict(k="reserved", bl=r.choice([1, 4, 8, 8, 12, 16]))
                bl = kind["bl"]
            elif x < 0.33:
                d = self.simple_dop(allow_dyn=False, small=True)
                v = self.value_for_simple(d, "valid")
                if isinstance(v, str) and (v.strip() != v or not v or not v.isprintable()):
                    d = simple(std(BUINT, 8))
                    v = r.randint(0, 255)
                # (a constant with bits outside the BIT-MASK of its own DOP cannot be represented: such a description
                # contradicts itself; the encoder emits the masked value, the decoder then rejects its own PDU)
                mk = d["dct"].get("mask")
                if mk is not None and isinstance(v, int) and not isinstance(v, bool) and v >= 0:
                    v &= mk
                elif mk is not None and isinstance(v, (bytes, bytearray)):
                    v = (int.from_bytes(v, "big") & mk).to_bytes(len(v), "big") if int.from_bytes(v, "big") & mk < 256 ** len(v) else v
                kind = dict(k="physconst", dop=d, v=v)
                bl = d["dct"]["bl"]
            elif x < 0.38 and response:
                kind = dict(k="matchreq", rqpos=r.choice([0, 1, 2, 0, 1, 2, -1, -2]), len=r.choice([1, 1, 2]))
                bl = 8 * kind["len"]
            elif x < 0.42 and response:
                d = std(BUINT, 8, None, True)
                kind = dict(k="nrc", dct=d, vs=sorted(set(r.choice([0x10, 0x11, 0x12, 0x22, 0x31]) for _ in range(2))))
                bl = 8
            elif x < 0.48 and self.dynamic and allow_dyn and depth <= 1:
                d = simple(std(BUINT, r.choice([8, 8, 16]), None, True))
                kind = dict(k="lenkey", dop=d)
                lenkeys.append(nm)
                bl = d["dct"]["bl"]
            else:
                d = self.dop(depth, lenkeys if allow_dyn else (), last) if allow_dyn or depth < self.max_depth else \
                    self.simple_dop(allow_dyn=False)
                if not allow_dyn and d["k"] == "simple" and d["dct"]["k"] != "std":
                    d = self.simple_dop(allow_dyn=False)
                dflt = None
                if d["k"] == "simple" and r.random() < 0.2:
                    dflt = self.value_for_simple(d, "valid")
                    if isinstance(dflt, str) and (dflt.strip() != dflt or not dflt or not dflt.isprintable()):
                        dflt = None  # XML text round trip of such defaults is C11's subject
                kind = dict(k="value", dop=d, dflt=dflt)
                sz = self.static_size(d)
                bl = None if sz is None else (d["dct"]["bl"] if d["k"] == "simple" else 8 * sz)
            # bit position: only atomic things
            atomic = kind["k"] in ("coded", "reserved", "physconst", "nrc", "lenkey") or \
                (kind["k"] == "value" and kind["dop"]["k"] == "simple" and kind["dop"]["dct"]["k"] in ("std", "leading",
                                                                                                     "paramlen"))
            if atomic and r.random() < 0.25:
                bitpos = r.randint(0, 7)
            bytepos = None
            if self.positions and r.random() < 0.3:
                bytepos = max(0, cursor + r.choice([0, 0, 0, 1, 2, -1]))
            ps.append(param(nm, kind, bytepos, bitpos))
            if bytepos is not None:
                cursor = bytepos
            cursor += ((bitpos or 0) + (bl if bl is not None else 16) + 7) // 8
        return ps

    def permuted_params(self, response=False):
        """static sequential layout, every parameter with an explicit byte position, listed in random order"""
        r = self.rng
        ps = []
        cursor = 0
        for _ in range(r.choice([2, 3, 3, 4, 5])):
            nm = self.name()
            x = r.random()
            if x < 0.3:
                d = std(BUINT, r.choice([8, 16, 4]), None, r.random() < 0.8)
                kind = dict(k="coded", dct=d, v=r.randint(0, (1 << d["bl"]) - 1))
                bl = d["bl"]
            elif x < 0.4:
                kind = dict(k="reserved", bl=r.choice([4, 8, 12]))
                bl = kind["bl"]
            else:
                d = simple(self.int_dct(small=True))
                kind = dict(k="value", dop=d, dflt=None)
                bl = d["dct"]["bl"]
            bitpos = r.choice([None, None, r.randint(0, 7)])
            ps.append(param(nm, kind, cursor, bitpos))
            cursor += ((bitpos or 0) + bl + 7) // 8 + r.choice([0, 0, 1])
        r.shuffle(ps)
        return ps

    def structure(self, depth, nonempty=False, allow_dyn=True):
        r = self.rng
        ps = self.params(depth, n=r.choice([1, 1, 2, 3]) if nonempty else r.choice([0, 1, 2, 3]),
                         nonempty=nonempty, allow_dyn=allow_dyn)
        s = struct(ps)
        if r.random() < 0.25:
            need = self.static_size(s)
            if need is not None:
                s["bs"] = max(0, need + r.choice([0, 1, 2, -1 if r.random() < 0.3 else 0]))
        return s


def to_json(o):
    """JSON-able copy (bytes -> {"hex": ...})"""
    if isinstance(o, (bytes, bytearray)):
        return {"hex": bytes(o).hex()}
    if isinstance(o, dict):
        return {k: to_json(v) for k, v in o.items()}
    if isinstance(o, (list, tuple)):
        return [to_json(x) for x in o]
    return o


def from_json(o):
    if isinstance(o, dict):
        if set(o) == {"hex"}:
            return bytes.fromhex(o["hex"])
        return {k: from_json(v) for k, v in o.items()}
    if isinstance(o, list):
        return [from_json(x) for x in o]
    return o
