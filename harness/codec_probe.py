"""development aid: compare model and implementation on generated codec cases"""
import random, sys, collections, json
import common, codec_common as cc, codec_run as cr
seed = int(sys.argv[1]) if len(sys.argv) > 1 else 1
n = int(sys.argv[2]) if len(sys.argv) > 2 else 100
kw = json.loads(sys.argv[3]) if len(sys.argv) > 3 else {}
rng = random.Random(seed)
st = common.ensure_build()
print("build", st.make_ok, st.driver_ok)
cases = cr.build_cases(rng, n, gen_kwargs=kw)
cr.run_model(cases)
stats = collections.Counter()
shown = 0
for c in cases:
    if c.obj is None:
        stats["load_error"] += 1
        if shown < 3: print("LOAD ERROR", c.load_error); shown += 1
        continue
    for e in c.encs:
        a, b = cr.norm_enc_impl(e["impl"]), cr.norm_enc_model(e["model"])
        stats["enc_" + ("ok" if e["impl"][0] == 0 else "err%d" % e["impl"][1])] += 1
        if a != b:
            stats["ENC_DIFF"] += 1
            if shown < 5:
                shown += 1
                print("ENC DIFF", json.dumps(c.params, default=repr)[:700], "\n  value", e["value"], "req", e["req"], "\n  impl", e["impl"], "\n  model", e["model"])
    for d in c.decs:
        a, b = cr.norm_dec(d["impl"]), cr.norm_dec(d["model"])
        stats["dec_" + ("ok" if d["impl"][0] == 0 else "err%d" % d["impl"][1])] += 1
        if a != b:
            stats["DEC_DIFF"] += 1
            if shown < 5:
                shown += 1
                print("DEC DIFF", json.dumps(c.params, default=repr)[:700], "\n  msg", d["msg"].hex(), d["origin"], "\n  impl", d["impl"], "\n  model", d["model"])
    if c.static and c.static["impl"] != c.static.get("model"):
        a = c.static["impl"]; b = c.static["model"]
        if isinstance(a, list) and len(a) == 4 and a[3][:2] == [-1, 5]: a = a[:3] + [[-1, 5]]
        if isinstance(b, list) and len(b) == 4 and b[3][:2] == [-1, 5]: b = b[:3] + [[-1, 5]]
        if a != b:
            stats["STATIC_DIFF"] += 1
            if shown < 5:
                shown += 1
                print("STATIC DIFF", json.dumps(c.params, default=repr)[:700], "\n  impl", c.static["impl"], "\n  model", c.static["model"])
print(dict(stats))
