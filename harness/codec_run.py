"""Generates codec cases, runs implementation and model, returns records.
Used by c01..c05, c08, c17."""
import common
import codec_common as cc


def mutate_bytes(rng, pdu):
    """prefixes, single-byte mutations, extensions of a valid PDU"""
    out = []
    n = len(pdu)
    for k in range(n):
        out.append(bytes(pdu[:k]))
    for k in range(n):
        for v in (0x00, 0xFF, pdu[k] ^ 0x80, pdu[k] ^ 0x01):
            if v != pdu[k]:
                out.append(bytes(pdu[:k]) + bytes([v]) + bytes(pdu[k + 1:]))
    out.append(bytes(pdu) + b"\x00")
    out.append(bytes(pdu) + b"\xff\xfe")
    return out


def small_strings(alpha, maxlen):
    res = [b""]
    cur = [b""]
    for _ in range(maxlen):
        cur = [c + bytes([a]) for c in cur for a in alpha]
        res.extend(cur)
    return res


class Case:
    __slots__ = ("params", "is_resp", "name", "obj", "load_error", "encs", "decs", "static")

    def __init__(self, params, is_resp, name):
        self.params, self.is_resp, self.name = params, is_resp, name
        self.obj = None
        self.load_error = None
        self.encs = []  # dict(value, req, stream, impl, model)
        self.decs = []  # dict(msg, origin, impl, model)
        self.static = None  # dict(impl, model)


def build_cases(rng, n_desc, gen_kwargs=None, values_per_stream=(2, 2, 1), decode_budget=40, want_static=True,
                extra_descs=(), use_corpus=False):
    """returns list of Case with implementation results filled in and wire cases queued"""
    cases = []
    descs = list(extra_descs)
    for i in range(n_desc):
        g = cc.Gen(rng, **(gen_kwargs or {}))
        is_resp = rng.random() < 0.3
        ps = g.permuted_params() if rng.random() < 0.12 else g.params(0, response=is_resp)
        descs.append((ps, is_resp, g))
    # load in batches of documents (one document per description keeps failures isolated)
    corpus = corpus_descs() if use_corpus else []
    corpus_values, corpus_msgs, corpus_canon = {}, {}, {}
    for ps, is_resp, vals, *more in corpus:
        corpus_values[len(descs)] = vals
        corpus_msgs[len(descs)] = more[0] if more else []
        corpus_canon[len(descs)] = more[1] if len(more) > 1 else []
        descs.append((ps, is_resp, None))
    for i, (ps, is_resp, g) in enumerate(descs):
        c = Case(ps, is_resp, f"m{i}")
        try:
            objs = cc.load_messages([(c.name, ps, is_resp)])
            c.obj = objs[c.name]
        except Exception as e:  # noqa
            c.load_error = f"{type(e).__name__}: {e}"
            cases.append(c)
            continue
        g = g or cc.Gen(rng)
        req = bytes(rng.randrange(256) for _ in range(rng.choice([0, 1, 2, 3, 4]))) if is_resp else None
        if is_resp and rng.random() < 0.1:
            req = None
        need = max([max(p["kind"]["rqpos"] + p["kind"]["len"], -p["kind"]["rqpos"]) for p in ps if p["kind"]["k"] == "matchreq"] or [0])
        if is_resp and need and rng.random() < 0.7:
            # mostly a triggering request which covers the mirrored bytes (otherwise nothing of the response encodes)
            req = bytes(rng.randrange(256) for _ in range(need + rng.choice([0, 0, 1, 2])))
        for v in corpus_values.get(i, []):
            c.encs.append(dict(value=v, req=req, stream="corpus", impl=cc.impl_encode(c.obj, v, req)))
        for stream, cnt in zip(("valid", "boundary", "illtyped"), values_per_stream):
            for _ in range(cnt):
                v = g.values_for_params(ps, stream)
                if stream == "illtyped" and rng.random() < 0.1:
                    v = rng.choice([None, 5, [1]])
                try:
                    cc.w_value(v)
                except TypeError:
                    continue
                c.encs.append(dict(value=v, req=req, stream=stream, impl=cc.impl_encode(c.obj, v, req)))
        if is_resp and need:
            # triggering requests of every length up to the mirrored range (ending in front of, inside and behind it)
            v = g.values_for_params(ps, "valid")
            for ln in range(need + 2):
                rq = bytes(rng.randrange(1, 256) for _ in range(ln))
                c.encs.append(dict(value=v, req=rq, stream="request-length", impl=cc.impl_encode(c.obj, v, rq)))
        # decode inputs: own encodings, their mutations, short strings
        msgs = [(bytes(m), "corpus") for m in corpus_msgs.get(i, [])]
        # canonical PDUs (C03: they decode, and the decoded values encode to them again)
        msgs += [(bytes(m), "canonical") for m in corpus_canon.get(i, [])]
        for e in c.encs:
            if e["impl"][0] == 0:
                pdu = bytes(e["impl"][1])
                msgs.append((pdu, "own"))
        seen = set(m for m, _ in msgs)
        muts = []
        for pdu, _ in list(msgs)[:3]:
            muts.extend(mutate_bytes(rng, pdu))
        rng.shuffle(muts)
        for m in muts[:decode_budget]:
            if m not in seen:
                seen.add(m)
                msgs.append((m, "mutation"))
        for _ in range(6):
            m = bytes(rng.choice([0, 1, 0x7F, 0x80, 0xFF, rng.randrange(256)]) for _ in range(rng.randint(0, 12)))
            if m not in seen:
                seen.add(m)
                msgs.append((m, "random"))
        for m, origin in msgs:
            c.decs.append(dict(msg=m, origin=origin, impl=cc.impl_decode(c.obj, m)))
        if want_static:
            c.static = dict(impl=cc.impl_static(c.obj, b"" if not is_resp else (req or b"")), rq=(req or b""))
        cases.append(c)
    return cases


def run_model(cases, ck=None, coq_sample=40):
    """fills in the model results; returns False if the model could not be run"""
    wires = []
    idx = []
    for ci, c in enumerate(cases):
        if c.obj is None:
            continue
        for ei, e in enumerate(c.encs):
            wires.append(cc.case_encode(c.params, e["req"], e["value"]))
            idx.append((ci, "e", ei))
        for di, d in enumerate(c.decs):
            wires.append(cc.case_decode(c.params, d["msg"]))
            idx.append((ci, "d", di))
        if c.static is not None:
            wires.append(cc.case_static(c.params, c.static["rq"]))
            idx.append((ci, "s", 0))
    if not wires:
        return True
    res = common.run_model_ocaml(wires, chunk=100)
    for (ci, kind, k), r in zip(idx, res):
        c = cases[ci]
        if kind == "e":
            c.encs[k]["model"] = r
        elif kind == "d":
            c.decs[k]["model"] = r
        else:
            c.static["model"] = r
    if ck is not None and coq_sample:
        small = [i for i, w in enumerate(wires) if len(common.wire_enc(w)) < 1500]
        pick = sorted(ck.rng.sample(small, min(len(small), coq_sample)))
        cres = common.run_model_coq([wires[i] for i in pick], tag=ck.pid.lower(), chunk=20)
        for i, r in zip(pick, cres):
            if r != res[i]:
                ck.note_broken("extracted model and vm_compute disagree")
                break
        ck.coverage["evaluated_in_coq"] = len(pick)
    return True


def norm_enc_model(m):
    """model encode result in the impl's canonical form"""
    if m[0] == 0:
        return [0, m[1], bool(m[2])]
    if m[:2] == [-1, 5]:
        return [-1, 5]
    return m


def norm_enc_impl(m):
    if m[:2] == [-1, 5]:
        return [-1, 5]
    return m


def norm_dec(m):
    if m[:2] == [-1, 5]:
        return [-1, 5]
    return m


def atomic_sweep_cases(rng, quick=True):
    """one VALUE parameter per (base type, encoding, bit length, byte order, bit position); values centred on the
    representability bounds (all values for small bit lengths).  All requests live in one document."""
    combos = []
    bls = [1, 2, 3, 4, 5, 7, 8, 9, 12, 16, 31, 32, 33, 63, 64] if quick else list(range(1, 17)) + [23, 24, 31, 32, 33, 40, 63, 64]
    for bt, en in [(cc.BUINT, None), (cc.BUINT, 0), (cc.BUINT, 1), (cc.BUINT, 2), (cc.BINT, None), (cc.BINT, 4),
                   (cc.BINT, 3), (cc.BINT, 5)]:
        for bl in bls:
            if bt == cc.BINT and bl < 2:
                continue
            for hl in (True, False):
                for bp in ((0, 3) if quick else (0, 1, 3, 7)):
                    combos.append((bt, en, bl, hl, bp))
    msgs = []
    for i, (bt, en, bl, hl, bp) in enumerate(combos):
        ps = [cc.param("p1", dict(k="value", dop=cc.simple(cc.std(bt, bl, en, hl)), dflt=None), None, bp or None)]
        msgs.append((f"a{i}", ps, False))
    objs = cc.load_messages(msgs)
    cases = []
    for (name, ps, _), (bt, en, bl, hl, bp) in zip(msgs, combos):
        c = Case(ps, False, name)
        c.obj = objs[name]
        if bt == cc.BUINT:
            hi = 10 ** (bl // 4) - 1 if en == 1 else (10 ** (bl // 8) - 1 if en == 2 else (1 << bl) - 1)
            lo = 0
        else:
            hi = (1 << (bl - 1)) - 1
            lo = -hi - (1 if en in (None, 4) else 0)
        if bl <= (5 if quick else 8):
            vals = list(range(lo - 2, hi + 3))
        else:
            vals = sorted({lo - 2, lo - 1, lo, lo + 1, -1, 0, 1, hi - 1, hi, hi + 1, hi + 2, (1 << bl) - 1, 1 << bl,
                           rng.randint(lo, hi)})
        for v in vals:
            c.encs.append(dict(value={"p1": v}, req=None, stream="sweep", impl=cc.impl_encode(c.obj, {"p1": v})))
        cases.append(c)
    return cases


def corpus_descs():
    """hand-written descriptions for feature combinations the random generator reaches rarely;
    each entry: (params, is_response, value list[, PDUs to decode[, canonical PDUs: C03 decodes and re-encodes them]])"""
    u8 = lambda: cc.simple(cc.std(cc.BUINT, 8))
    mm = lambda term, maxl=None: cc.simple(cc.minmax(cc.BBYTES, 0, maxl, term))
    item = lambda term: cc.struct([cc.param("i1", dict(k="value", dop=u8(), dflt=None)),
                                   cc.param("i2", dict(k="value", dop=mm(term, 4), dflt=None))])
    out = []
    items = [{"i1": 1, "i2": b"ab"}, {"i1": 2, "i2": b"c"}, {"i1": 3, "i2": b"defg"}]
    for term in (0, 1):
        dl = dict(k="dynlen", s=item(term), offset=1, cb=0, cbit=0, cnt=u8())
        out.append(([cc.param("sid", dict(k="coded", dct=cc.std(cc.BUINT, 8), v=0x22)),
                     cc.param("f", dict(k="value", dop=dl, dflt=None))], False,
                    [{"f": items[:n]} for n in (0, 1, 2, 3)]))
        out.append(([cc.param("sid", dict(k="coded", dct=cc.std(cc.BUINT, 8), v=0x22)),
                     cc.param("f", dict(k="value", dop=dict(k="eop", s=item(term)), dflt=None))], False,
                    [{"f": items[:n]} for n in (0, 1, 2, 3)]))
        out.append(([cc.param("sid", dict(k="coded", dct=cc.std(cc.BUINT, 8), v=0x22)),
                     cc.param("f", dict(k="value", dop=dict(k="static", s=item(term), n=2, isz=6), dflt=None)),
                     cc.param("t", dict(k="value", dop=u8(), dflt=None))], False,
                    [{"f": items[:2], "t": 9}, {"f": items[1:3], "t": 0}]))
        out.append(([cc.param("s", dict(k="value", dop=item(term), dflt=None)),
                     cc.param("t", dict(k="value", dop=u8(), dflt=None))], False,
                    [{"s": items[0], "t": 5}, {"s": items[2], "t": 5},
                     # a value of exactly MAX-LENGTH (no terminator) followed by a byte equal to the terminator
                     {"s": items[2], "t": 0}, {"s": items[2], "t": 0xFF}]))
    # the recorded finding unterminated-value-before-padding: a HEX-FF terminated object as last object of a padded
    # container at the end of the PDU (the terminator is omitted "at the end of the PDU", then the padding follows)
    out.append(([cc.param("sid", dict(k="coded", dct=cc.std(cc.BUINT, 8), v=0x22)),
                 cc.param("f", dict(k="value", dop=dict(k="static", s=item(1), n=2, isz=6), dflt=None))], False,
                [{"f": items[:2]}, {"f": [items[1], items[2]]}]))
    out.append(([cc.param("sid", dict(k="coded", dct=cc.std(cc.BUINT, 8), v=0x22)),
                 cc.param("s", dict(k="value", dop=cc.struct([cc.param("i2", dict(k="value", dop=mm(1, 4), dflt=None))], byte_size=4),
                                    dflt=None))], False,
                [{"s": {"i2": b"c"}}, {"s": {"i2": b"abcd"}}]))
    # string objects with an encoding which is illegal for strings (odxraise at run time)
    for bt, en in ((cc.BASCII, 1), (cc.BUTF8, 4), (cc.BUNI, 0)):
        out.append(([cc.param("p1", dict(k="value", dop=cc.simple(cc.std(bt, 16, en)), dflt=None))], False,
                    [{"p1": "ab"}, {"p1": "a"}]))
    # a structure with BYTE-SIZE written in front of bytes which are already in the PDU (parameters listed out of wire
    # order): only the structure's own bytes are padded
    blk = cc.struct([cc.param("x", dict(k="value", dop=u8(), dflt=None))], byte_size=3)
    out.append(([cc.param("sid", dict(k="coded", dct=cc.std(cc.BUINT, 8), v=0x22), 0),
                 cc.param("trailer", dict(k="value", dop=u8(), dflt=None), 4),
                 cc.param("blk", dict(k="value", dop=blk, dflt=None), 1)], False,
                [{"trailer": 0xAA, "blk": {"x": 0x11}}, {"trailer": 0, "blk": {"x": 0xFF}}]))
    # objects of zero length at an explicit position beyond the end of the PDU, as last object: the PDU reaches up to them
    out.append(([cc.param("sid", dict(k="coded", dct=cc.std(cc.BUINT, 8), v=0x22), 0),
                 cc.param("data", dict(k="value", dop=cc.simple(cc.minmax(cc.BBYTES, 0, None, 2)), dflt=None), 3)], False,
                [{"data": b""}, {"data": b"ab"}]))
    out.append(([cc.param("sid", dict(k="coded", dct=cc.std(cc.BUINT, 8), v=0x23), 0),
                 cc.param("len", dict(k="lenkey", dop=cc.simple(cc.std(cc.BUINT, 8))), 1),
                 cc.param("blob", dict(k="value", dop=cc.simple(cc.paramlen(cc.BBYTES, "len")), dflt=None), 4)], False,
                [{"blob": b""}, {"blob": b"xyz"}]))
    # integers of PARAM-LENGTH-INFO-TYPE whose length is determined by the value, the LENGTH-KEY counting bits
    # (identical) or bytes (LINEAR x 8)
    for bt in (cc.BINT, cc.BUINT):
        for key_compu in (None, cc.linear(0, 8, 1)):
            vals = [0, 1, 127, 128, 255, 256, 0x1234, 0x7FFF, 0x8000] + ([-1, -2, -128, -129, -0x8000] if bt == cc.BINT else [])
            out.append(([cc.param("sid", dict(k="coded", dct=cc.std(cc.BUINT, 8), v=0x2E)),
                         cc.param("len", dict(k="lenkey", dop=cc.simple(cc.std(cc.BUINT, 8), key_compu))),
                         cc.param("val", dict(k="value", dop=cc.simple(cc.paramlen(bt, "len")), dflt=None)),
                         cc.param("tail", dict(k="value", dop=u8(), dflt=None))], False,
                        [{"val": v, "tail": 0xA5} for v in vals] +
                        # an explicit length of zero bits: zero is the only value which fits
                        [{"len": 0, "val": v, "tail": 0} for v in ((0, -1, 1, -2) if bt == cc.BINT else (0, 1))]))
    # an end-marker field at the end of the PDU whose marker is wider than what is left behind the last item: the
    # probe for the marker fails there, which ends the field (the items are kept)
    em = dict(k="endmarker", s=cc.struct([cc.param("x", dict(k="value", dop=u8(), dflt=None))]),
              tdop=cc.simple(cc.std(cc.BUINT, 16, None, True)), tval=0)
    out.append(([cc.param("sid", dict(k="coded", dct=cc.std(cc.BUINT, 8), v=0x22)),
                 cc.param("f", dict(k="value", dop=em, dflt=None))], False,
                [{"f": [{"x": 5}, {"x": 7}]}, {"f": []}],
                [bytes.fromhex(h) for h in ("220500", "22050000", "2205", "22", "2200", "220000", "22050600", "2205060000")]))
    # bit masks on little-endian and big-endian integers, with and without a bit position: the unmasked bits
    # come back, the masked ones are dropped
    for hl in (True, False):
        for bp in (None, 1, 3):
            for bl, mask in ((16, 0x00FF), (16, 0x0FF0), (12, 0x493), (24, 0xFF00FF)):
                d = cc.simple(cc.std(cc.BUINT, bl, None, hl, mask))
                out.append(([cc.param("p1", dict(k="value", dop=d, dflt=None), 0, bp),
                             cc.param("p2", dict(k="value", dop=u8(), dflt=None), 5)], False,
                            [{"p1": v & ((1 << bl) - 1), "p2": 0xAA} for v in (0x1234, 0xFFFFFF, 0x0F0F0F, 0)]))
    # terminated two-byte strings: a misaligned 00 00 / FF FF inside the value in front of an aligned one (the encoder must
    # reject the aligned one; the misaligned one is harmless), and the same for one-byte terminators
    for term in (0, 1):
        t = "\x00" if term == 0 else "\uffff"
        dop = cc.simple(cc.minmax(cc.BUNI, 0, 16, term))
        vals = ["\u0100a" + t + "b", "\u0100" + t, "a\u0100b", "\u0100\u0001", "ab" + t, t, "\u0100a"] if term == 0 else \
               ["\u01ff\uff01" + t + "b", "\u01ff" + t, "a\u01ff\uff01b", "ab" + t, t]
        out.append(([cc.param("sid", dict(k="coded", dct=cc.std(cc.BUINT, 8), v=0x22)),
                     cc.param("p1", dict(k="value", dop=dop, dflt=None)),
                     cc.param("p2", dict(k="value", dop=u8(), dflt=None))], False,
                    [{"p1": v, "p2": 7} for v in vals]))
    # LINEAR compu methods with an offset *and* a denominator other than 1 (physical = (off + num * x) / den), unsigned and
    # signed objects: every physical value which is the exact image of an internal value
    from fractions import Fraction
    for off, num, den in ((-10, 2, 4), (3, -3, 2), (100, 5, 4), (7, 4, -2)):
        for bt, en, xs in ((cc.BUINT, None, range(0, 256, 5)), (cc.BINT, 4, range(-128, 128, 7))):
            dop = cc.simple(cc.std(bt, 8, en), cc.linear(off, num, den))
            vals = [Fraction(off + num * x, den) for x in xs]
            vals = [int(v) for v in vals if v.denominator == 1]
            out.append(([cc.param("sid", dict(k="coded", dct=cc.std(cc.BUINT, 8), v=0x2F)),
                         cc.param("p1", dict(k="value", dop=dop, dflt=None))], False, [{"p1": v} for v in vals]))
    # UTF-16 strings with characters outside the basic plane (two code units each) in objects whose length is written
    # to the PDU or derived from the value: the length counts bytes of the encoding, not characters
    uni_vals = ["a\U0001F600b", "\U0001F600", "\U00010000\U0010FFFF", "ab", ""]
    for dct in (cc.leading(cc.BUNI, 8), cc.leading(cc.BUNI, 16, None, False), cc.minmax(cc.BUNI, 0, None, 0),
                cc.minmax(cc.BUNI, 0, 12, 2)):
        last = dct["k"] == "minmax" and dct["term"] == 2
        ps = [cc.param("sid", dict(k="coded", dct=cc.std(cc.BUINT, 8), v=0x2E)),
              cc.param("txt", dict(k="value", dop=cc.simple(dct), dflt=None))]
        if not last:
            ps.append(cc.param("tail", dict(k="value", dop=u8(), dflt=None)))
        out.append((ps, False, [dict(txt=v, **({} if last else {"tail": 0x5A})) for v in uni_vals]))
    out.append(([cc.param("len", dict(k="lenkey", dop=cc.simple(cc.std(cc.BUINT, 8)))),
                 cc.param("txt", dict(k="value", dop=cc.simple(cc.paramlen(cc.BUNI, "len")), dflt=None)),
                 cc.param("tail", dict(k="value", dop=u8(), dflt=None))], False,
                [dict(txt=v, tail=0x5A) for v in uni_vals]))
    # a STATIC-FIELD whose items have a size which depends on the PDU (byte field with a leading length byte): items
    # which fit, fill and exceed ITEM-BYTE-SIZE
    lit = cc.struct([cc.param("blob", dict(k="value", dop=cc.simple(cc.leading(cc.BBYTES, 8)), dflt=None))])
    out.append(([cc.param("sid", dict(k="coded", dct=cc.std(cc.BUINT, 8), v=0x22)),
                 cc.param("f", dict(k="value", dop=dict(k="static", s=lit, n=2, isz=3), dflt=None))], False,
                [{"f": [{"blob": b"a"}, {"blob": b"bc"}]}, {"f": [{"blob": b""}, {"blob": b""}]}, {"f": [{"blob": b"abc"}, {"blob": b""}]}],
                [bytes.fromhex(h) for h in ("22016100026263", "220501020304050607", "2202616203010203", "22000000000000", "2203616263000000")]))
    # a multiplexer behind the service id with a case without content, followed by a parameter at an explicit position
    mx = dict(k="mux", bp=1, kb=0, kbit=0, key=cc.simple(cc.std(cc.BUINT, 8)),
              cases=[dict(name="with_data", lo=1, hi=1, s=cc.struct([cc.param("d", dict(k="value", dop=u8(), dflt=None))])),
                     dict(name="nothing", lo=2, hi=3, s=None)], dflt=None)
    out.append(([cc.param("sid", dict(k="coded", dct=cc.std(cc.BUINT, 8), v=0x25)),
                 cc.param("m", dict(k="value", dop=mx, dflt=None)),
                 cc.param("tail", dict(k="value", dop=u8(), dflt=None), 3)], False,
                [{"m": ["with_data", {"d": 0x5A}], "tail": 0xAA}, {"m": ["nothing", {}], "tail": 0xAA}, {"m": [3, None], "tail": 1},
                 {"m": [None, {}], "tail": 1}]))
    # an END-OF-PDU-FIELD whose items occupy nothing (empty structure; a byte field of minimal length 0 which may be empty):
    # decoding terminates -- with a decode error, since the field can never reach the end of the PDU
    for it in (cc.struct([]), cc.struct([cc.param("b", dict(k="value", dop=cc.simple(cc.leading(cc.BBYTES, 8)), dflt=None))])):
        out.append(([cc.param("sid", dict(k="coded", dct=cc.std(cc.BUINT, 8), v=0x22)),
                     cc.param("f", dict(k="value", dop=dict(k="eop", s=it), dflt=None))], False,
                    [{"f": []}], [bytes.fromhex(h) for h in ("22", "2200", "220000", "2201aa00", "22ff")]))
    # a LENGTH-KEY with an explicit BYTE-POSITION inside a structure which does not start at byte 0 (the position is
    # relative to the structure)
    inner = cc.struct([cc.param("a", dict(k="value", dop=u8(), dflt=None)),
                       cc.param("len", dict(k="lenkey", dop=cc.simple(cc.std(cc.BUINT, 8))), 1),
                       cc.param("blob", dict(k="value", dop=cc.simple(cc.paramlen(cc.BBYTES, "len")), dflt=None))])
    out.append(([cc.param("sid", dict(k="coded", dct=cc.std(cc.BUINT, 16), v=0x2233)),
                 cc.param("s", dict(k="value", dop=inner, dflt=None))], False,
                [{"s": {"a": 1, "blob": b"xy"}}, {"s": {"a": 0xFF, "blob": b""}}, {"s": {"a": 7, "blob": b"z", "len": 8}}]))
    # field items which carry their own LENGTH-KEY: every item has its own length
    keyed = cc.struct([cc.param("len", dict(k="lenkey", dop=cc.simple(cc.std(cc.BUINT, 8)))),
                       cc.param("blob", dict(k="value", dop=cc.simple(cc.paramlen(cc.BBYTES, "len")), dflt=None))])
    kitems = [{"blob": b"xy"}, {"blob": b"z"}, {"blob": b""}, {"blob": b"uvw"}]
    for fld in (dict(k="eop", s=keyed), dict(k="dynlen", s=keyed, offset=1, cb=0, cbit=0, cnt=u8())):
        out.append(([cc.param("sid", dict(k="coded", dct=cc.std(cc.BUINT, 8), v=0x22)),
                     cc.param("f", dict(k="value", dop=fld, dflt=None))], False,
                    [{"f": kitems[:n]} for n in (1, 2, 4)] + [{"f": kitems[1:3]}] +
                    # keys passed explicitly, right and wrong
                    [{"f": [{"len": 16, "blob": b"xy"}, {"len": 8, "blob": b"z"}]}, {"f": [{"len": 8, "blob": b"z"}, {"len": 8, "blob": b"xy"}]}],
                    [bytes.fromhex(h) for h in (("2208",) if fld["k"] == "eop" else ("22020800",))],
                    [bytes.fromhex(h) for h in (("22107879087a", "22087a107879", "2200") if fld["k"] == "eop"
                                                else ("2202107879087a", "2202087a107879", "220100"))]))
    # LEADING-LENGTH strings with characters above 0x7F: the length counts the bytes as they are written
    for bt, canon in ((cc.BASCII, ("2202e941", "2201ff", "2200")), (cc.BUTF8, ("2203c3a941", "2200")),
                      (cc.BUNI, ("220400e90041", "2200"))):
        out.append(([cc.param("sid", dict(k="coded", dct=cc.std(cc.BUINT, 8), v=0x22)),
                     cc.param("t", dict(k="value", dop=cc.simple(cc.leading(bt, 8)), dflt=None))], False,
                    [{"t": "\xe9A"}, {"t": "\u20acA"}, {"t": ""}, {"t": "A"}], [], [bytes.fromhex(h) for h in canon]))
    # LINEAR with a negative slope and only ONE internal limit (the physical limit it yields is the other one)
    for lo, hi in ((3, None), (None, 40), (3, 40)):
        dop = cc.simple(cc.std(cc.BUINT, 8), cc.linear(100, -2, 1, lo, hi))
        out.append(([cc.param("sid", dict(k="coded", dct=cc.std(cc.BUINT, 8), v=0x2F)),
                     cc.param("p1", dict(k="value", dop=dop, dflt=None))], False,
                    [{"p1": 100 - 2 * x} for x in (0, 2, 3, 4, 39, 40, 41, 50, 127)]))
    # a PARAM-LENGTH-INFO-TYPE object whose LENGTH-KEY the caller gives explicitly: 0 bits with an empty and with a
    # non-empty value, too few and too many bits
    out.append(([cc.param("sid", dict(k="coded", dct=cc.std(cc.BUINT, 8), v=0x23)),
                 cc.param("len", dict(k="lenkey", dop=cc.simple(cc.std(cc.BUINT, 8)))),
                 cc.param("blob", dict(k="value", dop=cc.simple(cc.paramlen(cc.BBYTES, "len")), dflt=None)),
                 cc.param("tail", dict(k="value", dop=u8(), dflt=None))], False,
                [{"len": 0, "blob": b"", "tail": 1}, {"len": 0, "blob": b"xyz", "tail": 1}, {"len": 8, "blob": b"xyz", "tail": 1},
                 {"len": 24, "blob": b"xyz", "tail": 1}, {"len": 32, "blob": b"xyz", "tail": 1}, {"blob": b"xyz", "tail": 1}]))
    # an END-OF-PDU-FIELD whose items are multiplexers laid over their own key (BYTE-POSITION 0): the case for key 1 holds a
    # byte behind the key, the case for key 2 is empty and leaves the cursor where the item began -- a LATER item which
    # makes no progress must end decoding with an error, not loop
    mx0 = dict(k="mux", bp=0, kb=0, kbit=0, key=cc.simple(cc.std(cc.BUINT, 8)),
               cases=[dict(name="c1", lo=1, hi=1, s=cc.struct([cc.param("d", dict(k="value", dop=u8(), dflt=None), 1)])),
                      dict(name="c2", lo=2, hi=2, s=cc.struct([]))], dflt=None)
    out.append(([cc.param("sid", dict(k="coded", dct=cc.std(cc.BUINT, 8), v=0x22)),
                 cc.param("f", dict(k="value", dop=dict(k="eop", s=cc.struct([cc.param("m", dict(k="value", dop=mx0, dflt=None))])), dflt=None))],
                False, [{"f": [{"m": ["c1", {"d": 0x5A}]}]}, {"f": []}],
                [bytes.fromhex(h) for h in ("22015a02", "2202", "22015a015b", "22015a0201", "2203")]))
    # ... and items which are dynamic-length fields whose items start AT the count (OFFSET 0): a count of 0 leaves the
    # cursor where the item began (decoding only: the encoder rejects an offset in front of the end of the count)
    dl0 = dict(k="dynlen", s=cc.struct([cc.param("x", dict(k="value", dop=u8(), dflt=None))]), offset=0, cb=0, cbit=0, cnt=u8())
    out.append(([cc.param("sid", dict(k="coded", dct=cc.std(cc.BUINT, 8), v=0x22)),
                 cc.param("f", dict(k="value", dop=dict(k="eop", s=cc.struct([cc.param("l", dict(k="value", dop=dl0, dflt=None))])), dflt=None))],
                False, [{"f": []}], [bytes.fromhex(h) for h in ("220100", "2200", "22010100", "2201", "220201")]))
    # VALUE parameters with a PHYSICAL-DEFAULT-VALUE: the default applies only if the caller passes nothing -- not for the
    # values 0, "" and b"" (which are false in a boolean context)
    out.append(([cc.param("sid", dict(k="coded", dct=cc.std(cc.BUINT, 8), v=0x2E)),
                 cc.param("n", dict(k="value", dop=u8(), dflt=5)),
                 cc.param("txt", dict(k="value", dop=cc.simple(cc.minmax(cc.BASCII, 0, 4, 0)), dflt="ab")),
                 cc.param("blob", dict(k="value", dop=cc.simple(cc.minmax(cc.BBYTES, 0, 4, 2)), dflt=b"\x01\x02"))], False,
                [{}, {"n": 0}, {"n": 0, "txt": "", "blob": b""}, {"n": 7, "txt": "x"}, {"blob": b""}, {"txt": ""}]))
    # an END-OF-PDU-FIELD with MAX-NUMBER-OF-ITEMS given more items than that (accepted, so they all come back)
    out.append(([cc.param("sid", dict(k="coded", dct=cc.std(cc.BUINT, 8), v=0x22)),
                 cc.param("f", dict(k="value", dop=dict(k="eop", s=cc.struct([cc.param("x", dict(k="value", dop=u8(), dflt=None))]), maxn=2),
                                    dflt=None))], False,
                [{"f": [{"x": k} for k in range(n)]} for n in (0, 1, 2, 3, 5)]))
    # a structure with BYTE-SIZE whose parameters are listed out of wire order (the last one listed is not the last one
    # on the wire) and fill the declared size: nothing is padded, nothing overwritten
    oo = cc.struct([cc.param("b", dict(k="value", dop=u8(), dflt=None), 2),
                    cc.param("a", dict(k="value", dop=cc.simple(cc.std(cc.BUINT, 16)), dflt=None), 0)], byte_size=3)
    out.append(([cc.param("sid", dict(k="coded", dct=cc.std(cc.BUINT, 8), v=0x2E)),
                 cc.param("s", dict(k="value", dop=oo, dflt=None)),
                 cc.param("t", dict(k="value", dop=u8(), dflt=None))], False,
                [{"s": {"a": 0x1234, "b": 0x07}, "t": 0xA5}, {"s": {"a": 0xFFFF, "b": 0xFF}, "t": 0}]))
    # a LENGTH-KEY of the request whose value is determined one nesting level deeper (the object using it sits in a
    # structure) and which the caller leaves out
    deep = cc.struct([cc.param("blob", dict(k="value", dop=cc.simple(cc.paramlen(cc.BBYTES, "len")), dflt=None))])
    out.append(([cc.param("sid", dict(k="coded", dct=cc.std(cc.BUINT, 8), v=0x23)),
                 cc.param("len", dict(k="lenkey", dop=cc.simple(cc.std(cc.BUINT, 8)))),
                 cc.param("s", dict(k="value", dop=deep, dflt=None)),
                 cc.param("tail", dict(k="value", dop=u8(), dflt=None))], False,
                [{"s": {"blob": b"xy"}, "tail": 1}, {"s": {"blob": b""}, "tail": 1}, {"len": 16, "s": {"blob": b"xy"}, "tail": 1}]))
    # a LENGTH-KEY whose compu method can yield a negative bit length (length = 8 * key - 16): keys 0 and 1 describe no
    # object at all -- a decode error, an encode error
    out.append(([cc.param("sid", dict(k="coded", dct=cc.std(cc.BUINT, 8), v=0x2E)),
                 cc.param("len", dict(k="lenkey", dop=cc.simple(cc.std(cc.BUINT, 8), cc.linear(-16, 8, 1)))),
                 cc.param("blob", dict(k="value", dop=cc.simple(cc.paramlen(cc.BBYTES, "len")), dflt=None)),
                 cc.param("tail", dict(k="value", dop=u8(), dflt=None))], False,
                [{"blob": b"x", "tail": 1}, {"blob": b"", "tail": 1}, {"len": -8, "blob": b"", "tail": 1}, {"len": 8, "blob": b"x", "tail": 1}],
                [bytes.fromhex(h) for h in ("2e0055", "2e0155", "2e0255", "2e03aa55", "2e04aa", "2e00", "2e01")]))
    return out
