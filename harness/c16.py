"""C16 -- NamedItemList keeps list and name views consistent.

Theorems: coq/Properties/C16.v (invariant over all operation histories).
Tie: correspondence of coq/Model/NamedList.v with odxtools.nameditemlist on
generated histories (exhaustive small depth + random long), plus the direct
oracle (the invariant itself evaluated on the real object after every step).
"""
import copy
import itertools
import keyword
import pickle
import sys
from dataclasses import dataclass

import common
from common import Check

M_ID = 16


@dataclass
class It:
    short_name: str
    pay: int

    def __len__(self):
        # a named collection: items with payload 0 are empty, i.e. false in a boolean context
        return self.pay


class Unnamed:
    """an object which cannot be named (its short name is no string)"""
    short_name = 5


NAME_POOL = ["a", "a", "a_2", "as", "9x", "append", "copy", "x_", "x_2", "_item_dict", "keys",
             "b", "a_", "None", "__len__", "a_3", "__tag__", "__tag__", "_x", "__"]


def make_alphabet(rng, n):
    names = [rng.choice(NAME_POOL) for _ in range(n)]
    # make collisions likely
    if n >= 2 and rng.random() < 0.6:
        names[1] = names[0]
    return [(i + 1, names[i], rng.choice([0, 0, 1])) for i in range(n)]


def gen_op(rng, alpha, step):
    k = rng.choice(["append"] * 4 + ["insert"] * 3 + ["extend"] * 2 + ["remove"] * 3 + ["pop"] * 3 +
                   ["clear", "copy", "ccopy", "deepcopy", "pickle"])
    if k == "append":
        return ["append", rng.randrange(len(alpha))]
    if k == "insert":
        if rng.random() < 0.1:
            return ["insert", "0", rng.randrange(len(alpha))]  # a position which is no integer: TypeError, nothing changes
        return ["insert", rng.randint(-4, 5), rng.randrange(len(alpha))]
    if k == "extend":
        # the argument is a plain list or itself a NamedItemList (names computed in another name space)
        # ... or a one-shot iterable (a generator can be walked once only)
        return ["extend", [rng.randrange(len(alpha)) for _ in range(rng.randint(0, 3))]] + rng.choice([[], [], ["nil"], ["nil"], ["iter"], ["bad"]])
    if k == "remove":
        return ["remove", rng.randrange(len(alpha))]
    if k == "pop":
        if rng.random() < 0.12:
            # handed an item's name instead of a position: a TypeError, and nothing changes
            return ["pop", "name", rng.randrange(len(alpha))]
        return ["pop", rng.randint(-4, 5)]
    # keep: go on with the original and watch the copy (else: go on with the copy and watch the original)
    return [k, "keep"] if rng.random() < 0.4 else [k]


def all_ops(alpha_n):
    ops = []
    for i in range(alpha_n):
        ops.append(["append", i])
        ops.append(["remove", i])
        ops.append(["insert", 0, i])
        ops.append(["insert", -1, i])
    ops += [["pop", -1], ["pop", 0], ["pop", 1], ["pop", "name", 0], ["insert", "0", 1], ["clear"], ["copy"], ["ccopy"], ["deepcopy"],
            ["pickle"], ["extend", [0, 0]], ["extend", [1, 0]], ["extend", [1, 0], "nil"], ["extend", [1, 0], "iter"], ["extend", [1, 0], "bad"], ["copy", "keep"]]
    return ops


def case_to_wire(alpha, ops, by_identity=True):
    def item(i, g=0):
        u, n, p = alpha[i]
        return [u, n, p]

    wops = []
    for step, o in enumerate(ops):
        k = o[0]
        if k == "append":
            wops.append([0, item(o[1])])
        elif k == "insert" and o[1] == "0":
            wops.append([6])  # nothing changes (TypeError)
        elif k == "insert":
            wops.append([1, o[1], item(o[2])])
        elif k == "extend":
            wops.append([2, [item(i) for i in o[1]]])
        elif k == "remove":
            wops.append([3, item(o[1])])
        elif k == "pop" and o[1] == "name":
            wops.append([6])  # nothing changes (the call fails with a TypeError, see run_impl)
        elif k == "pop":
            wops.append([4, o[1]])
        elif k == "clear":
            wops.append([5])
        elif len(o) > 1 and o[1] == "keep":
            wops.append([6])  # the original goes on: nothing observable changes (the model's copy keeps names and identities)
        elif k == "copy":
            wops.append([6])
        elif k == "ccopy":
            wops.append([7, 0])
        else:  # deepcopy / pickle: fresh identities
            wops.append([7, 1000 * (step + 1)])
    return [M_ID, [by_identity, wops]]


def ident_class(lst, x):
    for j, y in enumerate(lst):
        if y is x:
            return j
    return -1


def observe(nil, oc):
    lst = list(nil)
    return [oc, [[[ord(c) for c in x.short_name], x.pay, ident_class(lst, x)] for x in lst],
            [[[ord(c) for c in k], ident_class(lst, v)] for k, v in nil.items()]]


def oracle(nil, reserved):
    """The property itself on the real object; returns None or a description."""
    lst = list(nil)
    keys = list(nil.keys())
    vals = list(nil.values())
    if len(nil) != len(lst):
        return "len() differs from number of items"
    if sorted(map(id, vals)) != sorted(map(id, lst)):
        return "name view and list view hold different objects"
    if len(set(keys)) != len(keys):
        return "duplicate name"
    for k, v in zip(keys, vals):
        if k in reserved:
            return f"name {k!r} shadows an attribute of the list"
        try:
            if nil[k] is not v:
                return f"nil[{k!r}] is not the named item"
            if getattr(nil, k) is not v:
                return f"getattr(nil,{k!r}) is not the named item"
        except Exception as e:  # noqa
            return f"lookup of {k!r} raised {type(e).__name__}"
        if not k.isidentifier() or keyword.iskeyword(k):
            return f"name {k!r} is not identifier-safe"
        sn = v.short_name
        base = "_" + sn if (sn[0].isdigit() or keyword.iskeyword(sn)) else sn
        if not (k == base or (k.startswith(base) and k[len(base):].lstrip("_").isdigit())):
            return f"name {k!r} is not derived from short name {sn!r}"
    return None


SELF_EXTEND_FAILED = []


def run_impl(alpha, ops, reserved):
    from odxtools.nameditemlist import NamedItemList
    objs = [It(n, p) for (_, n, p) in alpha]
    nil = NamedItemList()
    obs = []
    bad = None
    watched = []  # (list which is no longer operated on, its observation when it was left, how it arose)
    for step, o in enumerate(ops):
        k = o[0]
        oc = 0
        prev = nil
        try:
            if k == "append":
                nil.append(objs[o[1]])
            elif k == "insert" and o[1] == "0":
                try:
                    nil.insert("0", objs[o[2]])
                    oc = 104
                except TypeError:
                    oc = 4
            elif k == "insert":
                nil.insert(o[1], objs[o[2]])
            elif k == "extend":
                arg = [objs[i] for i in o[1]]
                if o[-1] == "bad":
                    # proper items followed by an object which cannot be named: the call fails (OdxError); the items in
                    # front of it are in the list, under their names (the model: extend by the proper items, outcome 3)
                    from odxtools.exceptions import OdxError
                    try:
                        nil.extend(arg + [Unnamed()])
                        oc = 103
                    except OdxError:
                        oc = 3
                else:
                    nil.extend(NamedItemList(arg) if o[-1] == "nil" else (x for x in arg) if o[-1] == "iter" else arg)
            elif k == "remove":
                nil.remove(objs[o[1]])
            elif k == "pop" and o[1] == "name":
                # the name under which the item is (or would be) known, or its short name
                key = next((kk for kk, vv in nil.items() if vv is objs[o[2]]), objs[o[2]].short_name)
                try:
                    nil.pop(key)
                    oc = 104
                except TypeError:
                    oc = 4
            elif k == "pop":
                nil.pop(o[1])
            elif k == "clear":
                nil.clear()
            elif k == "copy":
                nil = nil.copy()
            elif k == "ccopy":
                nil = copy.copy(nil)
            elif k in ("deepcopy", "pickle"):
                # the items refer to the list which holds them (as rows refer to their table): the copy is a list of
                # copies which refer to the copy
                for x in nil:
                    x.owner = nil
                nil = copy.deepcopy(nil) if k == "deepcopy" else pickle.loads(pickle.dumps(nil))
                if any(getattr(x, "owner", None) is not nil for x in nil):
                    bad = bad or (step, f"after {k} the items do not refer to the list they are in")
        except ValueError:
            oc = 1
        except IndexError:
            oc = 2
        except Exception as e:  # foreign
            oc = 100
            obs.append([oc, type(e).__name__])
            bad = bad or (step, f"operation {o} raised {type(e).__name__}: {e}")
            break
        if nil is not prev:
            if o[-1] == "keep":
                prev, nil = nil, prev
            watched.append((prev, observe(prev, 0), f"{k} at step {step}"))
            watched = watched[-3:]
        obs.append(observe(nil, oc))
        if bad is None:
            r = oracle(nil, reserved)
            if r:
                bad = (step, r)
        # copies are independent lists: operating on one never shows in the other
        for w, frozen, how in watched:
            if bad is None and (observe(w, 0) != frozen or oracle(w, reserved)):
                bad = (step, f"the other list of the {how} changed or became inconsistent "
                             f"({oracle(w, reserved) or 'content differs'}) although only its counterpart was operated on")
    # finally: the list extended by itself -- terminates, holds every item twice (in order), and stays consistent
    if bad is None and len(ops) % 3 == 0 and not SELF_EXTEND_FAILED:
        import codec_common as cc
        before = list(nil)
        _, e, _ = cc.guarded(lambda: nil.extend(nil), timeout=5)
        if e is not None:
            SELF_EXTEND_FAILED.append(True)  # (one replay suffices; every further attempt would cost the time limit again)
            bad = (len(ops) - 1, f"extend(self) after the history {'does not terminate' if isinstance(e, cc.Hang) else 'raised ' + type(e).__name__}")
        elif len(nil) != 2 * len(before) or any(a is not b for a, b in zip(list(nil), before + before)):
            bad = (len(ops) - 1, f"extend(self) after the history: the list holds {len(nil)} items, twice the {len(before)} items were expected")
        else:
            r = oracle(nil, reserved)
            if r:
                bad = (len(ops) - 1, f"after extend(self): {r}")
    return obs, bad


def main(argv=None):
    ck = Check("C16", argv)
    ck.prologue()
    from odxtools.nameditemlist import NamedItemList
    reserved = set(dir(NamedItemList)) | set(NamedItemList().__dict__.keys())
    rng = ck.rng
    cases = []  # (alpha, ops)
    if ck.replay:
        import json
        rp = json.load(open(ck.replay))["replay"]
        cases.append((rp["alphabet"], rp["ops"]))
    else:
        # corpus of past/minimal interesting histories first
        cases.append(([(1, "a", 0), (2, "a", 0)], [["append", 0], ["append", 1], ["remove", 1]]))
        cases.append(([(1, "a", 0), (2, "a", 0)], [["append", 0], ["append", 1], ["pop", -1]]))
        cases.append(([(1, "a", 0)], [["append", 0], ["append", 0], ["pop", 0], ["deepcopy"], ["append", 0]]))
        # exhaustive small depth
        depth = 3 if ck.tier == "quick" else 4
        alpha = [(1, "a", 0), (2, "a", 0), (3, "copy", 0)]
        ops = all_ops(len(alpha))
        for d in range(1, depth + 1):
            for seq in itertools.product(ops, repeat=d):
                cases.append((alpha, list(seq)))
        ck.coverage["exhaustive_depth"] = depth
        ck.coverage["exhaustive_ops"] = len(ops)
        nrand = 1500 if ck.tier == "quick" else 20000
        for _ in range(nrand):
            al = make_alphabet(rng, rng.randint(1, 5))
            n = rng.choice([3, 6, 10, 20, 40]) if ck.tier == "quick" else rng.choice([5, 20, 60, 200])
            cases.append((al, [gen_op(rng, al, i) for i in range(n)]))
    wire = [case_to_wire(al, ops) for al, ops in cases]
    model_ok = ck.model_available()
    if model_ok:
        try:
            mres = common.run_model_ocaml(wire)
            # cross-check a sample inside Coq (checks extraction + driver glue)
            idx = sorted(rng.sample(range(len(wire)), min(len(wire), 60 if ck.tier == "quick" else 400)))
            cres = common.run_model_coq([wire[i] for i in idx], tag="c16")
            for i, c in zip(idx, cres):
                if c != mres[i]:
                    ck.note_broken(f"extracted model and vm_compute disagree on case {i}")
                    break
            ck.coverage["evaluated_in_coq"] = len(idx)
        except Exception as e:  # noqa
            ck.note_broken(f"model execution failed: {e}")
            model_ok = False
    else:
        ck.note_broken("model not built (Run.vo / extracted driver missing)")
    ndis = 0
    for ci, (al, ops) in enumerate(cases):
        if model_ok:
            for st_, o_ in enumerate(ops):
                if o_[0] == "extend" and o_[-1] == "bad" and st_ < len(mres[ci]) and mres[ci][st_][0] == 0:
                    mres[ci][st_][0] = 3  # the failing call (see run_impl)
                if ((o_[0] == "pop" and o_[1] == "name") or (o_[0] == "insert" and o_[1] == "0")) and st_ < len(mres[ci]) \
                        and mres[ci][st_][0] == 0:
                    mres[ci][st_][0] = 4
        obs, bad = run_impl(al, ops, reserved)
        ck.count((al, ops), nontrivial=len(ops) >= 2)
        ck.hist("history_length", min(len(ops), 50) // 5 * 5)
        for o in ops:
            ck.hist("ops", o[0])
        for o in obs:
            ck.hist("outcome", o[0])
        if ci % 5000 == 7:
            ck.sample({"alphabet": al, "ops": ops, "final": obs[-1] if obs else None})
        if bad is not None:
            step, what = bad
            # shrink: shortest prefix that fails
            ck.violation(f"after step {step} ({ops[step]}): {what}",
                         {"alphabet": al, "ops": ops[:step + 1], "kind": "direct-oracle"})
            continue
        if model_ok and obs != mres[ci]:
            ndis += 1
            # which step
            st = next((i for i, (a, b) in enumerate(zip(obs, mres[ci])) if a != b), min(len(obs), len(mres[ci])))
            ck.violation(
                f"implementation and model disagree at step {st} ({ops[st] if st < len(ops) else '?'}); "
                "the invariant oracle found no failing state on this history",
                {"alphabet": al, "ops": ops[:st + 1], "impl": obs[st] if st < len(obs) else None,
                 "model": mres[ci][st] if st < len(mres[ci]) else None,
                 "broken": "correspondence NamedList.run_case vs NamedItemList"},
                found_input=False)
    ck.coverage["disagreements"] = ndis
    ck.assumptions = [
        "item short names are non-empty ASCII identifiers-with-leading-digit strings (ODX short names)",
        "items compare equal iff short name and payload are equal (dataclass equality)",
    ]
    ck.finish(
        trusted_base=[
            "Coq 8.16.1 kernel (coqc, vm_compute for examples/witnesses; no native_compute)",
            "axioms: none (every theorem of Properties/C16.v is closed under the global context)",
            "translator harness/translate.py: keyword.kwlist and the attribute names of NamedItemList (reserved) copied into Generated.v",
            "extraction: ExtrOcamlBasic only, no Extract Constant; ocaml/driver.ml decimal<->Z glue (cross-checked against vm_compute on a sample)",
            "correspondence harness harness/c16.py (history generator, observation of list/keys/identity classes)",
            "modelled not verified: CPython list/dict/hasattr/pickle/deepcopy semantics as transcribed in Model/NamedList.v",
        ],
        rule="exhaustive histories to the stated depth over a 3-object alphabet (two equal objects, one method-like name) "
        "and 14+ operation instances, plus random histories (length up to 40 quick / 200 thorough) over alphabets of 1-5 objects "
        "drawn from colliding/keyword/digit-leading/method-like/underscore names; non-trivial = at least two operations; "
        "distinct by (alphabet, operation sequence)")


if __name__ == "__main__":
    main()
