"""C10 -- every reference resolves to the object it names, or loading fails.

Theorems: coq/Properties/C10.v.  Tie: correspondence of Model/Links.v (link database, typed
resolve, IMPORT-REF extension, short-name resolution in the inherited view, retarget_snrefs)
with databases loaded from generated multi-container ODX documents in which local ids and
short names collide on purpose; direct oracle: an independent declarative reading of the
property text (harness/c10.py spec_*), which judges a reference only where the text determines
the answer.
"""
import copy
import json
import xml.etree.ElementTree as ET

import c09
import codec_common as cc
import common
import hier_common as hc
from common import Check

M = 10
K = dict(DOP=1, STRUCT=2, REQUEST=3, POSRESP=4, TABLE=6, ROW=7, SERVICE=8, LAYER=9, ESD=10, FC=11, UNIT=12, EOPF=13, MUX=14,
         TKPARAM=15, CONTAINER=16)
KN = {v: k for k, v in K.items()}
DOPLIKE = [K["DOP"], K["STRUCT"], K["EOPF"], K["MUX"]]     # order of all_data_object_properties
TYPES, PLURAL = c09.TYPES, c09.PLURAL
# slot -> (expected kinds of the ODXLINK variant ([] = unchecked), kinds a sane document points to,
#          categories searched by the SNREF variant, expected categories of the SNREF variant)
SLOTS = {
    "param_dop": ([], DOPLIKE, DOPLIKE, DOPLIKE),
    "field_struct": ([K["STRUCT"]], [K["STRUCT"]], [K["STRUCT"]], [K["STRUCT"]]),
    "mux_case": ([K["STRUCT"]], [K["STRUCT"]], [K["STRUCT"]], [K["STRUCT"]]),
    "mux_switch": ([K["DOP"]], [K["DOP"]], None, None),
    "table_keydop": ([K["DOP"]], [K["DOP"]], None, None),
    "row_struct": ([K["STRUCT"]], [K["STRUCT"]], [K["STRUCT"]], [K["STRUCT"]]),
    "tk_table": ([], [K["TABLE"]], [K["TABLE"]], []),
    "tk_row": ([], [K["ROW"]], None, None),
    "ts_key": ([K["TKPARAM"]], [K["TKPARAM"]], None, None),
    "svc_request": ([K["REQUEST"]], [K["REQUEST"]], None, None),
    "svc_posresp": ([K["POSRESP"]], [K["POSRESP"]], None, None),
    "svc_fc": ([K["FC"]], [K["FC"]], None, None),
    "dc_ref": ([K["SERVICE"]], [K["SERVICE"]], None, None),
    "dop_unit": ([K["UNIT"]], [K["UNIT"]], None, None),
    "parent": ([K["LAYER"], K["ESD"]], [K["LAYER"]], None, None),
}


# ---------------------------------------------------------------- generation
class Case:
    pass


DOCREFS = [True]


def gen_case(rng, fault=None, big=False):
    """abstract database: containers, layers, objects with colliding ids / names, references"""
    nK = rng.choice([1, 2, 2, 3])
    nL = rng.choice([2, 3, 4, 5]) if not big else rng.choice([5, 6, 7])
    uid = [100]
    idpool = [f"i{k}" for k in range(rng.choice([6, 10, 16]) if DOCREFS[0] else 400)]
    names = [1, 2, 3][:rng.choice([2, 3])]

    def new(kind, layer, **kw):
        uid[0] += 1
        return dict(uid=uid[0], kind=kind, layer=layer, **kw)

    layers = []
    conts = [dict(uid=new(K["CONTAINER"], None)["uid"], name=f"K{c}") for c in range(nK)]
    for i in range(nL):
        t = rng.choice([2, 2, 3, 3, 4, 4, 1]) if i > 0 else rng.choice([2, 4, 4])
        L = dict(i=i, type=t, cont=rng.randrange(nK), uid=new(K["ESD"] if t == 4 else K["LAYER"], i)["uid"], objs=[], parents=[],
                 imports=[], refs=[])
        free = list(idpool)
        rng.shuffle(free)

        def take():
            # ids are unique inside a layer (as ODX demands); across layers they collide
            return free.pop() if free else f"x{uid[0]}"

        def named(kind, n_max, pool=None, **kw):
            out = []
            ns = list(pool or names)
            rng.shuffle(ns)
            for n in ns[:rng.randint(1 if i == 0 else 0, n_max)]:
                o = new(kind, i, id=take(), name=n, **kw)
                L["objs"].append(o)
                out.append(o)
            return out

        dops = named(K["DOP"], 2)
        if not dops:
            o = new(K["DOP"], i, id=take(), name=rng.choice(names))
            L["objs"].append(o)
        named(K["UNIT"], 1)
        named(K["FC"], 1, pool=[10 + i])
        for s in named(K["STRUCT"], 2):
            s["params"] = [dict(ptype="value", name=f"p{k}") for k in range(rng.randint(0, 2))]
        named(K["EOPF"], 1)
        for m in named(K["MUX"], 1):
            m["cases"] = rng.randint(1, 2)
        for tb in named(K["TABLE"], 1):
            tb["rows"] = []
            for k in range(rng.randint(1, 2)):
                r = new(K["ROW"], i, id=take(), name=20 + k, table=tb["uid"])
                tb["rows"].append(r)
                L["objs"].append(r)
        for kind in (K["REQUEST"], K["POSRESP"]):
            for q in named(kind, 2 if kind == K["REQUEST"] else 1, pool=[30 + 10 * i + k for k in range(3)]):
                q["params"] = []
                for k in range(rng.randint(0, 3)):
                    pt = rng.choice(["value", "value", "tablekey", "tablestruct"])
                    p = dict(ptype=pt, name=f"p{k}")
                    if pt == "tablekey":
                        tk = new(K["TKPARAM"], i, id=take(), name=f"p{k}")
                        p.update(uid=tk["uid"], id=tk["id"])
                        tk["pname"] = p["name"]
                        L["objs"].append(tk)
                    q["params"].append(p)
        for s in named(K["SERVICE"], 2, pool=[60 + 10 * i + k for k in range(3)]):
            s["nfc"] = rng.randint(0, 1)
            s["npr"] = rng.randint(0, 1)
        L["dcrefs"] = rng.randint(0, 1)
        if t != 4 and i > 0:
            for j in rng.sample(range(i), min(i, rng.choice([0, 1, 1, 2]))):
                if layers[j]["type"] == 4 and rng.random() < 0.6:
                    continue
                L["parents"].append(dict(target=j, excl_dops=sorted(set(rng.choice(names) for _ in range(rng.choice([0, 0, 0, 1])))),
                                         excl_tables=sorted(set(rng.choice(names) for _ in range(rng.choice([0, 0, 1]))))))
        layers.append(L)
    # a container may carry the short name of one of its own layers: document fragments are told apart by DOCTYPE too
    for k, kc in enumerate(conts):
        own = [L["i"] for L in layers if L["cont"] == k]
        if own and rng.random() < 0.3:
            kc["name"] = f"L{rng.choice(own)}"
    # imports (of earlier or later layers; mostly shared-data layers)
    for L in layers:
        esds = [x["i"] for x in layers if x["type"] == 4 and x["i"] != L["i"]]
        if esds and rng.random() < 0.55:
            for j in rng.sample(esds, min(len(esds), rng.choice([1, 1, 2]))):
                L["imports"].append(dict(target=j))
    # a TABLE-STRUCT parameter needs some TABLE-KEY parameter to refer to
    if not any(o["kind"] == K["TKPARAM"] for L in layers for o in L["objs"]):
        for L in layers:
            for o in L["objs"]:
                for p in o.get("params", []):
                    if p["ptype"] == "tablestruct":
                        p["ptype"] = "value"
    c = Case()
    c.conts, c.layers, c.names, c.idpool = conts, layers, names, idpool
    c.fault = None
    index(c)
    assign_refs(rng, c, fault)
    return c


def index(c):
    c.by_uid = {}
    for L in c.layers:
        c.by_uid[L["uid"]] = dict(uid=L["uid"], kind=K["ESD"] if L["type"] == 4 else K["LAYER"], layer=L["i"], id=f"L{L['i']}")
        for o in L["objs"]:
            c.by_uid[o["uid"]] = o
    for k in c.conts:
        c.by_uid[k["uid"]] = dict(uid=k["uid"], kind=K["CONTAINER"], layer=None, id=k["name"])


def layer_ids(c, i):
    """id -> object for everything layer i registers (itself included)"""
    L = c.layers[i]
    d = {f"L{i}": c.by_uid[L["uid"]]}
    for o in L["objs"]:
        d[o["id"]] = o
    return d


def doc_styles(c, A, target_layer):
    """DOCREF styles a reference from layer A may carry"""
    out = [None]
    if target_layer is not None and DOCREFS[0]:
        out += [("C", c.layers[target_layer]["cont"]), ("L", target_layer)]
    return out


# ---------------------------------------------------------------- declarative reading of the property
def spec_imports_ok(c, A):
    for imp in c.layers[A]["imports"]:
        r = spec_idref(c, None, f"L{imp['target']}", ("C", c.layers[imp["target"]]["cont"]), [K["LAYER"], K["ESD"]])
        if r is None:
            return None
        if r[0] != "ok" or c.by_uid[r[1]]["kind"] != K["ESD"]:
            return False
    return True


def spec_idref(c, A, idv, doc, expected):
    """('ok', uid) | ('err', why) | None when the text does not determine the answer"""
    def in_container(k):
        cand = [c.by_uid[c.conts[k]["uid"]]] if c.conts[k]["name"] == idv else []
        for L in c.layers:
            if L["cont"] == k and idv in layer_ids(c, L["i"]):
                cand.append(layer_ids(c, L["i"])[idv])
        return cand

    has_imports = A is not None and bool(c.layers[A]["imports"])
    if has_imports:
        ok = spec_imports_ok(c, A)
        if ok is None:
            return None
        if not ok:
            return ("err", "import")
    if doc is None:
        own = layer_ids(c, A).get(idv)
        if own is not None:
            cand = [own]
        else:
            cand = in_container(c.layers[A]["cont"])
            for imp in c.layers[A]["imports"]:
                o = layer_ids(c, imp["target"]).get(idv)
                if o is not None and all(o["uid"] != x["uid"] for x in cand):
                    cand.append(o)
    elif doc[0] == "C":
        cand = in_container(doc[1])
        if not cand and has_imports and doc[1] == c.layers[A]["cont"]:
            return None
    else:
        o = layer_ids(c, doc[1]).get(idv)
        cand = [o] if o is not None else []
        if not cand and has_imports and doc[1] == A:
            return None
    if not cand:
        return ("err", "dangling")
    if len(cand) > 1:
        c.last_candidates = cand
        return None
    if expected and cand[0]["kind"] not in expected:
        return ("err", "type")
    return ("ok", cand[0]["uid"])


CAT_KEY = {K["DOP"]: "dops", K["STRUCT"]: "dops", K["EOPF"]: "dops", K["MUX"]: "dops", K["TABLE"]: "tables"}


def hier(c, cat):
    """the hierarchy in the format of harness/c09.py, for one object category"""
    out = []
    for L in c.layers:
        out.append(dict(id=L["i"], type=L["type"],
                        parents=[dict(target=p["target"], excl={cat: p["excl_" + CAT_KEY[cat]]}) for p in L["parents"]],
                        locals={cat: [o["name"] for o in L["objs"] if o["kind"] == cat]}))
    return out


def spec_views(c):
    return {cat: c09.spec_visible(hier(c, cat), cat) for cat in CAT_KEY}


def obj_of(c, cat, name, src):
    for o in c.layers[src]["objs"]:
        if o["kind"] == cat and o["name"] == name:
            return o["uid"]
    return None


def spec_snref(c, views, V, cats, name, expected):
    cand = []
    for cat in cats:
        v = views[cat][V]
        if v == "conflict":
            return ("err", "conflict")
        if name in v:
            cand.append((cat, obj_of(c, cat, name, v[name])))
    if not cand:
        return ("err", "dangling")
    if len(cand) > 1:
        return ("err", "ambiguous")
    if expected and cand[0][0] not in expected:
        return ("err", "type")
    return ("ok", cand[0][1])


def ancestors(c, V):
    out, todo = [], [V]
    while todo:
        x = todo.pop()
        if x not in out:
            out.append(x)
            todo += [p["target"] for p in c.layers[x]["parents"]]
    return out


# ---------------------------------------------------------------- references
def slots_of(c):
    """every reference slot of the abstract database: (layer, slot, owner uid, index)"""
    out = []
    for L in c.layers:
        i = L["i"]
        for k, _ in enumerate(L["parents"]):
            out.append((i, "parent", L["uid"], k))
        for o in L["objs"]:
            kd = o["kind"]
            if kd == K["DOP"]:
                if o["uid"] % 3 == 0:
                    out.append((i, "dop_unit", o["uid"], 0))
            elif kd in (K["STRUCT"], K["REQUEST"], K["POSRESP"]):
                for k, p in enumerate(o["params"]):
                    if p["ptype"] == "value":
                        out.append((i, "param_dop", o["uid"], k))
                    elif p["ptype"] == "tablekey":
                        out.append((i, "tk_table" if p["uid"] % 3 else "tk_row", o["uid"], k))
                    else:
                        out.append((i, "ts_key", o["uid"], k))
            elif kd == K["EOPF"]:
                out.append((i, "field_struct", o["uid"], 0))
            elif kd == K["MUX"]:
                out.append((i, "mux_switch", o["uid"], 0))
                for k in range(o["cases"]):
                    out.append((i, "mux_case", o["uid"], k))
            elif kd == K["TABLE"]:
                out.append((i, "table_keydop", o["uid"], 0))
            elif kd == K["ROW"]:
                out.append((i, "row_struct", o["uid"], 0))
            elif kd == K["SERVICE"]:
                out.append((i, "svc_request", o["uid"], 0))
                for k in range(o["npr"]):
                    out.append((i, "svc_posresp", o["uid"], k))
                for k in range(o["nfc"]):
                    out.append((i, "svc_fc", o["uid"], k))
        for k in range(L["dcrefs"]):
            out.append((i, "dc_ref", L["uid"], k))
    return out


def assign_refs(rng, c, fault):
    """choose id / name and DOCREF style of every reference: mostly resolvable (by rejection against
    the declarative reading), the scoping collisions kept; [fault] injects one unresolvable reference"""
    views = spec_views(c)
    slots = slots_of(c)
    fault_at = rng.randrange(len(slots)) if (fault and slots) else None
    refs = []
    for si, (A, slot, owner, k) in enumerate(slots):
        exp_id, sane, cats, exp_sn = SLOTS[slot]
        want_fault = si == fault_at
        pool = [o for L in c.layers for o in list(layer_ids(c, L["i"]).values()) if o["kind"] in sane]
        chosen = None
        for attempt in range(40):
            sn = cats is not None and slot not in ("tk_row",) and rng.random() < 0.45
            if slot == "ts_key":
                # TABLE-KEY-SNREF is resolved in the enclosing parameter list
                own = c.by_uid[owner]
                keys = [p for p in own["params"][:k] if p["ptype"] == "tablekey"]
                if keys and rng.random() < 0.6:
                    chosen = dict(mode="plist", name=rng.choice(keys)["name"])
                    break
            if sn:
                name = rng.choice(c.names + ([9] if want_fault else []))
                r = spec_snref(c, views, A, cats, name, exp_sn)
                good = r[0] == "ok"
                if good != (not want_fault) and attempt < 39:
                    continue
                chosen = dict(mode="sn", name=name, cats=cats, expected=exp_sn)
                break
            if not pool:
                idv, tl = "nowhere", None
            else:
                t = rng.choice(pool)
                idv, tl = t["id"], t["layer"]
                if want_fault and exp_id and rng.random() < 0.35:
                    # an id which the referring layer itself gives to an object of a foreign kind while a sibling layer of
                    # the same container uses it for an object of the expected kind: the reference names the own object
                    # (innermost fragment first), which is of the wrong kind -- it must not fall through to the sibling's
                    sib_right = {o["id"] for S in c.layers if S["cont"] == c.layers[A]["cont"] and S["i"] != A
                                 for o in layer_ids(c, S["i"]).values() if o["kind"] in exp_id and o["kind"] in sane}
                    wrong = [o for o in layer_ids(c, A).values() if o["kind"] not in exp_id and o["id"] in sib_right]
                    if wrong:
                        t = rng.choice(wrong)
                        if spec_idref(c, A, t["id"], None, exp_id) == ("err", "type"):
                            chosen = dict(mode="id", id=t["id"], doc=None, expected=exp_id, sane=sane)
                            break
                if want_fault:
                    # ids which a sibling layer of the same container imports must stay invisible here
                    leak = [o for S in c.layers if S["cont"] == c.layers[A]["cont"] and S["i"] != A for imp in S["imports"]
                            for o in layer_ids(c, imp["target"]).values() if o["kind"] in sane]
                    if leak and rng.random() < 0.7:
                        t = rng.choice(leak)
                        idv, tl = t["id"], None
                    elif rng.random() < 0.5:
                        idv = "nowhere"
                    else:
                        # an id which the referring layer itself (or its container) binds, referenced with a DOCREF to a
                        # fragment which does not bind it: the reference must not fall back to the referring fragment
                        own = [o for o in layer_ids(c, A).values() if o["kind"] in sane]
                        if own and DOCREFS[0]:
                            t = rng.choice(own)
                            wrong = [("L", L2["i"]) for L2 in c.layers if L2["i"] != A and t["id"] not in layer_ids(c, L2["i"])]
                            wrong += [("C", k2) for k2 in range(len(c.conts)) if k2 != c.layers[A]["cont"]]
                            rng.shuffle(wrong)
                            for doc_w in wrong:
                                if spec_idref(c, A, t["id"], doc_w, exp_id) == ("err", "dangling"):
                                    chosen = dict(mode="id", id=t["id"], doc=doc_w, expected=exp_id, sane=sane)
                                    break
                            if chosen is not None:
                                break
            if slot == "parent":
                tl = c.layers[A]["parents"][k]["target"]
                idv = f"L{tl}"
            doc = rng.choice(doc_styles(c, A, tl))
            if slot == "parent" and not DOCREFS[0]:
                doc = ("C", c.layers[tl]["cont"])     # as the PDX writer emits parent references
            c.last_candidates = []
            r = spec_idref(c, A, idv, doc, exp_id)
            if r is None:
                # several candidates: the scoping rule of the implementation decides; keep these if any choice loads
                all_sane = bool(c.last_candidates) and all(o["kind"] in sane for o in c.last_candidates)
                if rng.random() < 0.7 and not want_fault and slot != "parent" and all_sane:
                    chosen = dict(mode="id", id=idv, doc=doc, expected=exp_id, sane=sane)
                    break
                continue
            good = r[0] == "ok" and c.by_uid[r[1]]["kind"] in sane
            if slot == "parent":
                good = r == ("ok", c.layers[tl]["uid"])
                if not good:
                    continue
            if want_fault and r[0] != "err":
                idv = "nowhere"      # a reference without run-time type check must not hit an object of a foreign kind
            elif good != (not want_fault) and attempt < 39:
                continue
            chosen = dict(mode="id", id=idv, doc=doc, expected=exp_id, sane=sane)
            break
        if chosen is None:
            chosen = dict(mode="id", id="nowhere", doc=None, expected=exp_id, sane=sane)
        chosen.update(layer=A, slot=slot, owner=owner, k=k, rid=si)
        if slot == "tk_table" and chosen["mode"] == "sn":
            # every generated table has a row named 20: the row is looked up in the table the TABLE-SNREF binds to
            c.by_uid[owner]["params"][k]["row_snref"] = 20
            chosen["row_snref"] = 20
        refs.append(chosen)
    c.refs = refs
    c.fault = fault_at


def gen_leak_case(rng):
    """an id which layer A imports from another container is referenced by A's sibling B, which does not import it:
    the reference of B is dangling whatever the order of A and B"""
    for _ in range(200):
        c = gen_case(rng, fault=None)
        for r in c.refs:
            B = r["layer"]
            if r["mode"] != "id" or r["slot"] != "param_dop" or c.layers[B]["imports"]:
                continue
            for A in c.layers:
                if A["i"] == B or A["cont"] != c.layers[B]["cont"]:
                    continue
                for imp in A["imports"]:
                    E = c.layers[imp["target"]]
                    if E["cont"] == A["cont"] or spec_imports_ok(c, A["i"]) is not True:
                        continue
                    for o in E["objs"]:
                        if o["kind"] == K["DOP"] and spec_idref(c, B, o["id"], None, []) == ("err", "dangling"):
                            r.update(id=o["id"], doc=None)
                            c.fault = r["rid"]
                            return c
    return gen_case(rng, fault=True)


# ---------------------------------------------------------------- ODX emission
def x_ref(tag, r, c, extra=""):
    if r["mode"] == "sn":
        return f'<{tag.replace("-REF", "-SNREF")} SHORT-NAME="n{r["name"]}"/>'
    if r["mode"] == "plist":
        return f'<{tag.replace("-REF", "-SNREF")} SHORT-NAME="{r["name"]}"/>'
    d = ""
    if r["doc"] is not None:
        d = (f' DOCREF="{c.conts[r["doc"][1]]["name"]}" DOCTYPE="CONTAINER"' if r["doc"][0] == "C" else
             f' DOCREF="L{r["doc"][1]}" DOCTYPE="LAYER"')
    return f'<{tag} ID-REF="{r["id"]}"{d}{extra}/>'


DCT = ('<DIAG-CODED-TYPE BASE-DATA-TYPE="A_UINT32" xsi:type="STANDARD-LENGTH-TYPE"><BIT-LENGTH>8</BIT-LENGTH></DIAG-CODED-TYPE>')


def emit(c):
    rmap = {(r["owner"], r["slot"], r["k"]): r for r in c.refs}

    def head(o, pre="n"):
        return f'<SHORT-NAME>{pre}{o["name"]}</SHORT-NAME><LONG-NAME>u{o["uid"]}</LONG-NAME>'

    def params(o):
        out = ""
        for k, p in enumerate(o["params"]):
            if p["ptype"] == "value":
                out += f'<PARAM xsi:type="VALUE"><SHORT-NAME>{p["name"]}</SHORT-NAME>{x_ref("DOP-REF", rmap[(o["uid"], "param_dop", k)], c)}</PARAM>'
            elif p["ptype"] == "tablekey":
                if (o["uid"], "tk_table", k) in rmap:
                    body = x_ref("TABLE-REF", rmap[(o["uid"], "tk_table", k)], c)
                    rr = p.get("row_snref")
                    if rr is not None:
                        body += f'<TABLE-ROW-SNREF SHORT-NAME="n{rr}"/>'
                else:
                    body = x_ref("TABLE-ROW-REF", rmap[(o["uid"], "tk_row", k)], c)
                out += (f'<PARAM ID="{p["id"]}" xsi:type="TABLE-KEY"><SHORT-NAME>{p["name"]}</SHORT-NAME><LONG-NAME>u{p["uid"]}</LONG-NAME>'
                        f'{body}</PARAM>')
            else:
                out += (f'<PARAM xsi:type="TABLE-STRUCT"><SHORT-NAME>{p["name"]}</SHORT-NAME>'
                        f'{x_ref("TABLE-KEY-REF", rmap[(o["uid"], "ts_key", k)], c)}</PARAM>')
        return f"<PARAMS>{out}</PARAMS>" if out else ""

    docs = []
    for ci, kc in enumerate(c.conts):
        by_type = {t: "" for t in range(5)}
        for L in c.layers:
            if L["cont"] != ci:
                continue
            sec = {k: "" for k in ("fc", "dop", "struct", "eopf", "mux", "table", "unit", "svc", "rq", "pr")}
            for o in L["objs"]:
                kd = o["kind"]
                if kd == K["DOP"]:
                    u = x_ref("UNIT-REF", rmap[(o["uid"], "dop_unit", 0)], c) if (o["uid"], "dop_unit", 0) in rmap else ""
                    sec["dop"] += (f'<DATA-OBJECT-PROP ID="{o["id"]}">{head(o)}<COMPU-METHOD><CATEGORY>IDENTICAL</CATEGORY></COMPU-METHOD>'
                                   f'{DCT}<PHYSICAL-TYPE BASE-DATA-TYPE="A_UINT32"/>{u}</DATA-OBJECT-PROP>')
                elif kd == K["UNIT"]:
                    sec["unit"] += f'<UNIT ID="{o["id"]}">{head(o)}<DISPLAY-NAME>x</DISPLAY-NAME></UNIT>'
                elif kd == K["FC"]:
                    sec["fc"] += f'<FUNCT-CLASS ID="{o["id"]}">{head(o)}</FUNCT-CLASS>'
                elif kd == K["STRUCT"]:
                    sec["struct"] += f'<STRUCTURE ID="{o["id"]}">{head(o)}{params(o)}</STRUCTURE>'
                elif kd == K["EOPF"]:
                    sec["eopf"] += (f'<END-OF-PDU-FIELD ID="{o["id"]}">{head(o)}'
                                    f'{x_ref("BASIC-STRUCTURE-REF", rmap[(o["uid"], "field_struct", 0)], c)}</END-OF-PDU-FIELD>')
                elif kd == K["MUX"]:
                    cases = "".join(
                        f'<CASE><SHORT-NAME>c{k}</SHORT-NAME>{x_ref("STRUCTURE-REF", rmap[(o["uid"], "mux_case", k)], c)}'
                        f'<LOWER-LIMIT>{k}</LOWER-LIMIT><UPPER-LIMIT>{k}</UPPER-LIMIT></CASE>' for k in range(o["cases"]))
                    sec["mux"] += (f'<MUX ID="{o["id"]}">{head(o)}<BYTE-POSITION>1</BYTE-POSITION><SWITCH-KEY><BYTE-POSITION>0</BYTE-POSITION>'
                                   f'<BIT-POSITION>0</BIT-POSITION>{x_ref("DATA-OBJECT-PROP-REF", rmap[(o["uid"], "mux_switch", 0)], c)}'
                                   f'</SWITCH-KEY><CASES>{cases}</CASES></MUX>')
                elif kd == K["TABLE"]:
                    rows = "".join(
                        f'<TABLE-ROW ID="{r["id"]}">{head(r)}<KEY>{j + 1}</KEY>'
                        f'{x_ref("STRUCTURE-REF", rmap[(r["uid"], "row_struct", 0)], c)}</TABLE-ROW>' for j, r in enumerate(o["rows"]))
                    sec["table"] += (f'<TABLE ID="{o["id"]}">{head(o)}{x_ref("KEY-DOP-REF", rmap[(o["uid"], "table_keydop", 0)], c)}'
                                     f'{rows}</TABLE>')
                elif kd == K["REQUEST"]:
                    sec["rq"] += f'<REQUEST ID="{o["id"]}">{head(o)}{params(o)}</REQUEST>'
                elif kd == K["POSRESP"]:
                    sec["pr"] += f'<POS-RESPONSE ID="{o["id"]}">{head(o)}{params(o)}</POS-RESPONSE>'
                elif kd == K["SERVICE"]:
                    fcs = "".join(x_ref("FUNCT-CLASS-REF", rmap[(o["uid"], "svc_fc", k)], c) for k in range(o["nfc"]))
                    prs = "".join(x_ref("POS-RESPONSE-REF", rmap[(o["uid"], "svc_posresp", k)], c) for k in range(o["npr"]))
                    sec["svc"] += (f'<DIAG-SERVICE ID="{o["id"]}">{head(o)}' + (f"<FUNCT-CLASS-REFS>{fcs}</FUNCT-CLASS-REFS>" if fcs else "") +
                                   x_ref("REQUEST-REF", rmap[(o["uid"], "svc_request", 0)], c) +
                                   (f"<POS-RESPONSE-REFS>{prs}</POS-RESPONSE-REFS>" if prs else "") + "</DIAG-SERVICE>")
            for k in range(L["dcrefs"]):
                sec["svc"] += x_ref("DIAG-COMM-REF", rmap[(L["uid"], "dc_ref", k)], c)
            ddds = ((f"<DATA-OBJECT-PROPS>{sec['dop']}</DATA-OBJECT-PROPS>" if sec["dop"] else "") +
                    (f"<STRUCTURES>{sec['struct']}</STRUCTURES>" if sec["struct"] else "") +
                    (f"<END-OF-PDU-FIELDS>{sec['eopf']}</END-OF-PDU-FIELDS>" if sec["eopf"] else "") +
                    (f"<MUXS>{sec['mux']}</MUXS>" if sec["mux"] else "") +
                    (f"<UNIT-SPEC><UNITS>{sec['unit']}</UNITS></UNIT-SPEC>" if sec["unit"] else "") +
                    (f"<TABLES>{sec['table']}</TABLES>" if sec["table"] else ""))
            prefs = ""
            for k, p in enumerate(L["parents"]):
                tl = c.layers[p["target"]]
                ex = ""
                if p["excl_dops"]:
                    ex += "<NOT-INHERITED-DOPS>" + "".join(
                        f'<NOT-INHERITED-DOP><DOP-BASE-SNREF SHORT-NAME="n{x}"/></NOT-INHERITED-DOP>' for x in p["excl_dops"]) + "</NOT-INHERITED-DOPS>"
                if p["excl_tables"]:
                    ex += "<NOT-INHERITED-TABLES>" + "".join(
                        f'<NOT-INHERITED-TABLE><TABLE-SNREF SHORT-NAME="n{x}"/></NOT-INHERITED-TABLE>' for x in p["excl_tables"]) + "</NOT-INHERITED-TABLES>"
                r = rmap[(L["uid"], "parent", k)]
                d = (f' DOCREF="{c.conts[r["doc"][1]]["name"]}" DOCTYPE="CONTAINER"' if r["doc"] and r["doc"][0] == "C" else
                     f' DOCREF="L{r["doc"][1]}" DOCTYPE="LAYER"' if r["doc"] else "")
                prefs += f'<PARENT-REF ID-REF="{r["id"]}"{d} xsi:type="{TYPES[tl["type"]]}-REF">{ex}</PARENT-REF>'
            imps = "".join(f'<IMPORT-REF ID-REF="{imp.get("id", "L%d" % imp["target"])}" DOCREF="{c.conts[c.layers[imp["target"]]["cont"]]["name"]}" '
                           f'DOCTYPE="CONTAINER"/>' for imp in L["imports"])
            body = (f'<SHORT-NAME>L{L["i"]}</SHORT-NAME>' + (f"<FUNCT-CLASSS>{sec['fc']}</FUNCT-CLASSS>" if sec["fc"] else "") +
                    (f"<DIAG-DATA-DICTIONARY-SPEC>{ddds}</DIAG-DATA-DICTIONARY-SPEC>" if ddds else "") +
                    (f"<DIAG-COMMS>{sec['svc']}</DIAG-COMMS>" if sec["svc"] else "") +
                    (f"<REQUESTS>{sec['rq']}</REQUESTS>" if sec["rq"] else "") +
                    (f"<POS-RESPONSES>{sec['pr']}</POS-RESPONSES>" if sec["pr"] else "") +
                    (f"<IMPORT-REFS>{imps}</IMPORT-REFS>" if imps else "") +
                    (f"<PARENT-REFS>{prefs}</PARENT-REFS>" if prefs else ""))
            by_type[L["type"]] += f'<{TYPES[L["type"]]} ID="L{L["i"]}">{body}</{TYPES[L["type"]]}>'
        secs = "".join(f"<{PLURAL[t]}>{by_type[t]}</{PLURAL[t]}>" for t in (0, 1, 2, 3, 4) if by_type[t])
        docs.append('<?xml version="1.0" encoding="UTF-8"?><ODX MODEL-VERSION="2.2.0" xmlns:xsi="http://www.w3.org/2001/XMLSchema-instance">'
                    f'<DIAG-LAYER-CONTAINER ID="{kc["name"]}"><SHORT-NAME>{kc["name"]}</SHORT-NAME>{secs}</DIAG-LAYER-CONTAINER></ODX>')
    return docs


# ---------------------------------------------------------------- implementation
def ident(c, t):
    """uid of a loaded object"""
    if t is None:
        return None
    ln = getattr(t, "long_name", None)
    if isinstance(ln, str) and ln.startswith("u") and ln[1:].isdigit():
        return int(ln[1:])
    sn = getattr(t, "short_name", "")
    if sn.startswith("L") and hasattr(t, "diag_layer_raw"):
        return c.layers[int(sn[1:])]["uid"]
    if sn.startswith("K"):
        return c.conts[int(sn[1:])]["uid"]
    return -1


def impl_load(c, order=None):
    from odxtools.database import Database
    from odxtools.exceptions import OdxError
    db = Database()
    docs = emit(c)
    if order:
        docs = [docs[i] for i in order]

    def go():
        for d in docs:
            db._process_xml_tree(ET.fromstring(d))
        db.refresh()

    _, e, _ = cc.guarded(go, timeout=30)
    if e is not None:
        return ("error", type(e).__name__, isinstance(e, (OdxError, KeyError)), str(e)[:200]), None
    return None, db


def impl_objects(c, db):
    """uid -> loaded object, by walking the raw layers"""
    out = {}
    for dl in db.diag_layers:
        raw = dl.diag_layer_raw
        out[ident(c, dl)] = dl
        pools = [raw.functional_classes, raw.requests, raw.positive_responses,
                 [x for x in raw.diag_comms_raw if hasattr(x, "short_name")]]
        dd = raw.diag_data_dictionary_spec
        if dd is not None:
            pools += [dd.data_object_props, dd.structures, dd.end_of_pdu_fields, dd.muxs, dd.tables]
            if dd.unit_spec is not None:
                pools.append(dd.unit_spec.units)
            for tb in dd.tables:
                pools.append(tb.table_rows_raw if hasattr(tb, "table_rows_raw") else tb.table_rows)
        for pool in pools:
            for o in pool:
                if hasattr(o, "short_name"):
                    out[ident(c, o)] = o
                for p in getattr(o, "parameters", []) or []:
                    if getattr(p, "long_name", None):
                        out[ident(c, p)] = p
    return out


def impl_bindings(c, db, objs):
    """rid -> uid of the bound object (None: unbound)"""
    out = {}
    for r in c.refs:
        o = objs.get(r["owner"])
        slot, k = r["slot"], r["k"]
        try:
            if slot == "parent":
                t = o.diag_layer_raw.parent_refs[k].layer
            elif slot == "dc_ref":
                refs_seen = -1
                t = None
                from odxtools.odxlink import OdxLinkRef
                for raw_dc, dc in zip(o.diag_layer_raw.diag_comms_raw, o.diag_layer_raw.diag_comms):
                    if isinstance(raw_dc, OdxLinkRef):
                        refs_seen += 1
                        if refs_seen == k:
                            t = dc
            elif slot == "dop_unit":
                t = o.unit
            elif slot in ("param_dop",):
                t = o.parameters[k].dop
            elif slot == "tk_table":
                t = o.parameters[k].table
            elif slot == "tk_row":
                t = o.parameters[k].table_row
            elif slot == "ts_key":
                t = o.parameters[k].table_key
            elif slot == "field_struct":
                t = o.structure
            elif slot == "mux_switch":
                t = o.switch_key.dop
            elif slot == "mux_case":
                t = o.cases[k].structure
            elif slot == "table_keydop":
                t = o.key_dop
            elif slot == "row_struct":
                t = o.structure
            elif slot == "svc_request":
                t = o.request
            elif slot == "svc_posresp":
                t = list(o.positive_responses)[k]
            elif slot == "svc_fc":
                t = list(o.functional_classes)[k]
            else:
                t = None
            out[r["rid"]] = ident(c, t)
        except Exception as e:  # noqa
            out[r["rid"]] = f"observe:{type(e).__name__}"
    return out


def row_bindings(c, objs):
    """rid of a TABLE-KEY reference with TABLE-ROW-SNREF -> uid of the bound row"""
    out = {}
    for r in c.refs:
        if r.get("row_snref") is not None:
            try:
                out[r["rid"]] = ident(c, objs[r["owner"]].parameters[r["k"]].table_row)
            except Exception as e:  # noqa
                out[r["rid"]] = f"observe:{type(e).__name__}"
    return out


def row_of(c, table_uid, name):
    t = c.by_uid.get(table_uid)
    for r in (t or {}).get("rows", []):
        if r["name"] == name:
            return r["uid"]
    return None


# ---------------------------------------------------------------- model
def wire_case(c, targets, direct):
    idn, frn = {}, {}

    def I(s):
        return idn.setdefault(s, len(idn) + 1)

    def F(kind, name):
        return frn.setdefault((kind, name), len(frn) + 1)

    def docs_of(A, doc):
        if doc is None:
            L = c.layers[A]
            return [F("C", c.conts[L["cont"]]["name"]), F("L", f"L{A}")]
        return [F("C", c.conts[doc[1]]["name"])] if doc[0] == "C" else [F("L", f"L{doc[1]}")]

    kinds = [[u, o["kind"]] for u, o in sorted(c.by_uid.items())]
    entries, lls = [], []
    for ci, kc in enumerate(c.conts):
        entries.append([I(kc["name"]), [F("C", kc["name"])], kc["uid"]])
        for t in (4, 0, 1, 2, 3):        # registration order of DiagLayerContainer._build_odxlinks
            for L in c.layers:
                if L["cont"] == ci and L["type"] == t:
                    fr = [F("C", kc["name"]), F("L", f"L{L['i']}")]
                    own = [[I(i_), o["uid"]] for i_, o in layer_ids(c, L["i"]).items()]
                    for i_, u in own:
                        entries.append([i_, fr, u])
    for L in c.layers:
        fr = [F("C", c.conts[L["cont"]]["name"]), F("L", f"L{L['i']}")]
        own = [[I(i_), o["uid"]] for i_, o in layer_ids(c, L["i"]).items()]
        imps = [[I(imp.get("id", f"L{imp['target']}")), [F("C", c.conts[c.layers[imp["target"]]["cont"]]["name"])]] for imp in L["imports"]]
        lls.append([L["uid"], fr, 1 if L["type"] == 4 else 0, own, imps])
    refs = [[c.layers[r["layer"]]["uid"], [I(r["id"]), docs_of(r["layer"], r["doc"])], r["expected"]] for r in c.refs if r["mode"] == "id"]
    hs = [[cat, c09.w_hier(hier(c, cat), cat)] for cat in CAT_KEY]
    sns = [[r["layer"], r["cats"], r["name"], r["expected"]] for r in c.refs if r["mode"] == "sn"]
    parents = [[L["i"], [p["target"] for p in L["parents"]]] for L in c.layers]
    drefs = [[I(i_), [F(*f) for f in frs]] for i_, frs in direct]
    probes = [[L["i"], list(CAT_KEY)] for L in c.layers]
    return [M, [1, kinds, lls, entries, refs, hs, sns, parents, targets, drefs, probes]]


def model_ref(m):
    return {0: lambda: ("ok", m[1]), 1: lambda: ("err", "dangling"), 2: lambda: ("err", "type"), 3: lambda: ("err", "import")}[m[0]]()


def model_sn(c, m):
    if m[0] == 0:
        return ("ok", obj_of(c, *m[1]))
    return ("err", {1: "dangling", 2: "ambiguous", 3: "type", 4: "conflict"}[m[0]])


# ---------------------------------------------------------------- main
def to_json(c):
    return dict(conts=c.conts, layers=c.layers, refs=c.refs, names=c.names)


def from_json(d):
    c = Case()
    c.conts, c.layers, c.refs, c.names = d["conts"], d["layers"], d["refs"], d["names"]
    for r in c.refs:
        if r.get("doc") is not None:
            r["doc"] = tuple(r["doc"])
    c.fault = None
    index(c)
    return c


def _sr_dop(i, name="d"):
    return (f'<DATA-OBJECT-PROP ID="{i}"><SHORT-NAME>{name}</SHORT-NAME><COMPU-METHOD><CATEGORY>IDENTICAL</CATEGORY></COMPU-METHOD>'
            '<DIAG-CODED-TYPE BASE-DATA-TYPE="A_UINT32" xsi:type="STANDARD-LENGTH-TYPE"><BIT-LENGTH>8</BIT-LENGTH></DIAG-CODED-TYPE>'
            '<PHYSICAL-TYPE BASE-DATA-TYPE="A_UINT32"/></DATA-OBJECT-PROP>')


def _sr_struct(i, dop, name="S"):
    return (f'<STRUCTURE ID="{i}"><SHORT-NAME>{name}</SHORT-NAME><PARAMS><PARAM xsi:type="VALUE"><SHORT-NAME>p</SHORT-NAME>'
            f'<BYTE-POSITION>0</BYTE-POSITION><DOP-REF ID-REF="{dop}"/></PARAM></PARAMS></STRUCTURE>')


def _sr_owner(keydop):
    return (f'<TABLE ID="T1"><SHORT-NAME>T1</SHORT-NAME><KEY-DOP-REF ID-REF="{keydop}"/>'
            '<TABLE-ROW ID="T1.rs"><SHORT-NAME>rs</SHORT-NAME><KEY>1</KEY><STRUCTURE-SNREF SHORT-NAME="S"/></TABLE-ROW>'
            '<TABLE-ROW ID="T1.rd"><SHORT-NAME>rd</SHORT-NAME><KEY>2</KEY><DATA-OBJECT-PROP-SNREF SHORT-NAME="d"/></TABLE-ROW></TABLE>')


def _sr_user(keydop, owner, own_struct):
    return (f'<TABLE ID="T2"><SHORT-NAME>T2</SHORT-NAME><KEY-DOP-REF ID-REF="{keydop}"/>'
            f'<TABLE-ROW-REF ID-REF="T1.rs" DOCREF="{owner}" DOCTYPE="LAYER"/><TABLE-ROW-REF ID-REF="T1.rd" DOCREF="{owner}" DOCTYPE="LAYER"/>'
            f'<TABLE-ROW ID="T2.own"><SHORT-NAME>own</SHORT-NAME><KEY>3</KEY><STRUCTURE-REF ID-REF="{own_struct}"/></TABLE-ROW></TABLE>')


def shared_rows_probe(ck):
    """oracle only (rows shared between tables are not generated): a table row which another table re-uses via
    TABLE-ROW-REF keeps the bindings of its short-name references -- those of the layer which owns the row -- whether
    the re-using layer overrides the names (scenario A) or does not see them at all (scenario B)"""
    head = ('<?xml version="1.0" encoding="UTF-8"?><ODX MODEL-VERSION="2.2.0" xmlns:xsi="http://www.w3.org/2001/XMLSchema-instance">'
            '<DIAG-LAYER-CONTAINER ID="DLC"><SHORT-NAME>c</SHORT-NAME>')
    dds = lambda d, st, tb: (f'<DIAG-DATA-DICTIONARY-SPEC><DATA-OBJECT-PROPS>{d}</DATA-OBJECT-PROPS><STRUCTURES>{st}</STRUCTURES>'
                             f'<TABLES>{tb}</TABLES></DIAG-DATA-DICTIONARY-SPEC>')
    a = (head + '<BASE-VARIANTS><BASE-VARIANT ID="BV"><SHORT-NAME>BV</SHORT-NAME>'
         + dds(_sr_dop("BV.d"), _sr_struct("BV.S", "BV.d"), _sr_owner("BV.d")) + '</BASE-VARIANT></BASE-VARIANTS>'
         '<ECU-VARIANTS><ECU-VARIANT ID="EV"><SHORT-NAME>EV</SHORT-NAME>'
         + dds(_sr_dop("EV.d"), _sr_struct("EV.S", "EV.d"), _sr_user("EV.d", "BV", "EV.S")) +
         '<PARENT-REFS><PARENT-REF ID-REF="BV" xsi:type="BASE-VARIANT-REF"/></PARENT-REFS></ECU-VARIANT></ECU-VARIANTS>'
         '</DIAG-LAYER-CONTAINER></ODX>')
    b = (head + '<ECU-SHARED-DATAS><ECU-SHARED-DATA ID="LIB"><SHORT-NAME>LIB</SHORT-NAME>'
         + dds(_sr_dop("LIB.d"), _sr_struct("LIB.S", "LIB.d"), _sr_owner("LIB.d")) + '</ECU-SHARED-DATA></ECU-SHARED-DATAS>'
         '<BASE-VARIANTS><BASE-VARIANT ID="USER"><SHORT-NAME>USER</SHORT-NAME>'
         + dds(_sr_dop("USER.k", "k"), _sr_struct("USER.own", "USER.k", "own_struct"), _sr_user("USER.k", "LIB", "USER.own")) +
         '</BASE-VARIANT></BASE-VARIANTS></DIAG-LAYER-CONTAINER></ODX>')
    for tag, doc, owner, user in (("A: the re-using ECU variant overrides the names", a, "BV", "EV"),
                                  ("B: the re-using layer does not see the names", b, "LIB", "USER")):
        ck.count(("shared-rows", tag))
        rep = {"probe": "shared table rows", "scenario": tag}
        try:
            db = hc.load_docs([doc])
        except Exception as e:  # noqa
            ck.violation(f"shared table rows, scenario {tag}: loading raised {type(e).__name__}: {e}", rep)
            continue
        lay = {dl.short_name: dl for dl in db.diag_layers}
        for via in (owner, user):
            for t in lay[via].diag_data_dictionary_spec.tables:
                for row in t.table_rows:
                    if row.short_name == "rs":
                        got = None if row.structure is None else row.structure.odx_id.local_id
                        want = f"{owner}.S"
                    elif row.short_name == "rd":
                        got = None if row.dop is None else row.dop.odx_id.local_id
                        want = f"{owner}.d"
                    else:
                        continue
                    if got != want:
                        ck.violation(f"shared table rows, scenario {tag}: row {row.short_name} of {owner}'s table T1, reached through table "
                                     f"{t.short_name} of layer {via}, is bound to {got}; the row belongs to {owner}, whose view holds {want}", rep)
                        return


def protocol_snref_probe(ck):
    """oracle only (PROTOCOL-SNREFs are not generated): the PROTOCOL-SNREFs of a diagnostic communication resolve in
    the context of its layer, i.e. to the protocol layers the layer inherits from (directly or through its parents) --
    the protocol object of that name reached through the PARENT-REFs, or a strict-mode error if the layer does not
    inherit from a protocol of that name, whatever other containers of the database define"""
    import itertools
    xsi = 'xmlns:xsi="http://www.w3.org/2001/XMLSchema-instance"'

    def proto(cont, name):
        return (f'<PROTOCOL ID="{cont}.{name}"><SHORT-NAME>{name}</SHORT-NAME>{hc.PROTOCOL_EXTRA}</PROTOCOL>')

    def svc(lid, refs):
        sn = "".join(f'<PROTOCOL-SNREF SHORT-NAME="{r}"/>' for r in refs)
        return (f'<DIAG-COMMS><DIAG-SERVICE ID="{lid}.svc"><SHORT-NAME>svc</SHORT-NAME>'
                + (f'<PROTOCOL-SNREFS>{sn}</PROTOCOL-SNREFS>' if sn else "") +
                f'<REQUEST-REF ID-REF="{lid}.rq"/></DIAG-SERVICE></DIAG-COMMS><REQUESTS><REQUEST ID="{lid}.rq"><SHORT-NAME>rq</SHORT-NAME>'
                '<PARAMS><PARAM xsi:type="CODED-CONST"><SHORT-NAME>sid</SHORT-NAME><CODED-VALUE>16</CODED-VALUE>'
                '<DIAG-CODED-TYPE BASE-DATA-TYPE="A_UINT32" xsi:type="STANDARD-LENGTH-TYPE"><BIT-LENGTH>8</BIT-LENGTH></DIAG-CODED-TYPE>'
                '</PARAM></PARAMS></REQUEST></REQUESTS>')

    def pref(cont, name, kind):
        return f'<PARENT-REF ID-REF="{cont}.{name}" DOCREF="{cont}" DOCTYPE="CONTAINER" xsi:type="{kind}-REF"/>'

    names = ["UDS", "KWP", "XYZ"]
    n = 0
    # BV inherits from the protocols in bv_par (container A defines UDS and KWP); EV inherits from BV; an unrelated
    # container B defines protocols of the same names (and, in the second variant, is read first)
    for bv_par, user, refs, b_first in itertools.product((("UDS",), ("UDS", "KWP"), ("KWP",)), ("BV", "EV"),
                                                        (("UDS",), ("KWP",), ("XYZ",), ("UDS", "KWP")), (False, True)):
        bv = ('<BASE-VARIANT ID="A.BV"><SHORT-NAME>BV</SHORT-NAME>' + (svc("A.BV", refs) if user == "BV" else "") +
              "<PARENT-REFS>" + "".join(pref("A", p_, "PROTOCOL") for p_ in bv_par) + "</PARENT-REFS></BASE-VARIANT>")
        ev = ('<ECU-VARIANT ID="A.EV"><SHORT-NAME>EV</SHORT-NAME>' + (svc("A.EV", refs) if user == "EV" else "") +
              "<PARENT-REFS>" + pref("A", "BV", "BASE-VARIANT") + "</PARENT-REFS></ECU-VARIANT>")
        doc_a = (f'<?xml version="1.0" encoding="UTF-8"?><ODX MODEL-VERSION="2.2.0" {xsi}><DIAG-LAYER-CONTAINER ID="A"><SHORT-NAME>A</SHORT-NAME>'
                 f'<PROTOCOLS>{proto("A", "UDS")}{proto("A", "KWP")}</PROTOCOLS><BASE-VARIANTS>{bv}</BASE-VARIANTS>'
                 f'<ECU-VARIANTS>{ev}</ECU-VARIANTS></DIAG-LAYER-CONTAINER></ODX>')
        doc_b = (f'<?xml version="1.0" encoding="UTF-8"?><ODX MODEL-VERSION="2.2.0" {xsi}><DIAG-LAYER-CONTAINER ID="B"><SHORT-NAME>B</SHORT-NAME>'
                 f'<PROTOCOLS>{proto("B", "KWP")}{proto("B", "UDS")}{proto("B", "XYZ")}</PROTOCOLS></DIAG-LAYER-CONTAINER></ODX>')
        docs = ([doc_b, doc_a] if b_first else [doc_a, doc_b]) + [hc.cpsubset_doc(), hc.cpspec_doc()]
        n += 1
        ck.count(("protocol-snref", bv_par, user, refs, b_first))
        rep = {"probe": "PROTOCOL-SNREF", "protocols inherited by BV": list(bv_par), "layer of the service": user,
               "PROTOCOL-SNREFS": list(refs), "unrelated container read first": b_first}
        db, e, _ = cc.guarded(lambda: hc.load_docs(docs), timeout=20)
        resolvable = all(r in bv_par for r in refs)
        if e is not None:
            from odxtools.exceptions import OdxError
            if resolvable or not isinstance(e, (OdxError, KeyError)):
                ck.violation(f"PROTOCOL-SNREFs {list(refs)} of a service of {user} (BV inherits from {list(bv_par)}): loading raised "
                             f"{type(e).__name__}: {e}", rep)
                return
            continue
        if not resolvable:
            ck.violation(f"PROTOCOL-SNREFs {list(refs)} of a service of {user} were accepted in strict mode although {user} only "
                         f"inherits from the protocols {list(bv_par)}", rep)
            return
        lay = {(dl.odx_id.local_id): dl for dl in db.diag_layers}
        s_ = [x for x in lay[f"A.{user}"].services if x.short_name == "svc"][0]
        got = [pr.odx_id.local_id for pr in s_.protocols]
        if got != [f"A.{r}" for r in refs]:
            ck.violation(f"PROTOCOL-SNREFs {list(refs)} of the service of {user} are bound to {got}; the protocols which {user} "
                         f"inherits from are {['A.' + x for x in bv_par]}", rep)
            return
    ck.coverage["protocol_snref_databases"] = n
    # the PROTOCOL-SNREF of a COMPARAM-REF: a name which denotes no protocol the layer inherits from (recorded finding)
    cref = ('<COMPARAM-REFS><COMPARAM-REF ID-REF="CPSUB.CP_Baudrate" DOCREF="CPSUB" DOCTYPE="COMPARAM-SUBSET"><SIMPLE-VALUE>250000</SIMPLE-VALUE>'
            '<PROTOCOL-SNREF SHORT-NAME="XYZ"/></COMPARAM-REF></COMPARAM-REFS>')
    doc = (f'<?xml version="1.0" encoding="UTF-8"?><ODX MODEL-VERSION="2.2.0" {xsi}><DIAG-LAYER-CONTAINER ID="A"><SHORT-NAME>A</SHORT-NAME>'
           f'<PROTOCOLS>{proto("A", "UDS")}</PROTOCOLS><BASE-VARIANTS><BASE-VARIANT ID="A.BV"><SHORT-NAME>BV</SHORT-NAME>{cref}'
           f'<PARENT-REFS>{pref("A", "UDS", "PROTOCOL")}</PARENT-REFS></BASE-VARIANT></BASE-VARIANTS></DIAG-LAYER-CONTAINER></ODX>')
    ck.count(("protocol-snref", "comparam-ref"))
    db, e, _ = cc.guarded(lambda: hc.load_docs([doc, hc.cpsubset_doc(), hc.cpspec_doc()]), timeout=20)
    if e is None:
        kf = ck.match_known({"comparam-protocol-snref-unchecked"})
        if kf:
            ck.known_finding(kf["id"], kf["what"])
        else:
            ck.violation("a COMPARAM-REF whose PROTOCOL-SNREF names no protocol the layer inherits from ('XYZ') is accepted in strict mode",
                         {"probe": "PROTOCOL-SNREF of a COMPARAM-REF", "document": doc})


def corpus():
    """hand-written cases: the scoping situations of the property text"""
    out = []

    def mk(layers, refs, nK=2):
        c = Case()
        c.conts = [dict(uid=90 + k, name=f"K{k}") for k in range(nK)]
        c.layers, c.names = layers, [1, 2, 3]
        index(c)
        c.refs = []
        for si, r in enumerate(refs):
            slot = r["slot"]
            exp_id, sane, cats, exp_sn = SLOTS[slot]
            r = dict(r, rid=si)
            if r["mode"] == "id":
                r.update(expected=exp_id, sane=sane)
            else:
                r.update(cats=cats, expected=exp_sn)
            c.refs.append(r)
        return c

    def lay(i, t, cont, objs, parents=(), imports=()):
        return dict(i=i, type=t, cont=cont, uid=200 + i, objs=objs, parents=list(parents), imports=list(imports), refs=[], dcrefs=0)

    def dop(u, i, idv, name):
        return dict(uid=u, kind=K["DOP"], layer=i, id=idv, name=name)

    def req(u, i, idv, name, n=1):
        return dict(uid=u, kind=K["REQUEST"], layer=i, id=idv, name=name, params=[dict(ptype="value", name=f"p{k}") for k in range(n)])

    # 1. the same id in two containers and two layers: fragment-relative, DOCREF to container, DOCREF to layer
    for doc in (None, ("C", 0), ("C", 1), ("L", 0), ("L", 2)):
        out.append(mk([lay(0, 2, 0, [dop(301, 0, "X", 1)]), lay(1, 2, 1, [dop(302, 1, "Y", 1), req(303, 1, "R", 40)]),
                       lay(2, 2, 1, [dop(304, 2, "X", 2)])],
                      [dict(mode="id", id="X", doc=doc, layer=1, slot="param_dop", owner=303, k=0)]))
    # 2. imported id: visible in the importer only; sibling in front of / behind the importer
    for order in ((1, 2), (2, 1)):
        a, b = order
        out.append(mk([lay(0, 4, 0, [dop(301, 0, "X", 1)]),
                       lay(a, 2, 1, [dop(302, a, "Y", 1), req(303, a, "R", 40)], imports=[dict(target=0)]),
                       lay(b, 2, 1, [dop(304, b, "Z", 1), req(305, b, "Q", 50)])][:3] if a < b else
                      [lay(0, 4, 0, [dop(301, 0, "X", 1)]),
                       lay(1, 2, 1, [dop(304, 1, "Z", 1), req(305, 1, "Q", 50)]),
                       lay(2, 2, 1, [dop(302, 2, "Y", 1), req(303, 2, "R", 40)], imports=[dict(target=0)])],
                      [dict(mode="id", id="X", doc=None, layer=a, slot="param_dop", owner=303, k=0),
                       dict(mode="id", id="X", doc=None, layer=b, slot="param_dop", owner=305, k=0)]))
    # 3. an imported id never shadows a local one
    out.append(mk([lay(0, 4, 0, [dop(301, 0, "X", 1)]),
                   lay(1, 2, 1, [dop(302, 1, "X", 2), req(303, 1, "R", 40)], imports=[dict(target=0)])],
                  [dict(mode="id", id="X", doc=None, layer=1, slot="param_dop", owner=303, k=0)]))
    # 4. SNREF: inherited object, overridden object, ambiguous between categories, dangling
    st = dict(uid=310, kind=K["STRUCT"], layer=1, id="S", name=1, params=[])
    for name in (1, 2, 3):
        out.append(mk([lay(0, 2, 0, [dop(301, 0, "A", 1), dop(302, 0, "B", 2)]),
                       lay(1, 3, 0, [dop(303, 1, "C", 2), copy.deepcopy(st), req(305, 1, "R", 40)],
                           parents=[dict(target=0, excl_dops=[], excl_tables=[])])],
                      [dict(mode="id", id="L0", doc=("C", 0), layer=1, slot="parent", owner=201, k=0),
                       dict(mode="sn", name=name, layer=1, slot="param_dop", owner=305, k=0)], nK=1))
    # 5. SNREF in the base variant, re-targeted to the variant which overrides the DOP
    out.append(mk([lay(0, 2, 0, [dop(301, 0, "A", 1), req(305, 0, "R", 40)]),
                   lay(1, 3, 0, [dop(303, 1, "C", 1)], parents=[dict(target=0, excl_dops=[], excl_tables=[])]),
                   lay(2, 3, 0, [dop(304, 2, "D", 2)], parents=[dict(target=0, excl_dops=[], excl_tables=[])])],
                  [dict(mode="sn", name=1, layer=0, slot="param_dop", owner=305, k=0),
                   dict(mode="id", id="L0", doc=("C", 0), layer=1, slot="parent", owner=201, k=0),
                   dict(mode="id", id="L0", doc=("C", 0), layer=2, slot="parent", owner=202, k=0)], nK=1))
    # 6. wrong type behind a typed reference; import of a layer which is not shared data
    out.append(mk([lay(0, 2, 0, [dop(301, 0, "A", 1), dict(uid=306, kind=K["SERVICE"], layer=0, id="S", name=60, nfc=0, npr=0)])],
                  [dict(mode="id", id="A", doc=None, layer=0, slot="svc_request", owner=306, k=0)], nK=1))
    out.append(mk([lay(0, 2, 0, [dop(301, 0, "X", 1)]), lay(1, 2, 0, [dop(302, 1, "Y", 1), req(303, 1, "R", 40)], imports=[dict(target=0)])],
                  [dict(mode="id", id="X", doc=None, layer=1, slot="param_dop", owner=303, k=0)], nK=1))
    return out


def check_case(ck, c, rng, mres_for):
    """runs one case on the implementation, compares with the declarative reading and (later) the model"""
    rep = {"case": to_json(c)}
    views = spec_views(c)
    err, db = impl_load(c)
    # declarative expectations
    spec = {}
    unjudged = False
    for r in c.refs:
        if r["mode"] == "id":
            s = spec_idref(c, r["layer"], r["id"], r["doc"], r["expected"])
        elif r["mode"] == "sn":
            s = spec_snref(c, views, r["layer"], r["cats"], r["name"], r["expected"])
        else:
            own = c.by_uid[r["owner"]]
            cand = [p for p in own["params"] if p["name"] == r["name"]]
            s = ("ok", cand[0]["uid"]) if len(cand) == 1 and cand[0]["ptype"] == "tablekey" else ("err", "plist")
        spec[r["rid"]] = s
        unjudged |= s is None
    imports_ok = [spec_imports_ok(c, L["i"]) for L in c.layers if L["imports"]]
    unjudged |= any(x is None for x in imports_ok)
    conflict = any(v == "conflict" for cat in views for v in views[cat])
    must_fail = conflict or any(x is False for x in imports_ok) or any(s is not None and s[0] == "err" for s in spec.values())
    ck.hist("load", "ok" if err is None else ("OdxError/KeyError" if err[2] else err[1]))
    result = dict(err=err, bind=None, retarget={}, direct=None, objs=None)
    if err is not None:
        if not err[2]:
            ck.violation(f"loading raised {err[1]}: {err[3]}", rep)
        elif not must_fail and not unjudged:
            ck.violation(f"loading failed although every reference is resolvable: {err[3]}", rep)
        return result
    if must_fail:
        bad = [(r["slot"], r.get("id", r.get("name")), spec[r["rid"]]) for r in c.refs if spec[r["rid"]] and spec[r["rid"]][0] == "err"]
        ck.violation(f"loading in strict mode succeeded although the database contains an unresolvable reference / conflict "
                     f"{bad[:2] or 'inheritance conflict or invalid import'}", rep)
        return result
    objs = impl_objects(c, db)
    bind = impl_bindings(c, db, objs)
    result.update(bind=bind, db=db, objs=objs)
    rows = row_bindings(c, objs)
    for rid, got in rows.items():
        s = spec[rid]
        if s is not None and s[0] == "ok" and got != row_of(c, s[1], c.refs[rid]["row_snref"]):
            ck.violation(f"TABLE-ROW-SNREF n{c.refs[rid]['row_snref']} of layer L{c.refs[rid]['layer']} is bound to {describe(c, got)}, "
                         f"the row of that name of the bound table {describe(c, s[1])} is {describe(c, row_of(c, s[1], 20))}",
                         dict(rep, rid=rid))
            return result
    for r in c.refs:
        s = spec[r["rid"]]
        if s is not None and bind[r["rid"]] != s[1]:
            what = (f"ID-REF '{r['id']}' DOCREF {r['doc']}" if r["mode"] == "id" else f"SNREF 'n{r['name']}'")
            ck.violation(f"{r['slot']} {what} of layer L{r['layer']} is bound to {describe(c, bind[r['rid']])}, "
                         f"the property prescribes {describe(c, s[1])}", dict(rep, rid=r["rid"]))
            return result
    return result


def check_refresh_history(ck, c, db, rng):
    from odxtools.database import Database
    from odxtools.nameditemlist import NamedItemList
    docs = emit(c)
    drop = rng.randrange(len(c.conts))
    keep = [i for i in range(len(docs)) if i != drop]
    fresh = Database()

    def load_fresh():
        for i in keep:
            fresh._process_xml_tree(ET.fromstring(docs[i]))
        fresh.refresh()

    _, e_fresh, _ = cc.guarded(load_fresh, timeout=30)

    def shrink():
        db.diag_layer_containers = NamedItemList([k for k in db.diag_layer_containers if k.short_name != c.conts[drop]["name"]])
        db.refresh()

    _, e_hist, _ = cc.guarded(shrink, timeout=30)
    ck.count(("history", json.dumps(to_json(c), sort_keys=True), drop))
    rep = dict(case=to_json(c), dropped_container=c.conts[drop]["name"])
    if (e_fresh is None) != (e_hist is None):
        ck.violation(f"after removing container {c.conts[drop]['name']} and refreshing, the database "
                     f"{'loads' if e_hist is None else 'fails (' + type(e_hist).__name__ + ')'} although a database built from the "
                     f"remaining documents {'loads' if e_fresh is None else 'fails (' + type(e_fresh).__name__ + ')'}: ids of the removed "
                     f"container must not stay resolvable", rep)
        return
    if e_fresh is None:
        sub = Case()
        sub.conts, sub.names = c.conts, c.names
        sub.layers = c.layers
        sub.by_uid = c.by_uid
        live = {L["i"] for L in c.layers if L["cont"] != drop}
        sub.refs = [r for r in c.refs if r["layer"] in live]
        b1 = impl_bindings(sub, db, impl_objects(sub, db))
        b2 = impl_bindings(sub, fresh, impl_objects(sub, fresh))
        if b1 != b2:
            rid = [k for k in b1 if b1[k] != b2.get(k)][0]
            ck.violation(f"after removing container {c.conts[drop]['name']} and refreshing, reference {rid} is bound to "
                         f"{describe(c, b1[rid])}; in a database built from the remaining documents to {describe(c, b2.get(rid))}", rep)


def describe(c, u):
    o = c.by_uid.get(u)
    if o is None:
        return str(u)
    return f"{KN[o['kind']]} id={o.get('id')} of layer {o.get('layer')} (u{u})"


def pinned_cases(want=4, attempts=4000):
    """situations which the random stream of a run may or may not contain, generated by rejection from a stream of
    their own (so that they are in every run): a TABLE-KEY whose TABLE-SNREF / TABLE-ROW-SNREF is owned by an ancestor
    of a retargeting target which sees ANOTHER table under that name (the row has to be looked up again)"""
    import random
    rs = random.Random(20261001)
    out = []
    for _ in range(attempts):
        if len(out) >= want:
            break
        c = gen_case(rs, fault=None)
        targets = [L["i"] for L in c.layers if L["type"] != 4 and L["parents"]][:2]
        views = None
        for r in c.refs:
            if r["slot"] != "tk_table" or r["mode"] != "sn" or "row_snref" not in r:
                continue
            A = r["layer"]
            for V in targets:
                if V == A or A not in ancestors(c, V):
                    continue
                views = views or spec_views(c)
                if any(v == "conflict" for cat in views for v in views[cat]):
                    continue
                a, b = spec_snref(c, views, A, r["cats"], r["name"], r["expected"]), spec_snref(c, views, V, r["cats"], r["name"], r["expected"])
                if a[0] == "ok" and b[0] == "ok" and a[1] != b[1]:
                    out.append(c)
                    break
            else:
                continue
            break
    return out


def main(argv=None):
    import warnings
    warnings.simplefilter("ignore")
    ck = Check("C10", argv)
    ck.prologue()
    rng = ck.rng
    quick = ck.tier == "quick"
    cases = []
    if ck.replay:
        cases.append(from_json(json.load(open(ck.replay))["replay"]["case"]))
    else:
        cases += corpus()
        pinned = pinned_cases()
        ck.coverage["pinned_row_snref_cases"] = len(pinned)
        cases += pinned
        n = 150 if quick else 2500
        for k in range(n):
            cases.append(gen_leak_case(rng) if k % 8 == 5 else gen_case(rng, fault=(k % 4 == 3), big=(k % 10 == 9)))
    wires, meta = [], []
    for ci, c in enumerate(cases):
        nref = len(c.refs)
        ck.count(json.dumps(to_json(c), sort_keys=True), nontrivial=nref >= 2 and len(c.layers) >= 2)
        ck.hist("layers", len(c.layers))
        ck.hist("containers", len(c.conts))
        for r in c.refs:
            ck.hist("ref", r["slot"] + ":" + r["mode"] + (":docref" if r.get("doc") else ""))
        try:
            res = check_case(ck, c, rng, None)
        except Exception as e:  # noqa
            import traceback
            ck.note_broken(f"harness error on case {ci}: {type(e).__name__}: {e} {traceback.format_exc()[-300:]}")
            continue
        # retargeting: re-resolve the short-name references of V and its ancestors in V's view
        targets = [L["i"] for L in c.layers if L["type"] != 4 and L["parents"]][:2] if res["bind"] is not None else []
        views = spec_views(c)
        retarget = {}
        from odxtools.utils import retarget_snrefs
        for V in targets:
            _, db2 = impl_load(c)
            if db2 is None:
                continue
            dl = [x for x in db2.diag_layers if x.short_name == f"L{V}"][0]
            _, e, _ = cc.guarded(lambda: retarget_snrefs(db2, dl), timeout=20)
            anc = ancestors(c, V)
            want = {}
            for r in c.refs:
                if r["mode"] == "sn":
                    want[r["rid"]] = spec_snref(c, views, V if r["layer"] in anc else r["layer"], r["cats"], r["name"], r["expected"])
            if e is not None:
                retarget[V] = ("error", type(e).__name__)
                if all(s[0] == "ok" for s in want.values()):
                    ck.violation(f"retarget_snrefs to L{V} raised {type(e).__name__}: {e} although every reference is resolvable there",
                                 dict(case=to_json(c), retarget=V))
                continue
            b2 = impl_bindings(c, db2, impl_objects(c, db2))
            retarget[V] = {rid: b2[rid] for rid in want}
            if any(s[0] != "ok" for rid, s in want.items()):
                bad = [rid for rid, s in want.items() if s[0] != "ok"]
                ck.violation(f"retarget_snrefs to L{V} succeeded although SNREF n{c.refs[bad[0]]['name']} of layer "
                             f"L{c.refs[bad[0]]['layer']} is not uniquely resolvable in the view of L{V}", dict(case=to_json(c), retarget=V))
                continue
            rows2 = row_bindings(c, impl_objects(c, db2))
            for rid, got in rows2.items():
                s2 = want.get(rid)
                if s2 is not None and s2[0] == "ok" and got != row_of(c, s2[1], c.refs[rid]["row_snref"]):
                    ck.violation(f"after retarget_snrefs to L{V} the TABLE-ROW-SNREF of layer L{c.refs[rid]['layer']} is bound to "
                                 f"{describe(c, got)}, which is not the row of the re-bound table {describe(c, s2[1])}",
                                 dict(case=to_json(c), retarget=V))
                    break
            for rid, s in want.items():
                if b2[rid] != s[1]:
                    r = c.refs[rid]
                    ck.violation(f"after retarget_snrefs to L{V} the SNREF n{r['name']} ({r['slot']}) of layer L{r['layer']} is bound to "
                                 f"{describe(c, b2[rid])}, the view of L{V if r['layer'] in anc else r['layer']} prescribes {describe(c, s[1])}",
                                 dict(case=to_json(c), retarget=V))
                    break
        res["retarget"] = retarget
        # direct API: resolve / resolve_lenient of the global database with arbitrary fragment lists
        direct, dres = [], []
        if res.get("db") is not None:
            from odxtools.odxlink import DocType, OdxDocFragment, OdxLinkRef
            import warnings as w
            frs = [("C", k["name"]) for k in c.conts] + [("L", f"L{L['i']}") for L in c.layers] + [("C", "nowhere")]
            ids = sorted({o.get("id") for o in c.by_uid.values()}) + ["nowhere"]
            for _ in range(6):
                fl = [rng.choice(frs) for _ in range(rng.choice([1, 2, 2, 3]))]
                idv = rng.choice(ids)
                direct.append((idv, fl))
                ref = OdxLinkRef(idv, [OdxDocFragment(n, DocType.CONTAINER if k == "C" else DocType.LAYER) for k, n in fl])
                with w.catch_warnings(record=True) as wl:
                    w.simplefilter("always")
                    t = res["db"].odxlinks.resolve_lenient(ref)
                    nwarn = len(wl)
                t2, e2, _ = cc.guarded(lambda: res["db"].odxlinks.resolve(ref))
                if (t is None) != (e2 is not None) or (t is not None and t2 is not t):
                    ck.violation(f"resolve and resolve_lenient disagree on {idv} in {fl}", dict(case=to_json(c), direct=[idv, fl]))
                dres.append([ident(c, t), nwarn])
        res["direct"] = dres
        # history independence: the database after removing a container and refreshing again behaves like a database
        # which never contained it (no stale ids survive in the link database)
        if res.get("db") is not None and len(c.conts) >= 2:
            check_refresh_history(ck, c, res["db"], rng)
        wires.append(wire_case(c, targets, direct))
        meta.append((c, res, targets, direct))
        if ci % 40 == 0:
            ck.sample({"layers": len(c.layers), "refs": [(r["slot"], r["mode"], r.get("id", r.get("name")), r.get("doc")) for r in c.refs][:6]})
    # ---- model
    if ck.model_available():
        try:
            mres = common.run_model_ocaml(wires, chunk=50)
            pick = sorted(rng.sample(range(len(wires)), min(len(wires), 12 if quick else 60)))
            cres = common.run_model_coq([wires[i] for i in pick], tag="c10", chunk=6)
            if any(x != mres[i] for i, x in zip(pick, cres)):
                ck.note_broken("extracted model and vm_compute disagree")
            ck.coverage["evaluated_in_coq"] = len(pick)
            for (c, res, targets, direct), m in zip(meta, mres):
                rep = dict(case=to_json(c), broken="correspondence Links.load")
                ok, rb, sb, rt, dr = m[0] == 1, m[1], m[2], m[3], m[4]
                idrefs = [r for r in c.refs if r["mode"] == "id"]
                snrefs = [r for r in c.refs if r["mode"] == "sn"]
                # explicit parameter lists are outside op 1: resolvable by construction unless faulted
                plist_bad = any(r["mode"] == "plist" and not (len([p for p in c.by_uid[r["owner"]]["params"] if p["name"] == r["name"]]) == 1)
                                for r in c.refs)
                if res["err"] is not None and res["err"][2]:
                    if ok and not plist_bad:
                        ck.violation("implementation fails to load, the model resolves every reference: " + res["err"][3], rep, found_input=False)
                    continue
                if res["bind"] is None:
                    continue
                if not ok:
                    ck.violation("the model reports an unresolvable reference, the implementation loads", rep, found_input=False)
                    continue
                bad = None
                for r, mm in zip(idrefs, rb):
                    if model_ref(mm) != ("ok", res["bind"][r["rid"]]):
                        bad = f"ID-REF {r['id']} {r['doc']} ({r['slot']}, L{r['layer']}): impl {describe(c, res['bind'][r['rid']])} model {mm}"
                for r, mm in zip(snrefs, sb):
                    if model_sn(c, mm) != ("ok", res["bind"][r["rid"]]):
                        bad = f"SNREF n{r['name']} ({r['slot']}, L{r['layer']}): impl {describe(c, res['bind'][r['rid']])} model {mm}"
                for V, row in zip(targets, rt):
                    got = res["retarget"].get(V)
                    if got is None:
                        continue
                    mm = [model_sn(c, x) for x in row]
                    if isinstance(got, tuple):
                        if all(x[0] == "ok" for x in mm):
                            bad = f"retarget to L{V}: impl raises {got[1]}, model resolves everything"
                    elif [("ok", got[r["rid"]]) for r in snrefs] != mm:
                        bad = f"retarget to L{V}: impl {[got[r['rid']] for r in snrefs]} model {mm}"
                for (idv, fl), d_impl, d_mod in zip(direct, res["direct"], dr):
                    mo = model_ref(d_mod[0])
                    if (mo[1] if mo[0] == "ok" else None) != d_impl[0] or len(d_mod[1]) != d_impl[1]:
                        bad = f"direct resolve of {idv} in {fl}: impl {d_impl} model {d_mod}"
                if bad:
                    ck.violation("implementation and model disagree: " + bad, rep, found_input=False)
        except Exception as e:  # noqa
            import traceback
            ck.note_broken(f"model execution failed: {e} {traceback.format_exc()[-400:]}")
    else:
        ck.note_broken("model not built")
    if not ck.replay:
        shared_rows_probe(ck)
        protocol_snref_probe(ck)
    ck.assumptions = [
        "local ids are unique inside one layer (ODX demands uniqueness per document; collisions across layers and containers are generated)",
        "a reference is judged by the oracle only where the property text determines the target: one candidate in the referenced / "
        "referring fragment (own layer first, then container + imported layers); otherwise only model and implementation are compared",
        "references without run-time type check (DOP-REF, TABLE-REF, TABLE-ROW-REF) are only generated towards objects of a sane kind",
    ]
    ck.finish(
        trusted_base=[
            "Coq 8.16.1 kernel; no axioms", "extraction + driver cross-checked with vm_compute", "Model/Inherit.v (C09) for the views",
            "harness: database generator, ODX emitter (own), observation of bound attributes through LONG-NAME markers, declarative oracle",
            "reference kinds generated: PARENT-REF, IMPORT-REF, DOP-REF/-SNREF, BASIC-STRUCTURE-REF/-SNREF, mux STRUCTURE-REF/-SNREF and switch "
            "key, KEY-DOP-REF, table-row STRUCTURE-REF/-SNREF, TABLE-REF/-SNREF, TABLE-ROW-REF, TABLE-KEY-REF/-SNREF, REQUEST-REF, "
            "POS-RESPONSE-REF, FUNCT-CLASS-REF, DIAG-COMM-REF, UNIT-REF; not generated: state charts, audiences, comparam refs (C15), "
            "env-data, DTC, SDG captions, libraries, sub-components",
        ],
        rule="generated databases: 1-3 containers, 2-7 layers of all types with parents / NOT-INHERITED lists / IMPORT-REFs, objects of 12 "
        "kinds whose local ids and short names collide across layers, every reference slot as ID-REF (fragment-relative, DOCREF to "
        "container, DOCREF to layer) or SNREF; every 4th case carries one unresolvable reference; plus retarget_snrefs to up to 2 layers and 6 "
        "direct resolve calls with arbitrary fragment lists per case; non-trivial = at least 2 layers and 2 references")


if __name__ == "__main__":
    main()
