"""C13 -- malformed or lossy CAN traffic never crashes or fabricates telegrams.

Theorems: coq/Properties/C13.v.  Tie: correspondence of Model/IsoTp.v with the
implementation on fault-injected frame streams; direct oracle: no exception,
every reported telegram justified by the frame history (independent provenance
tracker), each first frame yields at most one telegram, and a well-formed
transfer appended after the faults is reassembled correctly.
"""
import common
import isotp_common as ic
from common import Check

RX = [0x7E0, 0x7E8]


def base_streams(rng):
    out = []
    t1 = bytes(rng.randrange(256) for _ in range(20))
    out.append([(0x7E8, f) for f in ic.segment(8, t1, b"\xaa" * 1)])
    t2 = bytes(rng.randrange(256) for _ in range(5))
    t3 = bytes(rng.randrange(256) for _ in range(130))  # > 16 CFs
    out.append([(0x7E0, f) for f in ic.segment(8, t2)] + [(0x7E8, f) for f in ic.segment(8, t3)])
    a = [(0x7E0, f) for f in ic.segment(8, bytes(rng.randrange(256) for _ in range(15)))]
    b = [(0x7E8, f) for f in ic.segment(8, bytes(rng.randrange(256) for _ in range(22)))]
    mix = []
    while a or b:
        src = a if (a and (not b or rng.random() < 0.5)) else b
        mix.append(src.pop(0))
    out.append(mix)
    t4 = bytes(rng.randrange(256) for _ in range(40))
    out.append([(0x7E8, f) for f in ic.segment(24, t4, b"\x00" * 3)] +
               [(0x7E8, f) for f in ic.segment(24, bytes(range(12)), b"\xcc" * 10)])
    # announced lengths which need the top bits of the 12-bit length field (64-byte frames keep the stream short)
    t5 = bytes(rng.randrange(256) for _ in range(rng.choice([2048, 2049, 3000, 4095])))
    out.append([(0x7E0, b"\x02\x3e\x00")] + [(0x7E8, f) for f in ic.segment(64, t5)])
    return out


def faults_at(stream, pos, quick, rng):
    """all single faults at position pos (list of new streams with a label)"""
    fid, d = stream[pos]
    res = []
    res.append(("drop", stream[:pos] + stream[pos + 1:]))
    res.append(("duplicate", stream[:pos + 1] + [stream[pos]] + stream[pos + 1:]))
    if pos + 1 < len(stream):
        res.append(("swap", stream[:pos] + [stream[pos + 1], stream[pos]] + stream[pos + 2:]))
    for n in range(len(d)):
        res.append((f"truncate{n}", stream[:pos] + [(fid, d[:n])] + stream[pos + 1:]))
    d0 = d[0] if len(d) else 0
    pcis = range(256) if not quick else list(range(0, 256, 16)) + [d0 ^ 1, (d0 + 1) & 255, 0x0F, 0x1F, 0x2F, 0x3F]
    for v in pcis:
        if len(d) and v != d[0]:
            res.append((f"pci{v:02x}", stream[:pos] + [(fid, bytes([v]) + d[1:])] + stream[pos + 1:]))
    for k in (0, 1, 2, 15):
        res.append((f"strayCF{k}", stream[:pos] + [(fid, bytes([0x20 | k, 1, 2, 3, 4, 5, 6, 7]))] + stream[pos:]))
    res.append(("strayFC", stream[:pos] + [(fid, b"\x30\x00\x00")] + stream[pos:]))
    res.append(("empty", stream[:pos] + [(fid, b"")] + stream[pos:]))
    res.append(("strayFF1", stream[:pos] + [(fid, b"\x10")] + stream[pos:]))
    # a first frame announcing no more than it carries itself, then consecutive frames
    res.append(("shortFF", stream[:pos] + [(fid, bytes([0x10, 3, 1, 2, 3, 4, 5, 6])), (fid, bytes([0x21, 9, 9, 9])),
                                           (fid, bytes([0x22, 8, 8]))] + stream[pos:]))
    # first frames with the 32 bit length (zero 12 bit length): a complete short transfer, one cut off, one too short
    # to hold the 32 bit number (which is a transfer of length zero)
    res.append(("escFF", stream[:pos] + [(fid, bytes([0x10, 0, 0, 0, 0, 9, 1, 2])), (fid, bytes([0x21, 3, 4, 5, 6, 7, 8, 9])),
                                         (fid, bytes([0x22, 8, 8]))] + stream[pos:]))
    res.append(("escFFcut", stream[:pos] + [(fid, bytes([0x10, 0, 0, 0, 1, 0, 1, 2])), (fid, bytes([0x21, 3, 4, 5, 6, 7, 8, 9]))] + stream[pos:]))
    res.append(("escFFshort", stream[:pos] + [(fid, bytes([0x10, 0, 0, 0, 9])), (fid, bytes([0x21, 3, 4, 5]))] + stream[pos:]))
    return res


def random_frames(rng, n):
    fr = []
    for _ in range(n):
        fid = rng.choice(RX + [0x111])
        k = rng.random()
        if k < 0.1:
            d = b""
        else:
            ln = rng.choice([1, 2, 3, 8, 8, 8, 12, 64])
            d = bytes([rng.choice([0x00, 0x01, 0x07, 0x10, 0x10, 0x1F, 0x20, 0x21, 0x22, 0x2F, 0x30, 0x40,
                                   0xFF, rng.randrange(256)])]) + bytes(
                                       rng.choice([0, 1, 3, 6, 20, rng.randrange(256)]) for _ in range(ln - 1))
        fr.append((fid, d))
    return fr


def oracle(rx, frames, trace, err, tail_t, tail_len):
    if err:
        return f"decode_rx_frame raised on frame {err[0]}: {err[1]}"
    pv = ic.Provenance(rx)
    for i, ((fid, d), (ts, cbs, _)) in enumerate(zip(frames, trace)):
        r = pv.feed(fid, d, [(tid, bytes(t)) for tid, t in ts])
        if r:
            return f"frame {i}: {r}"
    if tail_t is not None:
        got = []
        for ts, _, _ in trace[len(frames) - tail_len:]:
            got.extend(bytes(t) for _, t in ts)
        if got != [tail_t]:
            return "the well-formed transfer following the faults was not reassembled correctly"
    return None


def main(argv=None):
    ck = Check("C13", argv)
    ck.prologue()
    rng = ck.rng
    quick = ck.tier == "quick"
    cases = []  # (frames, tail telegram, tail frame count, label)
    if ck.replay:
        import json
        rp = json.load(open(ck.replay))["replay"]
        cases.append(([(f, bytes.fromhex(h)) for f, h in rp["frames"]], None, 0, "replay"))
    else:
        # corpus: the historic failures first
        cases.append(([(0x7E8, b"\x21\x01\x02")], None, 0, "corpus CF-before-FF"))
        cases.append(([(0x7E8, b"")], None, 0, "corpus empty"))
        cases.append(([(0x7E8, b"\x10")], None, 0, "corpus 1-byte-FF"))
        cases.append(([(0x7E8, b"\x10\x08\x01\x02\x03\x04\x05\x06"), (0x7E8, b"\x21\x07\x08"),
                       (0x7E8, b"\x22\x09\x0a")], None, 0, "corpus stale-buffer"))
        for stream in base_streams(rng):
            singles = []
            for pos in range(len(stream)):
                singles.extend((lab, pos, s) for lab, s in faults_at(stream, pos, quick, rng))
            tail_t = bytes(rng.randrange(256) for _ in range(rng.choice([17, 17, 2050])))
            tail_id = 0x7E8
            tail = [(tail_id, f) for f in ic.segment(8 if len(tail_t) < 100 else 64, tail_t)]
            for lab, pos, s in singles:
                cases.append((s + tail, tail_t, len(tail), f"single {lab}@{pos}"))
            # double faults: a second fault applied to a singly faulted stream
            nd = 400 if quick else 6000
            for _ in range(nd):
                lab, pos, s = rng.choice(singles)
                if not s:
                    continue
                p2 = rng.randrange(len(s))
                lab2, s2 = rng.choice(faults_at(s, p2, True, rng))
                cases.append((s2 + tail, tail_t, len(tail), f"double {lab}@{pos}+{lab2}@{p2}"))
        for _ in range(400 if quick else 10000):
            cases.append((random_frames(rng, rng.randint(1, 40)), None, 0, "random"))
    TX = [0x700, 0x708]
    wires = [ic.wire_case(RX, [], 0, 0, fr, False) for fr, *_ in cases]
    wires_a = [ic.wire_case(RX, TX, 8, 0xAA, fr, True) for fr, *_ in cases]
    mres = mres_a = None
    if ck.model_available():
        try:
            mres = common.run_model_ocaml(wires + wires_a, chunk=50)
            mres, mres_a = mres[:len(cases)], mres[len(cases):]
            small = [i for i, c in enumerate(cases) if sum(len(d) for _, d in c[0]) < 400]
            idx = sorted(rng.sample(small, min(len(small), 60 if quick else 300)))
            cres = common.run_model_coq([wires[i] for i in idx], tag="c13", chunk=20)
            if any(c != mres[i] for i, c in zip(idx, cres)):
                ck.note_broken("extracted model and vm_compute disagree")
            ck.coverage["evaluated_in_coq"] = len(idx)
        except Exception as e:  # noqa
            ck.note_broken(f"model execution failed: {e}")
            mres = mres_a = None
    else:
        ck.note_broken("model not built (Run.vo / extracted driver missing)")
    for i, (frames, tail_t, tail_len, label) in enumerate(cases):
        ck.count([(f, bytes(d)) for f, d in frames])
        ck.hist("fault", label.split(" ")[0] + " " + (label.split(" ")[1].split("@")[0].rstrip("0123456789abcdef") if " " in label and not label.startswith("double") else ""))
        for active, mr in ((False, mres), (True, mres_a)):
            trace, err = ic.run_impl(RX, TX if active else [], 8 if active else 0, 0xAA if active else 0, frames, active)
            rep = {"rx": RX, "frames": [[f, bytes(d).hex()] for f, d in frames], "label": label,
                   "decoder": "active" if active else "passive"}
            bad = oracle(RX, frames, trace, err, tail_t, tail_len)
            if bad:
                ck.violation(bad + (" (active decoder)" if active else ""), rep)
                break
            if mr is not None and trace != mr[i]:
                st = next((k for k, (a, b) in enumerate(zip(trace, mr[i])) if a != b), None)
                rep.update({"step": st, "impl": trace[st] if st is not None else None,
                            "model": mr[i][st] if st is not None else None,
                            "broken": "correspondence IsoTp.run_case vs decode_rx_frame"})
                ck.violation(f"implementation and model disagree at frame {st}; provenance oracle passed", rep,
                             found_input=False)
                break
        tr_p, err_p = ic.run_impl(RX, [], 0, 0, frames, False) if i % 4 == 0 else (None, "skipped")
        if err_p is None:
            # the same stream for a consumer which only takes the first telegram of each call and never resumes the generator
            part = ic.run_impl_partial(RX, frames)
            drained = [t for ts, _, _ in tr_p for t in ts]
            rep = {"rx": RX, "frames": [[f, bytes(d).hex()] for f, d in frames], "label": label, "decoder": "passive"}
            ck.count(("partial", tuple((f, bytes(d)) for f, d in frames)))
            if part != drained:
                ck.violation("a consumer which does not resume decode_rx_frame() behind the first telegram gets other telegrams than one "
                             f"which drains it: {part if isinstance(part, tuple) else [bytes(t).hex() for _, t in part][:4]} instead of "
                             f"{[bytes(t).hex() for _, t in drained][:4]}", dict(rep, consumer="next(iter(decode_rx_frame(..)), None)"))
                continue
        if i % 997 == 0:
            ck.sample({"label": label, "frames": [[f, bytes(d).hex()] for f, d in frames[:8]]})
    # the snoop tool end to end on lossy traffic of the shipped ECU: it never raises (responses without a request,
    # requests the database cannot decode, truncated and corrupted frames)
    if not ck.replay:
        SR, ST = 123, 456
        nsn = 0
        rq = bytes([0x10, 0x00])
        streams = []
        for _ in range(8 if quick else 80):
            good = [(SR, f) for f in ic.segment(8, bytes([rng.choice([0x10, 0x3E, 0xAB, 0xBA])]) + bytes(rng.randrange(256) for _ in range(rng.choice([0, 1, 2, 9]))))]
            good += [(ST, f) for f in ic.segment(8, bytes([rng.choice([0x50, 0x7F, 0xEB, 0xFA])]) + bytes(rng.randrange(256) for _ in range(rng.choice([0, 1, 2, 20]))))]
            good = good * 2
            pos = rng.randrange(len(good))
            lab, st = rng.choice(faults_at(good, pos, True, rng))
            streams.append((f"snoop {lab}@{pos}", st))
            streams.append(("snoop response first", good[len(good) // 2 - 1:]))
        # flow control frames with every flow status nibble (continue, wait, overflow, and the reserved values 3..15 which a
        # corrupted PCI byte produces) between the first and the consecutive frames: no crash, the transfer is reassembled
        wants = {}
        tq = bytes([0xAB]) + bytes(range(1, 20))
        segs = ic.segment(8, tq)
        for flag in range(16):
            lab = f"snoop flow status {flag}"
            streams.append((lab, [(SR, segs[0]), (ST, bytes([0x30 | flag, 0, 0])), (SR, bytes([0x30 | flag, 8, 0]))] +
                            [(SR, f) for f in segs[1:]]))
            wants[lab] = [["req", tq.hex()]]
        for lab, st in streams:
            st = [(f, d) for f, d in st if len(d) > 0]  # empty frames: as candump prints them (no data field), see below
            # what candump prints for remote frames and for frames without data, at a random position
            junk = {rng.randrange(len(st) + 1): rng.choice(ic.JUNK_LINES[5:])} if st else None
            text = ic.log_text(st, lambda k, d: 1, junk=junk)
            got, out, err = ic.run_snoop(text, None, None)
            nsn += 1
            ck.count(("snoop", text))
            if err:
                ck.violation(f"odxtools snoop on a candump log ({lab}) raised {err}",
                             {"snoop": True, "log": text, "label": lab})
                break
            if lab in wants and got != wants[lab]:
                ck.violation(f"odxtools snoop on a candump log ({lab}): the transfer which the flow control frames interrupt is "
                             f"reported as {got}, transmitted was {wants[lab]}", {"snoop": True, "log": text, "label": lab})
                break
        ck.coverage["snoop_runs"] = nsn
    ck.assumptions = ["frames are byte strings of any length (including empty) on arbitrary ids",
                      "dropped consecutive frames can make a later frame with the wrapped sequence number "
                      "count as in-sequence: this is inherent to the 4-bit counter and allowed by the property text"]
    ck.finish(
        trusted_base=[
            "Coq 8.16.1 kernel; no axioms",
            "translator: IsoTp enum codes copied into Generated.v",
            "extraction (ExtrOcamlBasic) + ocaml/driver.ml, cross-checked against vm_compute on a sample",
            "harness: independent provenance tracker (isotp_common.Provenance), fault injector",
            "modelled not verified: bitstruct nibble unpacking, Python generator protocol",
        ],
        rule="4 well-formed base streams (1-2 ids, >16 CFs, CAN-FD with escape single frame) x every single fault "
        "(drop, duplicate, swap, truncate to each length, PCI byte corrupted (quick: 22 values, thorough: all 256), stray CF/FC/empty/1-byte-FF) at every "
        "position, sampled double faults, each followed by a well-formed transfer; plus random frame sequences; distinct by frame list")


if __name__ == "__main__":
    main()
