"""Checks of the codec properties C01-C05, C08, C17.

Every check: (1) build + proof transcript of coq/Properties/<pid>.v; (2) generated
descriptions (own ODX emitter -> odxtools' parser) x value / byte-string streams
run through the implementation and through the extracted Coq model
(correspondence); (3) the property's direct oracle on the implementation.
"""
import json
import os
import subprocess
import sys

import codec_common as cc
import codec_run as cr
import common
from common import Check

TB = [
    "Coq 8.16.1 kernel; no axioms (property theorems closed under the global context); vm_compute only for witnesses/examples",
    "model scope (Model/Codec.v): strict mode; integer/bytefield/string base types (floats not modelled); "
    "STANDARD-LENGTH (plain bit masks, no condensed masks), MIN-MAX-LENGTH, LEADING-LENGTH-INFO, PARAM-LENGTH-INFO; IDENTICAL and "
    "integer LINEAR compu methods; structures (BYTE-SIZE), static/dynamic-length/end-of-pdu/end-marker fields; parameter kinds "
    "CODED-CONST, VALUE, RESERVED, PHYS-CONST, MATCHING-REQUEST-PARAM, NRC-CONST, LENGTH-KEY; multiplexer, tables, DTC, env-data, "
    "SYSTEM/DYNAMIC/TABLE-ENTRY parameters are not modelled (correspondence does not cover them)",
    "string codecs: latin-1 / UTF-8 / UTF-16 re-implemented in Gallina (Model/Str.v); ISO-8859-2, cp1252 not modelled",
    "extraction: ExtrOcamlBasic only + ocaml/driver.ml; cross-checked against vm_compute on a sample each run",
    "harness: description generator, own ODX XML emitter, canonicalisation of results/exception classes (harness/codec_*.py)",
    "bitstruct (C and pure backends) is modelled as shift/mask arithmetic, not verified; linear compu methods compared only "
    "inside the float exactness envelope (bit length <= 24, small integer coefficients)",
]


# ---------------------------------------------------------------------------
def deep_subset(want, got):
    """every value supplied by the caller must come back unchanged"""
    if isinstance(want, dict):
        if not isinstance(got, dict):
            return False
        return all(k in got and deep_subset(v, got[k]) for k, v in want.items())
    if isinstance(want, (list, tuple)):
        return isinstance(got, (list, tuple)) and len(want) == len(got) and all(
            deep_subset(a, b) for a, b in zip(want, got))
    if isinstance(want, (bytes, bytearray)):
        return isinstance(got, (bytes, bytearray)) and bytes(want) == bytes(got)
    return type(want) == type(got) and want == got


def mr_pos(kd, req):
    return kd["rqpos"] if kd["rqpos"] >= 0 else len(req) + kd["rqpos"]


def expected_values(params, v, req=None):
    """the caller's values plus defaults, constants and the mirrored request bytes (what decode must return);
    length keys and reserved parameters are not predicted here"""
    exp = {}
    for p in params:
        kd = p["kind"]
        k = kd["k"]
        nm = p["name"]
        if k == "value":
            if nm in v and v[nm] is not None:
                if kd["dop"]["k"] == "struct" and isinstance(v[nm], dict):
                    exp[nm] = expected_values(kd["dop"]["params"], v[nm], req)
                elif kd["dop"]["k"] == "mux":
                    exp[nm] = expected_mux(kd["dop"], v[nm])
                elif kd["dop"]["k"] in ("static", "dynlen", "eop", "endmarker") and isinstance(v[nm], list):
                    sp = kd["dop"]["s"]["params"]
                    exp[nm] = [expected_values(sp, it, req) if isinstance(it, dict) else it for it in v[nm]]
                else:
                    exp[nm] = v[nm]
                    d = kd["dop"]
                    if d["k"] == "simple" and d["dct"].get("mask") is not None and isinstance(v[nm], int) and \
                            not isinstance(v[nm], bool) and v[nm] >= 0:
                        # a BIT-MASK drops the masked bits, the others must come back
                        exp[nm] = v[nm] & d["dct"]["mask"]
            elif kd.get("dflt") is not None:
                exp[nm] = kd["dflt"]
        elif k in ("coded", "physconst"):
            exp[nm] = kd["v"]
        elif k == "matchreq" and req is not None and 0 <= mr_pos(kd, req) and len(req) >= mr_pos(kd, req) + kd["len"]:
            # MATCHING-REQUEST-PARAM: the bytes of the triggering request (they are read back as an unsigned integer,
            # least significant byte first); a negative position counts from the end of the request
            exp[nm] = int.from_bytes(bytes(req)[mr_pos(kd, req):mr_pos(kd, req) + kd["len"]], "little")
    return exp


def mux_selection(d, v):
    """(case selected by the caller's value, switch key written) per the ODX rules, or None if v selects nothing"""
    if isinstance(v, dict) and len(v) == 1:
        spec, cv = next(iter(v.items()))
    elif isinstance(v, (list, tuple)) and len(v) == 2:
        spec, cv = v
    else:
        return None
    if isinstance(spec, str):
        for c in d["cases"]:
            if c["name"] == spec:
                return c, c["lo"], cv
        return (d["dflt"], 0, cv) if d["dflt"] is not None else None
    if isinstance(spec, int) and not isinstance(spec, bool):
        for c in d["cases"]:
            if c["lo"] <= spec <= c["hi"]:
                return c, spec, cv
        return (d["dflt"], spec, cv) if d["dflt"] is not None else None
    if spec is None and d["dflt"] is not None:
        return d["dflt"], 0, cv
    return None


def expected_mux(d, v):
    sel = mux_selection(d, v)
    if sel is None:
        return v
    c, _, cv = sel
    if c["s"] is None:
        return [c["name"], {}]
    return [c["name"], expected_values(c["s"]["params"], cv) if isinstance(cv, dict) else cv]


def mux_noncanonical(params, v):
    """C03 only: a multiplexer value given by number whose switch key is not the one which selecting the case by name
    writes (the lower limit, 0 for the default case): decoding returns the *name* of the case, the key itself is no
    value-carrying parameter, so the PDU is not in canonical form"""
    if not isinstance(v, dict):
        return False
    for p in params:
        kd = p["kind"]
        if kd["k"] not in ("value", "physconst"):
            continue
        if _mux_nc(kd["dop"], v.get(p["name"])):
            return True
    return False


def _mux_nc(d, v):
    k = d["k"]
    if k == "struct":
        return mux_noncanonical(d["params"], v)
    if k == "mux":
        sel = mux_selection(d, v)
        if sel is None:
            return False
        c, key, cv = sel
        if key != (c["lo"] if "lo" in c else 0):
            return True
        return c["s"] is not None and mux_noncanonical(c["s"]["params"], cv)
    if k in ("static", "dynlen", "eop", "endmarker"):
        return any(_mux_nc(d["s"], it) for it in (v if isinstance(v, list) else []))
    return False


def roundtrip_exempt(params, v):
    """value assignments for which ODX itself does not promise a round trip:
    returns a reason or None.  (bit masks drop the masked bits by definition;
    a non-injective compu method cannot return the original value)"""
    dyn_seen = False
    g = cc.Gen(None)
    cursor = 0
    for p in params:
        kd = p["kind"]
        if p["bytepos"] is not None and p["bytepos"] < cursor:
            # an object positioned on top of (or in front of) earlier ones: an overlapping layout, which is only
            # reported when both objects actually write bits
            return "explicit byte position in front of the end of an earlier object"
        if p["bytepos"] is not None:
            cursor = p["bytepos"]
        sz = None
        if kd["k"] in ("coded", "nrc"):
            sz = kd["dct"]["bl"] if kd["dct"]["k"] == "std" else None
        elif kd["k"] == "reserved":
            sz = kd["bl"]
        elif kd["k"] == "matchreq":
            sz = 8 * kd["len"]
        else:
            b = g.static_size(kd["dop"])
            sz = None if b is None else (kd["dop"]["dct"]["bl"] if kd["dop"]["k"] == "simple" else 8 * b)
        cursor += ((p["bitpos"] or 0) + (sz or 0) + 7) // 8
        if dyn_seen and p["bytepos"] is not None:
            # ODX: the position of an object behind one of variable size cannot be given statically
            return "explicit byte position behind a dynamically sized object"
        if kd["k"] in ("value", "physconst", "lenkey") and g.static_size(kd["dop"]) is None:
            dyn_seen = True
    for p in params:
        kd = p["kind"]
        if kd["k"] in ("value", "physconst", "lenkey"):
            r = _dop_exempt(kd["dop"], v.get(p["name"]) if isinstance(v, dict) else None)
            if r:
                return r
        if kd["k"] == "nrc":
            # by design the encoder leaves NRC-CONST bytes to an overlapping VALUE parameter
            return "NRC-CONST"
        if kd["k"] == "coded" and kd["dct"].get("mask") is not None:
            return "bit mask"
    return None


def _dop_exempt(d, v):
    k = d["k"]
    if k == "simple":
        c = d["compu"]
        if d["dct"].get("mask") is not None and not (c["k"] == "ident" and isinstance(v, int) and not isinstance(v, bool)
                                                      and v >= 0 and d["dct"]["bt"] == cc.BUINT and d["dct"].get("en") is None):
            # (masked unsigned integers are predicted by expected_values; other masked types are not)
            return "bit mask"
        if c["k"] == "linear" and (c["num"] == 0 or abs(c["num"]) < abs(c["den"])):
            return "non-injective compu method"
        if c["k"] == "linear" and isinstance(v, int) and not isinstance(v, bool):
            from fractions import Fraction
            x = round(Fraction(v * c["den"] - c["off"], c["num"]))
            if round(Fraction(c["off"] + c["num"] * x, c["den"])) != v:
                return "physical value outside the image of the compu method (rounded by definition)"
        return None
    if k == "struct":
        return roundtrip_exempt(d["params"], v if isinstance(v, dict) else {})
    if k == "mux":
        sel = mux_selection(d, v)
        if sel is None:
            return None
        c, key, cv = sel
        first = next((x for x in d["cases"] if x["lo"] <= key <= x["hi"]), d["dflt"])
        if first is not c:
            # the key which is written for the chosen case (its lower limit, 0 for the default case) belongs to another
            # case: overlapping or empty key ranges, a description which is ambiguous by itself
            return "multiplexer key of the chosen case belongs to another case"
        if c["s"] is None:
            return None
        return roundtrip_exempt(c["s"]["params"], cv if isinstance(cv, dict) else {})
    if k == "endmarker":
        # an item which happens to start with the termination value ends the field (format ambiguity)
        return "end-marker field"
    if k in ("static", "dynlen", "eop", "endmarker"):
        if k != "static" and not item_consumes(d["s"]):
            return "field items of zero size"
        for it in (v if isinstance(v, list) else [{}]):
            r = _dop_exempt(d["s"], it)
            if r:
                return r
        if k == "dynlen":
            return _dop_exempt(d["cnt"], None)
    return None


def item_consumes(st):
    """the item structure certainly occupies at least one byte"""
    for p in st["params"]:
        kd = p["kind"]
        if kd["k"] in ("coded", "reserved", "matchreq", "nrc", "lenkey"):
            return True
        if kd["k"] in ("value", "physconst"):
            d = kd["dop"]
            if d["k"] == "simple":
                dc = d["dct"]
                if dc["k"] in ("std", "leading") or (dc["k"] == "minmax" and dc["minl"] > 0):
                    return True
            elif d["k"] == "struct" and ((d["bs"] or 0) > 0 or item_consumes(d)):
                return True
            elif d["k"] == "mux":
                return True  # the switch key
    return (st.get("bs") or 0) > 0


def has_kind(params, kinds):
    for p in params:
        kd = p["kind"]
        if kd["k"] in kinds:
            return True
        if kd["k"] in ("value", "physconst", "lenkey") and _dop_has(kd["dop"], kinds):
            return True
    return False


def _dop_has(d, kinds):
    if d["k"] in kinds:
        return True
    if d["k"] == "simple":
        return d["dct"]["k"] in kinds
    if d["k"] == "struct":
        return has_kind(d["params"], kinds)
    if d["k"] == "mux":
        return any(c["s"] is not None and _dop_has(c["s"], kinds)
                   for c in d["cases"] + ([d["dflt"]] if d["dflt"] is not None else []))
    return _dop_has(d["s"], kinds) or any(_dop_has(d[x], kinds) for x in ("cnt", "tdop") if x in d)


class RecBytes(bytes):
    """bytes which remember how far they were read"""

    def __new__(cls, b):
        o = super().__new__(cls, b)
        o.maxread = 0
        return o

    def __getitem__(self, i):
        if isinstance(i, slice):
            stop = len(self) if i.stop is None else i.stop
            if stop > (0 if i.start is None else i.start):
                self.maxread = max(self.maxread, min(stop, len(self)))
        else:
            self.maxread = max(self.maxread, i + 1)
        return super().__getitem__(i)


def decode_reads_all(obj, pdu):
    from odxtools.decodestate import DecodeState
    rb = RecBytes(bytes(pdu))
    ds = DecodeState(coded_message=rb)
    obj.decode_from_pdu(ds)
    return max(rb.maxread, ds.cursor_byte_position) >= len(pdu)


def desc_features(params, acc=None):
    acc = acc if acc is not None else {}
    for p in params:
        kd = p["kind"]
        acc[kd["k"]] = acc.get(kd["k"], 0) + 1
        if p["bytepos"] is not None:
            acc["explicit-bytepos"] = acc.get("explicit-bytepos", 0) + 1
        if p["bitpos"]:
            acc["bitpos"] = acc.get("bitpos", 0) + 1
        if kd["k"] in ("value", "physconst", "lenkey"):
            _dop_features(kd["dop"], acc)
        elif kd["k"] in ("coded", "nrc"):
            acc["dct-" + kd["dct"]["k"]] = acc.get("dct-" + kd["dct"]["k"], 0) + 1
    return acc


def _dop_features(d, acc):
    k = d["k"]
    acc["dop-" + k] = acc.get("dop-" + k, 0) + 1
    if k == "simple":
        dc = d["dct"]
        acc["dct-" + dc["k"]] = acc.get("dct-" + dc["k"], 0) + 1
        acc["bt-" + cc.BT[dc["bt"]]] = acc.get("bt-" + cc.BT[dc["bt"]], 0) + 1
        if dc["en"] is not None:
            acc["enc-" + cc.ENC[dc["en"]]] = acc.get("enc-" + cc.ENC[dc["en"]], 0) + 1
        if not dc["hl"]:
            acc["low-high"] = acc.get("low-high", 0) + 1
        if dc.get("mask") is not None:
            acc["bit-mask"] = acc.get("bit-mask", 0) + 1
        if dc["bt"] in (cc.BASCII, cc.BUTF8, cc.BUNI) and dc["en"] in (0, 1, 2, 3, 4, 5):
            acc["illegal-encoding"] = acc.get("illegal-encoding", 0) + 1
        acc["compu-" + d["compu"]["k"]] = acc.get("compu-" + d["compu"]["k"], 0) + 1
    elif k == "struct":
        if d["bs"] is not None:
            acc["byte-size"] = acc.get("byte-size", 0) + 1
        desc_features(d["params"], acc)
    elif k == "mux":
        for c in d["cases"] + ([d["dflt"]] if d["dflt"] is not None else []):
            if c["s"] is not None:
                _dop_features(c["s"], acc)
            else:
                acc["mux-case-without-structure"] = acc.get("mux-case-without-structure", 0) + 1
            if c.get("lo_open") or c.get("hi_open"):
                acc["mux-open-limit"] = acc.get("mux-open-limit", 0) + 1
    else:
        _dop_features(d["s"], acc)


def rep(c, **kw):
    r = {"params": c.params, "is_response": c.is_resp}
    r.update(kw)
    return json.loads(json.dumps(r, default=lambda o: {"hex": bytes(o).hex()} if isinstance(o, (bytes, bytearray)) else repr(o)))


# ---------------------------------------------------------------------------
def pure_backend_results(cases):
    """re-run the implementation with the pure-python bitstruct in a second interpreter"""
    payload = []
    for c in cases:
        if c.obj is None:
            continue
        payload.append(dict(params=cc.to_json(c.params), is_resp=c.is_resp, name=c.name,
                            encs=[dict(value=cc.w_value(e["value"]), req=None if e["req"] is None else list(e["req"]))
                                  for e in c.encs],
                            decs=[list(d["msg"]) for d in c.decs]))
    env = dict(os.environ)
    env.update(common.impl_env())
    env["PYTHONPATH"] = common.REPO + ":" + os.path.join(common.ROOT, "harness")
    r = subprocess.run([common.PY, os.path.join(common.ROOT, "harness", "codec_pure_worker.py")],
                       input=json.dumps(payload), capture_output=True, text=True, env=env, timeout=3000)
    if r.returncode != 0:
        raise RuntimeError("pure backend worker failed: " + r.stderr[-1500:])
    return json.loads(r.stdout)


def wide_ints(params):
    """descriptions with integer objects over 64 bits (listed backend difference) -- incl. dynamic sizes"""
    return has_kind(params, ("paramlen",))


# ---------------------------------------------------------------------------
def main(pid, argv=None):
    ck = Check(pid, argv)
    ck.prologue()
    rng = ck.rng
    quick = ck.tier == "quick"
    n_desc = {"C01": 220, "C02": 160, "C03": 200, "C04": 220, "C05": 160, "C08": 260, "C17": 120}[pid]
    if not quick:
        n_desc *= 12
    vps = {"C01": (4, 2, 0), "C02": (3, 2, 0), "C03": (3, 1, 0), "C04": (2, 4, 3), "C05": (2, 1, 0),
           "C08": (3, 1, 1), "C17": (2, 2, 1)}[pid]
    budget = {"C05": 120, "C03": 10, "C02": 30}.get(pid, 12)
    doc_level = False
    if ck.replay:
        rp = json.load(open(ck.replay))["replay"]

        def unhex(o):
            if isinstance(o, dict):
                if set(o) == {"hex"}:
                    return bytes.fromhex(o["hex"])
                return {k: unhex(v) for k, v in o.items()}
            if isinstance(o, list):
                return [unhex(x) for x in o]
            return o

        rp = unhex(rp)
        if "params" not in rp:
            # a violation found by one of the document-level oracles (shipped example, multiplexer document, CLI, corpora)
            cases = []
            doc_level = True
        else:
            cases = cr.build_cases(rng, 0, extra_descs=[(rp["params"], rp.get("is_response", False), None)])
        c = cases[0] if cases else None
        if c is not None and c.obj is not None:
            if "value" in rp:
                c.encs.append(dict(value=rp["value"], req=rp.get("req"), stream="replay",
                                   impl=cc.impl_encode(c.obj, rp["value"], rp.get("req"))))
            if "msg" in rp:
                c.decs.append(dict(msg=rp["msg"], origin="canonical" if rp.get("canonical") else "replay",
                                   impl=cc.impl_decode(c.obj, rp["msg"])))
    else:
        extra = []
        if pid in ("C01", "C02", "C04"):
            # a response mirroring the LAST two bytes of the request (negative REQUEST-BYTE-POS), and the last byte only
            for rp, ln in ((-2, 2), (-1, 1), (-3, 2)):
                extra.append(([cc.param("sid", dict(k="coded", dct=cc.std(cc.BUINT, 8), v=0x62)),
                               cc.param("did", dict(k="matchreq", rqpos=rp, len=ln)),
                               cc.param("p3", dict(k="value", dop=cc.simple(cc.std(cc.BUINT, 8)), dflt=None))], True, None))
        if pid == "C08":
            # corpus: the recorded finding 'prefix-out-of-order'
            extra.append(([cc.param("p3", dict(k="coded", dct=cc.std(cc.BUINT, 4), v=7), 5),
                           cc.param("p1", dict(k="coded", dct=cc.std(cc.BUINT, 16), v=14281), 0),
                           cc.param("p2", dict(k="value", dop=cc.simple(cc.std(cc.BUINT, 8, 2, False)), dflt=None), 3, 6)],
                          False, None))
            # corpus: the recorded finding 'prefix-shares-byte'
            extra.append(([cc.param("p1", dict(k="coded", dct=cc.std(cc.BUINT, 16), v=32911), 0, 4),
                           cc.param("p2", dict(k="value", dop=cc.simple(cc.std(cc.BUINT, 3)), dflt=None), 2)],
                          False, None))
            # corpus: the constant part ends with a terminated MIN-MAX constant which is the last object of the PDU (no
            # terminator on the wire), and the same in front of a value
            mmc = lambda: cc.param("c", dict(k="physconst", dop=cc.simple(cc.minmax(cc.BBYTES, 0, 6, 0)), v=b"AB"))
            extra.append(([cc.param("sid", dict(k="coded", dct=cc.std(cc.BUINT, 8), v=0x31)), mmc()], False, None))
            extra.append(([cc.param("sid", dict(k="coded", dct=cc.std(cc.BUINT, 8), v=0x31)), mmc(),
                           cc.param("p3", dict(k="value", dop=cc.simple(cc.std(cc.BUINT, 8)), dflt=None))], False, None))
            # corpus: a response mirroring the LAST two bytes of the request (negative REQUEST-BYTE-POS)
            extra.append(([cc.param("sid", dict(k="coded", dct=cc.std(cc.BUINT, 8), v=0x62)),
                           cc.param("did", dict(k="matchreq", rqpos=-2, len=2)),
                           cc.param("p3", dict(k="value", dop=cc.simple(cc.std(cc.BUINT, 8)), dflt=None))], True, None))
            # corpus: a response mirroring two request bytes (asked with requests ending inside the mirrored range)
            extra.append(([cc.param("sid", dict(k="coded", dct=cc.std(cc.BUINT, 8), v=0x62)),
                           cc.param("did", dict(k="matchreq", rqpos=1, len=2)),
                           cc.param("p3", dict(k="value", dop=cc.simple(cc.std(cc.BUINT, 8)), dflt=None))], True, None))
        cases = cr.build_cases(rng, n_desc, values_per_stream=vps, decode_budget=budget, want_static=(pid == "C08"),
                               extra_descs=extra, use_corpus=True)
    if pid in ("C04", "C01", "C02") and not ck.replay:
        try:
            sweep = cr.atomic_sweep_cases(rng, quick)
            ck.coverage["atomic_sweep_descriptions"] = len(sweep)
            cases = sweep + cases
        except Exception as e:  # noqa
            ck.note_broken(f"atomic sweep could not be loaded: {e}")
    model_ok = ck.model_available()
    if model_ok:
        try:
            cr.run_model(cases, ck, coq_sample=30 if quick else 150)
        except Exception as e:  # noqa
            ck.note_broken(f"model execution failed: {e}")
            model_ok = False
    else:
        ck.note_broken("model not built (Run.vo / extracted driver missing)")

    feats = {}
    nload = 0
    for c in cases:
        if c.obj is None:
            nload += 1
            continue
        desc_features(c.params, feats)
    ck.coverage.setdefault("distribution", {})["description_features"] = feats
    ck.coverage["descriptions"] = len(cases)
    ck.coverage["descriptions_rejected_by_loader"] = nload

    pure = None
    if pid == "C02":
        try:
            pure = {r["name"]: r for r in pure_backend_results(cases)}
        except Exception as e:  # noqa
            ck.note_broken(f"pure-python backend run failed: {e}")

    ndis = 0
    for c in cases:
        if c.obj is None:
            continue
        # ---------------- encode side
        if pid in ("C01", "C02", "C03", "C04", "C08", "C17"):
            for ei, e in enumerate(c.encs):
                ck.count(("e", json.dumps(c.params, default=repr), repr(e["value"]), e["req"]))
                impl = e["impl"]
                ck.hist("encode_outcome", "ok" if impl[0] == 0 else {1: "rejected", 5: "foreign", 8: "hang"}.get(impl[1], impl[1]))
                ck.hist("value_stream", e["stream"])
                bad = None
                # --- direct oracles
                if impl[:2] == [-1, 5] or impl[:2] == [-1, 8]:
                    if pid in ("C04", "C01", "C02"):
                        bad = f"encoding raised a foreign exception ({impl[2] if len(impl) > 2 else 'hang'})"
                elif impl[0] == 0 and pid in ("C01", "C04", "C03"):
                    pdu = bytes(impl[1])
                    short = [p for p in c.params if p["kind"]["k"] == "matchreq" and e["req"] is not None and
                             (mr_pos(p["kind"], e["req"]) < 0 or len(e["req"]) < mr_pos(p["kind"], e["req"]) + p["kind"]["len"])]
                    if short and pid == "C04":
                        bad = (f"a PDU ({pdu.hex()}) was produced although the triggering request {bytes(e['req']).hex()!r} "
                               f"does not contain the bytes which {short[0]['name']} mirrors")
                    if bad is None and not impl[2] and isinstance(e["value"], dict):
                        dec = cc.impl_decode(c.obj, pdu)
                        exempt = roundtrip_exempt(c.params, e["value"])
                        ck.hist("roundtrip", "exempt:" + exempt if exempt else "checked")
                        if not exempt:
                            if dec[0] != 0:
                                bad = f"the encoded PDU {pdu.hex()} does not decode (outcome {dec})"
                            else:
                                got = cc.unw_value(dec[1])
                                want = expected_values(c.params, e["value"], e["req"])
                                if not deep_subset(want, got):
                                    bad = (f"decode(encode(v)) differs from v: PDU {pdu.hex()} decodes to "
                                           f"{got!r}, expected at least {want!r}")
                                elif pid == "C01" and not any(k in desc_features(c.params) for k in
                                                              ("byte-size", "explicit-bytepos", "dop-static")):
                                    # (padding and explicitly positioned objects need not be read last)
                                    try:
                                        if not decode_reads_all(c.obj, pdu):
                                            bad = f"decoding does not consume the whole PDU {pdu.hex()}"
                                    except Exception:  # noqa
                                        pass
                        if bad is None and pid == "C03" and dec[0] == 0 and not has_kind(c.params, ("nrc",)) \
                                and not exempt and not mux_noncanonical(c.params, e["value"]):
                            # decode -> encode must reproduce the PDU
                            d = cc.unw_value(dec[1])
                            re_enc = cc.impl_encode(c.obj, d, e["req"])
                            if re_enc[0] != 0 or bytes(re_enc[1]) != pdu:
                                bad = (f"re-encoding the decoded values of {pdu.hex()} gives "
                                       f"{bytes(re_enc[1]).hex() if re_enc[0] == 0 else re_enc}")
                if bad:
                    kf = ck.match_known(known_tags(c, e, bad))
                    if kf:
                        ck.known_finding(kf["id"], kf["what"])
                    else:
                        ck.violation(bad, rep(c, value=e["value"], req=e["req"], impl=impl))
                    continue
                if pure is not None and not wide_ints(c.params):
                    pi = pure[c.name]["encs"][ei]
                    if cr.norm_enc_impl(pi) != cr.norm_enc_impl(impl):
                        kf = ck.match_known(known_tags(c, e, "backend"))
                        if kf:
                            ck.known_finding(kf["id"], kf["what"])
                        else:
                            ck.violation(f"bitstruct.c and pure-python bitstruct disagree: {impl} vs {pi}",
                                         rep(c, value=e["value"], req=e["req"], impl=impl, impl_pure=pi))
                        continue
                if model_ok and "model" in e and cr.norm_enc_impl(impl) != cr.norm_enc_model(e["model"]):
                    ndis += 1
                    ck.violation("implementation and model disagree on an encoding; the direct oracle found no failing input here",
                                 rep(c, value=e["value"], req=e["req"], impl=impl, model=e["model"],
                                     broken="correspondence Codec.encode_msg vs Request/Response.encode"),
                                 found_input=False)
                if len(ck.coverage["samples"]) < 4 and impl[0] == 0 and len(c.params) >= 2:
                    ck.sample(rep(c, value=e["value"], pdu=bytes(impl[1]).hex()))
        # ---------------- decode side
        if pid in ("C01", "C02", "C03", "C05", "C17"):
            sb = None
            feats_c = desc_features(c.params)
            if pid == "C05":
                st = cc.impl_static(c.obj)
                sb = st[0][0] if isinstance(st, list) and len(st) == 4 and st[0] else None
            for di, d in enumerate(c.decs):
                if pid == "C03" and d["origin"] == "canonical":
                    # a canonical PDU decodes, and the decoded values encode to it again
                    ck.count(("canon", json.dumps(c.params, default=repr), d["msg"]))
                    impl = d["impl"]
                    bad = None
                    if impl[0] != 0:
                        bad = f"the canonical PDU {bytes(d['msg']).hex()} does not decode (outcome {impl})"
                    else:
                        re_enc = cc.impl_encode(c.obj, cc.unw_value(impl[1]), None)
                        if re_enc[0] != 0 or bytes(re_enc[1]) != bytes(d["msg"]):
                            bad = (f"the canonical PDU {bytes(d['msg']).hex()} decodes to {cc.unw_value(impl[1])!r}, which re-encodes to "
                                   f"{bytes(re_enc[1]).hex() if re_enc[0] == 0 else re_enc}")
                    if bad:
                        ck.violation(bad, rep(c, msg=d["msg"], impl=impl, canonical=True))
                    continue
                if pid in ("C01", "C03") and d["origin"] != "own":
                    continue
                ck.count(("d", json.dumps(c.params, default=repr), d["msg"]))
                impl = d["impl"]
                ck.hist("decode_outcome", "ok" if impl[0] == 0 else {2: "DecodeError", 3: "DecodeMismatch", 4: "OdxError",
                                                                    5: "foreign", 8: "hang"}.get(impl[1], impl[1]))
                ck.hist("decode_input", d["origin"])
                bad = None
                if pid in ("C05", "C02"):
                    if impl[0] != 0 and impl[1] == 4 and "illegal-encoding" in feats_c:
                        pass  # the description itself is rejected (odxraise for an illegal encoding)
                    elif impl[0] != 0 and impl[1] in (4, 5, 8):
                        bad = {4: "decoding raised an OdxError which is not a DecodeError",
                               5: f"decoding raised a foreign exception ({impl[2] if len(impl) > 2 else ''})",
                               8: "decoding does not terminate"}[impl[1]]
                    elif pid == "C05" and impl[0] == 0 and sb is not None and 8 * len(d["msg"]) < sb \
                            and not any(k in feats_c for k in ("explicit-bytepos", "byte-size", "dop-static")):
                        # (trailing BYTE-SIZE / ITEM-BYTE-SIZE padding carries no values and is not checked by the decoder)
                        bad = (f"a PDU of {len(d['msg'])} bytes was decoded although the description needs "
                               f"{sb // 8} bytes")
                if bad:
                    kf = ck.match_known(known_tags(c, d, bad))
                    if kf:
                        ck.known_finding(kf["id"], kf["what"])
                    else:
                        ck.violation(bad, rep(c, msg=d["msg"], impl=impl))
                    continue
                if pure is not None and not wide_ints(c.params):
                    pi = pure[c.name]["decs"][di]
                    if cr.norm_dec(pi) != cr.norm_dec(impl):
                        ck.violation(f"bitstruct.c and pure-python bitstruct disagree on decoding: {impl} vs {pi}",
                                     rep(c, msg=d["msg"], impl=impl, impl_pure=pi))
                        continue
                if model_ok and "model" in d and cr.norm_dec(impl) != cr.norm_dec(d["model"]):
                    ndis += 1
                    ck.violation("implementation and model disagree on a decoding; the direct oracle found no failing input here",
                                 rep(c, msg=d["msg"], impl=impl, model=d["model"],
                                     broken="correspondence Codec.decode_msg vs Request/Response.decode"),
                                 found_input=False)
        # ---------------- static descriptions
        if pid == "C08" and c.static is not None:
            check_static(ck, c, model_ok)
        if pid == "C17":
            check_modes(ck, c)
    ck.coverage["disagreements"] = ndis
    if pid in ("C01", "C02") and (not ck.replay or doc_level):
        unmodelled_composites_roundtrip(ck)
        unmodelled_composites_roundtrip2(ck)
    if pid == "C05" and (not ck.replay or doc_level):
        somersault_decode(ck)
        unmodelled_composites_decode(ck)
        snoop_sequences(ck)
        ratfunc_pole_probe(ck, pid)
        float_special_probe(ck)
    if pid == "C03" and (not ck.replay or doc_level):
        real_valued_reencode(ck)
    if pid == "C04" and (not ck.replay or doc_level):
        table_envdata_reject_probe(ck)
        condensed_encode_probe(ck)
        ratfunc_pole_probe(ck, pid)
    if pid == "C17" and (not ck.replay or doc_level):
        cli_mode_restore(ck)
        cli_mode_during(ck)
        mode_schedules_unmodelled(ck)
        layer_mode_schedules(ck)
    if pid == "C08" and (not ck.replay or doc_level):
        condensed_mask_corpus(ck)
        system_params_static(ck)
    if pid == "C02" and (not ck.replay or doc_level):
        wide_integer_corpus(ck)
    ck.assumptions = [
        "round-trip oracles exempt value assignments for which ODX promises no round trip: objects with a BIT-MASK "
        "(masked bits are dropped by definition), non-injective compu methods, encodings which issued an overlap warning",
        "values: int / bytes / str / dict / list / None (bool and float values are outside the model)",
    ]
    ck.finish(
        trusted_base=TB,
        rule="random mostly-valid description trees (parameter kinds, 4 diag-coded types, int/bytes/string base types, encodings, "
        "byte orders, bit lengths weighted to 1..16/24/31..33/63..64, bit positions 0..7, explicit/implicit/backward byte positions, "
        "nesting <= 3, BYTE-SIZE smaller/equal/larger, fields with 0..3 items) x value streams valid/boundary/ill-typed, "
        "byte strings = own encodings, their prefixes and single-byte mutations, random strings; distinct by (description, input); "
        "non-trivial = every case (each has at least one parameter or a non-empty input)")


def cli_mode_restore(ck):
    """the command line front end switches the mode for one tool run and must restore it, also when the tool fails"""
    import contextlib
    import io
    import sys as _sys
    import odxtools.exceptions as ex
    from odxtools.cli import main as cli_main
    for start_mode, argv in ((True, ["odxtools", "--no-strict", "list", "/nonexistent/file.pdx"]),
                             (False, ["odxtools", "list", "/nonexistent/file.pdx"]),
                             (True, ["odxtools", "--no-strict", "list", common.REPO + "/examples/somersault.pdx"])):
        ex.strict_mode = start_mode
        old_argv = _sys.argv
        _sys.argv = argv
        try:
            with contextlib.redirect_stdout(io.StringIO()), contextlib.redirect_stderr(io.StringIO()):
                try:
                    cli_main.start_cli()
                except BaseException:  # noqa
                    pass
        finally:
            _sys.argv = old_argv
        after = ex.strict_mode
        ex.strict_mode = True
        ck.count(("cli", tuple(argv), start_mode))
        if after != start_mode:
            ck.violation(f"strict mode is {after} after running the command line {' '.join(argv[1:])} "
                         f"with strict mode {start_mode} before", {"argv": argv, "strict_mode_before": start_mode})


def cli_mode_during(ck):
    """the mode in which a tool runs is what the command line says -- strict unless --no-strict is given -- whatever
    mode the calling program was in (and that one is restored afterwards)"""
    import contextlib
    import io
    import sys as _sys
    import odxtools.exceptions as ex
    from odxtools.cli import main as cli_main
    import odxtools.cli.list as list_tool
    seen = []
    orig_run = list_tool.run
    list_tool.run = lambda args: seen.append(ex.strict_mode)
    try:
        for start_mode in (True, False):
            for flag in ((), ("--no-strict",)):
                argv = ["odxtools", *flag, "list", common.REPO + "/examples/somersault.pdx"]
                ex.strict_mode = start_mode
                old_argv = _sys.argv
                _sys.argv = argv
                seen.clear()
                try:
                    with contextlib.redirect_stdout(io.StringIO()), contextlib.redirect_stderr(io.StringIO()):
                        try:
                            cli_main.start_cli()
                        except BaseException:  # noqa
                            pass
                finally:
                    _sys.argv = old_argv
                after = ex.strict_mode
                ex.strict_mode = True
                ck.count(("cli-during", tuple(argv), start_mode))
                want = not flag
                if seen != [want] or after != start_mode:
                    ck.violation(f"command line {' '.join(argv[1:])} called while strict mode is {start_mode}: the tool ran with strict mode "
                                 f"{seen} (the command line says {want}), afterwards the mode is {after}",
                                 {"argv": argv, "strict_mode_before": start_mode})
    finally:
        list_tool.run = orig_run
        ex.strict_mode = True


def mode_schedules_unmodelled(ck):
    """C17 (oracle only) on descriptions the codec model does not cover: float objects whose BIT-LENGTH contradicts
    their base type (a problem reported in strict mode and tolerated in lenient mode) and valid ones, the multiplexer
    and code-page requests of the C05 document; every operation under the schedule strict, lenient, strict, lenient,
    strict: all strict outcomes are identical (a lenient run repairs nothing for good), a lenient outcome equals the
    strict one whenever that succeeded, and the static lengths never change"""
    import logging
    import hier_common as hc
    import odxtools.exceptions as ex

    def fdop(name, bt, bits):
        return (f'<DATA-OBJECT-PROP ID="{name}"><SHORT-NAME>{name}</SHORT-NAME><COMPU-METHOD><CATEGORY>IDENTICAL</CATEGORY></COMPU-METHOD>'
                f'<DIAG-CODED-TYPE BASE-DATA-TYPE="{bt}" xsi:type="STANDARD-LENGTH-TYPE"><BIT-LENGTH>{bits}</BIT-LENGTH></DIAG-CODED-TYPE>'
                f'<PHYSICAL-TYPE BASE-DATA-TYPE="{bt}"/></DATA-OBJECT-PROP>')
    fl = [("f32_16", "A_FLOAT32", 16), ("f32_32", "A_FLOAT32", 32), ("f64_32", "A_FLOAT64", 32), ("f64_64", "A_FLOAT64", 64),
          ("f32_64", "A_FLOAT32", 64)]
    dops = "".join(fdop(*x) for x in fl)
    # a text table in which two scales carry the same text: encoding that text is ambiguous (a strict-only problem)
    dops += ('<DATA-OBJECT-PROP ID="tt"><SHORT-NAME>tt</SHORT-NAME><COMPU-METHOD><CATEGORY>TEXTTABLE</CATEGORY><COMPU-INTERNAL-TO-PHYS><COMPU-SCALES>'
             + "".join(f'<COMPU-SCALE><LOWER-LIMIT>{i}</LOWER-LIMIT><UPPER-LIMIT>{i}</UPPER-LIMIT><COMPU-CONST><VT>{t}</VT></COMPU-CONST></COMPU-SCALE>'
                       for i, t in enumerate(("off", "on", "on", "auto"))) +
             '</COMPU-SCALES></COMPU-INTERNAL-TO-PHYS></COMPU-METHOD>'
             '<DIAG-CODED-TYPE BASE-DATA-TYPE="A_UINT32" xsi:type="STANDARD-LENGTH-TYPE"><BIT-LENGTH>8</BIT-LENGTH></DIAG-CODED-TYPE>'
             '<PHYSICAL-TYPE BASE-DATA-TYPE="A_UNICODE2STRING"/></DATA-OBJECT-PROP>')
    # piecewise linear with a gap between the scales and a COMPU-DEFAULT-VALUE for internal values which no scale covers
    dops += ('<DATA-OBJECT-PROP ID="sl_dflt"><SHORT-NAME>sl_dflt</SHORT-NAME><COMPU-METHOD><CATEGORY>SCALE-LINEAR</CATEGORY><COMPU-INTERNAL-TO-PHYS><COMPU-SCALES>'
             + "".join(f'<COMPU-SCALE><LOWER-LIMIT>{lo}</LOWER-LIMIT><UPPER-LIMIT>{hi}</UPPER-LIMIT><COMPU-RATIONAL-COEFFS><COMPU-NUMERATOR>'
                       f'<V>{off}</V><V>{f}</V></COMPU-NUMERATOR><COMPU-DENOMINATOR><V>1</V></COMPU-DENOMINATOR></COMPU-RATIONAL-COEFFS></COMPU-SCALE>'
                       for lo, hi, off, f in ((0, 9, 0, 1), (20, 29, 100, 2))) +
             '</COMPU-SCALES><COMPU-DEFAULT-VALUE><V>999</V></COMPU-DEFAULT-VALUE></COMPU-INTERNAL-TO-PHYS></COMPU-METHOD>'
             '<DIAG-CODED-TYPE BASE-DATA-TYPE="A_UINT32" xsi:type="STANDARD-LENGTH-TYPE"><BIT-LENGTH>8</BIT-LENGTH></DIAG-CODED-TYPE>'
             '<PHYSICAL-TYPE BASE-DATA-TYPE="A_UINT32"/></DATA-OBJECT-PROP>')
    fl = fl + [("tt", None, None), ("sl_dflt", None, None)]
    reqs = "".join(
        f'<REQUEST ID="rq_{n}"><SHORT-NAME>rq_{n}</SHORT-NAME><PARAMS><PARAM xsi:type="CODED-CONST"><SHORT-NAME>sid</SHORT-NAME>'
        f'<BYTE-POSITION>0</BYTE-POSITION><CODED-VALUE>{0x50 + i}</CODED-VALUE><DIAG-CODED-TYPE BASE-DATA-TYPE="A_UINT32" '
        'xsi:type="STANDARD-LENGTH-TYPE"><BIT-LENGTH>8</BIT-LENGTH></DIAG-CODED-TYPE></PARAM>'
        f'<PARAM xsi:type="VALUE"><SHORT-NAME>v</SHORT-NAME><BYTE-POSITION>1</BYTE-POSITION><DOP-REF ID-REF="{n}"/></PARAM>'
        '<PARAM xsi:type="CODED-CONST"><SHORT-NAME>tail</SHORT-NAME><CODED-VALUE>170</CODED-VALUE><DIAG-CODED-TYPE BASE-DATA-TYPE="A_UINT32" '
        'xsi:type="STANDARD-LENGTH-TYPE"><BIT-LENGTH>8</BIT-LENGTH></DIAG-CODED-TYPE></PARAM></PARAMS></REQUEST>'
        for i, (n, _bt, _b) in enumerate(fl))
    doc = ('<?xml version="1.0" encoding="UTF-8"?><ODX MODEL-VERSION="2.2.0" xmlns:xsi="http://www.w3.org/2001/XMLSchema-instance">'
           '<DIAG-LAYER-CONTAINER ID="DLC"><SHORT-NAME>DLC</SHORT-NAME><BASE-VARIANTS><BASE-VARIANT ID="BV"><SHORT-NAME>BV</SHORT-NAME>'
           f'<DIAG-DATA-DICTIONARY-SPEC><DATA-OBJECT-PROPS>{dops}</DATA-OBJECT-PROPS></DIAG-DATA-DICTIONARY-SPEC>'
           f'<REQUESTS>{reqs}</REQUESTS></BASE-VARIANT></BASE-VARIANTS></DIAG-LAYER-CONTAINER></ODX>')
    ops = []  # (label, replay, thunk)
    try:
        ex.strict_mode = False  # (descriptions with such problems only load in lenient mode, if at all)
        logging.getLogger("odxtools").disabled = True
        try:
            raw = hc.load_docs([doc]).diag_layers[0].diag_layer_raw
            raw2 = hc.load_docs([UNMODELLED_DOC]).diag_layers[0].diag_layer_raw
        finally:
            ex.strict_mode = True
            logging.getLogger("odxtools").disabled = False
    except Exception as e:  # noqa
        ck.note_broken(f"cannot load the documents of the mode schedules: {type(e).__name__}: {e}")
        return
    for rq in raw.requests:
        n = rq.short_name
        for v in (("on", "off", "auto", "nope", "on") if n == "rq_tt" else (1.5, 0.0)):
            ops.append((f"{n}.encode(v={v!r})", {"request": n, "value": v}, lambda rq=rq, v=v: bytes(rq.encode(v=v)).hex()))
        for m in (bytes([rq.parameters[0].coded_value]) + bytes(range(1, 10)), bytes([rq.parameters[0].coded_value, 0x3F, 0xC0, 0xAA]),
                  bytes([rq.parameters[0].coded_value, 0x15, 0xAA])):
            ops.append((f"{n}.decode({m.hex()})", {"request": n, "msg": m.hex()}, lambda rq=rq, m=m: repr(cc.canon_value(rq.decode(m)))))
        ops.append((f"{n}.get_static_bit_length()", {"request": n}, lambda rq=rq: rq.get_static_bit_length()))
        ops.append((f"{n}.v.dop.get_static_bit_length()", {"request": n}, lambda rq=rq: rq.parameters[1].dop.get_static_bit_length()))
    for rq in raw2.requests:
        sid = bytes(rq.coded_const_prefix())
        for t in (b"", b"\x01", b"\x01\x02\x03", b"\x81\x41\x41\xd8", b"\x02\xff"):
            ops.append((f"{rq.short_name}.decode({(sid + t).hex()})", {"document": "UNMODELLED_DOC", "request": rq.short_name, "msg": (sid + t).hex()},
                        lambda rq=rq, m=sid + t: repr(cc.canon_value(rq.decode(m)))))

    def run(thunk, strict):
        ex.strict_mode = strict
        logging.getLogger("odxtools").disabled = not strict
        try:
            r, e, _ = cc.guarded(thunk, timeout=5)
        finally:
            ex.strict_mode = True
            logging.getLogger("odxtools").disabled = False
        return ("ok", r) if e is None else ("error", type(e).__name__)
    n = 0
    for label, rp, thunk in ops:
        outs = [run(thunk, m) for m in (True, False, True, False, True)]
        n += 1
        ck.count(("schedule", label))
        ck.hist("mode_pair", f"strict={outs[0][0]} lenient={outs[1][0]}")
        bad = None
        if outs[2] != outs[0] or outs[4] != outs[0]:
            bad = f"strict outcomes differ along the schedule strict, lenient, strict, lenient, strict: {outs}"
        elif outs[0][0] == "ok" and (outs[1] != outs[0] or outs[3] != outs[0]):
            bad = f"succeeds in strict mode with {outs[0][1]!r} but lenient mode gives {outs[1]} / {outs[3]}"
        if bad:
            ck.violation(f"{label}: {bad}", dict(rp, schedule=True))
    ck.coverage["schedule_operations"] = n


def layer_mode_schedules(ck):
    """C17 at the level of a diagnostic layer (the message level is check_modes): DiagLayer.decode / decode_response
    on generated layers (C06's generator: shared prefixes, NRC-CONST, several negative responses, global negative
    responses) under strict, lenient, strict -- what succeeds in strict mode is returned identically in lenient mode,
    and re-enabling strict mode restores the strict outcome"""
    import logging
    import c06
    import odxtools.exceptions as ex
    rng = ck.rng
    quick = ck.tier == "quick"
    nrc = lambda vs: cc.param(None, dict(k="nrc", dct=cc.std(cc.BUINT, 8, None, True), vs=vs))
    u8v = cc.param(None, dict(k="value", dop=cc.simple(cc.std(cc.BUINT, 8)), dflt=None))
    # corpus: two negative responses of one service which differ by their NRC-CONST values only
    Ln = dict(services=[dict(id=1, name="svc1", req=dict(id=1, name="rq1", params=c06.named([c06.u8(0x30), u8v], "a"), resp=False), pos=[],
                             neg=[dict(id=2, name="nr_general", params=c06.named([c06.u8(0x7F), c06.u8(0x30), nrc([0x10, 0x11])], "b"), resp=True),
                                  dict(id=3, name="nr_range", params=c06.named([c06.u8(0x7F), c06.u8(0x30), nrc([0x31])], "c"), resp=True)])], gnrs=[])
    layers = [(Ln, [(bytes([0x7F, 0x30, 0x31]), None), (bytes([0x7F, 0x30, 0x10]), None), (bytes([0x7F, 0x30, 0x31]), bytes([0x30, 5])),
                    (bytes([0x7F, 0x30, 0x99]), None), (bytes([0x30, 7]), None)])]
    # corpus: a layer with a single service and a global negative response; messages only the latter decodes (one
    # candidate service, nothing to disambiguate -- the result still is the strict one)
    Lg = dict(services=[dict(id=1, name="svc1", req=dict(id=1, name="rq1", params=c06.named([c06.u8(0x10), u8v], "a"), resp=False),
                             pos=[dict(id=2, name="pr1", params=c06.named([c06.u8(0x50), u8v], "b"), resp=True)], neg=[])],
              gnrs=[dict(id=3, name="gn1", params=c06.named([c06.u8(0x7F), u8v, u8v], "g"), resp=True)])
    layers.append((Lg, [(bytes([0x7F, 0x10, 0x22]), None), (bytes([0x7F, 0x01, 0x02, 0x03]), None), (bytes([0x7F, 0x10, 0x22]), bytes([0x10, 1])),
                        (bytes([0x50, 1]), None), (bytes([0x10]), None), (bytes([0x7F, 0x10]), None)]))
    # corpus: a request whose value object carries an encoding which is illegal for its type (A_UINT32 with ISO-8859-1): a
    # problem which strict mode reports as a plain OdxError, not as a decode error
    bad_enc = cc.param(None, dict(k="value", dop=cc.simple(cc.std(cc.BUINT, 8, 8)), dflt=None))
    Li = dict(services=[dict(id=1, name="svc1", req=dict(id=1, name="rq1", params=c06.named([c06.u8(0x2A), bad_enc], "a"), resp=False),
                             pos=[dict(id=2, name="pr1", params=c06.named([c06.u8(0x6A), bad_enc], "b"), resp=True)], neg=[])], gnrs=[])
    layers.append((Li, [(bytes([0x2A, 0x41]), None), (bytes([0x6A, 0x41]), None), (bytes([0x6A, 0x41]), bytes([0x2A, 0x41])), (bytes([0x2A]), None)]))
    # corpus (recorded finding prefix-tree-mode-cached): beside a healthy service, a service whose CODED-CONST does not fit
    # its bit length (511 in 8 bits)
    misfit = cc.param(None, dict(k="coded", dct=cc.std(cc.BUINT, 8), v=511))
    Lb = dict(services=[dict(id=1, name="svc1", req=dict(id=1, name="rq1", params=c06.named([c06.u8(0x10), u8v], "a"), resp=False), pos=[], neg=[]),
                        dict(id=2, name="svc2", req=dict(id=2, name="rq2", params=c06.named([misfit, u8v], "b"), resp=False), pos=[], neg=[])],
              gnrs=[], finding="prefix-tree-mode-cached")
    layers.append((Lb, [(bytes([0x10, 5]), None)]))
    for _ in range(12 if quick else 120):
        layers.append((c06.gen_layer(rng), None))
    n = 0
    for L, msgs in layers:
        try:
            ex.strict_mode = "finding" not in L   # (a description with such a fault only loads in non-strict mode)
            try:
                layer = c06.load_layer(L)
            finally:
                ex.strict_mode = True
        except Exception:  # noqa
            continue
        idmap = c06.ids_of(L)
        if msgs is None:
            msgs = []
            for s in L["services"]:
                for c in ([s["req"]] if s["req"] else []) + s["pos"] + s["neg"]:
                    pre = bytearray()
                    for p in c["params"]:
                        kd = p["kind"]
                        if kd["k"] == "coded":
                            pre.append(kd["v"] & 0xFF)
                        elif kd["k"] == "nrc":
                            for v in kd["vs"][:2]:
                                msgs.append((bytes(pre) + bytes([v, 1, 2]), None))
                            pre.append(kd["vs"][-1])
                        else:
                            break
                    for tail in (b"", b"\x01", b"\x01\x02\x03"):
                        msgs.append((bytes(pre) + tail, None))
            msgs = msgs[:40]
        for m, rq in msgs:
            n += 1
            ck.count(("layer-mode", json.dumps(L, default=repr), bytes(m), rq))
            def svc_decode(svc):
                r, e, _ = cc.guarded(lambda: svc.decode_message(bytes(m)))
                if e is not None:
                    return cc.classify_exc(e)[:2]
                return [0, [idmap[svc.short_name], 0 if r.coding_object is None else idmap[r.coding_object.odx_id.local_id],
                            cc.canon_value(r.param_dict)]]
            # the layer as a whole, and each of its services on its own (DiagService.decode_message)
            ops = [("layer", lambda: c06.impl_decode(layer, idmap, m, rq))]
            if rq is None:
                ops += [(f"service {svc.short_name}", lambda svc=svc: svc_decode(svc)) for svc in layer.services]
            failed = False
            for what, op in ops:
                outs = []
                for strict in (True, False, True):
                    ex.strict_mode = strict
                    logging.getLogger("odxtools").disabled = not strict
                    try:
                        outs.append(op())
                    finally:
                        ex.strict_mode = True
                        logging.getLogger("odxtools").disabled = False
                bad = None
                if outs[2] != outs[0]:
                    bad = f"re-enabling strict mode does not restore the strict outcome: {outs[0]} vs {outs[2]}"
                elif outs[0][0] == 0 and outs[1] != outs[0]:
                    bad = f"decoding succeeds in strict mode with {outs[0]} but lenient mode gives {outs[1]}"
                elif outs[0][:2] == [-1, 4] and outs[1][:2] in ([-1, 4], [-1, 5]):
                    # a problem which is no decode error (the description itself is at fault) is reported in strict mode and
                    # tolerated in non-strict mode
                    bad = f"the problem reported in strict mode ({outs[0]}) is not downgraded in non-strict mode ({outs[1]})"
                kf = ck.match_known({L["finding"]}) if bad and "finding" in L and what == "layer" and outs[2] != outs[0] else None
                if kf:
                    ck.known_finding(kf["id"], kf["what"])
                    failed = True
                    break
                if bad:
                    ck.violation(f"{what}, message {bytes(m).hex()}" + (f" (request {bytes(rq).hex()})" if rq else "") + ": " + bad,
                                 {"layer": json.loads(json.dumps(L, default=repr)),
                                  "msg": bytes(m).hex(), "rq": None if rq is None else bytes(rq).hex(), "layer_level": True, "operation": what})
                    failed = True
                    break
            if failed:
                break
    ck.coverage["layer_mode_messages"] = n


def system_params_static(ck):
    """C08 (oracle only; SYSTEM parameters are not modelled): the parameters reported as required are exactly those whose
    omission makes encoding fail, the static length is the length of every encoding. SYSPARAM kinds: predefined ones
    (value taken from the operating system when omitted), the same words in another capitalisation (not predefined) and
    a custom kind"""
    import hier_common as hc
    u = lambda bits: ('<COMPU-METHOD><CATEGORY>IDENTICAL</CATEGORY></COMPU-METHOD>'
                      f'<DIAG-CODED-TYPE BASE-DATA-TYPE="A_UINT32" xsi:type="STANDARD-LENGTH-TYPE"><BIT-LENGTH>{bits}</BIT-LENGTH></DIAG-CODED-TYPE>'
                      '<PHYSICAL-TYPE BASE-DATA-TYPE="A_UINT32"/>')
    kinds = [("p_minute", "MINUTE"), ("p_Minute", "Minute"), ("p_day", "DAY"), ("p_year", "year"), ("p_odo", "ODOMETER")]
    params = ('<PARAM xsi:type="CODED-CONST"><SHORT-NAME>sid</SHORT-NAME><CODED-VALUE>46</CODED-VALUE>'
              '<DIAG-CODED-TYPE BASE-DATA-TYPE="A_UINT32" xsi:type="STANDARD-LENGTH-TYPE"><BIT-LENGTH>8</BIT-LENGTH></DIAG-CODED-TYPE></PARAM>'
              + "".join(f'<PARAM xsi:type="SYSTEM" SYSPARAM="{k}"><SHORT-NAME>{n}</SHORT-NAME><DOP-REF ID-REF="u16"/></PARAM>' for n, k in kinds)
              + '<PARAM xsi:type="VALUE"><SHORT-NAME>v</SHORT-NAME><DOP-REF ID-REF="u8"/></PARAM>'
              '<PARAM xsi:type="VALUE"><SHORT-NAME>w</SHORT-NAME><PHYSICAL-DEFAULT-VALUE>7</PHYSICAL-DEFAULT-VALUE><DOP-REF ID-REF="u8"/></PARAM>')
    doc = ('<?xml version="1.0" encoding="UTF-8"?><ODX MODEL-VERSION="2.2.0" xmlns:xsi="http://www.w3.org/2001/XMLSchema-instance">'
           '<DIAG-LAYER-CONTAINER ID="DLC"><SHORT-NAME>DLC</SHORT-NAME><BASE-VARIANTS><BASE-VARIANT ID="BV"><SHORT-NAME>BV</SHORT-NAME>'
           f'<DIAG-DATA-DICTIONARY-SPEC><DATA-OBJECT-PROPS><DATA-OBJECT-PROP ID="u8"><SHORT-NAME>u8</SHORT-NAME>{u(8)}</DATA-OBJECT-PROP>'
           f'<DATA-OBJECT-PROP ID="u16"><SHORT-NAME>u16</SHORT-NAME>{u(16)}</DATA-OBJECT-PROP></DATA-OBJECT-PROPS></DIAG-DATA-DICTIONARY-SPEC>'
           f'<REQUESTS><REQUEST ID="rq"><SHORT-NAME>rq</SHORT-NAME><PARAMS>{params}</PARAMS></REQUEST></REQUESTS>'
           '</BASE-VARIANT></BASE-VARIANTS></DIAG-LAYER-CONTAINER></ODX>')
    try:
        rq = hc.load_docs([doc]).diag_layers[0].diag_layer_raw.requests[0]
    except Exception as e:  # noqa
        ck.note_broken(f"cannot load the SYSTEM parameter document: {type(e).__name__}: {e}")
        return
    rep_ = {"document": "harness/codec_checks.py system_params_static", "request": "rq"}
    full = {n: 10 + i for i, (n, _k) in enumerate(kinds)}
    full.update(v=5, w=6)
    required = sorted(p.short_name for p in rq.required_parameters)
    free = sorted(p.short_name for p in rq.free_parameters)
    ck.count(("sysparam", "static"))
    if free != sorted(full):
        ck.violation(f"free parameters reported {free}, the caller can set {sorted(full)}", rep_)
        return
    r, e, _ = cc.guarded(lambda: bytes(rq.encode(**full)))
    sb = rq.get_static_bit_length()
    if e is not None or sb != 8 * len(r):
        ck.violation(f"request with SYSTEM parameters: encoding {r!r} {e!r}, static bit length {sb}", rep_)
        return
    for n in sorted(full):
        ck.count(("sysparam", "omit", n))
        v2 = {k: x for k, x in full.items() if k != n}
        r2, e2, _ = cc.guarded(lambda: bytes(rq.encode(**v2)))
        fails = e2 is not None
        if fails != (n in required):
            ck.violation(f"parameter {n} is {'' if n in required else 'not '}reported as required, but encoding without it "
                         f"{'fails (' + type(e2).__name__ + ')' if fails else 'succeeds'}", dict(rep_, omitted=n))
            return
        if not fails and len(r2) * 8 != sb:
            ck.violation(f"static bit length {sb} reported but the encoding without {n} has {8 * len(r2)} bits", dict(rep_, omitted=n))
            return
    # exactly the reported required parameters suffice
    ck.count(("sysparam", "required-only"))
    r3, e3, _ = cc.guarded(lambda: bytes(rq.encode(**{k: full[k] for k in required})))
    if e3 is not None:
        ck.violation(f"encoding with exactly the parameters reported as required {required} fails: {type(e3).__name__}: {e3}", rep_)


def condensed_mask_corpus(ck):
    """corpus case of the recorded finding: condensed BIT-MASK, static length = popcount but BIT-LENGTH bits are emplaced"""
    xml = cc.emit_document([("rq", [cc.param("p1", dict(k="coded", dct=cc.std(cc.BUINT, 8), v=0x22)),
                                    cc.param("p2", dict(k="value", dop=cc.simple(cc.std(cc.BUINT, 16, mask=0x0FF0)), dflt=None),
                                             bitpos=2)], False)])
    xml = xml.replace('<BIT-MASK>FF0</BIT-MASK>', '<BIT-MASK>0FF0</BIT-MASK>').replace(
        'BASE-DATA-TYPE="A_UINT32" xsi:type="STANDARD-LENGTH-TYPE"><BIT-LENGTH>16',
        'BASE-DATA-TYPE="A_UINT32" IS-CONDENSED="true" xsi:type="STANDARD-LENGTH-TYPE"><BIT-LENGTH>16')
    import xml.etree.ElementTree as ET
    from odxtools.database import Database
    try:
        db = Database()
        db._process_xml_tree(ET.fromstring(xml))
        db.refresh()
        rq = db.diag_layers[0].diag_layer_raw.requests[0]
        sb = rq.get_static_bit_length()
        r = cc.impl_encode(rq, {"p2": 0x0AB0})
    except Exception as e:  # noqa
        ck.violation(f"condensed bit mask corpus case failed to load: {e}", {"xml": xml})
        return
    ck.count(("condensed", xml))
    if r[0] == 0 and sb is not None and 8 * len(r[1]) != sb:
        kf = ck.match_known({"condensed-bit-mask", "static length"})
        if kf:
            ck.known_finding(kf["id"], kf["what"])
        else:
            ck.violation(f"static bit length {sb} but the encoding has {8 * len(r[1])} bits (condensed BIT-MASK)",
                         {"xml": xml, "value": {"p2": 0x0AB0}, "pdu": bytes(r[1]).hex()})


def wide_integer_corpus(ck):
    """corpus case of the recorded finding: integers over 64 bits depend on the bitstruct backend"""
    ps = [cc.param("p1", dict(k="value", dop=cc.simple(cc.std(cc.BUINT, 72)), dflt=None))]
    try:
        obj = cc.load_messages([("rq", ps, False)])["rq"]
    except Exception as e:  # noqa
        ck.violation(f"wide integer corpus case failed to load: {e}", {"params": ps})
        return

    class C:
        pass

    c = C()
    c.obj, c.params, c.is_resp, c.name = obj, ps, False, "rq"
    c.encs = [dict(value={"p1": 1 << 70}, req=None, impl=cc.impl_encode(obj, {"p1": 1 << 70}))]
    c.decs = []
    try:
        pi = pure_backend_results([c])[0]["encs"][0]
    except Exception as e:  # noqa
        ck.note_broken(f"pure-python backend run failed: {e}")
        return
    ck.count(("wide", 72))
    if cr.norm_enc_impl(pi) != cr.norm_enc_impl(c.encs[0]["impl"]):
        kf = ck.match_known({"integer-over-64-bits", "backend"})
        if kf:
            ck.known_finding(kf["id"], kf["what"])
        else:
            ck.violation(f"bitstruct.c and pure-python bitstruct disagree on a 72 bit integer: {c.encs[0]['impl']} vs {pi}",
                         rep(c, value={"p1": 1 << 70}))


def known_tags(c, e, bad):
    tags = set()
    # parameters listed in another order than they are positioned on the wire
    ps = c.params
    pos = [p["bytepos"] for p in ps if p["bytepos"] is not None]
    if any(a > b for a, b in zip(pos, pos[1:])):
        tags.add("parameters-listed-out-of-wire-order")
    # a parameter which is not constant is positioned into the last byte of the leading constants
    end = 0
    cursor = 0
    for p in ps:
        kd = p["kind"]
        if kd["k"] not in ("coded", "physconst"):
            if p["bytepos"] is not None and p["bytepos"] < end:
                tags.add("value-shares-byte-with-constant-prefix")
            break
        start = p["bytepos"] if p["bytepos"] is not None else cursor
        bl = kd["dct"]["bl"] if kd["k"] == "coded" and kd["dct"]["k"] == "std" else None
        if bl is None:
            break
        cursor = start + ((p["bitpos"] or 0) + bl + 7) // 8
        end = max(end, cursor)
    if padded_tail_terminated(ps) and e is not None and e.get("impl", [1])[0] == 0 and isinstance(e.get("value"), dict):
        # ... and the only difference between what was encoded and what is read back are zeros appended to values
        dec = cc.impl_decode(c.obj, bytes(e["impl"][1]))
        if dec[0] == 0 and only_zero_padded(expected_values(ps, e["value"], e.get("req")), cc.unw_value(dec[1])) == 1:
            tags.add("terminated-object-before-padding")
    tags.add(bad.split(":")[0].split("(")[0].strip()[:60])
    for k in desc_features(c.params):
        tags.add(k)
    return tags


def only_zero_padded(want, got):
    """1: got is want with zeros appended to at least one byte field / string; 0: equal (as far as want goes); -1: other"""
    if isinstance(want, dict) and isinstance(got, dict):
        rs = [only_zero_padded(v, got[k]) if k in got else -1 for k, v in want.items()]
    elif isinstance(want, (list, tuple)) and isinstance(got, (list, tuple)) and len(want) == len(got):
        rs = [only_zero_padded(a, b) for a, b in zip(want, got)]
    elif isinstance(want, (bytes, bytearray)) and isinstance(got, (bytes, bytearray)):
        w, g = bytes(want), bytes(got)
        return 0 if w == g else (1 if g.startswith(w) and not g[len(w):].strip(b"\x00") else -1)
    elif isinstance(want, str) and isinstance(got, str):
        return 0 if want == got else (1 if got.startswith(want) and not got[len(want):].strip("\x00") else -1)
    else:
        return 0 if want == got else -1
    return -1 if -1 in rs else (1 if 1 in rs else 0)


def padded_tail_terminated(params):
    """the last object of a padded container (STATIC-FIELD item, structure with BYTE-SIZE) is a terminated MIN-MAX-LENGTH
    object: at the end of the PDU the encoder omits the terminator, and the padding is read as part of the value
    (recorded finding unterminated-value-before-padding)"""
    def tail_terminated(st):
        if not st["params"]:
            return False
        kd = st["params"][-1]["kind"]
        if kd["k"] not in ("value", "physconst"):
            return False
        d = kd["dop"]
        if d["k"] == "simple":
            return d["dct"]["k"] == "minmax" and d["dct"]["term"] in (0, 1)
        if d["k"] == "struct":
            return tail_terminated(d)
        return False

    def dop_has(d):
        if d["k"] == "struct":
            return (d["bs"] is not None and tail_terminated(d)) or padded_tail_terminated(d["params"])
        if d["k"] == "static":
            return tail_terminated(d["s"]) or dop_has(d["s"])
        if d["k"] in ("dynlen", "eop", "endmarker"):
            return dop_has(d["s"])
        if d["k"] == "mux":
            return any(c["s"] is not None and dop_has(c["s"]) for c in d["cases"] + ([d["dflt"]] if d["dflt"] is not None else []))
        return False
    return any(p["kind"]["k"] in ("value", "physconst") and dop_has(p["kind"]["dop"]) for p in params)


# ---------------------------------------------------------------------------
def zero_size_struct(params):
    """an empty structure (no parameters, no BYTE-SIZE) occupies nothing wherever it is positioned"""
    for p in params:
        kd = p["kind"]
        if kd["k"] in ("value", "physconst") and kd["dop"]["k"] == "struct":
            if (not kd["dop"]["params"] and not kd["dop"]["bs"]) or zero_size_struct(kd["dop"]["params"]):
                return True
    return False


def check_static(ck, c, model_ok):
    st = c.static
    impl = st["impl"]
    ck.count(("s", json.dumps(c.params, default=repr)))
    if not (isinstance(impl, list) and len(impl) == 4):
        ck.violation(f"static description raised: {impl}", rep(c, impl=impl))
        return
    sb = impl[0][0] if impl[0] else None
    ck.hist("static_length", "reported" if sb is not None else "none")
    required = ["".join(chr(x) for x in n) for n in impl[1]]
    free = ["".join(chr(x) for x in n) for n in impl[2]]
    pre = bytes(impl[3][1]) if impl[3][0] == 0 else None
    for e in c.encs:
        ei = e["impl"]
        if ei[0] != 0 or not isinstance(e["value"], dict):
            continue
        pdu = bytes(ei[1])
        if sb is not None and not ei[2] and 8 * len(pdu) != sb and not zero_size_struct(c.params):
            tags = known_tags(c, e, "static length")
            kf = ck.match_known(tags)
            if kf:
                ck.known_finding(kf["id"], kf["what"])
            else:
                ck.violation(f"static bit length {sb} reported but an encoding has {8 * len(pdu)} bits ({pdu.hex()})",
                             rep(c, value=e["value"], req=e["req"], static=sb))
            return
        if pre is not None and not ei[2] and not pdu.startswith(pre) and (e["req"] or b"") == st["rq"]:
            kf = ck.match_known(known_tags(c, e, "reported constant prefix"))
            if kf:
                ck.known_finding(kf["id"], kf["what"])
                return
            ck.violation(f"reported constant prefix {pre.hex()} is not a prefix of the encoding {pdu.hex()}",
                         rep(c, value=e["value"], req=e["req"]))
            return
        # required: omitting one must fail; free: exactly the settable ones
        for nm in required:
            if nm in e["value"]:
                v2 = {k: v for k, v in e["value"].items() if k != nm}
                r2 = cc.impl_encode(c.obj, v2, e["req"])
                if r2[0] == 0:
                    ck.violation(f"parameter {nm} is reported as required but encoding succeeds without it",
                                 rep(c, value=v2, req=e["req"]))
                    return
        for p in c.params:
            nm = p["name"]
            if nm not in required and p["kind"]["k"] == "value" and nm in e["value"] and p["kind"].get("dflt") is None:
                ck.violation(f"parameter {nm} has no default but is not reported as required", rep(c, value=e["value"]))
                return
        settable = [p["name"] for p in c.params if p["kind"]["k"] in ("value", "lenkey")]
        if sorted(settable) != sorted(free):
            ck.violation(f"free parameters reported {free}, settable are {settable}", rep(c))
            return
    # not free = the caller cannot set it: a value given for such a parameter is rejected or has no influence on the PDU
    base0 = next((e for e in c.encs if e["impl"][0] == 0 and not e["impl"][2] and isinstance(e["value"], dict)), None)
    if base0 is not None:
        pdu0 = bytes(base0["impl"][1])
        for p in c.params:
            nm, kd = p["name"], p["kind"]
            if nm in free or nm in base0["value"]:
                continue
            k = kd["k"]
            if k == "reserved":
                alts = [1, (1 << kd["bl"]) - 1]
            elif k == "coded":
                alts = [kd["v"] ^ 1] if isinstance(kd["v"], int) else []
            elif k == "physconst":
                alts = [kd["v"] + 1] if isinstance(kd["v"], int) and not isinstance(kd["v"], bool) else []
            elif k == "matchreq":
                alts = [0x5A, b"\x5a" * kd["len"]]
            elif k == "nrc":
                alts = [kd["vs"][0], 0x7E]
            else:
                alts = []
            for x in alts:
                v2 = dict(base0["value"])
                v2[nm] = x
                ck.count(("s-notfree", json.dumps(c.params, default=repr), nm, repr(x)))
                r2 = cc.impl_encode(c.obj, v2, base0["req"])
                if r2[0] == 0 and bytes(r2[1]) != pdu0:
                    ck.violation(f"parameter {nm} ({k}) is not reported as free, but the value {x!r} given for it changes the "
                                 f"PDU from {pdu0.hex()} to {bytes(r2[1]).hex()}", rep(c, value=v2, req=base0["req"]))
                    return
    # responses which mirror request bytes: the same response object asked again with other triggering requests of the
    # same length, with every proper prefix of the request and with a longer one (a response object is shared by
    # services; what it reported for one request says nothing about the next)
    base = next((e for e in c.encs if e["impl"][0] == 0 and isinstance(e["value"], dict) and e["req"]), None)
    if c.is_resp and base is not None and has_kind(c.params, ("matchreq",)):
        rq = bytes(base["req"])
        for rq2 in [bytes(b ^ 0x5A for b in rq)] + [rq[:k] for k in range(len(rq))] + [rq + b"\x01"]:
            ck.count(("s-rq", json.dumps(c.params, default=repr), rq2))
            r2 = cc.impl_encode(c.obj, base["value"], rq2)
            if r2[0] != 0 or r2[2]:
                continue
            pdu2 = bytes(r2[1])
            e2 = dict(base, req=rq2)
            if sb is not None and 8 * len(pdu2) != sb and not zero_size_struct(c.params):
                kf = ck.match_known(known_tags(c, e2, "static length"))
                if kf:
                    ck.known_finding(kf["id"], kf["what"])
                else:
                    ck.violation(f"static bit length {sb} reported but the encoding for the triggering request {rq2.hex()!r} "
                                 f"has {8 * len(pdu2)} bits ({pdu2.hex()})", rep(c, value=base["value"], req=rq2, static=sb))
                return
            st2 = cc.impl_static(c.obj, rq2)
            if isinstance(st2, list) and len(st2) == 4 and st2[3][0] == 0 and not pdu2.startswith(bytes(st2[3][1])):
                kf = ck.match_known(known_tags(c, e2, "reported constant prefix"))
                if kf:
                    ck.known_finding(kf["id"], kf["what"])
                    return
                ck.violation(f"for the triggering request {rq2.hex()!r} the constant prefix {bytes(st2[3][1]).hex()} is reported, "
                             f"which is no prefix of the encoding {pdu2.hex()} (asked before with request {rq.hex()})",
                             rep(c, value=base["value"], req=rq2))
                return
    if model_ok and "model" in st:
        a, b = impl, st["model"]
        b = [b[0], b[1], b[2], b[3] if b[3][:2] != [-1, 5] else [-1, 5]]
        a = [a[0], a[1], a[2], a[3] if a[3][:2] != [-1, 5] else [-1, 5]]
        if a != b:
            ck.violation("implementation and model disagree on the static description of a message",
                         rep(c, impl=impl, model=st["model"], broken="correspondence static_bits/const_prefix/required/free"),
                         found_input=False)


# ---------------------------------------------------------------------------
def check_modes(ck, c):
    """strict / lenient / switches at run time"""
    import odxtools.exceptions as ex
    import logging
    logger = logging.getLogger("odxtools")
    for e in c.encs[:6]:
        strict = e["impl"]
        ex.strict_mode = False
        try:
            logger.disabled = True
            lenient = cc.impl_encode(c.obj, e["value"], e["req"])
        finally:
            logger.disabled = False
            ex.strict_mode = True
        again = cc.impl_encode(c.obj, e["value"], e["req"])
        ck.count(("m", json.dumps(c.params, default=repr), repr(e["value"])))
        ck.hist("mode_pair", f"strict={'ok' if strict[0] == 0 else 'err'} lenient={'ok' if lenient[0] == 0 else 'err'}")
        if strict[0] == 0 and lenient != strict:
            ck.violation(f"encoding succeeds in strict mode with {strict} but lenient mode gives {lenient}",
                         rep(c, value=e["value"], req=e["req"]))
        elif again != strict:
            ck.violation(f"re-enabling strict mode does not restore the strict result: {strict} vs {again}",
                         rep(c, value=e["value"], req=e["req"]))
    for d in c.decs[:10]:
        strict = d["impl"]
        ex.strict_mode = False
        try:
            logger.disabled = True
            lenient = cc.impl_decode(c.obj, d["msg"])
        finally:
            logger.disabled = False
            ex.strict_mode = True
        again = cc.impl_decode(c.obj, d["msg"])
        ck.count(("md", json.dumps(c.params, default=repr), d["msg"]))
        if strict[0] == 0 and lenient != strict:
            ck.violation(f"decoding succeeds in strict mode with {strict} but lenient mode gives {lenient}",
                         rep(c, msg=d["msg"]))
        elif again != strict:
            ck.violation(f"re-enabling strict mode does not restore the strict result: {strict} vs {again}",
                         rep(c, msg=d["msg"]))


# ---------------------------------------------------------------------------
UNMODELLED_DOC = ('<?xml version="1.0" encoding="UTF-8"?><ODX MODEL-VERSION="2.2.0" xmlns:xsi="http://www.w3.org/2001/XMLSchema-instance">'
 '<DIAG-LAYER-CONTAINER ID="DLC"><SHORT-NAME>DLC</SHORT-NAME><BASE-VARIANTS><BASE-VARIANT ID="BV"><SHORT-NAME>BV</SHORT-NAME>'
 '<DIAG-DATA-DICTIONARY-SPEC><DATA-OBJECT-PROPS>'
 '<DATA-OBJECT-PROP ID="u8"><SHORT-NAME>u8</SHORT-NAME><COMPU-METHOD><CATEGORY>IDENTICAL</CATEGORY></COMPU-METHOD>'
 '<DIAG-CODED-TYPE BASE-DATA-TYPE="A_UINT32" xsi:type="STANDARD-LENGTH-TYPE"><BIT-LENGTH>8</BIT-LENGTH></DIAG-CODED-TYPE>'
 '<PHYSICAL-TYPE BASE-DATA-TYPE="A_UINT32"/></DATA-OBJECT-PROP>'
 '<DATA-OBJECT-PROP ID="str1252"><SHORT-NAME>str1252</SHORT-NAME><COMPU-METHOD><CATEGORY>IDENTICAL</CATEGORY></COMPU-METHOD>'
 '<DIAG-CODED-TYPE BASE-DATA-TYPE="A_ASCIISTRING" BASE-TYPE-ENCODING="WINDOWS-1252" xsi:type="STANDARD-LENGTH-TYPE"><BIT-LENGTH>8</BIT-LENGTH></DIAG-CODED-TYPE>'
 '<PHYSICAL-TYPE BASE-DATA-TYPE="A_UNICODE2STRING"/></DATA-OBJECT-PROP>'
 '<DATA-OBJECT-PROP ID="str88592"><SHORT-NAME>str88592</SHORT-NAME><COMPU-METHOD><CATEGORY>IDENTICAL</CATEGORY></COMPU-METHOD>'
 '<DIAG-CODED-TYPE BASE-DATA-TYPE="A_ASCIISTRING" BASE-TYPE-ENCODING="ISO-8859-2" xsi:type="STANDARD-LENGTH-TYPE"><BIT-LENGTH>8</BIT-LENGTH></DIAG-CODED-TYPE>'
 '<PHYSICAL-TYPE BASE-DATA-TYPE="A_UNICODE2STRING"/></DATA-OBJECT-PROP>'
 '<DATA-OBJECT-PROP ID="strucs2"><SHORT-NAME>strucs2</SHORT-NAME><COMPU-METHOD><CATEGORY>IDENTICAL</CATEGORY></COMPU-METHOD>'
 '<DIAG-CODED-TYPE BASE-DATA-TYPE="A_UNICODE2STRING" xsi:type="STANDARD-LENGTH-TYPE"><BIT-LENGTH>16</BIT-LENGTH></DIAG-CODED-TYPE>'
 '<PHYSICAL-TYPE BASE-DATA-TYPE="A_UNICODE2STRING"/></DATA-OBJECT-PROP>'
 '<DATA-OBJECT-PROP ID="str1252e"><SHORT-NAME>str1252e</SHORT-NAME><COMPU-METHOD><CATEGORY>IDENTICAL</CATEGORY></COMPU-METHOD>'
 '<DIAG-CODED-TYPE BASE-DATA-TYPE="A_ASCIISTRING" BASE-TYPE-ENCODING="WINDOWS-1252" TERMINATION="END-OF-PDU" xsi:type="MIN-MAX-LENGTH-TYPE"><MIN-LENGTH>0</MIN-LENGTH></DIAG-CODED-TYPE>'
 '<PHYSICAL-TYPE BASE-DATA-TYPE="A_UNICODE2STRING"/></DATA-OBJECT-PROP>'
 '</DATA-OBJECT-PROPS>'
 '<STRUCTURES>'
 '<STRUCTURE ID="s2"><SHORT-NAME>s2</SHORT-NAME><PARAMS><PARAM xsi:type="VALUE"><SHORT-NAME>k</SHORT-NAME><BYTE-POSITION>0</BYTE-POSITION>'
 '<DOP-REF ID-REF="u8"/></PARAM><PARAM xsi:type="VALUE"><SHORT-NAME>d</SHORT-NAME><BYTE-POSITION>1</BYTE-POSITION><DOP-REF ID-REF="u8"/></PARAM></PARAMS></STRUCTURE>'
 '<STRUCTURE ID="item"><SHORT-NAME>item</SHORT-NAME><PARAMS><PARAM xsi:type="VALUE"><SHORT-NAME>m</SHORT-NAME><DOP-REF ID-REF="mux"/></PARAM></PARAMS></STRUCTURE>'
 '<STRUCTURE ID="item2"><SHORT-NAME>item2</SHORT-NAME><PARAMS><PARAM xsi:type="VALUE"><SHORT-NAME>m</SHORT-NAME><DOP-REF ID-REF="mux2"/></PARAM></PARAMS></STRUCTURE>'
 '<STRUCTURE ID="s1b"><SHORT-NAME>s1b</SHORT-NAME><PARAMS><PARAM xsi:type="VALUE"><SHORT-NAME>d</SHORT-NAME><BYTE-POSITION>0</BYTE-POSITION>'
 '<DOP-REF ID-REF="u8"/></PARAM></PARAMS></STRUCTURE>'
 '</STRUCTURES>'
 '<END-OF-PDU-FIELDS><END-OF-PDU-FIELD ID="eop"><SHORT-NAME>eop</SHORT-NAME><BASIC-STRUCTURE-REF ID-REF="item"/></END-OF-PDU-FIELD>'
 '<END-OF-PDU-FIELD ID="eop2"><SHORT-NAME>eop2</SHORT-NAME><BASIC-STRUCTURE-REF ID-REF="item2"/></END-OF-PDU-FIELD></END-OF-PDU-FIELDS>'
 '<MUXS>'
 '<MUX ID="mux"><SHORT-NAME>mux</SHORT-NAME><BYTE-POSITION>0</BYTE-POSITION><SWITCH-KEY><BYTE-POSITION>0</BYTE-POSITION><BIT-POSITION>0</BIT-POSITION>'
 '<DATA-OBJECT-PROP-REF ID-REF="u8"/></SWITCH-KEY><DEFAULT-CASE><SHORT-NAME>dflt</SHORT-NAME></DEFAULT-CASE>'
 '<CASES><CASE><SHORT-NAME>c1</SHORT-NAME><STRUCTURE-REF ID-REF="s2"/><LOWER-LIMIT>1</LOWER-LIMIT><UPPER-LIMIT>1</UPPER-LIMIT></CASE></CASES></MUX>'
 '<MUX ID="mux2"><SHORT-NAME>mux2</SHORT-NAME><BYTE-POSITION>1</BYTE-POSITION><SWITCH-KEY><BYTE-POSITION>0</BYTE-POSITION><BIT-POSITION>0</BIT-POSITION>'
 '<DATA-OBJECT-PROP-REF ID-REF="u8"/></SWITCH-KEY>'
 '<CASES><CASE><SHORT-NAME>c1</SHORT-NAME><STRUCTURE-REF ID-REF="s2"/><LOWER-LIMIT>1</LOWER-LIMIT><UPPER-LIMIT>2</UPPER-LIMIT></CASE></CASES></MUX>'
 '<MUX ID="mux3"><SHORT-NAME>mux3</SHORT-NAME><BYTE-POSITION>1</BYTE-POSITION><SWITCH-KEY><BYTE-POSITION>0</BYTE-POSITION><BIT-POSITION>0</BIT-POSITION>'
 '<DATA-OBJECT-PROP-REF ID-REF="u8"/></SWITCH-KEY>'
 '<CASES><CASE><SHORT-NAME>with_data</SHORT-NAME><STRUCTURE-REF ID-REF="s1b"/><LOWER-LIMIT>1</LOWER-LIMIT><UPPER-LIMIT>1</UPPER-LIMIT></CASE>'
 '<CASE><SHORT-NAME>nothing</SHORT-NAME><LOWER-LIMIT>2</LOWER-LIMIT><UPPER-LIMIT>2</UPPER-LIMIT></CASE></CASES></MUX>'
 '</MUXS></DIAG-DATA-DICTIONARY-SPEC>'
 '<REQUESTS>'
 '<REQUEST ID="rq1"><SHORT-NAME>rq1</SHORT-NAME><PARAMS><PARAM xsi:type="CODED-CONST"><SHORT-NAME>sid</SHORT-NAME><BYTE-POSITION>0</BYTE-POSITION>'
 '<CODED-VALUE>34</CODED-VALUE><DIAG-CODED-TYPE BASE-DATA-TYPE="A_UINT32" xsi:type="STANDARD-LENGTH-TYPE"><BIT-LENGTH>8</BIT-LENGTH></DIAG-CODED-TYPE></PARAM>'
 '<PARAM xsi:type="VALUE"><SHORT-NAME>f</SHORT-NAME><BYTE-POSITION>1</BYTE-POSITION><DOP-REF ID-REF="eop"/></PARAM></PARAMS></REQUEST>'
 '<REQUEST ID="rq2"><SHORT-NAME>rq2</SHORT-NAME><PARAMS><PARAM xsi:type="CODED-CONST"><SHORT-NAME>sid</SHORT-NAME><BYTE-POSITION>0</BYTE-POSITION>'
 '<CODED-VALUE>35</CODED-VALUE><DIAG-CODED-TYPE BASE-DATA-TYPE="A_UINT32" xsi:type="STANDARD-LENGTH-TYPE"><BIT-LENGTH>8</BIT-LENGTH></DIAG-CODED-TYPE></PARAM>'
 '<PARAM xsi:type="VALUE"><SHORT-NAME>f</SHORT-NAME><BYTE-POSITION>1</BYTE-POSITION><DOP-REF ID-REF="eop2"/></PARAM></PARAMS></REQUEST>'
 '<REQUEST ID="rq3"><SHORT-NAME>rq3</SHORT-NAME><PARAMS><PARAM xsi:type="CODED-CONST"><SHORT-NAME>sid</SHORT-NAME><BYTE-POSITION>0</BYTE-POSITION>'
 '<CODED-VALUE>36</CODED-VALUE><DIAG-CODED-TYPE BASE-DATA-TYPE="A_UINT32" xsi:type="STANDARD-LENGTH-TYPE"><BIT-LENGTH>8</BIT-LENGTH></DIAG-CODED-TYPE></PARAM>'
 '<PARAM xsi:type="VALUE"><SHORT-NAME>m</SHORT-NAME><BYTE-POSITION>1</BYTE-POSITION><DOP-REF ID-REF="mux"/></PARAM></PARAMS></REQUEST>'
 '<REQUEST ID="rq4"><SHORT-NAME>rq4</SHORT-NAME><PARAMS><PARAM xsi:type="CODED-CONST"><SHORT-NAME>sid</SHORT-NAME><BYTE-POSITION>0</BYTE-POSITION>'
 '<CODED-VALUE>37</CODED-VALUE><DIAG-CODED-TYPE BASE-DATA-TYPE="A_UINT32" xsi:type="STANDARD-LENGTH-TYPE"><BIT-LENGTH>8</BIT-LENGTH></DIAG-CODED-TYPE></PARAM>'
 '<PARAM xsi:type="VALUE"><SHORT-NAME>m</SHORT-NAME><BYTE-POSITION>1</BYTE-POSITION><DOP-REF ID-REF="mux3"/></PARAM>'
 '<PARAM xsi:type="VALUE"><SHORT-NAME>tail</SHORT-NAME><BYTE-POSITION>3</BYTE-POSITION><DOP-REF ID-REF="u8"/></PARAM></PARAMS></REQUEST>'
 '<REQUEST ID="rq5"><SHORT-NAME>rq5</SHORT-NAME><PARAMS><PARAM xsi:type="CODED-CONST"><SHORT-NAME>sid</SHORT-NAME><BYTE-POSITION>0</BYTE-POSITION>'
 '<CODED-VALUE>38</CODED-VALUE><DIAG-CODED-TYPE BASE-DATA-TYPE="A_UINT32" xsi:type="STANDARD-LENGTH-TYPE"><BIT-LENGTH>8</BIT-LENGTH></DIAG-CODED-TYPE></PARAM>'
 '<PARAM xsi:type="VALUE"><SHORT-NAME>a</SHORT-NAME><BYTE-POSITION>1</BYTE-POSITION><DOP-REF ID-REF="str1252"/></PARAM>'
 '<PARAM xsi:type="VALUE"><SHORT-NAME>b</SHORT-NAME><BYTE-POSITION>2</BYTE-POSITION><DOP-REF ID-REF="str88592"/></PARAM>'
 '<PARAM xsi:type="VALUE"><SHORT-NAME>c</SHORT-NAME><BYTE-POSITION>3</BYTE-POSITION><DOP-REF ID-REF="strucs2"/></PARAM>'
 '<PARAM xsi:type="VALUE"><SHORT-NAME>d</SHORT-NAME><BYTE-POSITION>5</BYTE-POSITION><DOP-REF ID-REF="str1252e"/></PARAM></PARAMS></REQUEST>'
 '</REQUESTS></BASE-VARIANT></BASE-VARIANTS></DIAG-LAYER-CONTAINER></ODX>')


def _real_dop(name, bits, compu, phys='<PHYSICAL-TYPE BASE-DATA-TYPE="A_FLOAT64"/>'):
    return (f'<DATA-OBJECT-PROP ID="{name}"><SHORT-NAME>{name}</SHORT-NAME>{compu}'
            f'<DIAG-CODED-TYPE BASE-DATA-TYPE="A_UINT32" xsi:type="STANDARD-LENGTH-TYPE"><BIT-LENGTH>{bits}</BIT-LENGTH></DIAG-CODED-TYPE>'
            f'{phys}</DATA-OBJECT-PROP>')


def _lin(off, num, lo=None, hi=None):
    lim = ("" if lo is None else f"<LOWER-LIMIT>{lo}</LOWER-LIMIT>") + ("" if hi is None else f"<UPPER-LIMIT>{hi}</UPPER-LIMIT>")
    return (f"<COMPU-SCALE>{lim}<COMPU-RATIONAL-COEFFS><COMPU-NUMERATOR><V>{off}</V><V>{num}</V></COMPU-NUMERATOR>"
            "<COMPU-DENOMINATOR><V>1</V></COMPU-DENOMINATOR></COMPU-RATIONAL-COEFFS></COMPU-SCALE>")


def _tab(pts):
    return ("<COMPU-METHOD><CATEGORY>TAB-INTP</CATEGORY><COMPU-INTERNAL-TO-PHYS><COMPU-SCALES>" + "".join(
        f'<COMPU-SCALE><LOWER-LIMIT INTERVAL-TYPE="CLOSED">{x}</LOWER-LIMIT><COMPU-CONST><V>{y}</V></COMPU-CONST></COMPU-SCALE>'
        for x, y in pts) + "</COMPU-SCALES></COMPU-INTERNAL-TO-PHYS></COMPU-METHOD>")


def _ratfunc_cm(cat, num, den, inv_num, inv_den):
    def sc(n, d):
        return ("<COMPU-SCALE><COMPU-RATIONAL-COEFFS><COMPU-NUMERATOR>" + "".join(f"<V>{x}</V>" for x in n) + "</COMPU-NUMERATOR>"
                "<COMPU-DENOMINATOR>" + "".join(f"<V>{x}</V>" for x in d) + "</COMPU-DENOMINATOR></COMPU-RATIONAL-COEFFS></COMPU-SCALE>")
    return (f"<COMPU-METHOD><CATEGORY>{cat}</CATEGORY><COMPU-INTERNAL-TO-PHYS><COMPU-SCALES>{sc(num, den)}</COMPU-SCALES>"
            f"</COMPU-INTERNAL-TO-PHYS><COMPU-PHYS-TO-INTERNAL><COMPU-SCALES>{sc(inv_num, inv_den)}</COMPU-SCALES>"
            "</COMPU-PHYS-TO-INTERNAL></COMPU-METHOD>")


REAL_DOPS = [
    # (name, bits, compu method): injective conversions into a real-valued physical type
    ("lin_fine", 16, "<COMPU-METHOD><CATEGORY>LINEAR</CATEGORY><COMPU-INTERNAL-TO-PHYS><COMPU-SCALES>" + _lin(-40, 0.005) +
     "</COMPU-SCALES></COMPU-INTERNAL-TO-PHYS></COMPU-METHOD>", '<PHYSICAL-TYPE BASE-DATA-TYPE="A_FLOAT64"><PRECISION>2</PRECISION></PHYSICAL-TYPE>'),
    ("lin_neg", 8, "<COMPU-METHOD><CATEGORY>LINEAR</CATEGORY><COMPU-INTERNAL-TO-PHYS><COMPU-SCALES>" + _lin(12.5, -0.25) +
     "</COMPU-SCALES></COMPU-INTERNAL-TO-PHYS></COMPU-METHOD>", '<PHYSICAL-TYPE BASE-DATA-TYPE="A_FLOAT32"><PRECISION>1</PRECISION></PHYSICAL-TYPE>'),
    ("tab_dec", 8, _tab([(0, 100), (100, 50), (200, 25), (255, -30)]), None),
    ("tab_inc", 8, _tab([(0, -5), (10, 0), (200, 95), (255, 1000)]), None),
    ("tab_dec_prec", 8, _tab([(0, 10), (255, 0)]), '<PHYSICAL-TYPE BASE-DATA-TYPE="A_FLOAT64"><PRECISION>1</PRECISION></PHYSICAL-TYPE>'),
    ("scale_lin", 8, "<COMPU-METHOD><CATEGORY>SCALE-LINEAR</CATEGORY><COMPU-INTERNAL-TO-PHYS><COMPU-SCALES>" + _lin(0, 0.5, 0, 100) +
     _lin(25, 0.25, 100, 255) + "</COMPU-SCALES></COMPU-INTERNAL-TO-PHYS></COMPU-METHOD>", None),
    # continuous scales whose decimal coefficients are no binary fractions: the scales meet only up to rounding
    # (0.1 * 12 = 1.2000000000000002, 0.3 * 12 - 2.4 = 1.1999999999999997), the method is invertible all the same
    ("scale_dec", 8, "<COMPU-METHOD><CATEGORY>SCALE-LINEAR</CATEGORY><COMPU-INTERNAL-TO-PHYS><COMPU-SCALES>" + _lin(0, 0.1, 0, 12) +
     _lin(-2.4, 0.3, 12, 100) + _lin(-42.4, 0.7, 100, 255) + "</COMPU-SCALES></COMPU-INTERNAL-TO-PHYS></COMPU-METHOD>", None),
    # rational functions with a denominator polynomial which is not constant (no pole in the coded range):
    # p = 200 / (x + 2), x = (200 - 2 p) / p;   p = (3 + x) / (1 + 2 x), x = (3 - p) / (2 p - 1) (decreasing, p > 1/2)
    ("rat_hyp", 8, _ratfunc_cm("RAT-FUNC", [200], [2, 1], [200, -2], [0, 1]), None),
    ("srat_moeb", 8, _ratfunc_cm("SCALE-RAT-FUNC", [3, 1], [1, 2], [3, -1], [-1, 2]), None),
]


def real_valued_reencode(ck):
    """C03 (oracle only; the codec model has integer physical types): decode and re-encode every PDU of requests whose
    parameter converts injectively into a real-valued physical type (LINEAR with a resolution finer than the display
    PRECISION, negative slope, TAB-INTP increasing and decreasing, SCALE-LINEAR)"""
    import hier_common as hc
    dops = "".join(_real_dop(n, b, c, *( [p] if p else [])) for n, b, c, p in REAL_DOPS)
    reqs = "".join(
        f'<REQUEST ID="rq_{n}"><SHORT-NAME>rq_{n}</SHORT-NAME><PARAMS><PARAM xsi:type="CODED-CONST"><SHORT-NAME>sid</SHORT-NAME>'
        f'<BYTE-POSITION>0</BYTE-POSITION><CODED-VALUE>{0x40 + i}</CODED-VALUE><DIAG-CODED-TYPE BASE-DATA-TYPE="A_UINT32" '
        'xsi:type="STANDARD-LENGTH-TYPE"><BIT-LENGTH>8</BIT-LENGTH></DIAG-CODED-TYPE></PARAM>'
        f'<PARAM xsi:type="VALUE"><SHORT-NAME>v</SHORT-NAME><BYTE-POSITION>1</BYTE-POSITION><DOP-REF ID-REF="{n}"/></PARAM></PARAMS></REQUEST>'
        for i, (n, b, c, p) in enumerate(REAL_DOPS))
    doc = ('<?xml version="1.0" encoding="UTF-8"?><ODX MODEL-VERSION="2.2.0" xmlns:xsi="http://www.w3.org/2001/XMLSchema-instance">'
           '<DIAG-LAYER-CONTAINER ID="DLC"><SHORT-NAME>DLC</SHORT-NAME><BASE-VARIANTS><BASE-VARIANT ID="BV"><SHORT-NAME>BV</SHORT-NAME>'
           f'<DIAG-DATA-DICTIONARY-SPEC><DATA-OBJECT-PROPS>{dops}</DATA-OBJECT-PROPS></DIAG-DATA-DICTIONARY-SPEC>'
           f'<REQUESTS>{reqs}</REQUESTS></BASE-VARIANT></BASE-VARIANTS></DIAG-LAYER-CONTAINER></ODX>')
    try:
        db = hc.load_docs([doc])
    except Exception as e:  # noqa
        ck.note_broken(f"cannot load the document of real-valued data objects: {type(e).__name__}: {e}")
        return
    raw = db.diag_layers[0].diag_layer_raw
    n = 0
    # a flag described by a condensed single-bit BIT-MASK beside a 7 bit value in the same byte: every bit is described
    n += condensed_flag_reencode(ck)
    for i, (name, bits, _c, _p) in enumerate(REAL_DOPS):
        rq = [r for r in raw.requests if r.short_name == f"rq_{name}"][0]
        if bits == 8 or ck.tier != "quick":
            xs = range(1 << bits)
        else:
            xs = sorted(set(range(0, 1 << bits, 37)) | set(range(64)) | {(1 << bits) - 1, (1 << bits) - 2})
        for x in xs:
            pdu = bytes([0x40 + i]) + x.to_bytes(bits // 8, "big")
            n += 1
            ck.count(("real", name, x))
            d, e, _ = cc.guarded(lambda: rq.decode(pdu), timeout=3)
            if e is not None:
                continue  # not a PDU the description decodes
            r, e2, _ = cc.guarded(lambda: bytes(rq.encode(**{k: v for k, v in d.items() if k != "sid"})), timeout=3)
            if e2 is not None or r != pdu:
                ck.violation(f"request rq_{name} ({name}: real-valued physical type): PDU {pdu.hex()} decodes to {d!r} "
                             f"which re-encodes to {r.hex() if e2 is None else repr(e2)}",
                             {"document": "harness/codec_checks.py REAL_DOPS", "request": f"rq_{name}", "msg": pdu.hex()})
                break
    ck.coverage["real_valued_pdus"] = n



def _ratfunc(cat, num, den, inv_num, inv_den):
    def sc(n, d):
        return ("<COMPU-SCALE><COMPU-RATIONAL-COEFFS><COMPU-NUMERATOR>" + "".join(f"<V>{x}</V>" for x in n) + "</COMPU-NUMERATOR>"
                "<COMPU-DENOMINATOR>" + "".join(f"<V>{x}</V>" for x in d) + "</COMPU-DENOMINATOR></COMPU-RATIONAL-COEFFS></COMPU-SCALE>")
    return (f"<COMPU-METHOD><CATEGORY>{cat}</CATEGORY><COMPU-INTERNAL-TO-PHYS><COMPU-SCALES>{sc(num, den)}</COMPU-SCALES>"
            f"</COMPU-INTERNAL-TO-PHYS><COMPU-PHYS-TO-INTERNAL><COMPU-SCALES>{sc(inv_num, inv_den)}</COMPU-SCALES>"
            "</COMPU-PHYS-TO-INTERNAL></COMPU-METHOD>")


def float_special_probe(ck):
    """C05 (oracle only; floats are outside the codec model): A_FLOAT32 objects whose compu method converts to an INTEGER
    physical type -- LINEAR, SCALE-LINEAR, TAB-INTP, RAT-FUNC -- decoding NaN, the infinities, the largest finite value and
    ordinary values: a value or a DecodeError, nothing else"""
    import hier_common as hc
    from odxtools.exceptions import DecodeError
    lin = "<COMPU-SCALE>%s<COMPU-RATIONAL-COEFFS><COMPU-NUMERATOR><V>0</V><V>2</V></COMPU-NUMERATOR><COMPU-DENOMINATOR><V>1</V></COMPU-DENOMINATOR></COMPU-RATIONAL-COEFFS></COMPU-SCALE>"
    cms = {
        "lin": "<COMPU-METHOD><CATEGORY>LINEAR</CATEGORY><COMPU-INTERNAL-TO-PHYS><COMPU-SCALES>" + lin % "" + "</COMPU-SCALES></COMPU-INTERNAL-TO-PHYS></COMPU-METHOD>",
        "slin": ("<COMPU-METHOD><CATEGORY>SCALE-LINEAR</CATEGORY><COMPU-INTERNAL-TO-PHYS><COMPU-SCALES>" + lin % "<UPPER-LIMIT>0</UPPER-LIMIT>" +
                 lin % "<LOWER-LIMIT>0</LOWER-LIMIT>" + "</COMPU-SCALES></COMPU-INTERNAL-TO-PHYS></COMPU-METHOD>"),
        "tab": _tab([(0, 0), (10, 100), (1000000, 5)]),
        "rat": _ratfunc_cm("RAT-FUNC", [1, 1], [1], [-1, 1], [1]),
    }
    dops = "".join(_real_dop(n, 32, cm, '<PHYSICAL-TYPE BASE-DATA-TYPE="A_INT32"/>').replace('BASE-DATA-TYPE="A_UINT32" xsi:type', 'BASE-DATA-TYPE="A_FLOAT32" xsi:type')
                   for n, cm in cms.items())
    reqs = "".join(f'<REQUEST ID="rq_{n}"><SHORT-NAME>rq_{n}</SHORT-NAME><PARAMS><PARAM xsi:type="VALUE"><SHORT-NAME>v</SHORT-NAME>'
                   f'<DOP-REF ID-REF="{n}"/></PARAM></PARAMS></REQUEST>' for n in cms)
    doc = ('<?xml version="1.0" encoding="UTF-8"?><ODX MODEL-VERSION="2.2.0" xmlns:xsi="http://www.w3.org/2001/XMLSchema-instance">'
           '<DIAG-LAYER-CONTAINER ID="DLC"><SHORT-NAME>DLC</SHORT-NAME><BASE-VARIANTS><BASE-VARIANT ID="BV"><SHORT-NAME>BV</SHORT-NAME>'
           f'<DIAG-DATA-DICTIONARY-SPEC><DATA-OBJECT-PROPS>{dops}</DATA-OBJECT-PROPS></DIAG-DATA-DICTIONARY-SPEC>'
           f'<REQUESTS>{reqs}</REQUESTS></BASE-VARIANT></BASE-VARIANTS></DIAG-LAYER-CONTAINER></ODX>')
    try:
        raw = hc.load_docs([doc]).diag_layers[0].diag_layer_raw
    except Exception as e:  # noqa
        ck.note_broken(f"cannot load the document of float objects with integer physical types: {type(e).__name__}: {e}")
        return
    for rq in raw.requests:
        for h in ("3fc00000", "7fc00000", "ffc00001", "7f800000", "ff800000", "7f7fffff", "ff7fffff", "00000000", "80000000", "00000001", "41200000"):
            m = bytes.fromhex(h)
            ck.count(("float-special", rq.short_name, h))
            r, e, _ = cc.guarded(lambda: rq.decode(m), timeout=3)
            if e is not None and not isinstance(e, DecodeError):
                ck.violation(f"decoding the A_FLOAT32 pattern {h} with {rq.short_name} (integer physical type) raised {type(e).__name__}: {e}",
                             {"document": "harness/codec_checks.py float_special_probe", "request": rq.short_name, "msg": h})
                break


def ratfunc_pole_probe(ck, pid):
    """C04 / C05 (oracle only; rational functions are outside the codec model): data objects whose RAT-FUNC /
    SCALE-RAT-FUNC conversion has a pole inside the coded range -- p = 1000 / (x - 5), inverse x = (1000 + 5 p) / p --
    and one whose denominator polynomial has two roots. Every PDU decodes to a value or a DecodeError; every physical
    value is rejected with the library's error class or gives a PDU"""
    import hier_common as hc
    from odxtools.exceptions import DecodeError, OdxError
    specs = [("rat", "RAT-FUNC", [1000], [-5, 1], [1000, 5], [0, 1]),
             ("srat", "SCALE-RAT-FUNC", [1000], [-5, 1], [1000, 5], [0, 1]),
             ("rat2", "RAT-FUNC", [1, 1], [12, -7, 1], [0, 1], [-2, 0, 1])]
    dops = "".join(_real_dop(n, 8, _ratfunc(cat, a, b, c, d)) for n, cat, a, b, c, d in specs)
    reqs = "".join(
        f'<REQUEST ID="rq_{n}"><SHORT-NAME>rq_{n}</SHORT-NAME><PARAMS><PARAM xsi:type="CODED-CONST"><SHORT-NAME>sid</SHORT-NAME>'
        f'<BYTE-POSITION>0</BYTE-POSITION><CODED-VALUE>{0x50 + i}</CODED-VALUE><DIAG-CODED-TYPE BASE-DATA-TYPE="A_UINT32" '
        'xsi:type="STANDARD-LENGTH-TYPE"><BIT-LENGTH>8</BIT-LENGTH></DIAG-CODED-TYPE></PARAM>'
        f'<PARAM xsi:type="VALUE"><SHORT-NAME>v</SHORT-NAME><BYTE-POSITION>1</BYTE-POSITION><DOP-REF ID-REF="{n}"/></PARAM></PARAMS></REQUEST>'
        for i, (n, *_r) in enumerate(specs))
    doc = ('<?xml version="1.0" encoding="UTF-8"?><ODX MODEL-VERSION="2.2.0" xmlns:xsi="http://www.w3.org/2001/XMLSchema-instance">'
           '<DIAG-LAYER-CONTAINER ID="DLC"><SHORT-NAME>DLC</SHORT-NAME><BASE-VARIANTS><BASE-VARIANT ID="BV"><SHORT-NAME>BV</SHORT-NAME>'
           f'<DIAG-DATA-DICTIONARY-SPEC><DATA-OBJECT-PROPS>{dops}</DATA-OBJECT-PROPS></DIAG-DATA-DICTIONARY-SPEC>'
           f'<REQUESTS>{reqs}</REQUESTS></BASE-VARIANT></BASE-VARIANTS></DIAG-LAYER-CONTAINER></ODX>')
    try:
        db = hc.load_docs([doc])
    except Exception as e:  # noqa
        ck.note_broken(f"cannot load the document of rational functions: {type(e).__name__}: {e}")
        return
    layer = db.diag_layers[0]
    raw = layer.diag_layer_raw
    n = 0
    for i, (name, *_r) in enumerate(specs):
        rq = [r for r in raw.requests if r.short_name == f"rq_{name}"][0]
        if pid == "C05":
            for x in range(256):
                pdu = bytes([0x50 + i, x])
                n += 1
                ck.count(("ratfunc-dec", name, x))
                for what, fn in (("request.decode", lambda: rq.decode(pdu)), ("layer.decode", lambda: layer.decode(pdu))):
                    _r2, e, _ = cc.guarded(fn, timeout=3)
                    if e is not None and not isinstance(e, DecodeError):
                        w = "does not terminate" if isinstance(e, cc.Hang) else f"raised {type(e).__name__}: {e}"
                        ck.violation(f"{what} of {pdu.hex()} (rq_{name}: rational function with a pole) {w}",
                                     {"document": "harness/codec_checks.py ratfunc_pole_probe", "request": f"rq_{name}", "msg": pdu.hex()})
                        return
        else:
            for pv in (0, 0.0, -0.0, 1, -200, 1000, 1e308, -1e308, 5e-324, 2.0 ** 0.5, -(2.0 ** 0.5), float("inf"), float("nan"), 10 ** 400):
                n += 1
                ck.count(("ratfunc-enc", name, repr(pv)))
                r, e, _ = cc.guarded(lambda: bytes(rq.encode(v=pv)), timeout=3)
                if e is not None and not isinstance(e, OdxError):
                    w = "does not terminate" if isinstance(e, cc.Hang) else f"raised {type(e).__name__}: {e}"
                    ck.violation(f"rq_{name}.encode(v={pv!r}) (rational function with a pole) {w}",
                                 {"document": "harness/codec_checks.py ratfunc_pole_probe", "request": f"rq_{name}", "value": repr(pv)})
                    return
    ck.coverage["ratfunc_pole_cases"] = n


def condensed_flag_reencode(ck):
    import hier_common as hc

    def dop(nm, bits, mask=None):
        return (f'<DATA-OBJECT-PROP ID="{nm}"><SHORT-NAME>{nm}</SHORT-NAME><COMPU-METHOD><CATEGORY>IDENTICAL</CATEGORY></COMPU-METHOD>'
                f'<DIAG-CODED-TYPE BASE-DATA-TYPE="A_UINT32"{" IS-CONDENSED=" + chr(34) + "true" + chr(34) if mask else ""} xsi:type="STANDARD-LENGTH-TYPE">'
                f'<BIT-LENGTH>{bits}</BIT-LENGTH>{"<BIT-MASK>" + mask + "</BIT-MASK>" if mask else ""}</DIAG-CODED-TYPE>'
                '<PHYSICAL-TYPE BASE-DATA-TYPE="A_UINT32"/></DATA-OBJECT-PROP>')
    doc = ('<?xml version="1.0" encoding="UTF-8"?><ODX MODEL-VERSION="2.2.0" xmlns:xsi="http://www.w3.org/2001/XMLSchema-instance">'
           '<DIAG-LAYER-CONTAINER ID="DLC"><SHORT-NAME>DLC</SHORT-NAME><BASE-VARIANTS><BASE-VARIANT ID="BV"><SHORT-NAME>BV</SHORT-NAME>'
           f'<DIAG-DATA-DICTIONARY-SPEC><DATA-OBJECT-PROPS>{dop("flag", 8, "80")}{dop("rest", 7)}</DATA-OBJECT-PROPS></DIAG-DATA-DICTIONARY-SPEC>'
           '<REQUESTS><REQUEST ID="rq_flag"><SHORT-NAME>rq_flag</SHORT-NAME><PARAMS>'
           '<PARAM xsi:type="VALUE"><SHORT-NAME>flag</SHORT-NAME><BYTE-POSITION>0</BYTE-POSITION><BIT-POSITION>0</BIT-POSITION><DOP-REF ID-REF="flag"/></PARAM>'
           '<PARAM xsi:type="VALUE"><SHORT-NAME>rest</SHORT-NAME><BYTE-POSITION>0</BYTE-POSITION><BIT-POSITION>1</BIT-POSITION><DOP-REF ID-REF="rest"/></PARAM>'
           '</PARAMS></REQUEST></REQUESTS></BASE-VARIANT></BASE-VARIANTS></DIAG-LAYER-CONTAINER></ODX>')
    try:
        rq = hc.load_docs([doc]).diag_layers[0].diag_layer_raw.requests[0]
    except Exception as e:  # noqa
        ck.note_broken(f"cannot load the condensed-flag document: {type(e).__name__}: {e}")
        return 0
    for x in range(256):
        pdu = bytes([x])
        ck.count(("condensed-flag", x))
        d, e, _ = cc.guarded(lambda: rq.decode(pdu), timeout=3)
        if e is not None:
            continue
        r, e2, _ = cc.guarded(lambda: bytes(rq.encode(**d)), timeout=3)
        if e2 is not None or r != pdu:
            ck.violation(f"request rq_flag (a flag with condensed single-bit BIT-MASK and a 7 bit value in one byte): PDU {pdu.hex()} decodes to "
                         f"{d!r} which re-encodes to {r.hex() if e2 is None else repr(e2)}",
                         {"document": "harness/codec_checks.py condensed_flag_reencode", "request": "rq_flag", "msg": pdu.hex()})
            break
    return 256


def condensed_encode_probe(ck):
    """C04 (oracle only; condensed masks are not modelled): encoding any value with a condensed BIT-MASK yields a PDU or an
    encode error, never a foreign exception -- mask wider / narrower than a byte, with and without bit position"""
    import hier_common as hc
    from odxtools.exceptions import OdxError
    specs = [("c16", 16, "F00F", None), ("c16b", 16, "F00F", 2), ("c8", 8, "81", None), ("c24", 24, "800001", None), ("c12", 12, "0FF", 3)]
    dops = "".join(
        f'<DATA-OBJECT-PROP ID="{n}"><SHORT-NAME>{n}</SHORT-NAME><COMPU-METHOD><CATEGORY>IDENTICAL</CATEGORY></COMPU-METHOD>'
        f'<DIAG-CODED-TYPE BASE-DATA-TYPE="A_UINT32" IS-CONDENSED="true" xsi:type="STANDARD-LENGTH-TYPE"><BIT-LENGTH>{b}</BIT-LENGTH>'
        f'<BIT-MASK>{m}</BIT-MASK></DIAG-CODED-TYPE><PHYSICAL-TYPE BASE-DATA-TYPE="A_UINT32"/></DATA-OBJECT-PROP>' for n, b, m, _ in specs)
    reqs = "".join(
        f'<REQUEST ID="rq_{n}"><SHORT-NAME>rq_{n}</SHORT-NAME><PARAMS><PARAM xsi:type="VALUE"><SHORT-NAME>v</SHORT-NAME><BYTE-POSITION>0</BYTE-POSITION>'
        + (f"<BIT-POSITION>{bp}</BIT-POSITION>" if bp is not None else "") + f'<DOP-REF ID-REF="{n}"/></PARAM></PARAMS></REQUEST>'
        for n, _b, _m, bp in specs)
    doc = ('<?xml version="1.0" encoding="UTF-8"?><ODX MODEL-VERSION="2.2.0" xmlns:xsi="http://www.w3.org/2001/XMLSchema-instance">'
           '<DIAG-LAYER-CONTAINER ID="DLC"><SHORT-NAME>DLC</SHORT-NAME><BASE-VARIANTS><BASE-VARIANT ID="BV"><SHORT-NAME>BV</SHORT-NAME>'
           f'<DIAG-DATA-DICTIONARY-SPEC><DATA-OBJECT-PROPS>{dops}</DATA-OBJECT-PROPS></DIAG-DATA-DICTIONARY-SPEC>'
           f'<REQUESTS>{reqs}</REQUESTS></BASE-VARIANT></BASE-VARIANTS></DIAG-LAYER-CONTAINER></ODX>')
    try:
        raw = hc.load_docs([doc]).diag_layers[0].diag_layer_raw
    except Exception as e:  # noqa
        ck.note_broken(f"cannot load the condensed-mask document: {type(e).__name__}: {e}")
        return
    for rq in raw.requests:
        for v in (0, 1, 5, 0x81, 0xFF, 0x100, 0xF00F, 0xFFFF, 0x800001, -1):
            ck.count(("condensed-encode", rq.short_name, v))
            r, e, _ = cc.guarded(lambda: bytes(rq.encode(v=v)), timeout=3)
            if e is not None and not isinstance(e, OdxError):
                ck.violation(f"{rq.short_name}.encode(v={v:#x}) (condensed BIT-MASK) raised {type(e).__name__}: {e}",
                             {"document": "harness/codec_checks.py condensed_encode_probe", "request": rq.short_name, "value": v})
                return


def code_pages_decode(ck, raw):
    """C05 (oracle only): every byte value as the content of a string in a single-byte code page (WINDOWS-1252 leaves
    five bytes undefined), as half of a UCS-2 code unit (lone surrogates) and in an END-OF-PDU string"""
    from odxtools.exceptions import DecodeError
    rq5 = [r for r in raw.requests if r.short_name == "rq5"][0]
    kinds = {1: "WINDOWS-1252", 2: "ISO-8859-2", 3: "UCS-2", 4: "UCS-2", 5: "WINDOWS-1252 END-OF-PDU"}
    n = 0
    for pos, kind in kinds.items():
        for b in range(256):
            m = bytearray([38, 0x41, 0x41, 0x00, 0x41, 0x41])
            m[pos] = b
            m = bytes(m)
            n += 1
            r, e, _ = cc.guarded(lambda: rq5.decode(m), timeout=3)
            ck.count(("codepage", pos, b))
            if e is not None and not isinstance(e, DecodeError):
                what = "does not terminate" if isinstance(e, cc.Hang) else f"raised {type(e).__name__}: {e}"
                ck.violation(f"decoding {m.hex()} with request rq5 (byte {b:#04x} in a {kind} string) {what}",
                             {"document": "harness/codec_checks.py UNMODELLED_DOC", "request": "rq5", "msg": m.hex()})
                break
    ck.coverage["code_page_messages"] = n


def snoop_sequences(ck):
    """C05 (oracle only): the decoding front end of the snoop tool (an anchor of the property: it catches exactly
    DecodeError) on telegram sequences over the shipped database: responses before any request, responses after a
    request the database does not know, prefixes and single-byte mutations of a valid exchange"""
    import contextlib
    import io
    import warnings
    import odxtools.cli.snoop as snoop
    import hier_common as hc
    try:
        import odxtools
        db = odxtools.load_pdx_file(os.path.join(common.REPO, "examples", "somersault.pdx"))
        ecu = db.ecus.somersault_lazy
        rq = bytes(ecu.services.session_start.encode_request())
        rs = bytes(ecu.services.session_start.positive_responses[0].encode(coded_request=rq, can_do_backward_flips="true"))
    except Exception as e:  # noqa
        ck.note_broken(f"cannot prepare the snoop telegrams: {type(e).__name__}: {e}")
        return
    RX, TX = 0x7B0, 0x7B8
    reqs = [rq, rq[:1], b"", bytes([0x99, 1, 2]), bytes([rq[0] ^ 0xFF]) + rq[1:]]
    # (incl. the echo of the request: a response payload which decodes as the request of the service)
    resps = [rs, rs[:1], b"", bytes([0x7F, 0x99, 0x11]), bytes([0x7F, rq[0], 0x78]), bytes([0xD9, 1]), bytes([0x7F]), rq]
    resps += [rs[:i] + bytes([rs[i] ^ 0x01]) + rs[i + 1:] for i in range(len(rs))]
    seqs = [[(TX, r)] for r in resps]
    seqs += [[(RX, q), (TX, r)] for q in reqs for r in resps]
    seqs += [[(RX, rq), (TX, rs), (RX, q), (TX, r)] for q in reqs[1:] for r in resps]
    seqs += [[(0x123, rq), (TX, rs)]]
    n = 0
    for seq in seqs:
        snoop.odx_diag_layer, snoop.ecu_rx_id, snoop.ecu_tx_id, snoop.last_request = ecu, RX, TX, None
        for i, (tid, payload) in enumerate(seq):
            n += 1
            ck.count(("snoop", tuple((t, p) for t, p in seq[:i + 1])))
            try:
                with contextlib.redirect_stdout(io.StringIO()), warnings.catch_warnings():
                    warnings.simplefilter("ignore")
                    snoop.handle_telegram(tid, payload)
            except Exception as e:  # noqa
                ck.violation(f"snoop.handle_telegram: telegram #{i} of the sequence {[(hex(t), p.hex()) for t, p in seq]} "
                             f"raised {type(e).__name__}: {e}",
                             {"layer": "somersault_lazy", "telegrams": [[t, p.hex()] for t, p in seq]})
                return
    ck.coverage["snoop_telegrams"] = n


def unmodelled_composites_decode(ck):
    """C05 (oracle only) for composites the codec model does not cover: multiplexers (case with structure, default case
    without structure = an item of zero size, no default case) as parameters and as items of end-of-PDU fields; all byte
    strings up to length 4 (5 in the thorough tier) over a small alphabet behind the service id"""
    import hier_common as hc
    from odxtools.exceptions import DecodeError
    try:
        db = hc.load_docs([UNMODELLED_DOC])
    except Exception as e:  # noqa
        ck.note_broken(f"cannot load the multiplexer document: {type(e).__name__}: {e}")
        return
    raw = db.diag_layers[0].diag_layer_raw
    alpha = [0x00, 0x01, 0x02, 0x03, 0xFF]
    tails = cr.small_strings(alpha, 4 if ck.tier == "quick" else 5)
    n = 0
    objs = [(rq, "UNMODELLED_DOC") for rq in raw.requests]
    try:
        raw_b = hc.load_docs([UNMODELLED_DOC2]).diag_layers[0].diag_layer_raw
        objs += [(x, "UNMODELLED_DOC2") for x in list(raw_b.requests) + list(raw_b.positive_responses)]
        # trouble codes, known and unknown, in front of short tails; table keys
        tails_b = [bytes.fromhex(h) + t for h in ("112233", "445566", "778899", "000000", "1122") for t in cr.small_strings([0, 1, 0xFF], 3)]
        tails_b += [bytes([k]) + t for k in (1, 7, 200, 0, 2) for t in cr.small_strings([0, 5, 0xFF], 3)]
        tails_b += [k + t for k in (b"AB", b"CD", b"ZZ", b"A", b"\xff\xfe") for t in cr.small_strings([0, 5], 3)]
    except Exception as e:  # noqa
        ck.note_broken(f"cannot load the DTC / environment data / table document: {type(e).__name__}: {e}")
        tails_b = []
    for rq, docname in objs:
        sid = bytes(rq.coded_const_prefix())
        for t in (tails if docname == "UNMODELLED_DOC" else tails_b + tails[:160]):
            m = sid + t
            n += 1
            r, e, _ = cc.guarded(lambda: rq.decode(m), timeout=3)
            ck.count(("mux", rq.short_name, m))
            if e is not None and not isinstance(e, DecodeError):
                what = "does not terminate" if isinstance(e, cc.Hang) else f"raised {type(e).__name__}: {e}"
                ck.violation(f"decoding {m.hex()} with {rq.short_name} of {docname} (multiplexers, trouble codes, environment data, tables) {what}",
                             {"document": f"harness/codec_checks.py {docname}", "request": rq.short_name, "msg": m.hex()})
                break
    ck.coverage["multiplexer_messages"] = n
    code_pages_decode(ck, raw)


def unmodelled_composites_roundtrip(ck):
    """C01 / C02 (oracle only) for a multiplexer, which the codec model does not cover: the wire format of a request with a
    multiplexer between two positioned parameters (case with and without structure) and its round trip"""
    import hier_common as hc
    try:
        db = hc.load_docs([UNMODELLED_DOC])
    except Exception as e:  # noqa
        ck.note_broken(f"cannot load the multiplexer document: {type(e).__name__}: {e}")
        return
    rq = [r for r in db.diag_layers[0].diag_layer_raw.requests if r.short_name == "rq4"][0]
    for case, key, data in (("with_data", 1, 0x5A), ("nothing", 2, None), ("with_data", 1, 0), ("nothing", 2, None)):
        for tail in (0xAA, 0x00, 0xFF):
            mv = (case, {"d": data} if data is not None else {})
            want = bytes([0x25, key, data if data is not None else 0, tail])
            r, e, _ = cc.guarded(lambda: bytes(rq.encode(m=mv, tail=tail)), timeout=3)
            ck.count(("muxrt", case, data, tail))
            rep_ = {"document": "harness/codec_checks.py UNMODELLED_DOC", "request": "rq4", "value": repr(mv), "tail": tail}
            if e is not None:
                ck.violation(f"encoding rq4 with m={mv!r}, tail={tail} raised {type(e).__name__}: {e}", rep_)
                return
            if r != want:
                ck.violation(f"rq4 with m={mv!r}, tail={tail:#x} is encoded as {r.hex()}, the ODX layout prescribes {want.hex()}", rep_)
                return
            d, e2, _ = cc.guarded(lambda: rq.decode(r), timeout=3)
            if e2 is not None or d.get("tail") != tail or d.get("m", (None,))[0] != case:
                ck.violation(f"rq4: decode(encode(m={mv!r}, tail={tail})) = {d!r} {e2!r}", rep_)
                return


_XSI = 'xmlns:xsi="http://www.w3.org/2001/XMLSchema-instance"'


def _vp(name, pos, dop):
    return f'<PARAM xsi:type="VALUE"><SHORT-NAME>{name}</SHORT-NAME><BYTE-POSITION>{pos}</BYTE-POSITION><DOP-REF ID-REF="{dop}"/></PARAM>'


def _cc(name, pos, v):
    return (f'<PARAM xsi:type="CODED-CONST"><SHORT-NAME>{name}</SHORT-NAME><BYTE-POSITION>{pos}</BYTE-POSITION><CODED-VALUE>{v}</CODED-VALUE>'
            '<DIAG-CODED-TYPE BASE-DATA-TYPE="A_UINT32" xsi:type="STANDARD-LENGTH-TYPE"><BIT-LENGTH>8</BIT-LENGTH></DIAG-CODED-TYPE></PARAM>')


def _udop(name, bits):
    return (f'<DATA-OBJECT-PROP ID="{name}"><SHORT-NAME>{name}</SHORT-NAME><COMPU-METHOD><CATEGORY>IDENTICAL</CATEGORY></COMPU-METHOD>'
            f'<DIAG-CODED-TYPE BASE-DATA-TYPE="A_UINT32" xsi:type="STANDARD-LENGTH-TYPE"><BIT-LENGTH>{bits}</BIT-LENGTH></DIAG-CODED-TYPE>'
            '<PHYSICAL-TYPE BASE-DATA-TYPE="A_UINT32"/></DATA-OBJECT-PROP>')


DTC_A, DTC_B, DTC_C = 0x112233, 0x445566, 0x778899
# trouble codes, environment data which depends on the trouble code of the same list item, tables
def unmodelled_doc2(env_order=("all", "a", "b")):
  return (
    f'<?xml version="1.0" encoding="UTF-8"?><ODX MODEL-VERSION="2.2.0" {_XSI}>'
    '<DIAG-LAYER-CONTAINER ID="DLC"><SHORT-NAME>DLC</SHORT-NAME><BASE-VARIANTS><BASE-VARIANT ID="BV"><SHORT-NAME>BV</SHORT-NAME>'
    '<DIAG-DATA-DICTIONARY-SPEC>'
    '<DTC-DOPS><DTC-DOP ID="dtcdop"><SHORT-NAME>dtcdop</SHORT-NAME>'
    '<DIAG-CODED-TYPE BASE-DATA-TYPE="A_UINT32" xsi:type="STANDARD-LENGTH-TYPE"><BIT-LENGTH>24</BIT-LENGTH></DIAG-CODED-TYPE>'
    '<PHYSICAL-TYPE BASE-DATA-TYPE="A_UINT32"/><COMPU-METHOD><CATEGORY>IDENTICAL</CATEGORY></COMPU-METHOD><DTCS>'
    + "".join(f'<DTC ID="dtc.{n}"><SHORT-NAME>dtc_{n}</SHORT-NAME><TROUBLE-CODE>{v}</TROUBLE-CODE><TEXT>trouble {n}</TEXT></DTC>'
              for n, v in (("a", DTC_A), ("b", DTC_B), ("c", DTC_C))) +
    '</DTCS></DTC-DOP></DTC-DOPS>'
    '<ENV-DATA-DESCS><ENV-DATA-DESC ID="edd"><SHORT-NAME>edd</SHORT-NAME><PARAM-SNREF SHORT-NAME="dtc"/>'
    '<ENV-DATA-REFS>' + "".join(f'<ENV-DATA-REF ID-REF="ed.{x}"/>' for x in env_order) + '</ENV-DATA-REFS>'
    '</ENV-DATA-DESC></ENV-DATA-DESCS>'
    f'<DATA-OBJECT-PROPS>{_udop("u8", 8)}{_udop("u16", 16)}'
    '<DATA-OBJECT-PROP ID="txt2"><SHORT-NAME>txt2</SHORT-NAME><COMPU-METHOD><CATEGORY>IDENTICAL</CATEGORY></COMPU-METHOD>'
    '<DIAG-CODED-TYPE BASE-DATA-TYPE="A_ASCIISTRING" xsi:type="STANDARD-LENGTH-TYPE"><BIT-LENGTH>16</BIT-LENGTH></DIAG-CODED-TYPE>'
    '<PHYSICAL-TYPE BASE-DATA-TYPE="A_UNICODE2STRING"/></DATA-OBJECT-PROP></DATA-OBJECT-PROPS>'
    f'<STRUCTURES><STRUCTURE ID="item"><SHORT-NAME>item</SHORT-NAME><PARAMS>{_vp("dtc", 0, "dtcdop")}{_vp("env", 3, "edd")}</PARAMS></STRUCTURE>'
    f'<STRUCTURE ID="pair"><SHORT-NAME>pair</SHORT-NAME><PARAMS>{_vp("k", 0, "u8")}{_vp("d", 1, "u16")}</PARAMS></STRUCTURE></STRUCTURES>'
    '<END-OF-PDU-FIELDS><END-OF-PDU-FIELD ID="items"><SHORT-NAME>items</SHORT-NAME><BASIC-STRUCTURE-REF ID-REF="item"/></END-OF-PDU-FIELD></END-OF-PDU-FIELDS>'
    f'<ENV-DATAS><ENV-DATA ID="ed.all"><SHORT-NAME>ed_all</SHORT-NAME><PARAMS>{_vp("status", 0, "u8")}</PARAMS><ALL-VALUE/></ENV-DATA>'
    f'<ENV-DATA ID="ed.a"><SHORT-NAME>ed_a</SHORT-NAME><PARAMS>{_vp("temperature", 0, "u8")}</PARAMS><DTC-VALUES><DTC-VALUE>{DTC_A}</DTC-VALUE></DTC-VALUES></ENV-DATA>'
    f'<ENV-DATA ID="ed.b"><SHORT-NAME>ed_b</SHORT-NAME><PARAMS>{_vp("speed", 0, "u16")}{_vp("voltage", 2, "u8")}</PARAMS><DTC-VALUES><DTC-VALUE>{DTC_B}</DTC-VALUE></DTC-VALUES></ENV-DATA>'
    '</ENV-DATAS>'
    '<TABLES><TABLE ID="tab"><SHORT-NAME>tab</SHORT-NAME><KEY-DOP-REF ID-REF="u8"/>'
    '<TABLE-ROW ID="tab.r1"><SHORT-NAME>r1</SHORT-NAME><KEY>1</KEY><STRUCTURE-REF ID-REF="pair"/></TABLE-ROW>'
    '<TABLE-ROW ID="tab.r2"><SHORT-NAME>r2</SHORT-NAME><KEY>7</KEY><DATA-OBJECT-PROP-REF ID-REF="u16"/></TABLE-ROW>'
    '<TABLE-ROW ID="tab.r3"><SHORT-NAME>r3</SHORT-NAME><KEY>200</KEY><DATA-OBJECT-PROP-REF ID-REF="u8"/></TABLE-ROW>'
    '</TABLE>'
    # a table whose keys are texts
    '<TABLE ID="tabt"><SHORT-NAME>tabt</SHORT-NAME><KEY-DOP-REF ID-REF="txt2"/>'
    '<TABLE-ROW ID="tabt.r1"><SHORT-NAME>t1</SHORT-NAME><KEY>AB</KEY><DATA-OBJECT-PROP-REF ID-REF="u16"/></TABLE-ROW>'
    '<TABLE-ROW ID="tabt.r2"><SHORT-NAME>t2</SHORT-NAME><KEY>CD</KEY><STRUCTURE-REF ID-REF="pair"/></TABLE-ROW>'
    '</TABLE></TABLES>'
    '</DIAG-DATA-DICTIONARY-SPEC>'
    f'<REQUESTS><REQUEST ID="rq_tabt"><SHORT-NAME>rq_tabt</SHORT-NAME><PARAMS>{_cc("sid", 0, 0x32)}'
    '<PARAM ID="rq_tabt.key" xsi:type="TABLE-KEY"><SHORT-NAME>key</SHORT-NAME><BYTE-POSITION>1</BYTE-POSITION><TABLE-REF ID-REF="tabt"/></PARAM>'
    '<PARAM xsi:type="TABLE-STRUCT"><SHORT-NAME>data</SHORT-NAME><BYTE-POSITION>3</BYTE-POSITION><TABLE-KEY-REF ID-REF="rq_tabt.key"/></PARAM>'
    '</PARAMS></REQUEST>'
    f'<REQUEST ID="rq_tab"><SHORT-NAME>rq_tab</SHORT-NAME><PARAMS>{_cc("sid", 0, 0x31)}'
    '<PARAM ID="rq_tab.key" xsi:type="TABLE-KEY"><SHORT-NAME>key</SHORT-NAME><BYTE-POSITION>1</BYTE-POSITION><TABLE-REF ID-REF="tab"/></PARAM>'
    '<PARAM xsi:type="TABLE-STRUCT"><SHORT-NAME>data</SHORT-NAME><BYTE-POSITION>2</BYTE-POSITION><TABLE-KEY-REF ID-REF="rq_tab.key"/></PARAM>'
    '</PARAMS></REQUEST>'
    f'<REQUEST ID="rq_tab2"><SHORT-NAME>rq_tab2</SHORT-NAME><PARAMS>{_cc("sid", 0, 0x33)}'
    '<PARAM ID="rq_tab2.key" xsi:type="TABLE-KEY"><SHORT-NAME>key</SHORT-NAME><BYTE-POSITION>1</BYTE-POSITION><TABLE-REF ID-REF="tab"/></PARAM>'
    '<PARAM xsi:type="TABLE-STRUCT"><SHORT-NAME>data</SHORT-NAME><BYTE-POSITION>2</BYTE-POSITION><TABLE-KEY-REF ID-REF="rq_tab2.key"/></PARAM>'
    '<PARAM xsi:type="TABLE-STRUCT"><SHORT-NAME>more</SHORT-NAME><BYTE-POSITION>5</BYTE-POSITION><TABLE-KEY-REF ID-REF="rq_tab2.key"/></PARAM>'
    '</PARAMS></REQUEST>'
    # a TABLE-KEY which names its row statically (TABLE-ROW-REF): nothing of it is in the PDU
    f'<REQUEST ID="rq_tab3"><SHORT-NAME>rq_tab3</SHORT-NAME><PARAMS>{_cc("sid", 0, 0x34)}'
    '<PARAM ID="rq_tab3.key" xsi:type="TABLE-KEY"><SHORT-NAME>key</SHORT-NAME><BYTE-POSITION>1</BYTE-POSITION><TABLE-ROW-REF ID-REF="tab.r2"/></PARAM>'
    '<PARAM xsi:type="TABLE-STRUCT"><SHORT-NAME>data</SHORT-NAME><BYTE-POSITION>2</BYTE-POSITION><TABLE-KEY-REF ID-REF="rq_tab3.key"/></PARAM>'
    '</PARAMS></REQUEST>'
    f'<REQUEST ID="rq_dtc"><SHORT-NAME>rq_dtc</SHORT-NAME><PARAMS>{_cc("sid", 0, 0x19)}{_vp("dtc", 1, "dtcdop")}{_vp("st", 4, "u8")}</PARAMS></REQUEST>'
    '</REQUESTS>'
    f'<POS-RESPONSES><POS-RESPONSE ID="pr_list"><SHORT-NAME>pr_list</SHORT-NAME><PARAMS>{_cc("sid", 0, 0x59)}{_vp("dtc_list", 1, "items")}</PARAMS></POS-RESPONSE>'
    f'<POS-RESPONSE ID="pr_env"><SHORT-NAME>pr_env</SHORT-NAME><PARAMS>{_cc("sid", 0, 0x5A)}{_vp("dtc", 1, "dtcdop")}{_vp("env", 4, "edd")}'
    '<PARAM xsi:type="VALUE"><SHORT-NAME>tail</SHORT-NAME><DOP-REF ID-REF="pair"/></PARAM></PARAMS></POS-RESPONSE>'
    '</POS-RESPONSES>'
    '</BASE-VARIANT></BASE-VARIANTS></DIAG-LAYER-CONTAINER></ODX>')


UNMODELLED_DOC2 = unmodelled_doc2()


def table_envdata_reject_probe(ck):
    """C04 (oracle only; tables and environment data are outside the codec model): value assignments which contradict
    themselves or carry unknown entries are rejected, whatever stands in front of them --
    a TABLE-KEY given explicitly which names another row than the TABLE-STRUCT value; two TABLE-STRUCTs of one key naming
    different rows; an unknown entry in a structure BEHIND an environment data description (whose own parameters are
    looked up leniently), for a trouble code with and without environment data of its own"""
    import hier_common as hc
    from odxtools.exceptions import OdxError
    try:
        raw = hc.load_docs([UNMODELLED_DOC2]).diag_layers[0].diag_layer_raw
    except Exception as e:  # noqa
        ck.note_broken(f"cannot load the DTC / environment data / table document: {type(e).__name__}: {e}")
        return
    rq = {x.short_name: x for x in raw.requests}
    pr = {x.short_name: x for x in raw.positive_responses}
    cases = [
        ("rq_tab", rq["rq_tab"], dict(key="r2", data=("r1", {"k": 5, "d": 0x1234})), "the TABLE-KEY names row r2, the TABLE-STRUCT value row r1"),
        ("rq_tab", rq["rq_tab"], dict(key="r3", data=("r2", 0xBEEF)), "the TABLE-KEY names row r3, the TABLE-STRUCT value row r2"),
        ("rq_tab2", rq["rq_tab2"], dict(data=("r2", 0xBEEF), more=("r3", 0x7F)), "two TABLE-STRUCTs of one key name the rows r2 and r3"),
    ]
    for code, envv in ((DTC_C, {"status": 1}), (DTC_A, {"status": 1, "temperature": 2})):
        cases.append(("pr_env", pr["pr_env"], dict(dtc=code, env=envv, tail={"k": 1, "d": 2, "levle": 7}),
                      f"unknown entry 'levle' in the structure behind the environment data (trouble code {code:#x})"))
    ok_cases = [("rq_tab2", rq["rq_tab2"], dict(data=("r2", 0xBEEF), more=("r2", 0x0102))),
                ("pr_env", pr["pr_env"], dict(dtc=DTC_C, env={"status": 1}, tail={"k": 1, "d": 2}))]
    for nm, obj, v, what in cases:
        ck.count(("reject", nm, repr(v)))
        r, e, _ = cc.guarded(lambda: bytes(obj.encode(**v)), timeout=3)
        rep_ = {"document": "harness/codec_checks.py UNMODELLED_DOC2", "object": nm, "value": repr(v)}
        if e is None:
            ck.violation(f"{nm}: {what} -- the encoder emits {r.hex()} instead of rejecting the assignment", rep_)
            return
        if not isinstance(e, OdxError):
            ck.violation(f"{nm}: {what} -- rejected with {type(e).__name__}, which is not the library's error type", rep_)
            return
    for nm, obj, v in ok_cases:
        ck.count(("accept", nm, repr(v)))
        r, e, _ = cc.guarded(lambda: bytes(obj.encode(**v)), timeout=3)
        d, e2, _ = cc.guarded(lambda: _norm_dtc(obj.decode(r)), timeout=3) if e is None else (None, None, None)
        if e is not None or e2 is not None or any(d.get(k) != (list(x) if False else x) and tuple(d.get(k, ())) != x for k, x in v.items()):
            ck.violation(f"{nm}: the consistent assignment {v!r} gives {r.hex() if e is None else repr(e)} / {d!r} {e2!r}",
                         {"document": "harness/codec_checks.py UNMODELLED_DOC2", "object": nm, "value": repr(v)})
            return


def _norm_dtc(v):
    from odxtools.diagnostictroublecode import DiagnosticTroubleCode
    if isinstance(v, DiagnosticTroubleCode):
        return v.trouble_code
    if isinstance(v, dict):
        return {k: _norm_dtc(x) for k, x in v.items()}
    if isinstance(v, (list, tuple)):
        return [_norm_dtc(x) for x in v]
    return v


def unmodelled_composites_roundtrip2(ck):
    """C01 / C02 (oracle only) for data-object kinds the codec model does not cover: DTC DOPs, environment data
    descriptions whose content depends on the trouble code of the SAME list item (every list of up to 3 items over 4
    item kinds, so the nearest preceding DTC parameter is not the first one of the PDU), and tables (key + struct)"""
    import hier_common as hc
    try:
        db = hc.load_docs([UNMODELLED_DOC2])
    except Exception as e:  # noqa
        ck.note_broken(f"cannot load the DTC / environment data / table document: {type(e).__name__}: {e}")
        return
    raw = db.diag_layers[0].diag_layer_raw
    resp = raw.positive_responses[0]
    import itertools
    # the same response with the environment data listed in every other order (the ALL-VALUE one need not come first):
    # the wire format does not depend on that order (common data first, then the data of the trouble code)
    others = []
    for order in itertools.permutations(("all", "a", "b")):
        if order == ("all", "a", "b"):
            continue
        try:
            others.append((order, hc.load_docs([unmodelled_doc2(order)]).diag_layers[0].diag_layer_raw.positive_responses[0]))
        except Exception as e:  # noqa
            ck.note_broken(f"cannot load the environment data document with order {order}: {type(e).__name__}: {e}")
    # item -> (value, wire bytes)
    kinds = {
        "a": ({"dtc": DTC_A, "env": {"status": 0x11, "temperature": 0x55}}, bytes.fromhex("112233" "11" "55")),
        "a2": ({"dtc": DTC_A, "env": {"status": 0x12, "temperature": 0x00}}, bytes.fromhex("112233" "12" "00")),
        "b": ({"dtc": DTC_B, "env": {"status": 0x21, "speed": 0x1234, "voltage": 0x0C}}, bytes.fromhex("445566" "21" "1234" "0c")),
        "c": ({"dtc": DTC_C, "env": {"status": 0x31}}, bytes.fromhex("778899" "31")),
    }
    n = 0
    for order, resp in [(("all", "a", "b"), resp)] + others:
      for ln in ((0, 1, 2, 3) if order == ("all", "a", "b") else (1, 2)):
        for combo in itertools.product(sorted(kinds), repeat=ln):
            n += 1
            ck.count(("envdata", order, combo))
            lst = [kinds[k][0] for k in combo]
            want = bytes([0x59]) + b"".join(kinds[k][1] for k in combo)
            rep_ = {"document": f"harness/codec_checks.py unmodelled_doc2({order})", "response": "pr_list", "items": list(combo)}
            r, e, _ = cc.guarded(lambda: bytes(resp.encode(dtc_list=lst)), timeout=3)
            if e is not None or r != want:
                ck.violation(f"pr_list with the items {list(combo)} is encoded as {r.hex() if e is None else repr(e)}, "
                             f"the ODX layout prescribes {want.hex()}", rep_)
                return
            d, e2, _ = cc.guarded(lambda: _norm_dtc(resp.decode(r)), timeout=3)
            if e2 is not None or d != {"sid": 0x59, "dtc_list": lst}:
                ck.violation(f"pr_list: decode(encode(items {list(combo)})) = {d!r} {e2!r} (PDU {r.hex()})", rep_)
                return
    rq = [x for x in raw.requests if x.short_name == "rq_dtc"][0]
    for code in (DTC_A, DTC_B, DTC_C):
        for st in (0, 0xFF):
            n += 1
            want = bytes([0x19]) + code.to_bytes(3, "big") + bytes([st])
            r, e, _ = cc.guarded(lambda: bytes(rq.encode(dtc=code, st=st)), timeout=3)
            d, e2, _ = cc.guarded(lambda: _norm_dtc(rq.decode(want)), timeout=3)
            ck.count(("dtc", code, st))
            if e is not None or r != want or e2 is not None or d != {"sid": 0x19, "dtc": code, "st": st}:
                ck.violation(f"rq_dtc(dtc={code:#x}, st={st}): encoded {r.hex() if e is None else repr(e)} (layout: {want.hex()}), "
                             f"decoded {d!r} {e2!r}", {"document": "harness/codec_checks.py UNMODELLED_DOC2", "request": "rq_dtc", "dtc": code, "st": st})
                return
    rq = [x for x in raw.requests if x.short_name == "rq_tab"][0]
    for row, key, val, wire in (("r1", 1, {"k": 5, "d": 0x1234}, "051234"), ("r1", 1, {"k": 0, "d": 0}, "000000"),
                                ("r2", 7, 0xBEEF, "beef"), ("r3", 200, 0x7F, "7f")):
        n += 1
        want = bytes([0x31, key]) + bytes.fromhex(wire)
        ck.count(("table", row, repr(val)))
        rep_ = {"document": "harness/codec_checks.py UNMODELLED_DOC2", "request": "rq_tab", "row": row, "value": repr(val)}
        r, e, _ = cc.guarded(lambda: bytes(rq.encode(data=(row, val))), timeout=3)
        if e is not None or r != want:
            ck.violation(f"rq_tab with data=({row!r}, {val!r}) is encoded as {r.hex() if e is None else repr(e)}, "
                         f"the ODX layout prescribes {want.hex()}", rep_)
            return
        d, e2, _ = cc.guarded(lambda: rq.decode(r), timeout=3)
        if e2 is not None or d.get("key") != row or tuple(d.get("data", ())) != (row, val):
            ck.violation(f"rq_tab: decode(encode(data=({row!r}, {val!r}))) = {d!r} {e2!r}", rep_)
            return
    rq = [x for x in raw.requests if x.short_name == "rq_tab3"][0]
    for val in (0xBEEF, 0):
        n += 1
        want = bytes([0x34, 7]) + val.to_bytes(2, "big")
        ck.count(("table-static-row", val))
        rep_ = {"document": "harness/codec_checks.py UNMODELLED_DOC2", "request": "rq_tab3", "value": val}
        r, e, _ = cc.guarded(lambda: bytes(rq.encode(data=("r2", val))), timeout=3)
        d, e2, _ = cc.guarded(lambda: rq.decode(want), timeout=3)
        if e is not None or r != want or e2 is not None or d.get("key") != "r2" or tuple(d.get("data", ())) != ("r2", val):
            ck.violation(f"rq_tab3 (TABLE-KEY with a static TABLE-ROW-REF), data=('r2', {val}): encoded {r.hex() if e is None else repr(e)} "
                         f"(layout: {want.hex()}), decoded {d!r} {e2!r}", rep_)
            return
    rq = [x for x in raw.requests if x.short_name == "rq_tabt"][0]
    for row, key, val, wire in (("t1", b"AB", 0xBEEF, "beef"), ("t2", b"CD", {"k": 5, "d": 0x1234}, "051234")):
        n += 1
        want = bytes([0x32]) + key + bytes.fromhex(wire)
        ck.count(("table-text-key", row, repr(val)))
        rep_ = {"document": "harness/codec_checks.py UNMODELLED_DOC2", "request": "rq_tabt", "row": row, "value": repr(val)}
        r, e, _ = cc.guarded(lambda: bytes(rq.encode(data=(row, val))), timeout=3)
        if e is not None or r != want:
            ck.violation(f"rq_tabt with data=({row!r}, {val!r}) is encoded as {r.hex() if e is None else repr(e)}, "
                         f"the ODX layout prescribes {want.hex()}", rep_)
            return
        d, e2, _ = cc.guarded(lambda: rq.decode(r), timeout=3)
        if e2 is not None or d.get("key") != row or tuple(d.get("data", ())) != (row, val):
            ck.violation(f"rq_tabt: decode(encode(data=({row!r}, {val!r}))) = {d!r} {e2!r}", rep_)
            return
    ck.coverage["dtc_envdata_table_messages"] = n


def somersault_decode(ck):
    """C05 on the shipped example database: layer-level decoding of prefixes, mutations and short strings"""
    import odxtools
    from odxtools.exceptions import DecodeError
    path = os.path.join(common.REPO, "examples", "somersault.pdx")
    try:
        db = odxtools.load_pdx_file(path)
    except Exception as e:  # noqa
        ck.note_broken(f"cannot load somersault.pdx: {e}")
        return
    layer = db.ecus.somersault_lazy
    msgs = set()
    for svc in layer.services:
        try:
            pre = bytes(svc.request.coded_const_prefix())
        except Exception:  # noqa
            continue
        for tail in (b"", b"\x00", b"\x01\x02", b"\xff" * 3, bytes(range(6))):
            msgs.add(pre + tail)
        for r in list(svc.positive_responses) + list(svc.negative_responses):
            try:
                p2 = bytes(r.coded_const_prefix(pre))
            except Exception:  # noqa
                continue
            for tail in (b"", b"\x00", b"\x7f\x80", b"\xff" * 4):
                msgs.add(p2 + tail)
    for m in list(msgs):
        for k in range(len(m)):
            msgs.add(m[:k])
    alpha = [0x00, 0x01, 0x7F, 0x80, 0xFF, 0x10, 0x3E, 0x50, 0xBA, 0xFA]
    for m in cr.small_strings(alpha, 2 if ck.tier == "quick" else 3):
        msgs.add(m)
    n = 0
    for m in sorted(msgs):
        n += 1
        r, e, _ = cc.guarded(lambda: layer.decode(m))
        ck.count(("somersault", m))
        if e is not None and not isinstance(e, DecodeError):
            ck.violation(f"DiagLayer.decode of {m.hex()} on somersault_lazy raised {type(e).__name__}: {e}",
                         {"database": "examples/somersault.pdx", "layer": "somersault_lazy", "msg": m.hex()})
    ck.coverage["somersault_messages"] = n


if __name__ == "__main__":
    main(sys.argv[1], sys.argv[2:])
