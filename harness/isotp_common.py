"""Shared code of the C12 / C13 checks: running the real ISO-TP state machine,
an independent segmentation / provenance reference, wire encoding."""
import asyncio
import io

M_RUN = 12
M_SEG = 112

FD_SIZES = [8, 12, 16, 20, 24, 32, 48, 64]


# ---------------------------------------------------------------------------
# reference segmentation (ISO 15765-2, normal addressing), independent of odxtools
# ---------------------------------------------------------------------------
def segment(fsz, t, pad=b""):
    n = len(t)
    if n <= 7:
        return [bytes([n]) + t + pad]
    if n <= fsz - 2:
        return [bytes([0, n]) + t + pad]
    if n <= 4095:
        frames = [bytes([0x10 | (n >> 8), n & 0xFF]) + t[:fsz - 2]]
        rest = t[fsz - 2:]
    else:
        # ISO 15765-2:2016: a zero 12 bit length, then the length as 32 bit number
        frames = [bytes([0x10, 0]) + n.to_bytes(4, "big") + t[:fsz - 6]]
        rest = t[fsz - 6:]
    k = 1
    while True:
        if len(rest) <= fsz - 1:
            frames.append(bytes([0x20 | (k % 16)]) + rest + pad)
            break
        frames.append(bytes([0x20 | (k % 16)]) + rest[:fsz - 1])
        rest = rest[fsz - 1:]
        k += 1
    return frames


def make_pad(rng, frame_len, fsz, mode):
    """padding appended to the last frame of a transfer"""
    if mode == 0:
        return b""
    room = max(0, fsz - frame_len)
    if mode == 1:  # pad to the frame size with a constant
        return bytes([rng.choice([0x00, 0xAA, 0xCC, 0x55, 0xFF])]) * room
    return bytes(rng.randrange(256) for _ in range(rng.randint(0, room)))


# ---------------------------------------------------------------------------
# reference for C13: what may be reported, computed from the frame history
# ---------------------------------------------------------------------------
class Provenance:
    """Tracks, per id, the last first frame and its in-sequence consecutive
    frames; check() says whether a reported telegram is legitimate."""

    def __init__(self, ids):
        self.ids = list(ids)
        self.cur = {}  # id -> dict(n, data, last, emitted)

    def feed(self, rx, d, reported):
        """returns None or a description of what is wrong"""
        if rx not in self.ids:
            return "telegram reported for an unknown id" if reported else None
        exp = None  # the only telegram that may legitimately be reported for this frame
        if len(d) >= 1:
            ft = d[0] >> 4
            lo = d[0] & 15
            if ft == 0:
                if lo == 0 and len(d) > 8:
                    exp = bytes(d[2:2 + d[1]])
                else:
                    exp = bytes(d[1:1 + lo])
            elif ft == 1 and len(d) >= 2:
                n_, data_ = (lo << 8) | d[1], bytes(d[2:])
                if n_ == 0 and len(d) >= 6:
                    # the announced length is the 32 bit number behind a zero 12 bit length (ISO 15765-2:2016)
                    n_, data_ = int.from_bytes(d[2:6], "big"), bytes(d[6:])
                c = self.cur[rx] = dict(n=n_, data=data_, last=0, emitted=False)
                if len(c["data"]) >= c["n"]:
                    exp = c["data"][:c["n"]]  # a first frame which already carries everything
            elif ft == 2:
                c = self.cur.get(rx)
                if c is not None and (c["last"] + 1) % 16 == lo and len(c["data"]) < c["n"]:
                    c["last"] = lo
                    c["data"] += bytes(d[1:])
                    if len(c["data"]) >= c["n"]:
                        exp = c["data"][:c["n"]]
                elif c is not None and not c["emitted"] and (c["last"] + 1) % 16 == lo:
                    # announced length already reached by the first frame alone
                    c["last"] = lo
                    c["data"] += bytes(d[1:])
                    exp = c["data"][:c["n"]]
        for (tid, t) in reported:
            if tid != rx:
                return f"telegram reported for id {tid:#x} while processing a frame of id {rx:#x}"
        if len(reported) > 1:
            return "more than one telegram for one frame"
        if reported:
            ft = d[0] >> 4 if len(d) else -1
            if exp is None:
                return ("a telegram was reported although the history contains no single frame or "
                        "first-frame transfer justifying it")
            if bytes(reported[0][1]) != exp:
                return f"reported telegram {bytes(reported[0][1]).hex()} differs from the justified one {exp.hex()}"
            if ft in (1, 2):
                c = self.cur[rx]
                if c["emitted"]:
                    return "a second telegram was reported for one first frame"
                c["emitted"] = True
        return None


# ---------------------------------------------------------------------------
# running the implementation
# ---------------------------------------------------------------------------
class FakeBus:

    def __init__(self):
        self.sent = []
        self.format_errors = []

    def send(self, msg):
        self.sent.append((msg.arbitration_id, bytes(msg.data)))
        # the frame format must be able to carry the identifier: 29 bit identifiers need the extended format
        if bool(msg.is_extended_id) != (msg.arbitration_id > 0x7FF):
            self.format_errors.append(f"message for id {msg.arbitration_id:#x} sent with is_extended_id={msg.is_extended_id}")


def make_machine(rx, tx=None, psize=0, pval=0xAA, active=False):
    import odxtools.isotp_state_machine as ism

    class Rec:
        """records callbacks; placed before the decoder class in the MRO"""

        def on_single_frame(self, idx, p):
            self.cbs.append([0, idx, list(p)])
            super().on_single_frame(idx, p)

        def on_first_frame(self, idx, p):
            self.cbs.append([1, idx, list(p)])
            super().on_first_frame(idx, p)

        def on_consecutive_frame(self, idx, seg, p):
            self.cbs.append([2, idx, seg, list(p)])
            super().on_consecutive_frame(idx, seg, p)

        def on_flow_control_frame(self, idx, flag):
            self.cbs.append([3, idx, flag])
            super().on_flow_control_frame(idx, flag)

        def on_sequence_error(self, idx, e, r):
            self.cbs.append([4, idx, e, r])
            super().on_sequence_error(idx, e, r)

        def on_frame_type_error(self, idx, ft):
            self.cbs.append([5, idx, ft])
            super().on_frame_type_error(idx, ft)

        def on_telegram_complete(self, idx, p):
            self.cbs.append([6, idx, list(p)])
            super().on_telegram_complete(idx, p)

    if active:
        cls = type("RecActive", (Rec, ism.IsoTpActiveDecoder), {})
        bus = FakeBus()
        m = cls(bus, list(rx), list(tx), padding_size=psize, padding_value=pval)
        m._bus = bus
    else:
        cls = type("RecPassive", (Rec, ism.IsoTpStateMachine), {})
        m = cls(list(rx))
        m._bus = None
    m.cbs = []
    return m


def run_impl(rx, tx, psize, pval, frames, active):
    """returns (trace, error) ; trace: per frame [telegrams, callbacks, sent]"""
    m = make_machine(rx, tx, psize, pval, active)
    trace = []
    handed_out = []  # (frame index, the object which was handed out, its content at that time)
    for i, (fid, d) in enumerate(frames):
        m.cbs = []
        if m._bus:
            m._bus.sent = []
        try:
            raw = list(m.decode_rx_frame(fid, bytes(d)))
            ts = [[tid, list(t)] for tid, t in raw]
        except Exception as e:  # noqa
            return trace, (i, f"{type(e).__name__}: {e}")
        handed_out.extend((i, t, bytes(t)) for _, t in raw)
        sent = [[a, list(p)] for a, p in m._bus.sent] if m._bus else []
        trace.append([ts, m.cbs, sent])
    if m._bus and m._bus.format_errors:
        return trace, (len(frames) - 1, "flow control: " + m._bus.format_errors[0])
    # a consumer which queues the telegrams looks at them later: they must still be what was reported
    for i, t, snap in handed_out:
        if bytes(t) != snap:
            return trace, (i, f"the telegram {snap.hex()} reported for frame {i} was changed afterwards into {bytes(t).hex()} "
                              "(the reassembler kept writing to the object it had handed out)")
    return trace, None


def run_impl_partial(rx, frames):
    """a consumer which takes the first telegram of decode_rx_frame() only and never resumes the generator (next(it, None),
    a `break` in the loop body): returns the telegrams, or ("error", i, text)"""
    m = make_machine(rx)
    out, keep = [], []
    for i, (fid, d) in enumerate(frames):
        try:
            it = iter(m.decode_rx_frame(fid, bytes(d)))
            first = next(it, None)
        except Exception as e:  # noqa
            return ("error", i, f"{type(e).__name__}: {e}")
        keep.append(it)  # (the suspended generator stays alive, it is neither resumed nor closed)
        if first is not None:
            out.append([first[0], list(first[1])])
    return out


def fmt_line(fid, d, style):
    hx = bytes(d).hex().upper()
    ident = f"{fid:03X}" if fid <= 0x7FF else f"{fid:08X}"  # candump writes 29 bit identifiers with 8 digits
    if style == 0:  # candump console format
        return f"  can0  {ident:>8}   [{len(d)}]  " + " ".join(f"{b:02X}" for b in d)
    if style == 3:  # candump -a: console format with the ASCII column behind the data
        asc = "".join(chr(b) if 32 <= b < 127 and chr(b) != "'" else "." for b in d)
        return f"  can0  {ident:>8}   [{len(d)}]  " + " ".join(f"{b:02X}" for b in d) + f"   '{asc}'"
    if style == 1:  # candump -l log format
        return f"(1234567890.123456) can0 {ident}#{hx}"
    return f"(1234567890.123456) can0 {ident}##1{hx}"  # CAN-FD log format


# lines which carry no data bytes: blank, comments, and what candump prints for remote (RTR) frames and for empty
# frames -- these look like a frame up to the data field
JUNK_LINES = ["", "   ", "\t", "# capture restarted", "can0 garbage",
              "  can0  7E0   [0]  remote request", "  can0  123   [8]  remote request", "  can0  7E8   [0] ",
              "can0  [3] 02 10 03", "  can0  7E 8   [3]  02 10 03", "  can0  7E8   [3]  02 1 003 5555"]


def log_text(frames, style_of, junk=None, eol="\n"):
    """candump text of the frames; junk: {position: line which is no frame (blank, white space, comment)} inserted
    in front of the frame of that position"""
    lines = []
    for i, (fid, d) in enumerate(frames):
        if junk and i in junk:
            lines.append(junk[i])
        lines.append(fmt_line(fid, d, style_of(i, d)))
    if junk and len(frames) in junk:
        lines.append(junk[len(frames)])
    return eol.join(lines) + eol


def run_impl_log(rx, frames, style_of, junk=None, eol="\n", split_at=None):
    """feed the frames as a candump text log through read_telegrams; split_at: the log is rotated into two files behind
    that many lines, which the same reassembler reads one after the other"""
    import contextlib
    m = make_machine(rx)
    text = log_text(frames, style_of, junk, eol)
    parts = [text]
    if split_at is not None:
        lines = text.split(eol)
        parts = [eol.join(lines[:split_at]) + eol, eol.join(lines[split_at:])]

    async def go():
        out = []
        for part in parts:
            async for tid, t in m.read_telegrams(io.StringIO(part)):
                out.append((tid, t))
        # (converted only after the whole log was read, like a consumer which queues the telegrams)
        return [[tid, list(t)] for tid, t in out]

    err = io.StringIO()
    with contextlib.redirect_stderr(err):
        res = asyncio.run(go())
    return res, err.getvalue()


def wire_case(rx, tx, psize, pval, frames, active):
    return [M_RUN, [list(rx), list(tx), psize, pval, [[fid, list(d)] for fid, d in frames], active]]


# ---------------------------------------------------------------------------
# the snoop tool end to end (passive mode, candump text on stdin)
# ---------------------------------------------------------------------------
_SNOOP_DB = {}


def run_snoop(text, rx_arg, tx_arg, variant="somersault_lazy"):
    """odxtools.cli.snoop.run on the shipped database with the log on stdin.
    -> (list of ["req"|"resp", hex] for telegrams the database cannot decode, all stdout, error or None)"""
    import argparse
    import contextlib
    import os
    import re
    import sys
    import warnings
    import common
    import odxtools.cli.snoop as snoop
    pdx = os.path.join(common.REPO, "examples", "somersault.pdx")
    args = argparse.Namespace(pdx_file=pdx, variant=variant, protocol=None, rx=rx_arg, tx=tx_arg, channel=None, active=False)
    out = io.StringIO()
    old_stdin, old_load = sys.stdin, snoop._parser_utils.load_file
    if "db" not in _SNOOP_DB:
        _SNOOP_DB["db"] = old_load(args)  # loaded once per check run by the code under test
    snoop._parser_utils.load_file = lambda a: _SNOOP_DB["db"]
    sys.stdin = io.StringIO(text)
    err = None
    try:
        with contextlib.redirect_stdout(out), contextlib.redirect_stderr(io.StringIO()), warnings.catch_warnings():
            warnings.simplefilter("ignore")
            snoop.last_request = None
            snoop.run(args)
    except SystemExit as e:
        err = f"SystemExit({e.code})"
    except Exception as e:  # noqa
        err = f"{type(e).__name__}: {e}"
    finally:
        sys.stdin = old_stdin
        snoop._parser_utils.load_file = old_load
    res = []
    for line in out.getvalue().splitlines():
        if m := re.match(r"Tester: ([0-9a-f]*) ", line):
            res.append(["req", m.group(1)])
        elif m := re.search(r"unrecognized response of \d+ bytes length: 0x([0-9a-f]*)", line):
            res.append(["resp", m.group(1)])
    return res, out.getvalue(), err
