"""C09 -- a layer sees exactly the objects ODX value inheritance prescribes.

Theorems: coq/Properties/C09.v.  Tie: correspondence of Model/Inherit.v (avail) with
the loaded layers of generated ODX containers (5 layer types, single/multiple
parents, diamonds, NOT-INHERITED lists) for 5 object categories; direct oracle: an
independent declarative computation of visibility on the hierarchy, plus "the
parent's view is unchanged" and decode of an inherited service.
"""
import itertools
import json
import xml.etree.ElementTree as ET

import codec_common as cc
import common
import hier_common as hc
from common import Check

M = 9
TYPES = ["PROTOCOL", "FUNCTIONAL-GROUP", "BASE-VARIANT", "ECU-VARIANT", "ECU-SHARED-DATA"]
PLURAL = ["PROTOCOLS", "FUNCTIONAL-GROUPS", "BASE-VARIANTS", "ECU-VARIANTS", "ECU-SHARED-DATAS"]
PRIO = {0: 1, 1: 2, 2: 3, 3: 4, 4: 100}
CATS = ["diag_comms", "dops", "gnrs", "funct_classes", "audiences", "structures", "muxs", "tables"]
EXCL_TAG = {"diag_comms": ("NOT-INHERITED-DIAG-COMMS", "NOT-INHERITED-DIAG-COMM", "DIAG-COMM-SNREF"),
            "dops": ("NOT-INHERITED-DOPS", "NOT-INHERITED-DOP", "DOP-BASE-SNREF"),
            "tables": ("NOT-INHERITED-TABLES", "NOT-INHERITED-TABLE", "TABLE-SNREF"),
            "gnrs": ("NOT-INHERITED-GLOBAL-NEG-RESPONSES", "NOT-INHERITED-GLOBAL-NEG-RESPONSE", "GLOBAL-NEG-RESPONSE-SNREF")}
# NOT-INHERITED-DOPS names DOP-BASE objects of any kind (simple data objects, structures, multiplexers, ...);
# NOT-INHERITED-TABLES names tables only
EXCL_OF = {"structures": "dops", "muxs": "dops"}


def excl_of(p, cat):
    return p["excl"].get(EXCL_OF.get(cat, cat), [])


def gen_hierarchy(rng, nmax=5, names=3):
    n = rng.randint(1, nmax)
    layers = []
    for i in range(n):
        t = rng.choice([0, 1, 2, 2, 3, 3, 4]) if i > 0 else rng.choice([0, 2, 4, 1])
        parents = []
        if t != 4 and i > 0:
            k = rng.choice([0, 1, 1, 2, 2, 3])
            for j in rng.sample(range(i), min(k, i)):
                excl = {c: sorted(set(rng.choice(range(1, names + 1)) for _ in range(rng.choice([0, 0, 1, 2])))) for c in EXCL_TAG}
                parents.append(dict(target=j, excl=excl))
        locs = {c: sorted(set(rng.choice(range(1, names + 1)) for _ in range(rng.choice([0, 1, 1, 2])))) for c in CATS}
        for c in ("structures", "muxs", "tables"):
            if rng.random() < 0.5:
                locs[c] = []
        # which local diag comms are single ECU jobs (the others are services); unit groups: name -> content (objects
        # without an id: two layers may define EQUAL ones)
        jobs = [x for x in locs["diag_comms"] if rng.random() < 0.3]
        ugs = {str(x): rng.choice(["COUNTRY", "COUNTRY", "EQUIV-UNITS"])
               for x in sorted(set(rng.choice(range(1, names + 1)) for _ in range(rng.choice([0, 0, 1, 1, 2]))))}
        layers.append(dict(id=i, type=t, parents=parents, locals=locs, jobs=jobs, unit_groups=ugs))
    if rng.random() < 0.25:
        layers[0]["odd_names"] = True
    return layers


def emit(layers):
    by_type = {t: "" for t in range(5)}
    for L in layers:
        nm = f"L{L['id']}"
        prefs = ""
        for p in L["parents"]:
            tl = layers[p["target"]]
            ex = ""
            for c, (a, b, d) in EXCL_TAG.items():
                if p["excl"].get(c):
                    ex += f"<{a}>" + "".join(f'<{b}><{d} SHORT-NAME="n{x}"/></{b}>' for x in p["excl"].get(c, [])) + f"</{a}>"
            prefs += f'<PARENT-REF ID-REF="L{tl["id"]}" DOCREF="DLC" DOCTYPE="CONTAINER" xsi:type="{TYPES[tl["type"]]}-REF">{ex}</PARENT-REF>'
        loc = L["locals"]
        fcs = "".join(f'<FUNCT-CLASS ID="{nm}.fc{x}"><SHORT-NAME>n{x}</SHORT-NAME></FUNCT-CLASS>' for x in loc["funct_classes"])
        dops = "".join(f'<DATA-OBJECT-PROP ID="{nm}.dop{x}"><SHORT-NAME>n{x}</SHORT-NAME><COMPU-METHOD><CATEGORY>IDENTICAL</CATEGORY></COMPU-METHOD>'
                       f'<DIAG-CODED-TYPE BASE-DATA-TYPE="A_UINT32" xsi:type="STANDARD-LENGTH-TYPE"><BIT-LENGTH>8</BIT-LENGTH></DIAG-CODED-TYPE>'
                       f'<PHYSICAL-TYPE BASE-DATA-TYPE="A_UINT32"/></DATA-OBJECT-PROP>' for x in loc["dops"])
        structs = "".join(f'<STRUCTURE ID="{nm}.st{x}"><SHORT-NAME>n{x}</SHORT-NAME></STRUCTURE>' for x in loc.get("structures", []))
        muxs = "".join(f'<MUX ID="{nm}.mux{x}"><SHORT-NAME>n{x}</SHORT-NAME><BYTE-POSITION>1</BYTE-POSITION><SWITCH-KEY>'
                       f'<BYTE-POSITION>0</BYTE-POSITION><DATA-OBJECT-PROP-REF ID-REF="{nm}.kdop"/></SWITCH-KEY></MUX>'
                       for x in loc.get("muxs", []))
        if muxs:
            # the switch key's data object ("k..." names are not part of the generated name space n1..n3)
            dops += (f'<DATA-OBJECT-PROP ID="{nm}.kdop"><SHORT-NAME>k{L["id"]}</SHORT-NAME><COMPU-METHOD><CATEGORY>IDENTICAL</CATEGORY></COMPU-METHOD>'
                     f'<DIAG-CODED-TYPE BASE-DATA-TYPE="A_UINT32" xsi:type="STANDARD-LENGTH-TYPE"><BIT-LENGTH>8</BIT-LENGTH></DIAG-CODED-TYPE>'
                     f'<PHYSICAL-TYPE BASE-DATA-TYPE="A_UINT32"/></DATA-OBJECT-PROP>')
        tables = "".join(f'<TABLE ID="{nm}.tab{x}"><SHORT-NAME>n{x}</SHORT-NAME></TABLE>' for x in loc.get("tables", []))
        jobs = L.get("jobs", [])
        # (IS-FINAL / IS-MANDATORY / IS-EXECUTABLE are attributes of the object; they have no influence on what a layer sees)
        flags = lambda x: ((' IS-FINAL="true"' if (L["id"] + x) % 3 == 0 else "") + (' IS-MANDATORY="true"' if (L["id"] + 2 * x) % 4 == 0 else "") +
                           (' IS-EXECUTABLE="false"' if (2 * L["id"] + x) % 5 == 0 else ""))
        svcs = "".join(
            (f'<SINGLE-ECU-JOB ID="{nm}.svc{x}"{flags(x)}><SHORT-NAME>n{x}</SHORT-NAME><PROG-CODES><PROG-CODE><CODE-FILE>job.jar</CODE-FILE>'
             f'<SYNTAX>JAR</SYNTAX><REVISION>1</REVISION></PROG-CODE></PROG-CODES></SINGLE-ECU-JOB>') if x in jobs else
            f'<DIAG-SERVICE ID="{nm}.svc{x}"{flags(x)}><SHORT-NAME>n{x}</SHORT-NAME><REQUEST-REF ID-REF="{nm}.rq{x}"/></DIAG-SERVICE>'
            for x in loc["diag_comms"])
        ugs = "".join(f"<UNIT-GROUP><SHORT-NAME>n{x}</SHORT-NAME><CATEGORY>{cat}</CATEGORY></UNIT-GROUP>"
                      for x, cat in sorted(L.get("unit_groups", {}).items()))
        reqs = "".join(f'<REQUEST ID="{nm}.rq{x}"><SHORT-NAME>rq_{nm}_{x}</SHORT-NAME><PARAMS><PARAM xsi:type="CODED-CONST"><SHORT-NAME>sid</SHORT-NAME>'
                       f'<CODED-VALUE>{16 * (L["id"] + 1) + x}</CODED-VALUE><DIAG-CODED-TYPE BASE-DATA-TYPE="A_UINT32" xsi:type="STANDARD-LENGTH-TYPE">'
                       f'<BIT-LENGTH>8</BIT-LENGTH></DIAG-CODED-TYPE></PARAM></PARAMS></REQUEST>' for x in loc["diag_comms"] if x not in jobs)
        gnrs = "".join(f'<GLOBAL-NEG-RESPONSE ID="{nm}.gnr{x}"><SHORT-NAME>n{x}</SHORT-NAME><PARAMS><PARAM xsi:type="CODED-CONST"><SHORT-NAME>sid</SHORT-NAME>'
                       f'<CODED-VALUE>127</CODED-VALUE><DIAG-CODED-TYPE BASE-DATA-TYPE="A_UINT32" xsi:type="STANDARD-LENGTH-TYPE">'
                       f'<BIT-LENGTH>8</BIT-LENGTH></DIAG-CODED-TYPE></PARAM></PARAMS></GLOBAL-NEG-RESPONSE>' for x in loc["gnrs"])
        auds = "".join(f'<ADDITIONAL-AUDIENCE ID="{nm}.aud{x}"><SHORT-NAME>n{x}</SHORT-NAME></ADDITIONAL-AUDIENCE>' for x in loc["audiences"])
        body = (f"<SHORT-NAME>{nm}</SHORT-NAME>" + (f"<FUNCT-CLASSS>{fcs}</FUNCT-CLASSS>" if fcs else "") +
                (("<DIAG-DATA-DICTIONARY-SPEC>" + (f"<DATA-OBJECT-PROPS>{dops}</DATA-OBJECT-PROPS>" if dops else "") +
                  (f"<STRUCTURES>{structs}</STRUCTURES>" if structs else "") + (f"<MUXS>{muxs}</MUXS>" if muxs else "") +
                  (f"<UNIT-SPEC><UNIT-GROUPS>{ugs}</UNIT-GROUPS></UNIT-SPEC>" if ugs else "") +
                  (f"<TABLES>{tables}</TABLES>" if tables else "") + "</DIAG-DATA-DICTIONARY-SPEC>")
                 if dops or ugs or structs or muxs or tables else "") +
                (f"<DIAG-COMMS>{svcs}</DIAG-COMMS>" if svcs else "") + (f"<REQUESTS>{reqs}</REQUESTS>" if reqs else "") +
                (f"<GLOBAL-NEG-RESPONSES>{gnrs}</GLOBAL-NEG-RESPONSES>" if gnrs else "") +
                (f"<ADDITIONAL-AUDIENCES>{auds}</ADDITIONAL-AUDIENCES>" if auds else "") +
                (hc.PROTOCOL_EXTRA if L["type"] == 0 else "") +
                (f"<PARENT-REFS>{prefs}</PARENT-REFS>" if prefs else ""))
        by_type[L["type"]] += f'<{TYPES[L["type"]]} ID="{nm}">{body}</{TYPES[L["type"]]}>'
    secs = "".join(f"<{PLURAL[t]}>{by_type[t]}</{PLURAL[t]}>" for t in (0, 1, 2, 3, 4) if by_type[t])
    if layers and layers[0].get("odd_names"):
        for x, odd in ODD_NAMES.items():
            secs = secs.replace(f"<SHORT-NAME>n{x}</SHORT-NAME>", f"<SHORT-NAME>{odd}</SHORT-NAME>").replace(
                f'SHORT-NAME="n{x}"', f'SHORT-NAME="{odd}"')
    return ('<?xml version="1.0" encoding="UTF-8"?><ODX MODEL-VERSION="2.2.0" xmlns:xsi="http://www.w3.org/2001/XMLSchema-instance">'
            f'<DIAG-LAYER-CONTAINER ID="DLC"><SHORT-NAME>DLC</SHORT-NAME>{secs}</DIAG-LAYER-CONTAINER></ODX>')


# short names which the library's named lists have to rename (python keyword, leading digit, name of a list method): they
# are legal ODX short names, and NOT-INHERITED lists refer to objects by their ODX short name
ODD_NAMES = {1: "continue", 2: "2ndGear", 3: "index"}
ODD_INV = {v: k for k, v in ODD_NAMES.items()}


def num_of(short_name):
    """the number behind a generated object name (n1 / continue -> 1, ...)"""
    return ODD_INV[short_name] if short_name in ODD_INV else int(short_name[1:])


def src_of(o):
    return int(o.odx_id.doc_fragments[-1].doc_name[1:])


def impl_views(layers):
    """returns dict cat -> {layer id: [(name, src)...]} or ('error', class)"""
    from odxtools.database import Database
    from odxtools.exceptions import OdxError
    db = Database()
    import io
    db.add_auxiliary_file("job.jar", io.BytesIO(b"job"))

    def go():
        for d in (emit(layers), hc.cpsubset_doc(), hc.cpspec_doc()):
            db._process_xml_tree(ET.fromstring(d))
        db.refresh()

    _, e, _ = cc.guarded(go, timeout=20)
    if e is not None:
        return ("error", "OdxError" if isinstance(e, OdxError) else type(e).__name__, str(e)[:200]), db
    return views_of_db(db), db


def views_of_db(db):
    out = {c: {} for c in CATS}
    out["services"], out["jobs"], out["unit_groups"] = {}, {}, {}
    for dl in db.diag_layers:
        i = int(dl.short_name[1:])
        out["services"][i] = sorted([num_of(o.short_name), src_of(o)] for o in dl.services)
        out["jobs"][i] = sorted([num_of(o.short_name), src_of(o)] for o in getattr(dl, "single_ecu_jobs", []))
        us = dl.diag_data_dictionary_spec.unit_spec if dl.diag_data_dictionary_spec is not None else None
        out["unit_groups"][i] = sorted([str(num_of(o.short_name)), o.category.value] for o in (us.unit_groups if us is not None else []))
        out["diag_comms"][i] = [[num_of(o.short_name), src_of(o)] for o in dl.diag_comms]
        ddds = dl.diag_data_dictionary_spec
        out["dops"][i] = [[num_of(o.short_name), src_of(o)] for o in ddds.data_object_props if not o.short_name.startswith("k")]
        out["structures"][i] = [[num_of(o.short_name), src_of(o)] for o in ddds.structures]
        out["muxs"][i] = [[num_of(o.short_name), src_of(o)] for o in ddds.muxs]
        out["tables"][i] = [[num_of(o.short_name), src_of(o)] for o in ddds.tables]
        out["gnrs"][i] = [[num_of(o.short_name), src_of(o)] for o in dl.global_negative_responses]
        out["funct_classes"][i] = [[num_of(o.short_name), src_of(o)] for o in
                                   getattr(dl, "functional_classes", dl.diag_layer_raw.functional_classes)]
        out["audiences"][i] = [[num_of(o.short_name), src_of(o)] for o in
                               getattr(dl, "additional_audiences", dl.diag_layer_raw.additional_audiences)]
    return out


def check_refresh_history(ck, layers, db):
    """the views depend on the hierarchy as it is now, not on what an earlier refresh() saw: a PARENT-REF is removed from
    the live database, then put back; after each refresh() the views are those which inheritance prescribes"""
    import copy
    cands = [L for L in layers if L["parents"]]
    if not cands:
        return
    L = cands[len(json.dumps(layers)) % len(cands)]
    dl = next(d for d in db.diag_layers if d.short_name == f"L{L['id']}")
    prefs = dl.diag_layer_raw.parent_refs
    removed = prefs.pop()
    mod = copy.deepcopy(layers)
    ml = next(x for x in mod if x["id"] == L["id"])
    gone = ml["parents"].pop()
    for step, (lay, undo) in enumerate(((mod, False), (layers, True))):
        if undo:
            prefs.append(removed)
        specs = {cat: spec_visible(lay, cat) for cat in CATS}
        if any(v == "conflict" for cat in CATS for v in specs[cat]) or any(v == "conflict" for v in spec_visible_ug(lay)):
            if not undo:
                continue
            return
        _, e, _ = cc.guarded(db.refresh, timeout=20)
        ck.count(("refresh-history", json.dumps(layers), step))
        rep = {"layers": layers, "history": f"PARENT-REF of L{L['id']} to L{gone['target']} removed" + (", then put back" if undo else "") + "; refresh()"}
        if e is not None:
            ck.violation(f"{rep['history']}: refresh raised {type(e).__name__}: {e}", rep)
            return
        views = views_of_db(db)
        for cat in CATS:
            for X in lay:
                got, want = views[cat][X["id"]], specs[cat][X["id"]]
                if {n: s for n, s in got} != want or len(got) != len(want):
                    ck.violation(f"{rep['history']}: layer L{X['id']} sees {cat} {got}, inheritance prescribes {sorted(want.items())}", rep)
                    return


def w_hier(layers, cat):
    return [[L["id"], L["type"], [[p["target"], excl_of(p, cat)] for p in L["parents"]], L["locals"].get(cat, [])] for L in layers]


def spec_visible(layers, cat):
    """independent declarative oracle: per layer {name: set of candidate sources} or 'conflict'.
    visible(L) = locals, plus for every other name the objects exposed (after exclusion) by the
    highest-priority parents exposing it; several distinct objects at that priority = conflict."""
    memo = {}

    def vis(i):
        if i in memo:
            return memo[i]
        L = layers[i]
        res = {}
        cands = {}
        for p in L["parents"]:
            pv = vis(p["target"])
            if pv == "conflict":
                memo[i] = "conflict"
                return "conflict"
            pr = PRIO[layers[p["target"]]["type"]]
            for n, s in pv.items():
                if n in excl_of(p, cat):
                    continue
                cands.setdefault(n, []).append((pr, s))
        for n, lst in cands.items():
            if n in L["locals"].get(cat, []):
                continue
            top = max(pr for pr, _ in lst)
            srcs = {s for pr, s in lst if pr == top}
            if len(srcs) > 1:
                memo[i] = "conflict"
                return "conflict"
            res[n] = srcs.pop()
        for n in L["locals"].get(cat, []):
            res[n] = i
        memo[i] = res
        return res

    return [vis(i) for i in range(len(layers))]


def spec_visible_ug(layers):
    """unit groups carry no id: objects are (name, content) and two parents of equal priority exposing EQUAL
    objects are no conflict; no NOT-INHERITED list applies to them"""
    memo = {}

    def vis(i):
        if i in memo:
            return memo[i]
        L = layers[i]
        cands = {}
        for p in L["parents"]:
            pv = vis(p["target"])
            if pv == "conflict":
                memo[i] = "conflict"
                return "conflict"
            pr = PRIO[layers[p["target"]]["type"]]
            for n, content in pv.items():
                cands.setdefault(n, []).append((pr, content))
        res = {}
        for n, lst in cands.items():
            if n in L.get("unit_groups", {}):
                continue
            top = max(pr for pr, _ in lst)
            cs = {c for pr, c in lst if pr == top}
            if len(cs) > 1:
                memo[i] = "conflict"
                return "conflict"
            res[n] = cs.pop()
        res.update(L.get("unit_groups", {}))
        memo[i] = res
        return res

    return [vis(i) for i in range(len(layers))]


def main(argv=None):
    ck = Check("C09", argv)
    ck.prologue()
    rng = ck.rng
    quick = ck.tier == "quick"
    hs = []
    if ck.replay:
        hs.append(json.load(open(ck.replay))["replay"]["layers"])
    else:
        # corpus: diamond, equal-priority conflict, conflict settled locally, shared data wins
        e = {c: [] for c in EXCL_TAG}
        z = {c: [] for c in CATS}
        one = {c: [1] for c in CATS}
        hs.append([dict(id=0, type=0, parents=[], locals=one), dict(id=1, type=2, parents=[dict(target=0, excl=e)], locals=z),
                   dict(id=2, type=2, parents=[dict(target=0, excl=e)], locals=z),
                   dict(id=3, type=3, parents=[dict(target=1, excl=e), dict(target=2, excl=e)], locals=z)])
        hs.append([dict(id=0, type=2, parents=[], locals=one), dict(id=1, type=2, parents=[], locals=one),
                   dict(id=2, type=3, parents=[dict(target=0, excl=e), dict(target=1, excl=e)], locals=z)])
        hs.append([dict(id=0, type=2, parents=[], locals=one), dict(id=1, type=2, parents=[], locals=one),
                   dict(id=2, type=3, parents=[dict(target=0, excl=e), dict(target=1, excl=e)], locals=one)])
        hs.append([dict(id=0, type=4, parents=[], locals=one), dict(id=1, type=2, parents=[], locals=one),
                   dict(id=2, type=3, parents=[dict(target=1, excl=e), dict(target=0, excl=e)], locals=z)])
        # two parents of equal priority defining EQUAL unit groups (objects without id): no conflict; unequal ones: conflict
        hs.append([dict(id=0, type=2, parents=[], locals=z, unit_groups={"1": "COUNTRY"}),
                   dict(id=1, type=2, parents=[], locals=z, unit_groups={"1": "COUNTRY"}),
                   dict(id=2, type=3, parents=[dict(target=0, excl=e), dict(target=1, excl=e)], locals=z)])
        hs.append([dict(id=0, type=2, parents=[], locals=z, unit_groups={"1": "COUNTRY"}),
                   dict(id=1, type=2, parents=[], locals=z, unit_groups={"1": "EQUIV-UNITS"}),
                   dict(id=2, type=3, parents=[dict(target=0, excl=e), dict(target=1, excl=e)], locals=z)])
        # a local single ECU job overrides an inherited service of the same name
        hs.append([dict(id=0, type=2, parents=[], locals=one),
                   dict(id=1, type=3, parents=[dict(target=0, excl=e)], locals=one, jobs=[1])])
        for _ in range(250 if quick else 4000):
            hs.append(gen_hierarchy(rng, nmax=rng.choice([2, 3, 4, 5]), names=rng.choice([1, 2, 3])))
    wires = []
    idx = []
    for hi, layers in enumerate(hs):
        for cat in CATS:
            for L in layers:
                wires.append([M, [1, w_hier(layers, cat), L["id"]]])
                idx.append((hi, cat, L["id"]))
    mres = None
    if ck.model_available():
        try:
            mres = dict(zip(idx, common.run_model_ocaml(wires, chunk=100)))
            pick = sorted(rng.sample(range(len(wires)), min(len(wires), 40 if quick else 200)))
            cres = common.run_model_coq([wires[i] for i in pick], tag="c09", chunk=20)
            if any(x != mres[idx[i]] for i, x in zip(pick, cres)):
                ck.note_broken("extracted model and vm_compute disagree")
            ck.coverage["evaluated_in_coq"] = len(pick)
        except Exception as e:  # noqa
            ck.note_broken(f"model execution failed: {e}")
            mres = None
    else:
        ck.note_broken("model not built")
    for hi, layers in enumerate(hs):
        ck.count(json.dumps(layers), nontrivial=len(layers) >= 2)
        ck.hist("layers", len(layers))
        views, db = impl_views(layers)
        rep = {"layers": layers}
        specs = {cat: spec_visible(layers, cat) for cat in CATS}
        ugspec = spec_visible_ug(layers)
        any_conflict = any(v == "conflict" for cat in CATS for v in specs[cat]) or any(v == "conflict" for v in ugspec)
        if isinstance(views, tuple):
            ck.hist("load", views[1])
            if views[1] != "OdxError":
                ck.violation(f"loading raised {views[1]}: {views[2]}", rep)
            elif not any_conflict:
                ck.violation(f"loading failed although the hierarchy has no inheritance conflict: {views[2]}", rep)
            elif mres is not None and not any(v == "conflict" for v in ugspec) and \
                    not any(mres[(hi, c, L["id"])][:2] == [-1, 1] for c in CATS for L in layers):
                ck.violation("implementation reports a conflict, the model none", dict(rep, broken="correspondence avail"),
                             found_input=False)
            continue
        ck.hist("load", "ok")
        if any_conflict:
            ck.violation("a clash between unequal objects of equal priority which is not settled by a local or higher-priority "
                         "definition was not reported", rep)
            continue
        bad = None
        for cat in CATS:
            for L in layers:
                got = views[cat][L["id"]]
                want = specs[cat][L["id"]]
                if {n: s for n, s in got} != want or len(got) != len(want):
                    bad = (f"layer L{L['id']} sees {cat} {got}, inheritance prescribes {sorted(want.items())}")
                    break
            if bad:
                break
        if not bad:
            # services and single ECU jobs: the visible diag comms split by the kind of the object which won
            for L in layers:
                vis = specs["diag_comms"][L["id"]]
                want_s = sorted([n, sl] for n, sl in vis.items() if n not in layers[sl].get("jobs", []))
                want_j = sorted([n, sl] for n, sl in vis.items() if n in layers[sl].get("jobs", []))
                if views["services"][L["id"]] != want_s or views["jobs"][L["id"]] != want_j:
                    bad = (f"layer L{L['id']} lists services {views['services'][L['id']]} and single ECU jobs {views['jobs'][L['id']]}; "
                           f"its visible diag comms are the services {want_s} and the jobs {want_j}")
                    break
                want_u = sorted([n, c] for n, c in ugspec[L["id"]].items())
                if views["unit_groups"][L["id"]] != want_u:
                    bad = f"layer L{L['id']} sees the unit groups {views['unit_groups'][L['id']]}, inheritance prescribes {want_u}"
                    break
        if bad:
            ck.violation(bad, rep)
            continue
        if mres is not None:
            for cat in CATS:
                for L in layers:
                    m = mres[(hi, cat, L["id"])]
                    if m != [0, views[cat][L["id"]]]:
                        ck.violation(f"implementation and model disagree on {cat} of L{L['id']}",
                                     dict(rep, impl=views[cat][L["id"]], model=m, broken="correspondence Inherit.avail"),
                                     found_input=False)
                        break
        if hi % 3 == 0 or not quick:
            nv = len(ck.violations)
            check_refresh_history(ck, layers, db)
            if len(ck.violations) > nv:
                continue
            # (the live database is back in its original state)
        # behaviour: an inherited service decodes on the inheriting layer
        for dl in db.diag_layers:
            for svc in dl.services:
                i = int(dl.short_name[1:])
                if src_of(svc) != i:
                    pdu = bytes(svc.request.coded_const_prefix())
                    r, e, _ = cc.guarded(lambda: dl.decode(pdu))
                    if e is not None or not any(m.service is svc for m in r):
                        ck.violation(f"the request of the inherited service {svc.short_name} (from L{src_of(svc)}) "
                                     f"is not decoded on layer L{i}", rep)
                    break
        if hi % 50 == 0:
            ck.sample({"layers": layers, "diag_comms": views["diag_comms"]})
    ck.assumptions = ["objects with an ODXLINK id of different layers are never equal, so for them 'equal objects' means the same "
                      "object reached through several parents; unit groups (no id) are compared by value (oracle only, not in the model)",
                      "hierarchies are acyclic (parents are earlier layers)"]
    ck.finish(
        trusted_base=[
            "Coq 8.16.1 kernel; no axioms", "translator: DiagLayerType priorities copied into Generated.v",
            "extraction + driver, cross-checked with vm_compute", "harness: hierarchy generator, ODX emitter, declarative visibility oracle (harness/c09.py)",
            "categories routed through _compute_available_objects but not generated: tables, structures and other DDD-spec lists, "
            "state charts, unit groups, single-ECU jobs (same code path, different accessor lambdas)",
        ],
        rule="hierarchies of 1-5 layers of all five types, 0-3 parents per layer (diamonds, multiple equal-priority parents), 1-3 names "
        "per category placed locally in any layer, random NOT-INHERITED lists for diag-comms / DOPs / global negative responses; "
        "5 categories; non-trivial = at least 2 layers")


if __name__ == "__main__":
    main()
