"""Shared ODX fragments for layer hierarchies (C09, C15, C10): comparam subset / spec documents."""

SIMPLE_CPS = [("CP_Baudrate", "500000"), ("CP_CanFuncReqId", "2015"), ("CP_TesterPresentTime", "2000000"),
              ("CP_DoIPLogicalTesterAddress", "3584")]
COMPLEX_CPS = [("CP_UniqueRespIdTable", [("CP_CanPhysReqId", "2016"), ("CP_CanRespUSDTId", "2024"), ("CP_DoIPLogicalEcuAddress", "4096")])]


def cpsubset_doc():
    cps = ""
    for n, d in SIMPLE_CPS:
        cps += (f'<COMPARAM ID="CPSUB.{n}" PARAM-CLASS="COM" CPTYPE="STANDARD" CPUSAGE="ECU-COMM"><SHORT-NAME>{n}</SHORT-NAME>'
                f'<PHYSICAL-DEFAULT-VALUE>{d}</PHYSICAL-DEFAULT-VALUE><DATA-OBJECT-PROP-REF ID-REF="CPSUB.dop"/></COMPARAM>')
    ccps = ""
    for n, subs in COMPLEX_CPS:
        inner = "".join(f'<COMPARAM ID="CPSUB.{n}.{sn}" PARAM-CLASS="COM" CPTYPE="STANDARD" CPUSAGE="ECU-COMM"><SHORT-NAME>{sn}</SHORT-NAME>'
                        f'<PHYSICAL-DEFAULT-VALUE>{sd}</PHYSICAL-DEFAULT-VALUE><DATA-OBJECT-PROP-REF ID-REF="CPSUB.dop"/></COMPARAM>'
                        for sn, sd in subs)
        ccps += (f'<COMPLEX-COMPARAM ID="CPSUB.{n}" PARAM-CLASS="UNIQUE_ID" CPTYPE="STANDARD" CPUSAGE="ECU-COMM">'
                 f'<SHORT-NAME>{n}</SHORT-NAME>{inner}</COMPLEX-COMPARAM>')
    return ('<?xml version="1.0" encoding="UTF-8"?><ODX MODEL-VERSION="2.2.0" xmlns:xsi="http://www.w3.org/2001/XMLSchema-instance">'
            '<COMPARAM-SUBSET ID="CPSUB" CATEGORY="ISO"><SHORT-NAME>CPSUB</SHORT-NAME><DATA-OBJECT-PROPS>'
            '<DATA-OBJECT-PROP ID="CPSUB.dop"><SHORT-NAME>cpdop</SHORT-NAME><COMPU-METHOD><CATEGORY>IDENTICAL</CATEGORY></COMPU-METHOD>'
            '<DIAG-CODED-TYPE BASE-DATA-TYPE="A_UINT32" xsi:type="STANDARD-LENGTH-TYPE"><BIT-LENGTH>32</BIT-LENGTH></DIAG-CODED-TYPE>'
            '<PHYSICAL-TYPE BASE-DATA-TYPE="A_UINT32"/></DATA-OBJECT-PROP></DATA-OBJECT-PROPS>'
            f'<COMPARAMS>{cps}</COMPARAMS><COMPLEX-COMPARAMS>{ccps}</COMPLEX-COMPARAMS></COMPARAM-SUBSET></ODX>')


def cpspec_doc():
    return ('<?xml version="1.0" encoding="UTF-8"?><ODX MODEL-VERSION="2.2.0" xmlns:xsi="http://www.w3.org/2001/XMLSchema-instance">'
            '<COMPARAM-SPEC ID="CPSPEC"><SHORT-NAME>CPSPEC</SHORT-NAME><PROT-STACKS><PROT-STACK ID="CPSPEC.ps"><SHORT-NAME>ps</SHORT-NAME>'
            '<PDU-PROTOCOL-TYPE>ISO_15765_3</PDU-PROTOCOL-TYPE><PHYSICAL-LINK-TYPE>ISO_11898_2_DWCAN</PHYSICAL-LINK-TYPE>'
            '<COMPARAM-SUBSET-REFS><COMPARAM-SUBSET-REF ID-REF="CPSUB" DOCREF="CPSUB" DOCTYPE="COMPARAM-SUBSET"/></COMPARAM-SUBSET-REFS>'
            '</PROT-STACK></PROT-STACKS></COMPARAM-SPEC></ODX>')


PROTOCOL_EXTRA = '<COMPARAM-SPEC-REF ID-REF="CPSPEC" DOCREF="CPSPEC" DOCTYPE="COMPARAM-SPEC"/>'


def load_docs(docs):
    import xml.etree.ElementTree as ET
    from odxtools.database import Database
    db = Database()
    for d in docs:
        db._process_xml_tree(ET.fromstring(d))
    db.refresh()
    return db
