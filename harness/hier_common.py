"""Shared ODX fragments for layer hierarchies (C09, C15, C10): comparam subset / spec documents."""

SIMPLE_CPS = [("CP_Baudrate", "500000"), ("CP_CanFuncReqId", "2015"), ("CP_TesterPresentTime", "2000000"),
              ("CP_DoIPLogicalTesterAddress", "3584"), ("CP_CANFDBaudrate", "2000000"), ("CP_CANFDTxMaxDataLength", "TX_DL=64 CANFD")]
NESTED = object()
# (subset, name, sub-parameters); a nested COMPLEX-COMPARAM sits between the simple sub-parameters
COMPLEX_CPS = [("CPSUB", "CP_UniqueRespIdTable", [("CP_CanPhysReqId", "2016"), ("CP_ExtAddrInfo", NESTED), ("CP_CanRespUSDTId", "2024")]),
               ("CPSUB2", "CP_UniqueRespIdTable", [("CP_DoIPLogicalEcuAddress", "4096")])]


def _cp(sub, n, d, prefix=""):
    return (f'<COMPARAM ID="{sub}.{prefix}{n}" PARAM-CLASS="COM" CPTYPE="STANDARD" CPUSAGE="ECU-COMM"><SHORT-NAME>{n}</SHORT-NAME>'
            f'<PHYSICAL-DEFAULT-VALUE>{d}</PHYSICAL-DEFAULT-VALUE><DATA-OBJECT-PROP-REF ID-REF="{sub}.dop"/></COMPARAM>')


def _subset(sub, simple, complexes):
    cps = "".join(_cp(sub, n, d) for n, d in simple)
    ccps = ""
    for n, subs in complexes:
        inner = ""
        for sn, sd in subs:
            if sd is NESTED:
                inner += (f'<COMPLEX-COMPARAM ID="{sub}.{n}.{sn}" PARAM-CLASS="COM" CPTYPE="STANDARD" CPUSAGE="ECU-COMM">'
                          f'<SHORT-NAME>{sn}</SHORT-NAME>{_cp(sub, "CP_ExtAddr", "7", n + "." + sn + ".")}</COMPLEX-COMPARAM>')
            else:
                inner += _cp(sub, sn, sd, n + ".")
        ccps += (f'<COMPLEX-COMPARAM ID="{sub}.{n}" PARAM-CLASS="UNIQUE_ID" CPTYPE="STANDARD" CPUSAGE="ECU-COMM">'
                 f'<SHORT-NAME>{n}</SHORT-NAME>{inner}</COMPLEX-COMPARAM>')
    return ('<?xml version="1.0" encoding="UTF-8"?><ODX MODEL-VERSION="2.2.0" xmlns:xsi="http://www.w3.org/2001/XMLSchema-instance">'
            f'<COMPARAM-SUBSET ID="{sub}" CATEGORY="ISO"><SHORT-NAME>{sub}</SHORT-NAME><DATA-OBJECT-PROPS>'
            f'<DATA-OBJECT-PROP ID="{sub}.dop"><SHORT-NAME>cpdop</SHORT-NAME><COMPU-METHOD><CATEGORY>IDENTICAL</CATEGORY></COMPU-METHOD>'
            '<DIAG-CODED-TYPE BASE-DATA-TYPE="A_UINT32" xsi:type="STANDARD-LENGTH-TYPE"><BIT-LENGTH>32</BIT-LENGTH></DIAG-CODED-TYPE>'
            '<PHYSICAL-TYPE BASE-DATA-TYPE="A_UINT32"/></DATA-OBJECT-PROP></DATA-OBJECT-PROPS>'
            f'<COMPARAMS>{cps}</COMPARAMS><COMPLEX-COMPARAMS>{ccps}</COMPLEX-COMPARAMS></COMPARAM-SUBSET></ODX>')


def cpsubset_doc():
    return _subset("CPSUB", SIMPLE_CPS, [(n, subs) for sub, n, subs in COMPLEX_CPS if sub == "CPSUB"])


def cpsubset2_doc():
    return _subset("CPSUB2", [], [(n, subs) for sub, n, subs in COMPLEX_CPS if sub == "CPSUB2"])


def cpspec_doc():
    return ('<?xml version="1.0" encoding="UTF-8"?><ODX MODEL-VERSION="2.2.0" xmlns:xsi="http://www.w3.org/2001/XMLSchema-instance">'
            '<COMPARAM-SPEC ID="CPSPEC"><SHORT-NAME>CPSPEC</SHORT-NAME><PROT-STACKS><PROT-STACK ID="CPSPEC.ps"><SHORT-NAME>ps</SHORT-NAME>'
            '<PDU-PROTOCOL-TYPE>ISO_15765_3</PDU-PROTOCOL-TYPE><PHYSICAL-LINK-TYPE>ISO_11898_2_DWCAN</PHYSICAL-LINK-TYPE>'
            '<COMPARAM-SUBSET-REFS><COMPARAM-SUBSET-REF ID-REF="CPSUB" DOCREF="CPSUB" DOCTYPE="COMPARAM-SUBSET"/></COMPARAM-SUBSET-REFS>'
            '</PROT-STACK></PROT-STACKS></COMPARAM-SPEC></ODX>')


PROTOCOL_EXTRA = '<COMPARAM-SPEC-REF ID-REF="CPSPEC" DOCREF="CPSPEC" DOCTYPE="COMPARAM-SPEC"/>'


def load_docs(docs, aux_files=()):
    import io
    import xml.etree.ElementTree as ET
    from odxtools.database import Database
    db = Database()
    for name in aux_files:
        db.add_auxiliary_file(name, io.BytesIO(b""))
    for d in docs:
        db._process_xml_tree(ET.fromstring(d))
    db.refresh()
    return db
