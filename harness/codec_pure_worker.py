"""Runs the implementation with the pure-python bitstruct backend (second interpreter)."""
import sys
sys.modules["bitstruct.c"] = None  # makes odxtools' own ImportError fallback pick `bitstruct`
import json
import codec_common as cc

payload = json.load(sys.stdin)
out = []
for c in payload:
    rec = dict(name=c["name"], encs=[], decs=[])
    try:
        obj = cc.load_messages([(c["name"], cc.from_json(c["params"]), c["is_resp"])])[c["name"]]
    except Exception as e:  # noqa
        rec["load_error"] = str(e)
        rec["encs"] = [[-1, 7]] * len(c["encs"])
        rec["decs"] = [[-1, 7]] * len(c["decs"])
        out.append(rec)
        continue
    for e in c["encs"]:
        rec["encs"].append(cc.impl_encode(obj, cc.unw_value(e["value"]), None if e["req"] is None else bytes(e["req"])))
    for m in c["decs"]:
        rec["decs"].append(cc.impl_decode(obj, bytes(m)))
    out.append(rec)
import odxtools.encodestate as es
assert es.bitstruct.__name__ == "bitstruct", es.bitstruct.__name__
json.dump(out, sys.stdout)
