"""C07 -- compu methods compute the mathematically specified conversion.

Theorems: coq/Properties/C07.v.  Tie: correspondence of Model/Compu.v with
odxtools.compumethods (loaded from generated ODX) on every value of small
domains, boundaries and random values; direct oracle: exact rational arithmetic
(fractions) for the formulas, validity <-> limits, inverse on injective methods.
"""
import xml.etree.ElementTree as ET
from fractions import Fraction

import common
import codec_common as cc
from common import Check

M = 7
ITYPE = ["OPEN", "CLOSED", "INFINITE"]


# ---------------------------------------------------------------------------
def x_limit(tag, lim):
    if lim is None:
        return ""
    v, it = lim
    at = "" if it is None else f' INTERVAL-TYPE="{ITYPE[it]}"'
    if v is None:
        return f"<{tag}{at}/>"
    return f"<{tag}{at}>{v}</{tag}>"


def w_limit(lim):
    if lim is None:
        return []
    v, it = lim
    return [cc.w_opt(v), cc.w_opt(it)]


def x_coeffs(nums, dens):
    d = "" if not dens else "<COMPU-DENOMINATOR>" + "".join(f"<V>{v}</V>" for v in dens) + "</COMPU-DENOMINATOR>"
    return ("<COMPU-RATIONAL-COEFFS><COMPU-NUMERATOR>" + "".join(f"<V>{v}</V>" for v in nums) +
            f"</COMPU-NUMERATOR>{d}</COMPU-RATIONAL-COEFFS>")


def x_lseg(s):
    inv = "" if s["inv"] is None else f"<COMPU-INVERSE-VALUE><V>{s['inv']}</V></COMPU-INVERSE-VALUE>"
    return ("<COMPU-SCALE>" + x_limit("LOWER-LIMIT", s["lo"]) + x_limit("UPPER-LIMIT", s["hi"]) + inv +
            # (a denominator of 1 is left out for every other offset: the default must behave like an explicit 1)
            x_coeffs([s["off"], s["num"]], [] if s["den"] == 1 and isinstance(s["off"], int) and s["off"] % 2 == 0 else [s["den"]]) + "</COMPU-SCALE>")


def x_rseg(s):
    return ("<COMPU-SCALE>" + x_limit("LOWER-LIMIT", s["lo"]) + x_limit("UPPER-LIMIT", s["hi"]) +
            # (a constant denominator of 1 is left out for every other constant term: without COMPU-DENOMINATOR the
            # function is a polynomial)
            x_coeffs(s["nums"], [] if s["dens"] == [1] and isinstance(s["nums"][0], int) and s["nums"][0] % 2 == 0 else s["dens"]) +
            "</COMPU-SCALE>")


def x_compu(c):
    k = c["k"]
    if k == "ident":
        return "<COMPU-METHOD><CATEGORY>IDENTICAL</CATEGORY></COMPU-METHOD>"
    if k == "linear":
        return ("<COMPU-METHOD><CATEGORY>LINEAR</CATEGORY><COMPU-INTERNAL-TO-PHYS><COMPU-SCALES>" + x_lseg(c["s"]) +
                "</COMPU-SCALES></COMPU-INTERNAL-TO-PHYS></COMPU-METHOD>")
    if k == "scalelinear":
        return ("<COMPU-METHOD><CATEGORY>SCALE-LINEAR</CATEGORY><COMPU-INTERNAL-TO-PHYS><COMPU-SCALES>" +
                "".join(x_lseg(s) for s in c["segs"]) + "</COMPU-SCALES></COMPU-INTERNAL-TO-PHYS></COMPU-METHOD>")
    if k == "texttable":
        sc = ""
        for s in c["scales"]:
            inv = "" if s["inv"] is None else f"<COMPU-INVERSE-VALUE><V>{s['inv']}</V></COMPU-INVERSE-VALUE>"
            const = "" if s["const"] is None else f"<COMPU-CONST><VT>{s['const']}</VT></COMPU-CONST>"
            sc += "<COMPU-SCALE>" + x_limit("LOWER-LIMIT", s["lo"]) + x_limit("UPPER-LIMIT", s["hi"]) + inv + const + "</COMPU-SCALE>"
        pdef = "" if c["pdef"] is None else f"<COMPU-DEFAULT-VALUE><VT>{c['pdef']}</VT></COMPU-DEFAULT-VALUE>"
        idef = "" if c["idef"] is None else (f"<COMPU-PHYS-TO-INTERNAL><COMPU-SCALES/><COMPU-DEFAULT-VALUE><V>{c['idef']}</V>"
                                             "</COMPU-DEFAULT-VALUE></COMPU-PHYS-TO-INTERNAL>")
        return (f"<COMPU-METHOD><CATEGORY>TEXTTABLE</CATEGORY><COMPU-INTERNAL-TO-PHYS><COMPU-SCALES>{sc}</COMPU-SCALES>"
                f"{pdef}</COMPU-INTERNAL-TO-PHYS>{idef}</COMPU-METHOD>")
    if k == "tabintp":
        sc = "".join(f'<COMPU-SCALE><LOWER-LIMIT INTERVAL-TYPE="CLOSED">{x}</LOWER-LIMIT><COMPU-CONST><V>{y}</V></COMPU-CONST></COMPU-SCALE>'
                     for x, y in c["pts"])
        return (f"<COMPU-METHOD><CATEGORY>TAB-INTP</CATEGORY><COMPU-INTERNAL-TO-PHYS><COMPU-SCALES>{sc}</COMPU-SCALES>"
                "</COMPU-INTERNAL-TO-PHYS></COMPU-METHOD>")
    cat = "RAT-FUNC" if k == "ratfunc" else "SCALE-RAT-FUNC"
    i2p = c["i2p"] if k == "scaleratfunc" else [c["i2p"]]
    p2i = c["p2i"] if k == "scaleratfunc" else (None if c["p2i"] is None else [c["p2i"]])
    inv = "" if p2i is None else ("<COMPU-PHYS-TO-INTERNAL><COMPU-SCALES>" + "".join(x_rseg(s) for s in p2i) +
                                  "</COMPU-SCALES></COMPU-PHYS-TO-INTERNAL>")
    return (f"<COMPU-METHOD><CATEGORY>{cat}</CATEGORY><COMPU-INTERNAL-TO-PHYS><COMPU-SCALES>" +
            "".join(x_rseg(s) for s in i2p) + f"</COMPU-SCALES></COMPU-INTERNAL-TO-PHYS>{inv}</COMPU-METHOD>")


def w_lseg(s):
    return [s["off"], s["num"], s["den"], w_limit(s["lo"]), w_limit(s["hi"]), s["inv"] or 0]


def w_rseg(s):
    return [s["nums"], s["dens"], w_limit(s["lo"]), w_limit(s["hi"])]


def w_compu(c):
    k = c["k"]
    if k == "ident":
        return [0]
    if k == "linear":
        return [1, w_lseg(c["s"])]
    if k == "scalelinear":
        return [2, [w_lseg(s) for s in c["segs"]]]
    if k == "texttable":
        return [3, [[w_limit(s["lo"]), w_limit(s["hi"]), [] if s["const"] is None else [cc.w_name(s["const"])],
                     cc.w_opt(s["inv"])] for s in c["scales"]],
                [] if c["pdef"] is None else [cc.w_name(c["pdef"])], cc.w_opt(c["idef"])]
    if k == "tabintp":
        return [4, [[x, y] for x, y in c["pts"]]]
    if k == "ratfunc":
        return [5, w_rseg(c["i2p"]), [] if c["p2i"] is None else [w_rseg(c["p2i"])]]
    return [6, [w_rseg(s) for s in c["i2p"]], [] if c["p2i"] is None else [[w_rseg(s) for s in c["p2i"]]]]


# ---------------------------------------------------------------------------
def gen_limit(rng, v):
    r = rng.random()
    if r < 0.1:
        return None
    it = rng.choice([None, 0, 1, 1, 1, 2])
    return (v, it)


def gen_lseg(rng, lo, hi):
    return dict(off=rng.choice([0, 0, 1, -3, 10, 100, -50]), num=rng.choice([1, 1, 2, 3, -1, -2, 5, 0, 10]),
                den=rng.choice([1, 1, 1, 2, 4, -2, 3]), lo=gen_limit(rng, lo), hi=gen_limit(rng, hi),
                inv=rng.choice([None, None, 7]))


def gen_compu(rng):
    k = rng.choice(["ident", "linear", "linear", "scalelinear", "scalelinear", "texttable", "texttable", "tabintp",
                    "tabintp", "ratfunc", "scaleratfunc"])
    if k == "ident":
        return dict(k=k)
    if k == "linear":
        lo = rng.choice([0, 0, -20, 10])
        return dict(k=k, s=gen_lseg(rng, lo, lo + rng.choice([0, 5, 100, 255])))
    if k == "scalelinear":
        n = rng.choice([1, 2, 2, 3, 4])
        bounds = sorted(rng.sample(range(-10, 260), n + 1))
        segs = []
        continuous = rng.random() < 0.6
        sign = rng.choice([1, 1, -1])
        prev_end = None
        for i in range(n):
            s = gen_lseg(rng, bounds[i], bounds[i + 1])
            if rng.random() < 0.8:
                s["lo"] = (bounds[i], rng.choice([1, 1, None, 0]))
                s["hi"] = (bounds[i + 1], rng.choice([1, 1, None, 0]))
            if continuous:
                # (the slope is num / den: a negative denominator under a negative numerator is an increasing segment)
                den = rng.choice([1, 1, 1, -1, 2, -2])
                slope = sign * rng.choice([1, 2, 3])
                if n >= 2 and rng.random() < 0.2:
                    # a plateau (slope zero, with the COMPU-INVERSE-VALUE which ODX demands for it): the method stays
                    # monotone and continuous, for either sign of the other slopes
                    slope = 0
                    s["inv"] = bounds[i]
                s["den"], s["num"] = den, slope * den
                start = prev_end if prev_end is not None else s["off"]
                s["off"] = den * (start - slope * bounds[i])
                prev_end = start + slope * (bounds[i + 1] - bounds[i])
            segs.append(s)
        return dict(k=k, segs=segs)
    if k == "texttable":
        n = rng.choice([1, 2, 3, 4])
        scales = []
        for i in range(n):
            lo = rng.choice([i * 10, i * 10, i * 5, i * 10 - 3])
            hi = lo + rng.choice([0, 0, 3, 9, 12])
            form = rng.random()
            lol = (lo, rng.choice([1, 1, None, 0]))
            hil = (hi, rng.choice([1, 1, None, 0]))
            if form < 0.2:
                hil = None
            elif form < 0.3:
                lol = None
            scales.append(dict(lo=lol, hi=hil, const=rng.choice(["on", "off", "err", f"t{i}", f"t{i}", "on ", " off", f"t {i}"]),  # (blanks are part of the text)
                               inv=rng.choice([None, None, lo + 1] + ([0, 0] if lo <= 0 <= hi else []))))
        return dict(k=k, scales=scales, pdef=rng.choice([None, None, "dflt"]), idef=rng.choice([None, None, 99]))
    if k == "tabintp":
        n = rng.choice([2, 3, 4])
        xs = sorted(rng.sample(range(0, 256), n))
        form = rng.random()
        if form < 0.5:
            ys = sorted(rng.sample(range(-100, 1000), n))
        elif form < 0.7:
            ys = sorted(rng.sample(range(-100, 1000), n), reverse=True)
        else:
            ys = [rng.choice([0, 10, 10, 55, 300]) for _ in range(n)]
        return dict(k=k, pts=list(zip(xs, ys)))

    def rseg(lo, hi, inverse=False):
        if inverse:
            return dict(nums=[rng.choice([0, -1, 3]), rng.choice([1, 2])], dens=[rng.choice([1, 2, 3])],
                        lo=gen_limit(rng, lo), hi=gen_limit(rng, hi))
        return dict(nums=[rng.choice([0, 1, -5]), rng.choice([1, 2, -1, 3]), rng.choice([0, 0, 1])],
                    dens=rng.choice([[1], [2], [1, 1], [4], [10, -1]]), lo=gen_limit(rng, lo), hi=gen_limit(rng, hi))

    if k == "ratfunc":
        return dict(k=k, i2p=rseg(0, 200), p2i=rng.choice([None, rseg(-50, 500, True)]))
    n = rng.choice([1, 2, 3])
    bounds = sorted(rng.sample(range(0, 256), n + 1))
    return dict(k=k, i2p=[rseg(bounds[i], bounds[i + 1]) for i in range(n)],
                p2i=rng.choice([None, [rseg(-100 + 300 * i, 200 + 300 * i, True) for i in range(n)]]))


def load_compu(c):
    from odxtools.database import Database
    pt = c.get("pt") or ("A_UNICODE2STRING" if c["k"] == "texttable" else "A_INT32")
    if c.get("it"):
        return load_compu_typed(c, c["it"], pt)
    xml = ('<?xml version="1.0" encoding="UTF-8"?><ODX MODEL-VERSION="2.2.0" xmlns:xsi="http://www.w3.org/2001/XMLSchema-instance">'
           '<DIAG-LAYER-CONTAINER ID="DLC"><SHORT-NAME>DLC</SHORT-NAME><BASE-VARIANTS><BASE-VARIANT ID="BV"><SHORT-NAME>BV</SHORT-NAME>'
           '<DIAG-DATA-DICTIONARY-SPEC><DATA-OBJECT-PROPS><DATA-OBJECT-PROP ID="d"><SHORT-NAME>d</SHORT-NAME>' + x_compu(c) +
           '<DIAG-CODED-TYPE BASE-DATA-TYPE="A_INT32" xsi:type="STANDARD-LENGTH-TYPE"><BIT-LENGTH>32</BIT-LENGTH></DIAG-CODED-TYPE>'
           f'<PHYSICAL-TYPE BASE-DATA-TYPE="{pt}"/></DATA-OBJECT-PROP></DATA-OBJECT-PROPS></DIAG-DATA-DICTIONARY-SPEC>'
           '</BASE-VARIANT></BASE-VARIANTS></DIAG-LAYER-CONTAINER></ODX>')
    db = Database()
    db._process_xml_tree(ET.fromstring(xml))
    db.refresh()
    return db.diag_layers[0].diag_layer_raw.diag_data_dictionary_spec.data_object_props[0].compu_method


def load_compu_typed(c, it, pt):
    from odxtools.compumethods.createanycompumethod import create_any_compu_method_from_et
    from odxtools.odxlink import DocType, OdxDocFragment
    from odxtools.odxtypes import DataType
    return create_any_compu_method_from_et(ET.fromstring(x_compu(c)), [OdxDocFragment("c07", DocType.CONTAINER)],
                                           internal_type=DataType(it), physical_type=DataType(pt))


def float_checks(ck, rng, quick):
    """Oracle only (the model is exact integer arithmetic): float-typed methods against exact rational arithmetic.
    Limits are dyadic rationals, i.e. the double read from the ODX text IS the specified number; probes are the
    neighbouring doubles of each limit. Coefficients of the piecewise-linear methods are decimals (tenths) which are
    continuous in exact arithmetic although their double images differ by an ulp at the boundaries."""
    import math
    from decimal import Decimal
    F = "A_FLOAT64"

    def near(x):
        out = {x, math.nextafter(x, math.inf), math.nextafter(x, -math.inf), x + 1e-10, x - 1e-10}
        if x != 0:
            out |= {x * (1 + 1e-10), x * (1 - 1e-10), x * (1 + 1e-12)}
        return sorted(out)

    def inside(x, lo, hi):
        return lim_ok_lower((Fraction(lo[0]), lo[1]), Fraction(x)) and lim_ok_upper((Fraction(hi[0]), hi[1]), Fraction(x))

    n = 0
    # (a) limits are exact: LINEAR f(x) = 2x (exact in binary), float internal and physical type
    for _ in range(25 if quick else 300):
        lo_v = rng.choice(["0", "0.5", "-2.25", "1000", "0.125", "-1024", "3"])
        hi_v = str(Decimal(lo_v) + Decimal(rng.choice(["1", "0.5", "1000", "0.25", "4096"])))
        lo, hi = (lo_v, rng.choice([0, 1, None])), (hi_v, rng.choice([0, 1, None]))
        c = dict(k="linear", it=F, pt=F, s=dict(off=0, num=2, den=1, lo=lo, hi=hi, inv=None))
        try:
            cm = load_compu(c)
        except Exception as e:  # noqa
            ck.note_broken(f"float LINEAR method does not load: {type(e).__name__}: {e}")
            return
        for x in near(float(lo_v)) + near(float(hi_v)) + [(float(lo_v) + float(hi_v)) / 2]:
            n += 1
            ck.count(("float-limit", repr(c), x))
            want = inside(x, lo, hi)
            got = call(cm.is_valid_internal_value, x)
            y = 2 * x
            got_p = call(cm.is_valid_physical_value, y)
            if got != want or got_p != want:
                ck.violation(f"LINEAR 2x over {'[(' [lo[1] == 0]}{lo_v}, {hi_v}{'])' [hi[1] == 0]} (A_FLOAT64): "
                             f"is_valid_internal_value({x!r}) = {got}, is_valid_physical_value({y!r}) = {got_p}, the limits say {want}",
                             {"compu": c, "values": [x], "float": True})
                return
            if want:
                a = cc.guarded(lambda: cm.convert_internal_to_physical(x))
                b = cc.guarded(lambda: cm.convert_physical_to_internal(y))
                if a[1] is not None or b[1] is not None or a[0] != y or b[0] != x:
                    ck.violation(f"LINEAR 2x (A_FLOAT64): {x!r} -> {a[0]!r} {a[1]!r}; {y!r} -> {b[0]!r} {b[1]!r}",
                                 {"compu": c, "values": [x], "float": True})
                    return
    # float ranges of a text table
    for _ in range(10 if quick else 100):
        lo_v, hi_v = rng.choice([("0.5", "1.5"), ("-2.25", "0"), ("1000", "1000.5")])
        lo, hi = (lo_v, rng.choice([0, 1])), (hi_v, rng.choice([0, 1]))
        c = dict(k="texttable", it=F, pt="A_UNICODE2STRING", scales=[dict(lo=lo, hi=hi, const="in", inv=None)], pdef=None, idef=None)
        cm = load_compu(c)
        for x in near(float(lo_v)) + near(float(hi_v)):
            n += 1
            ck.count(("float-text", repr(c), x))
            want = inside(x, lo, hi)
            got = call(cm.is_valid_internal_value, x)
            r, e, _ = cc.guarded(lambda: cm.convert_internal_to_physical(x))
            if got != want or (want and r != "in"):
                ck.violation(f"TEXTTABLE range {lo} .. {hi} (A_FLOAT64): is_valid_internal_value({x!r}) = {got}, "
                             f"text {r!r} {e!r}; the limits say {want}", {"compu": c, "values": [x], "float": True})
                return
    # byte field ranges of a text table: byte fields compare like numbers written to the same length (the shorter one
    # padded with zero bytes at the end)
    def bcmp(a, b):
        ln = max(len(a), len(b))
        a, b = a.ljust(ln, b"\0"), b.ljust(ln, b"\0")
        return (a > b) - (a < b)

    def binside(x, lo, hi):
        lo_v, lo_t = bytes.fromhex(lo[0]), lo[1]
        hi_v, hi_t = bytes.fromhex(hi[0]), hi[1]
        return (bcmp(x, lo_v) > 0 or (lo_t != 0 and bcmp(x, lo_v) == 0)) and (bcmp(x, hi_v) < 0 or (hi_t != 0 and bcmp(x, hi_v) == 0))
    for _ in range(6 if quick else 60):
        mid = rng.choice(["1F", "20", "1F00", "7F"])
        s1 = dict(lo=("1000", rng.choice([0, 1])), hi=(mid, rng.choice([0, 1])), const="low", inv=None)
        s2 = dict(lo=(mid, 1 - s1["hi"][1]), hi=("2FFF", rng.choice([0, 1])), const="high", inv=None)
        c = dict(k="texttable", it="A_BYTEFIELD", pt="A_UNICODE2STRING", scales=[s1, s2], pdef=None, idef=None)
        try:
            cm = load_compu(c)
        except Exception as e:  # noqa
            ck.note_broken(f"byte field TEXTTABLE does not load: {type(e).__name__}: {e}")
            break
        probes = set()
        for h in ("1000", mid, "2FFF"):
            v = bytes.fromhex(h)
            probes |= {v, v + b"\0", v + b"\0\0", v.rstrip(b"\0") or b"\0", v + b"\1", v[:-1] + bytes([max(v[-1] - 1, 0)]) + b"\xff",
                       v[:-1] + bytes([min(v[-1] + 1, 255)])}
        probes |= {b"\x0f\xff", b"\x30", b"\x10", b"\x2f\xff\x00\x00"}
        for x in sorted(probes):
            n += 1
            ck.count(("bytefield-text", repr(c), x))
            in1, in2 = binside(x, s1["lo"], s1["hi"]), binside(x, s2["lo"], s2["hi"])
            want = "low" if in1 else ("high" if in2 else None)
            got_v = call(cm.is_valid_internal_value, x)
            r, e, _ = cc.guarded(lambda: cm.convert_internal_to_physical(x))
            if got_v != (want is not None) or (want is not None and r != want):
                ck.violation(f"TEXTTABLE over byte fields {s1['lo']}..{s1['hi']} 'low', {s2['lo']}..{s2['hi']} 'high': internal value "
                             f"{x.hex()} is declared valid = {got_v} and converts to {r!r} {e!r}; zero-padded comparison says {want!r}",
                             {"compu": c, "values": [x.hex()], "float": True})
                return
    # (b) monotone continuous piecewise-linear methods with decimal coefficients can always encode
    for _ in range(25 if quick else 300):
        nseg = rng.choice([2, 2, 3])
        bounds = sorted(rng.sample(range(0, 40), nseg + 1))
        sign = rng.choice([1, 1, -1])
        slopes = [sign * Decimal(rng.choice(["0.1", "0.2", "0.3", "0.7", "1.1", "0.9"])) for _ in range(nseg)]
        off = Decimal(rng.choice(["0", "0.1", "-0.3", "2.7"]))
        segs, exact = [], []
        for i in range(nseg):
            if i > 0:
                off = off + (slopes[i - 1] - slopes[i]) * bounds[i]
            segs.append(dict(off=str(off), num=str(slopes[i]), den=1, lo=(bounds[i], 1), hi=(bounds[i + 1], 1), inv=None))
            exact.append((Fraction(off), Fraction(slopes[i])))
        c = dict(k="scalelinear", it=rng.choice(["A_UINT32", "A_INT32", F]), pt=F, segs=segs)
        try:
            cm = load_compu(c)
        except Exception as e:  # noqa
            ck.violation(f"continuous monotone SCALE-LINEAR method with decimal coefficients does not load: {type(e).__name__}: {e}",
                         {"compu": c, "values": [], "float": True})
            return
        for x in range(bounds[0], bounds[-1] + 1):
            n += 1
            ck.count(("float-scalelinear", repr(c), x))
            i = max(j for j in range(nseg) if bounds[j] <= x)
            i = min(i, nseg - 1)
            want_y = exact[i][0] + exact[i][1] * x
            xv = float(x) if c["it"] == F else x
            y, e, _ = cc.guarded(lambda: cm.convert_internal_to_physical(xv))
            what = None
            if e is not None or abs(Fraction(y) - want_y) > Fraction(1, 10**9):
                what = f"convert_internal_to_physical({xv!r}) = {y!r} {e!r}, the formula gives {float(want_y)!r}"
            else:
                vp = call(cm.is_valid_physical_value, y)
                back, e2, _ = cc.guarded(lambda: cm.convert_physical_to_internal(y))
                interior = x not in bounds
                if vp is True and e2 is not None:
                    what = f"physical value {y!r} is declared valid but convert_physical_to_internal fails ({type(e2).__name__}: {e2})"
                elif interior and (vp is not True or e2 is not None or abs(back - x) > 1e-6):
                    what = (f"the image {y!r} of the internal value {x}: is_valid_physical_value = {vp}, "
                            f"convert_physical_to_internal = {back!r} {e2!r}")
            if what:
                ck.violation("monotone continuous SCALE-LINEAR method (decimal coefficients): " + what,
                             {"compu": c, "values": [x], "float": True})
                return
    ck.coverage["float_probes"] = n


def call(fn, v):
    r, e, _ = cc.guarded(lambda: fn(v))
    if e is not None:
        k = cc.classify_exc(e)
        return [-1, k[1]] if k[1] != 5 else [-1, 5]
    if isinstance(r, bool):
        return r
    if isinstance(r, int):
        return [0, [0, r]]
    if isinstance(r, str):
        return [0, [1, [ord(ch) for ch in r]]]
    if isinstance(r, float) and r == int(r):
        return [0, [0, int(r)]]  # float results of integer-typed methods would be a type deviation; flagged by oracle
    return [0, [9, repr(r)]]


def rnd(fr):
    """round half even of a Fraction"""
    return round(fr)


def lim_ok_lower(lim, x):
    if lim is None or lim[0] is None:
        return True
    v, it = lim
    return x >= v if it in (None, 1) else (x > v if it == 0 else True)


def lim_ok_upper(lim, x):
    if lim is None or lim[0] is None:
        return True
    v, it = lim
    return x <= v if it in (None, 1) else (x < v if it == 0 else True)


def oracle(c, cm, vals, res):
    """direct checks of the property on the implementation results; returns description or None"""
    k = c["k"]
    for v, (vi, vp, a, b) in zip(vals, res):
        if not isinstance(v, int):
            continue
        if k == "linear":
            s = c["s"]
            want_valid = lim_ok_lower(s["lo"], v) and lim_ok_upper(s["hi"], v)
            if vi != want_valid:
                return f"is_valid_internal_value({v}) = {vi}, limits say {want_valid}"
            if vi:
                want = rnd(Fraction(s["off"] + s["num"] * v, s["den"]))
                if a != [0, [0, want]]:
                    return f"convert_internal_to_physical({v}) = {a}, exact formula rounds to {want}"
                # injective: |num| > |den| -> the image is valid and converts back
                if abs(s["num"]) > abs(s["den"]):
                    back_valid = call(cm.is_valid_physical_value, want)
                    back = call(cm.convert_physical_to_internal, want)
                    if back_valid is not True or back != [0, [0, v]]:
                        return (f"internal {v} -> physical {want}: is_valid_physical_value = {back_valid}, "
                                f"convert_physical_to_internal = {back}")
        if vp is True and isinstance(b, list) and b[0] == -1 and k in ("linear", "tabintp", "texttable", "ratfunc",
                                                                       "scaleratfunc", "ident"):
            return f"physical value {v} is declared valid but convert_physical_to_internal fails ({b})"
        if k == "tabintp" and vi:
            pts = c["pts"]
            for (x0, y0), (x1, y1) in zip(pts, pts[1:]):
                if x0 <= v <= x1:
                    want = rnd(y0 + Fraction((v - x0) * (y1 - y0), x1 - x0))
                    if a != [0, [0, want]]:
                        return f"TAB-INTP convert_internal_to_physical({v}) = {a}, interpolation rounds to {want}"
                    break
    if k == "texttable":
        # a text without COMPU-INVERSE-VALUE is encoded by a value inside its own scale (interval types honoured), and is
        # read back when no other scale claims that value
        def tt_applies(s_, x):
            if s_["lo"] is None and s_["hi"] is None:
                return True
            if s_["hi"] is None:
                return x == s_["lo"][0]
            if s_["lo"] is None:
                return x == s_["hi"][0]
            return lim_ok_lower(s_["lo"], x) and lim_ok_upper(s_["hi"], x)
        for v, (vi, vp, a, b) in zip(vals, res):
            if not isinstance(v, str):
                continue
            ms = [s_ for s_ in c["scales"] if s_["const"] == v]
            if len(ms) == 1 and ms[0]["inv"] is None and isinstance(b, list) and b[0] == 0 and b[1][0] == 0:
                x = b[1][1]
                if not tt_applies(ms[0], x):
                    return (f"TEXTTABLE text {v!r} is encoded as {x}, which lies outside its scale "
                            f"{ms[0]['lo']} .. {ms[0]['hi']} (0 = OPEN, 1 = CLOSED, 2 = INFINITE)")
                if [s_ for s_ in c["scales"] if tt_applies(s_, x)] == ms:
                    back = call(cm.convert_internal_to_physical, x)
                    if back != [0, [1, [ord(ch) for ch in v]]]:
                        return f"TEXTTABLE text {v!r} is encoded as {x}, which converts back to {back}"
    if k == "scalelinear":
        segs = c["segs"]
        sl = [Fraction(s["num"], s["den"]) if s["den"] else None for s in segs]
        mono = None not in sl and any(x != 0 for x in sl) and (all(x >= 0 for x in sl) or all(x <= 0 for x in sl)) and \
            all(x != 0 or s["inv"] is not None for x, s in zip(sl, segs))
        at = lambda s_, x: Fraction(s_["off"] + s_["num"] * x, s_["den"])
        cont = mono and all(a["hi"] is not None and b["lo"] is not None and a["hi"][0] == b["lo"][0] and a["hi"][1] != 2 and
                            b["lo"][1] != 2 and at(a, a["hi"][0]) == at(b, b["lo"][0]) for a, b in zip(segs, segs[1:]))
        if mono and cont:
            for v, (vi, vp, a, b) in zip(vals, res):
                if isinstance(v, int) and vp is True and isinstance(b, list) and b[0] == -1:
                    return f"monotone continuous SCALE-LINEAR method cannot encode the valid physical value {v} ({b})"
    return None


def main(argv=None):
    ck = Check("C07", argv)
    ck.prologue()
    rng = ck.rng
    quick = ck.tier == "quick"
    cases = []
    if ck.replay:
        import json
        rp = json.load(open(ck.replay))["replay"]
        cases.append((rp["compu"], rp["values"]))
    else:
        # corpus: the historic failures
        cases.append((dict(k="tabintp", pts=[(0, 0), (10, 45)]), [1, 5, 9]))
        cases.append((dict(k="tabintp", pts=[(0, 100), (10, 0), (20, 0)]), [50, 0, 100]))
        cases.append((dict(k="scalelinear", segs=[dict(off=0, num=1, den=1, lo=(0, 1), hi=(10, 1), inv=None),
                                                  dict(off=-10, num=2, den=1, lo=(10, 1), hi=(20, 1), inv=None)]),
                      [0, 5, 10, 11, 30]))
        # integers of more than 53 bits (64-bit parameters): the conversion is exact, not a double precision one
        big = [2 ** 53 + 1, 2 ** 63 - 1, 2 ** 64 - 1, -(2 ** 63) + 1, 3 * 2 ** 60 + 7, 0, 5]
        for off, num, den in ((0, 1, 1), (1, 3, 2), (-7, -5, 3), (10, 2, -1)):
            cases.append((dict(k="linear", s=dict(off=off, num=num, den=den, lo=None, hi=None, inv=None)), big))
        cases.append((dict(k="scalelinear", segs=[dict(off=0, num=1, den=1, lo=(0, 1), hi=(2 ** 62, 1), inv=None),
                                                  dict(off=-2 ** 62, num=2, den=1, lo=(2 ** 62, 1), hi=(2 ** 64, 1), inv=None)]),
                      big + [2 ** 62, 2 ** 62 + 1, 2 ** 63 + 1]))
        # text tables whose scales exclude a limit (INTERVAL-TYPE OPEN): the text is encoded by a value inside the scale
        tt = lambda lo, hi, t: dict(lo=lo, hi=hi, const=t, inv=None)
        for sc in ([tt((0, 1), (5, 1), "low"), tt((5, 0), (10, 1), "high")],
                   [tt((0, 1), (5, 0), "low"), tt((5, 1), (10, 0), "high")],
                   [tt((0, 0), (5, 0), "low"), tt((5, 0), (6, 0), "none"), tt((7, 0), None, "one"), tt(None, (9, 0), "other")]):
            cases.append((dict(k="texttable", scales=sc, pdef=None, idef=None),
                          list(range(-1, 12)) + ["low", "high", "none", "one", "other", "nope"]))
        for _ in range(400 if quick else 6000):
            c = gen_compu(rng)
            vals = list(range(-3, 259)) if rng.random() < (0.5 if quick else 0.8) else \
                sorted(set([rng.randint(-300, 1300) for _ in range(40)] + [0, 1, 255, 256, -1]))
            if c["k"] == "texttable":
                vals = vals[:120] + ["on", "off", "err", "t0", "t1", "t2", "dflt", "nope", "", "t3", "on ", " off", "t 0", "t 1"]
            cases.append((c, vals))
    wires = [[M, [w_compu(c), [[0, v] if isinstance(v, int) else [1, cc.w_name(v)] for v in vals]]] for c, vals in cases]
    mres = None
    if ck.model_available():
        try:
            mres = common.run_model_ocaml(wires, chunk=20)
            idx = sorted(rng.sample(range(len(wires)), min(len(wires), 20 if quick else 100)))
            cres = common.run_model_coq([wires[i] for i in idx], tag="c07", chunk=5)
            if any(x != mres[i] for i, x in zip(idx, cres)):
                ck.note_broken("extracted model and vm_compute disagree")
            ck.coverage["evaluated_in_coq"] = len(idx)
        except Exception as e:  # noqa
            ck.note_broken(f"model execution failed: {e}")
            mres = None
    else:
        ck.note_broken("model not built")
    for i, (c, vals) in enumerate(cases):
        ck.hist("category", c["k"])
        try:
            cm = load_compu(c)
        except Exception as e:  # noqa
            ck.hist("load", "rejected")
            continue
        # query history: the same method object is first asked about values of an inadmissible type which compare equal
        # to the admissible ones (5.0 == 5, True == 1); what it says about the proper values afterwards must not depend on
        # that (an integer-typed method declares 5.0 invalid -- and 5 valid all the same)
        if i % 2 == 0:
            for v in vals:
                if isinstance(v, int) and not isinstance(v, bool):
                    for w in ((float(v), True) if v == 1 else (float(v),)):
                        call(cm.is_valid_internal_value, w)
                        call(cm.is_valid_physical_value, w)
                        call(cm.convert_internal_to_physical, w)
                        call(cm.convert_physical_to_internal, w)
        res = []
        for v in vals:
            ck.count((repr(c), v))
            res.append([call(cm.is_valid_internal_value, v), call(cm.is_valid_physical_value, v),
                        call(cm.convert_internal_to_physical, v), call(cm.convert_physical_to_internal, v)])
        bad = oracle(c, cm, vals, res)
        if bad:
            ck.violation(bad, {"compu": c, "values": vals})
            continue
        if mres is not None:
            mm = mres[i]
            for v, r, m in zip(vals, res, mm):
                m2 = [bool(m[0]), bool(m[1]), m[2], m[3]]
                # conversions of values which are not declared valid are outside the property
                r2 = list(r)
                if r2[0] is not True:
                    r2[2] = m2[2] = None
                if r2[1] is not True:
                    r2[3] = m2[3] = None
                if isinstance(v, str):
                    # texts are physical values only
                    r2[0] = m2[0] = r2[2] = m2[2] = None
                if r2 != m2:
                    ck.violation(f"implementation and model disagree for value {v!r}: impl {r} model {m}",
                                 {"compu": c, "values": [v], "impl": r, "model": m,
                                  "broken": "correspondence Compu.run_case vs odxtools.compumethods"}, found_input=False)
                    break
        if i % 97 == 0:
            ck.sample({"compu": c, "values": vals[:6], "results": res[:6]})
    if not ck.replay or any(c.get("it") for c, _ in cases):
        float_checks(ck, rng, quick)
    ck.assumptions = ["integer internal and physical types, integer coefficients, |values| < 2^11: inside this envelope binary64 "
                      "arithmetic of the implementation provably rounds like the exact quotient (DESIGN.md C07)"]
    ck.finish(
        trusted_base=[
            "Coq 8.16.1 kernel; no axioms",
            "extraction (ExtrOcamlBasic) + driver, cross-checked with vm_compute on a sample",
            "harness: compu-method generator and ODX emitter (harness/c07.py); exact oracle uses python fractions",
            "modelled not verified: float arithmetic outside the exactness envelope, float-typed methods, COMPUCODE",
        ],
        rule="7 categories (IDENTICAL, LINEAR, SCALE-LINEAR 1-4 segments continuous/discontinuous, TEXTTABLE with all limit forms and "
        "defaults, TAB-INTP increasing/decreasing/flat, RAT-FUNC, SCALE-RAT-FUNC) x coefficient signs x interval types; values: "
        "every value of -3..258 or boundary+random; distinct by (method, value)")


if __name__ == "__main__":
    main()
