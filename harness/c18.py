"""C18 -- the comparison and listing tools report the true differences and counts.

Theorems: coq/Properties/C18.v (self comparison is empty; added and renamed services
are classified as such -- all layers).  Tie: correspondence of Model/Compare.v with
Comparison.compare_diagnostic_layers on generated layers x every single edit;
direct oracle: exactly that kind of change for exactly that service; attribute-level
parameter changes; rows of print_dl_metrics.
"""
import copy
import io
import json
import xml.etree.ElementTree as ET

import codec_common as cc
import common
import hier_common as hc
from common import Check

M = 18
BTN = ["A_INT32", "A_UINT32"]


def gen_layer(rng, dup=False):
    n = rng.choice([2, 3, 4]) if dup else rng.choice([1, 2, 3, 4])
    svcs = []
    used = set()
    for i in range(n):
        while True:
            pre = (rng.choice([0x10, 0x22, 0x2E, 0x31]), rng.choice([1, 2, 3, 0xF1]))
            if pre not in used:
                used.add(pre)
                break
        if dup and i > 0 and rng.random() < 0.6:
            pre = rng.choice(sorted(used - {pre}))  # several services with one constant request prefix
        rq = [dict(name="sid", kind="coded", bytepos=0, bl=8, value=pre[0], semantic="SERVICE-ID", bt=1),
              dict(name="sub", kind="coded", bytepos=1, bl=8, value=pre[1], semantic=None, bt=1)]
        for k in range(rng.choice([0, 1, 2])):
            rq.append(dict(name=f"arg{k}", kind="value", bytepos=rng.choice([2 + 2 * k, 2 + 2 * k, None]), dop=rng.choice(["dopA", "dopB"]),
                           semantic=rng.choice([None, "DATA"])))
        pr = [dict(name="sid", kind="coded", bytepos=0, bl=8, value=(pre[0] + 0x40) & 0xFF, semantic=None, bt=1)]
        for k in range(rng.choice([0, 1])):
            pr.append(dict(name=f"res{k}", kind="value", bytepos=rng.choice([1 + 2 * k, None]), dop=rng.choice(["dopA", "dopB"]), semantic=None))
        svcs.append(dict(name=f"svc{i}", rq=rq, pr=pr))
    if not dup and rng.random() < 0.4:
        # one service whose request does not start with a constant: its identifying prefix is empty
        svcs.append(dict(name=f"svc{n}", rq=[dict(name="lead", kind="value", bytepos=0, dop="dopB", semantic=None)],
                         pr=[dict(name="sid", kind="coded", bytepos=0, bl=8, value=0x77, semantic=None, bt=1)]))
    return dict(services=svcs, ndops=2, dup=dup, dopbits=dict(dopA=16, dopB=8, dopC=16))


def prefix_of(sv):
    out = []
    for p in sv["rq"]:
        if p["kind"] != "coded":
            break
        out.append(p["value"])
    return out[:2]


def used_dops(sv):
    return sorted({p["dop"] for which in ("rq", "pr") for p in sv[which] if p["kind"] == "value"})


def x_param(p):
    sem = "" if p["semantic"] is None else f' SEMANTIC="{p["semantic"]}"'
    pos = "" if p["bytepos"] is None else f"<BYTE-POSITION>{p['bytepos']}</BYTE-POSITION>"
    if p["kind"] == "coded":
        return (f'<PARAM{sem} xsi:type="CODED-CONST"><SHORT-NAME>{p["name"]}</SHORT-NAME>{pos}<CODED-VALUE>{p["value"]}</CODED-VALUE>'
                f'<DIAG-CODED-TYPE BASE-DATA-TYPE="{BTN[p["bt"]]}" xsi:type="STANDARD-LENGTH-TYPE"><BIT-LENGTH>{p["bl"]}</BIT-LENGTH>'
                f'</DIAG-CODED-TYPE></PARAM>')
    return f'<PARAM{sem} xsi:type="VALUE"><SHORT-NAME>{p["name"]}</SHORT-NAME>{pos}<DOP-REF ID-REF="{p["dop"]}"/></PARAM>'


def emit(L):
    dops = ""
    for nm, bl in sorted(L.get("dopbits", dict(dopA=16, dopB=8, dopC=16)).items()):
        dops += (f'<DATA-OBJECT-PROP ID="{nm}"><SHORT-NAME>{nm}</SHORT-NAME><COMPU-METHOD><CATEGORY>IDENTICAL</CATEGORY></COMPU-METHOD>'
                 f'<DIAG-CODED-TYPE BASE-DATA-TYPE="A_UINT32" xsi:type="STANDARD-LENGTH-TYPE"><BIT-LENGTH>{bl}</BIT-LENGTH></DIAG-CODED-TYPE>'
                 '<PHYSICAL-TYPE BASE-DATA-TYPE="A_UINT32"/></DATA-OBJECT-PROP>')
    svc = rqs = prs = ""
    for s in L["services"]:
        n = s["name"]
        key = s.get("key", n)
        svc += (f'<DIAG-SERVICE ID="svc.{key}"><SHORT-NAME>{n}</SHORT-NAME><REQUEST-REF ID-REF="rq.{key}"/>'
                f'<POS-RESPONSE-REFS><POS-RESPONSE-REF ID-REF="pr.{key}"/></POS-RESPONSE-REFS></DIAG-SERVICE>')
        rqs += f'<REQUEST ID="rq.{key}"><SHORT-NAME>rq_{key}</SHORT-NAME><PARAMS>{"".join(x_param(p) for p in s["rq"])}</PARAMS></REQUEST>'
        prs += f'<POS-RESPONSE ID="pr.{key}"><SHORT-NAME>pr_{key}</SHORT-NAME><PARAMS>{"".join(x_param(p) for p in s["pr"])}</PARAMS></POS-RESPONSE>'
    cprefs = "".join(f'<COMPARAM-REF ID-REF="CPSUB.{n}" DOCREF="CPSUB" DOCTYPE="COMPARAM-SUBSET"><SIMPLE-VALUE>1</SIMPLE-VALUE></COMPARAM-REF>'
                     for n, _ in hc.SIMPLE_CPS[:L.get("ncp", 0)])
    # the same parameters once more, for one protocol only: separate entries keyed by (parameter, protocol)
    cprefs += "".join(f'<COMPARAM-REF ID-REF="CPSUB.{n}" DOCREF="CPSUB" DOCTYPE="COMPARAM-SUBSET"><SIMPLE-VALUE>2</SIMPLE-VALUE>'
                      '<PROTOCOL-SNREF SHORT-NAME="PX"/></COMPARAM-REF>' for n, _ in hc.SIMPLE_CPS[:L.get("ncp_dup", 0)])
    return ('<?xml version="1.0" encoding="UTF-8"?><ODX MODEL-VERSION="2.2.0" xmlns:xsi="http://www.w3.org/2001/XMLSchema-instance">'
            '<DIAG-LAYER-CONTAINER ID="DLC"><SHORT-NAME>DLC</SHORT-NAME><BASE-VARIANTS><BASE-VARIANT ID="BV"><SHORT-NAME>BV</SHORT-NAME>'
            + (f"<COMPARAM-REFS>{cprefs}</COMPARAM-REFS>" if cprefs else "") +
            f'<DIAG-DATA-DICTIONARY-SPEC><DATA-OBJECT-PROPS>{dops}</DATA-OBJECT-PROPS></DIAG-DATA-DICTIONARY-SPEC>'
            f'<DIAG-COMMS>{svc}</DIAG-COMMS><REQUESTS>{rqs}</REQUESTS><POS-RESPONSES>{prs}</POS-RESPONSES>'
            '</BASE-VARIANT></BASE-VARIANTS></DIAG-LAYER-CONTAINER></ODX>')


def edits(rng, L):
    """every single edit of the property text: (label, edited layer, expectation)"""
    out = []
    base = copy.deepcopy(L)
    for s in base["services"]:
        s["key"] = s["name"]
    # add
    e = copy.deepcopy(base)
    e["services"].append(dict(name="svcNew", key="svcNew", rq=[dict(name="sid", kind="coded", bytepos=0, bl=8, value=0x85, semantic=None, bt=1)],
                              pr=[dict(name="sid", kind="coded", bytepos=0, bl=8, value=0xC5, semantic=None, bt=1)]))
    out.append(("add", e, dict(new=["svcNew"])))
    for i, s in enumerate(base["services"]):
        e = copy.deepcopy(base)
        del e["services"][i]        # also the last remaining service
        out.append(("delete", e, dict(deleted=[s["name"]])))
        e = copy.deepcopy(base)
        e["services"][i]["name"] = s["name"] + "_renamed"
        out.append(("rename", e, dict(renamed=[[s["name"] + "_renamed", s["name"]]])))
        for which in ("rq", "pr"):
            for j, p in enumerate(s[which]):
                attrs = [("bytepos", (p["bytepos"] or 0) + 5, "Byte position"), ("semantic", "CHANGED", "Semantic")]
                if j > 0:
                    # an unspecified position (directly behind the predecessor) is not position 0
                    attrs.append(("bytepos", 0 if p["bytepos"] is None else None, "Byte position"))
                if p["kind"] == "coded":
                    attrs += [("bl", 16, "Bit Length")]
                    if p["value"] < 128:
                        attrs.append(("bt", 0, "Data type"))
                    if not (which == "rq" and j < 2):
                        attrs.append(("value", (p["value"] + 1) & 0xFF, "Value"))
                else:
                    attrs.append(("dop", "dopC" if p["dop"] != "dopC" else "dopA", "Linked DOP object"))
                for attr, val, label in attrs:
                    e = copy.deepcopy(base)
                    e["services"][i][which][j][attr] = val
                    out.append((f"change-{attr}", e, dict(changed=[s["name"]], prop=label, param=p["name"])))
    # a data object edited in place (same id, same name): every service using it has changed, no other
    for dop in ("dopA", "dopB"):
        users = [s["name"] for s in base["services"] if dop in used_dops(s)]
        if users:
            e = copy.deepcopy(base)
            e["dopbits"][dop] += 8
            out.append(("change-dopdef", e, dict(changed=users, prop="Linked DOP object", param=None)))
    return base, out


def abstract(layer, dl):
    """(name id, prefix, body) triples for the model; the body is a hash of everything the tool compares"""
    out = []
    for s in layer["services"]:
        key = s.get("key", s["name"])
        body = json.dumps([s["rq"], s["pr"]], sort_keys=True)
        out.append((s["name"], None, body))
    return out


def run_compare(dl_new, dl_old):
    from odxtools.cli.compare import Comparison
    cmp_ = Comparison()
    r, e, _ = cc.guarded(lambda: cmp_.compare_diagnostic_layers(dl_new, dl_old), timeout=20)
    if e is not None:
        return ("error", type(e).__name__, str(e)[:200])
    ch = r["changed_parameters_of_service"]
    props = []
    for info in ch[2]:
        for x in info:
            if isinstance(x, dict) and "Property" in x:
                props.extend(x["Property"])
    return dict(new=[s.short_name for s in r["new_services"]], deleted=[s.short_name for s in r["deleted_services"]],
                renamed=[[a.short_name, b] for a, b in zip(r["changed_name_of_service"][0], r["changed_name_of_service"][1])],
                changed=[s.short_name for s in ch[0]], props=props, texts=list(ch[1]))


def main(argv=None):
    import warnings
    warnings.simplefilter("ignore")
    ck = Check("C18", argv)
    ck.prologue()
    rng = ck.rng
    quick = ck.tier == "quick"
    layers = []
    if ck.replay:
        rp = json.load(open(ck.replay))["replay"]
        layers.append((rp["old"], [("replay", rp["new"], rp.get("expect", {}))]))
    else:
        for _ in range(12 if quick else 120):
            base, es = edits(rng, gen_layer(rng, dup=(_ % 3 == 2)))
            if quick and len(es) > 30:
                es = es[:8] + rng.sample(es[8:], 22)
            layers.append((base, [("self", copy.deepcopy(base), dict())] + es))
    pending = []  # (wire, impl result, names, report) for the model comparison
    wi = 0
    for li, (base, es) in enumerate(layers):
        try:
            db_old = hc.load_docs([emit(base), hc.cpsubset_doc(), hc.cpsubset2_doc(), hc.cpspec_doc()])
        except Exception as e:  # noqa
            ck.violation(f"loading raised {type(e).__name__}: {e}", {"old": base})
            continue
        dl_old = db_old.diag_layers[0]
        for ei, (label, new, exp) in enumerate(es):
            ck.count((json.dumps(base), json.dumps(new)), nontrivial=label != "self")
            ck.hist("edit", label)
            rep = {"old": base, "new": new, "edit": label, "expect": exp}
            try:
                db_new = hc.load_docs([emit(new), hc.cpsubset_doc(), hc.cpsubset2_doc(), hc.cpspec_doc()])
            except Exception as e:  # noqa
                ck.hist("load", type(e).__name__)
                continue
            r = run_compare(db_new.diag_layers[0], dl_old)
            if isinstance(r, tuple):
                ck.violation(f"compare_diagnostic_layers raised {r[1]}: {r[2]}", rep)
                continue
            want = dict(new=exp.get("new", []), deleted=exp.get("deleted", []), renamed=exp.get("renamed", []),
                        changed=exp.get("changed", []))
            got = {k: r[k] for k in want}
            got["changed"], want["changed"] = sorted(set(got["changed"])), sorted(want["changed"])
            if label.startswith("change-bytepos") or label.startswith("change-bl") or label.startswith("change-value"):
                # edits of the leading constants change the request prefix: the tool cannot tell this from new + deleted
                pass
            if got != want:
                # a changed request prefix is reported as new + deleted (documented TODO of the tool)
                prefix_edit = label.startswith("change-") and exp.get("param") in ("sid", "sub") and label in (
                    "change-bytepos", "change-bl", "change-value", "change-bt")
                # deleting one of several services with the same request prefix cannot be told from a
                # rename by the tool's duck typing (documented design): compared with the model only
                twin_delete = label == "delete" and any(
                    prefix_of(sv) == prefix_of(o)
                    for o in base["services"] if o["name"] in exp["deleted"] for sv in new["services"])
                if twin_delete:
                    ck.hist("edit", "delete-with-twin(model only)")
                if not prefix_edit and not twin_delete:
                    ck.violation(f"edit '{label}' of {exp} is reported as {got}", rep)
                    continue
            elif label.startswith("change-") and exp["prop"] not in r["props"]:
                ck.violation(f"edit '{label}' of parameter {exp['param']}: the changed property '{exp['prop']}' is not listed "
                             f"(listed: {r['props']})", rep)
                continue
            # abstraction for the model: (name, constant request prefix as the library computes it, content)
            names, bodies = {}, {}

            def tok(layer, dl):
                out = []
                for sv in layer["services"]:
                    nid = names.setdefault(sv["name"], len(names) + 1)
                    bid = bodies.setdefault(json.dumps([sv["rq"], sv["pr"], [layer["dopbits"][d] for d in used_dops(sv)]],
                                                       sort_keys=True), len(bodies) + 1)
                    pre = list(dl.services[sv["name"]].request.coded_const_prefix())
                    # the DiagService element itself: its name and the ids it carries / refers to
                    did = bodies.setdefault("decl:" + sv["name"] + "/" + sv.get("key", sv["name"]), len(bodies) + 1)
                    out.append([nid, [pre], bid, did])
                return out

            try:
                wire = [M, [tok(new, db_new.diag_layers[0]), tok(base, dl_old)]]
                pending.append((wire, r, dict((v, k) for k, v in names.items()), rep, label))
            except Exception:  # noqa
                pass
        # layer overview: actual numbers of services, DOPs and communication parameters
        for ncp, ndup in ((0, 0), (2, 0), (3, 0), (3, 2)):
            Lm = copy.deepcopy(base)
            Lm["ncp"], Lm["ncp_dup"] = ncp, ndup
            try:
                dbm = hc.load_docs([emit(Lm), hc.cpsubset_doc(), hc.cpsubset2_doc(), hc.cpspec_doc()])
            except Exception:  # noqa
                continue
            from odxtools.cli._print_utils import print_dl_metrics
            import contextlib
            buf = io.StringIO()
            import rich.console
            with contextlib.redirect_stdout(buf):
                r2, e2, _ = cc.guarded(lambda: print_dl_metrics(list(dbm.diag_layers)))
            txt = buf.getvalue()
            ck.count(("metrics", json.dumps(Lm)))
            cells = [c.strip() for line in txt.splitlines() if "BV" in line for c in line.replace("│", "|").replace("┃", "|").split("|")]
            nums = [int(c) for c in cells if c.isdigit()]
            want_nums = [len(Lm["services"]), 3, ncp + ndup]
            if e2 is not None or nums != want_nums:
                ck.violation(f"print_dl_metrics reports {nums} (services, DOPs, communication parameters), actual numbers are {want_nums}",
                             {"old": Lm, "output": txt[-600:]})
                break
        if li % 4 == 0:
            ck.sample({"layer": base, "n_edits": len(es)})
    if ck.model_available() and pending:
        try:
            mres = common.run_model_ocaml([p[0] for p in pending], chunk=100)
            pick = sorted(rng.sample(range(len(pending)), min(len(pending), 30 if quick else 150)))
            cres = common.run_model_coq([pending[i][0] for i in pick], tag="c18", chunk=15)
            if any(x != mres[i] for i, x in zip(pick, cres)):
                ck.note_broken("extracted model and vm_compute disagree")
            ck.coverage["evaluated_in_coq"] = len(pick)
            for (wire, r, names, rep, label), m in zip(pending, mres):
                impl = [sorted(r["new"]), sorted(r["deleted"]), sorted(map(tuple, r["renamed"])), sorted(set(r["changed"]))]
                mod = [sorted(names[x] for x in m[0]), sorted(names[x] for x in m[1]),
                       sorted((names[a], names[b]) for a, b in m[2]), sorted(set(names[x] for x in m[3]))]
                if impl != mod:
                    ck.violation(f"implementation and model disagree on edit '{label}': impl {impl} model {mod}",
                                 dict(rep, impl=impl, model=mod, broken="correspondence Compare.compare_layers"), found_input=False)
        except Exception as e:  # noqa
            ck.note_broken(f"model execution failed: {e}")
    elif not ck.model_available():
        ck.note_broken("model not built")
    ck.assumptions = ["edits which change the constant request prefix are reported as new + deleted by design of the tool (its own TODO)"]
    ck.finish(
        trusted_base=["Coq 8.16.1 kernel; no axioms", "extraction + driver cross-checked with vm_compute",
                      "harness: layer generator, single-edit enumeration, abstraction of a service to (name, request prefix, content hash)",
                      "list / find / decode sub-commands are not modelled (their logic is C06's)"],
        rule="generated layers of 1-4 services x every single edit (add, delete, rename service; byte position, bit length, coded value, "
        "semantic, data type, linked DOP of every parameter of every request/response) + self comparison + metrics rows; non-trivial = an edit")


if __name__ == "__main__":
    main()
