"""C18 -- the comparison and listing tools report the true differences and counts.

Theorems: coq/Properties/C18.v (self comparison is empty; added and renamed services
are classified as such -- all layers).  Tie: correspondence of Model/Compare.v with
Comparison.compare_diagnostic_layers on generated layers x every single edit;
direct oracle: exactly that kind of change for exactly that service; attribute-level
parameter changes; rows of print_dl_metrics.
"""
import copy
import os
import io
import json
import xml.etree.ElementTree as ET

import codec_common as cc
import common
import hier_common as hc
from common import Check

M = 18
MP = 118  # Model/CompareParams.v
LABELS = {"Parameter name": 1, "Byte position": 2, "Bit Length": 3, "Semantic": 4, "Parameter type": 5, "Data type": 6,
          "Value": 7, "Values": 8, "Linked DOP object": 9, "DOP name": 10, "DOP unit name": 11, "DOP unit display name": 12,
          "DOP unit object": 13, "DOP physical data type": 14, "Constant value": 15, "Default value": 16, "Bit position": 17}


class Interner:
    """values -> small integers: equal integers iff equal values (by == for objects, e.g. dataclass equality of DOPs)"""

    def __init__(self):
        self.keys, self.objs = {}, []

    def of(self, v):
        try:
            return self.keys.setdefault(("h", v), len(self.keys) + 1)
        except TypeError:
            return self.eq(v)

    def eq(self, o):
        for i, x in enumerate(self.objs):
            if x == o:
                return 1000 + i
        self.objs.append(o)
        return 1000 + len(self.objs) - 1


def abs_param(p, I):
    """the attributes Comparison.compare_parameters looks at, as the wire form of Model/CompareParams.par_of"""
    from odxtools.parameters.codedconstparameter import CodedConstParameter
    from odxtools.parameters.nrcconstparameter import NrcConstParameter
    from odxtools.parameters.physicalconstantparameter import PhysicalConstantParameter
    from odxtools.parameters.valueparameter import ValueParameter
    opt = lambda v: [] if v is None else [v]
    if isinstance(p, CodedConstParameter):
        kind = [0, I.of(p.diag_coded_type.base_data_type.name), I.of(repr(p.coded_value))]
    elif isinstance(p, NrcConstParameter):
        kind = [1, I.of(p.diag_coded_type.base_data_type.name), [I.of(repr(v)) for v in p.coded_values]]
    elif getattr(p, "dop", None) is not None:
        d = p.dop
        u = getattr(d, "unit", None)
        unit = [I.eq(u), I.of(u.short_name), I.of(u.display_name)] if u else []
        pt = getattr(d, "physical_type", None)
        phys = [I.of(pt.base_data_type.name)] if pt else []
        if isinstance(p, PhysicalConstantParameter):
            extra = [0, I.of(repr(p.physical_constant_value))]
        elif isinstance(p, ValueParameter):
            extra = [1, opt(None if p.physical_default_value is None else I.of(repr(p.physical_default_value)))]
        else:
            extra = [2]
        kind = [2, I.eq(d), I.of(d.short_name), unit, phys, extra]
    else:
        kind = [3]
    return [I.of(p.short_name), I.of(p.parameter_type), opt(p.byte_position), opt(p.get_static_bit_length()),
            opt(None if p.semantic is None else I.of(p.semantic)), kind, opt(p.bit_position)]


def param_cases(dl_new, dl_old, tag):
    """for every service present in both layers: request and positive responses, parameter lists new vs old.
    -> list of (wire case, implementation result in the model's output form, description)"""
    from odxtools.cli.compare import Comparison
    cmp_ = Comparison()
    out = []
    for sv in dl_new.services:
        so = next((x for x in dl_old.services if x.short_name == sv.short_name), None)
        if so is None:
            continue
        pairs = [("request", sv.request, so.request)]
        if len(sv.positive_responses) == len(so.positive_responses):
            pairs += [(f"positive response {i}", a, b) for i, (a, b) in enumerate(zip(sv.positive_responses, so.positive_responses))]
        if len(sv.negative_responses) == len(so.negative_responses):
            pairs += [(f"negative response {i}", a, b) for i, (a, b) in enumerate(zip(sv.negative_responses, so.negative_responses))]
        for what, a, b in pairs:
            if a is None or b is None:
                continue
            I = Interner()
            l1, l2 = list(a.parameters), list(b.parameters)
            wire = [MP, [[abs_param(x, I) for x in l1], [abs_param(x, I) for x in l2]]]
            if len(l1) != len(l2):
                impl = []
            else:
                rows = []
                for p1, p2 in zip(l1, l2):
                    props = cmp_.compare_parameters(p1, p2)["Property"]
                    codes = [LABELS.get(x.strip(), 99) for x in props]
                    if codes:
                        rows.append([I.of(p2.short_name), codes])
                impl = [rows]
            out.append((wire, impl, f"{tag}: service {sv.short_name}, {what}"))
    return out
BTN = ["A_INT32", "A_UINT32"]


def gen_layer(rng, dup=False):
    n = rng.choice([2, 3, 4]) if dup else rng.choice([1, 2, 3, 4])
    svcs = []
    used = set()
    for i in range(n):
        while True:
            pre = (rng.choice([0x10, 0x22, 0x2E, 0x31]), rng.choice([1, 2, 3, 0xF1]))
            if pre not in used:
                used.add(pre)
                break
        if dup and i > 0 and rng.random() < 0.6:
            pre = rng.choice(sorted(used - {pre}))  # several services with one constant request prefix
        rq = [dict(name="sid", kind="coded", bytepos=0, bl=8, value=pre[0], semantic="SERVICE-ID", bt=1),
              dict(name="sub", kind="coded", bytepos=1, bl=8, value=pre[1], semantic=None, bt=1)]
        for k in range(rng.choice([0, 1, 2])):
            rq.append(dict(name=f"arg{k}", kind="value", bytepos=rng.choice([2 + 2 * k, 2 + 2 * k, None]), dop=rng.choice(["dopA", "dopB"]),
                           semantic=rng.choice([None, "DATA"])))
        pr = [dict(name="sid", kind="coded", bytepos=0, bl=8, value=(pre[0] + 0x40) & 0xFF, semantic=None, bt=1)]
        for k in range(rng.choice([0, 1])):
            pr.append(dict(name=f"res{k}", kind="value", bytepos=rng.choice([1 + 2 * k, None]), dop=rng.choice(["dopA", "dopB"]), semantic=None))
        # (defined in descending order of their names: the definition order is not the alphabetical one)
        svcs.append(dict(name=f"svc{n - i}", rq=rq, pr=pr))
    if not dup and rng.random() < 0.4:
        # one service whose request does not start with a constant: its identifying prefix is empty
        svcs.append(dict(name="svc0", rq=[dict(name="lead", kind="value", bytepos=0, dop="dopB", semantic=None)],
                         pr=[dict(name="sid", kind="coded", bytepos=0, bl=8, value=0x77, semantic=None, bt=1)]))
    return dict(services=svcs, ndops=2, dup=dup, dopbits=dict(dopA=16, dopB=8, dopC=16))


def prefix_of(sv):
    out = []
    for p in sv["rq"]:
        if p["kind"] != "coded":
            break
        out.append(p["value"])
    return out[:2]


def used_dops(sv):
    return sorted({p["dop"] for which in ("rq", "pr") for p in sv[which] if p["kind"] == "value"})


def x_param(p):
    sem = "" if p["semantic"] is None else f' SEMANTIC="{p["semantic"]}"'
    pos = "" if p["bytepos"] is None else f"<BYTE-POSITION>{p['bytepos']}</BYTE-POSITION>"
    if p.get("bitpos") is not None:
        pos += f"<BIT-POSITION>{p['bitpos']}</BIT-POSITION>"
    if p["kind"] == "coded":
        return (f'<PARAM{sem} xsi:type="CODED-CONST"><SHORT-NAME>{p["name"]}</SHORT-NAME>{pos}<CODED-VALUE>{p["value"]}</CODED-VALUE>'
                f'<DIAG-CODED-TYPE BASE-DATA-TYPE="{BTN[p["bt"]]}" xsi:type="STANDARD-LENGTH-TYPE"><BIT-LENGTH>{p["bl"]}</BIT-LENGTH>'
                f'</DIAG-CODED-TYPE></PARAM>')
    return f'<PARAM{sem} xsi:type="VALUE"><SHORT-NAME>{p["name"]}</SHORT-NAME>{pos}<DOP-REF ID-REF="{p["dop"]}"/></PARAM>'


def emit(L):
    dops = ""
    for nm, bl in sorted(L.get("dopbits", dict(dopA=16, dopB=8, dopC=16)).items()):
        dops += (f'<DATA-OBJECT-PROP ID="{nm}"><SHORT-NAME>{nm}</SHORT-NAME><COMPU-METHOD><CATEGORY>IDENTICAL</CATEGORY></COMPU-METHOD>'
                 f'<DIAG-CODED-TYPE BASE-DATA-TYPE="A_UINT32" xsi:type="STANDARD-LENGTH-TYPE"><BIT-LENGTH>{bl}</BIT-LENGTH></DIAG-CODED-TYPE>'
                 '<PHYSICAL-TYPE BASE-DATA-TYPE="A_UINT32"/></DATA-OBJECT-PROP>')
    svc = rqs = prs = ""
    for s in L["services"]:
        n = s["name"]
        key = s.get("key", n)
        svc += (f'<DIAG-SERVICE ID="svc.{key}"><SHORT-NAME>{n}</SHORT-NAME><REQUEST-REF ID-REF="rq.{key}"/>'
                f'<POS-RESPONSE-REFS><POS-RESPONSE-REF ID-REF="pr.{key}"/></POS-RESPONSE-REFS></DIAG-SERVICE>')
        rqs += f'<REQUEST ID="rq.{key}"><SHORT-NAME>rq_{key}</SHORT-NAME><PARAMS>{"".join(x_param(p) for p in s["rq"])}</PARAMS></REQUEST>'
        prs += f'<POS-RESPONSE ID="pr.{key}"><SHORT-NAME>pr_{key}</SHORT-NAME><PARAMS>{"".join(x_param(p) for p in s["pr"])}</PARAMS></POS-RESPONSE>'
    cprefs = "".join(f'<COMPARAM-REF ID-REF="CPSUB.{n}" DOCREF="CPSUB" DOCTYPE="COMPARAM-SUBSET"><SIMPLE-VALUE>1</SIMPLE-VALUE></COMPARAM-REF>'
                     for n, _ in hc.SIMPLE_CPS[:L.get("ncp", 0)])
    # the same parameters once more, for one protocol only: separate entries keyed by (parameter, protocol)
    cprefs += "".join(f'<COMPARAM-REF ID-REF="CPSUB.{n}" DOCREF="CPSUB" DOCTYPE="COMPARAM-SUBSET"><SIMPLE-VALUE>2</SIMPLE-VALUE>'
                      '<PROTOCOL-SNREF SHORT-NAME="PX"/></COMPARAM-REF>' for n, _ in hc.SIMPLE_CPS[:L.get("ncp_dup", 0)])
    return ('<?xml version="1.0" encoding="UTF-8"?><ODX MODEL-VERSION="2.2.0" xmlns:xsi="http://www.w3.org/2001/XMLSchema-instance">'
            '<DIAG-LAYER-CONTAINER ID="DLC"><SHORT-NAME>DLC</SHORT-NAME><BASE-VARIANTS><BASE-VARIANT ID="BV"><SHORT-NAME>BV</SHORT-NAME>'
            + (f"<COMPARAM-REFS>{cprefs}</COMPARAM-REFS>" if cprefs else "") +
            f'<DIAG-DATA-DICTIONARY-SPEC><DATA-OBJECT-PROPS>{dops}</DATA-OBJECT-PROPS></DIAG-DATA-DICTIONARY-SPEC>'
            f'<DIAG-COMMS>{svc}</DIAG-COMMS><REQUESTS>{rqs}</REQUESTS><POS-RESPONSES>{prs}</POS-RESPONSES>'
            '</BASE-VARIANT></BASE-VARIANTS></DIAG-LAYER-CONTAINER></ODX>')


def edits(rng, L):
    """every single edit of the property text: (label, edited layer, expectation)"""
    out = []
    base = copy.deepcopy(L)
    for s in base["services"]:
        s["key"] = s["name"]
    # add
    e = copy.deepcopy(base)
    e["services"].append(dict(name="svcNew", key="svcNew", rq=[dict(name="sid", kind="coded", bytepos=0, bl=8, value=0x85, semantic=None, bt=1)],
                              pr=[dict(name="sid", kind="coded", bytepos=0, bl=8, value=0xC5, semantic=None, bt=1)]))
    out.append(("add", e, dict(new=["svcNew"])))
    for i, s in enumerate(base["services"]):
        e = copy.deepcopy(base)
        del e["services"][i]        # also the last remaining service
        out.append(("delete", e, dict(deleted=[s["name"]])))
        e = copy.deepcopy(base)
        e["services"][i]["name"] = s["name"] + "_renamed"
        out.append(("rename", e, dict(renamed=[[s["name"] + "_renamed", s["name"]]])))
        for which in ("rq", "pr"):
            for j, p in enumerate(s[which]):
                attrs = [("bytepos", (p["bytepos"] or 0) + 5, "Byte position"), ("semantic", "CHANGED", "Semantic")]
                if j > 0:
                    # an unspecified position (directly behind the predecessor) is not position 0
                    attrs.append(("bytepos", 0 if p["bytepos"] is None else None, "Byte position"))
                if (p["kind"] == "coded" and p["bl"] <= 4) or p["kind"] != "coded":
                    # (a BIT-POSITION which appears, where the object leaves room for it)
                    attrs.append(("bitpos", 2 if p.get("bitpos") is None else None, "Bit position"))
                if p["kind"] == "coded":
                    attrs += [("bl", 16, "Bit Length")]
                    if p["value"] < 128:
                        attrs.append(("bt", 0, "Data type"))
                    if not (which == "rq" and j < 2):
                        attrs.append(("value", (p["value"] + 1) & 0xFF, "Value"))
                else:
                    attrs.append(("dop", "dopC" if p["dop"] != "dopC" else "dopA", "Linked DOP object"))
                for attr, val, label in attrs:
                    e = copy.deepcopy(base)
                    e["services"][i][which][j][attr] = val
                    out.append((f"change-{attr}", e, dict(changed=[s["name"]], prop=label, param=p["name"])))
    # two structural edits at once: a service is deleted and a LATER one renamed (all request prefixes distinct, so that the
    # tool can tell the two apart): exactly one deletion and exactly one rename
    pres = [json.dumps(prefix_of(sv)) for sv in base["services"]]
    if len(set(pres)) == len(pres):
        for i in range(len(base["services"])):
            for j in range(len(base["services"])):
                if i == j:
                    continue
                e = copy.deepcopy(base)
                e["services"][j]["name"] = base["services"][j]["name"] + "_renamed"
                del e["services"][i]
                out.append(("delete+rename", e, dict(deleted=[base["services"][i]["name"]],
                                                      renamed=[[base["services"][j]["name"] + "_renamed", base["services"][j]["name"]]])))
    # a data object edited in place (same id, same name): every service using it has changed, no other
    for dop in ("dopA", "dopB"):
        users = [s["name"] for s in base["services"] if dop in used_dops(s)]
        if users:
            e = copy.deepcopy(base)
            e["dopbits"][dop] += 8
            out.append(("change-dopdef", e, dict(changed=users, prop="Linked DOP object", param=None)))
    return base, out


def abstract(layer, dl):
    """(name id, prefix, body) triples for the model; the body is a hash of everything the tool compares"""
    out = []
    for s in layer["services"]:
        key = s.get("key", s["name"])
        body = json.dumps([s["rq"], s["pr"]], sort_keys=True)
        out.append((s["name"], None, body))
    return out


def attr_doc(k):
    """a layer with one service whose messages carry every parameter kind compare_parameters distinguishes; k: knobs"""
    u8 = '<DIAG-CODED-TYPE BASE-DATA-TYPE="A_UINT32" xsi:type="STANDARD-LENGTH-TYPE"><BIT-LENGTH>8</BIT-LENGTH></DIAG-CODED-TYPE>'
    const = lambda n, v: f'<PARAM xsi:type="CODED-CONST"><SHORT-NAME>{n}</SHORT-NAME><CODED-VALUE>{v}</CODED-VALUE>{u8}</PARAM>'
    return ('<?xml version="1.0" encoding="UTF-8"?><ODX MODEL-VERSION="2.2.0" xmlns:xsi="http://www.w3.org/2001/XMLSchema-instance">'
            '<DIAG-LAYER-CONTAINER ID="DLC"><SHORT-NAME>DLC</SHORT-NAME><BASE-VARIANTS><BASE-VARIANT ID="BV"><SHORT-NAME>BV</SHORT-NAME>'
            '<DIAG-DATA-DICTIONARY-SPEC><DATA-OBJECT-PROPS>'
            f'<DATA-OBJECT-PROP ID="d1"><SHORT-NAME>{k.get("dopname", "d1")}</SHORT-NAME><COMPU-METHOD><CATEGORY>LINEAR</CATEGORY><COMPU-INTERNAL-TO-PHYS><COMPU-SCALES>'
            '<COMPU-SCALE><COMPU-RATIONAL-COEFFS><COMPU-NUMERATOR><V>0</V><V>1</V></COMPU-NUMERATOR><COMPU-DENOMINATOR><V>1</V></COMPU-DENOMINATOR>'
            f'</COMPU-RATIONAL-COEFFS></COMPU-SCALE></COMPU-SCALES></COMPU-INTERNAL-TO-PHYS></COMPU-METHOD>{u8}'
            f'<PHYSICAL-TYPE BASE-DATA-TYPE="{k.get("phys", "A_UINT32")}"/><UNIT-REF ID-REF="{k.get("unitref", "u1")}"/></DATA-OBJECT-PROP>'
            '</DATA-OBJECT-PROPS><UNIT-SPEC><UNITS>'
            f'<UNIT ID="u1"><SHORT-NAME>{k.get("uname", "km")}</SHORT-NAME><DISPLAY-NAME>{k.get("udisp", "km")}</DISPLAY-NAME>'
            f'<FACTOR-SI-TO-UNIT>{k.get("ufactor", 1)}</FACTOR-SI-TO-UNIT></UNIT>'
            '<UNIT ID="u2"><SHORT-NAME>mi</SHORT-NAME><DISPLAY-NAME>mi</DISPLAY-NAME></UNIT></UNITS></UNIT-SPEC></DIAG-DATA-DICTIONARY-SPEC>'
            '<DIAG-COMMS><DIAG-SERVICE ID="svc"><SHORT-NAME>svc</SHORT-NAME><REQUEST-REF ID-REF="rq"/>'
            '<POS-RESPONSE-REFS><POS-RESPONSE-REF ID-REF="pr"/></POS-RESPONSE-REFS>'
            '<NEG-RESPONSE-REFS><NEG-RESPONSE-REF ID-REF="nr"/></NEG-RESPONSE-REFS></DIAG-SERVICE></DIAG-COMMS>'
            f'<REQUESTS><REQUEST ID="rq"><SHORT-NAME>rq</SHORT-NAME><PARAMS>{const("sid", 0x22)}'
            f'<PARAM xsi:type="VALUE"><SHORT-NAME>{k.get("pname", "p_val")}</SHORT-NAME>'
            + (f'<PHYSICAL-DEFAULT-VALUE>{k.get("default", 5)}</PHYSICAL-DEFAULT-VALUE>' if k.get("default", 5) is not None else "") +
            '<DOP-REF ID-REF="d1"/></PARAM>'
            + (f'<PARAM xsi:type="PHYS-CONST"><SHORT-NAME>p_pc</SHORT-NAME><PHYS-CONSTANT-VALUE>{k.get("pc", 7)}</PHYS-CONSTANT-VALUE><DOP-REF ID-REF="d1"/></PARAM>'
               if not k.get("pc_as_value") else '<PARAM xsi:type="VALUE"><SHORT-NAME>p_pc</SHORT-NAME><DOP-REF ID-REF="d1"/></PARAM>') +
            '</PARAMS></REQUEST></REQUESTS>'
            f'<POS-RESPONSES><POS-RESPONSE ID="pr"><SHORT-NAME>pr</SHORT-NAME><PARAMS>{const("sid", 0x62)}</PARAMS></POS-RESPONSE></POS-RESPONSES>'
            f'<NEG-RESPONSES><NEG-RESPONSE ID="nr"><SHORT-NAME>nr</SHORT-NAME><PARAMS>{const("sid", 0x7F)}'
            f'<PARAM xsi:type="NRC-CONST"><SHORT-NAME>nrc</SHORT-NAME><CODED-VALUES>' + "".join(f"<CODED-VALUE>{v}</CODED-VALUE>" for v in k.get("nrcs", (16, 17))) +
            f'</CODED-VALUES>{u8}</PARAM></PARAMS></NEG-RESPONSE></NEG-RESPONSES>'
            '</BASE-VARIANT></BASE-VARIANTS></DIAG-LAYER-CONTAINER></ODX>')


ATTR_VARIANTS = [("parameter renamed", dict(pname="p_val2"), 1), ("parameter type", dict(pc_as_value=True), 5),
                 ("NRC values", dict(nrcs=(16, 18)), 8), ("unit of the DOP", dict(unitref="u2"), 11),
                 ("display name of the unit", dict(udisp="KM"), 12), ("factor of the unit", dict(ufactor=2), 13),
                 ("physical type of the DOP", dict(phys="A_INT32"), 14), ("physical constant", dict(pc=8), 15),
                 ("default value", dict(default=6), 16), ("default value removed", dict(default=None), 16),
                 ("name of the DOP", dict(dopname="d1x"), 10)]


ESD_NAMES = ["esd", "2nd_gen_shared", "index", "class", "copy", "None"]


def emit_family(L, esd_name="esd"):
    """the layer of emit(L) as base variant BV, plus an ECU variant EV which inherits everything from it and an
    ECU-SHARED-DATA layer holding two data objects"""
    xml = emit(L)
    esd = (f'<ECU-SHARED-DATAS><ECU-SHARED-DATA ID="ESD"><SHORT-NAME>{esd_name}</SHORT-NAME><DIAG-DATA-DICTIONARY-SPEC><DATA-OBJECT-PROPS>'
           + "".join(f'<DATA-OBJECT-PROP ID="ESD.d{i}"><SHORT-NAME>sd{i}</SHORT-NAME><COMPU-METHOD><CATEGORY>IDENTICAL</CATEGORY></COMPU-METHOD>'
                     '<DIAG-CODED-TYPE BASE-DATA-TYPE="A_UINT32" xsi:type="STANDARD-LENGTH-TYPE"><BIT-LENGTH>8</BIT-LENGTH></DIAG-CODED-TYPE>'
                     '<PHYSICAL-TYPE BASE-DATA-TYPE="A_UINT32"/></DATA-OBJECT-PROP>' for i in (1, 2)) +
           '</DATA-OBJECT-PROPS></DIAG-DATA-DICTIONARY-SPEC></ECU-SHARED-DATA></ECU-SHARED-DATAS>')
    ev = ('<ECU-VARIANTS><ECU-VARIANT ID="EV"><SHORT-NAME>EV</SHORT-NAME><PARENT-REFS>'
          '<PARENT-REF ID-REF="BV" DOCREF="DLC" DOCTYPE="CONTAINER" xsi:type="BASE-VARIANT-REF"/></PARENT-REFS></ECU-VARIANT></ECU-VARIANTS>')
    # a single ECU job beside the services of the base variant (inherited by the ECU variant): a job is no service
    job = ('<SINGLE-ECU-JOB ID="BV.job1"><SHORT-NAME>job1</SHORT-NAME><PROG-CODES><PROG-CODE><CODE-FILE>job1.jar</CODE-FILE>'
           '<SYNTAX>JAR</SYNTAX><REVISION>1.0</REVISION></PROG-CODE></PROG-CODES></SINGLE-ECU-JOB>')
    assert xml.count("</DIAG-COMMS>") == 1
    xml = xml.replace("</DIAG-COMMS>", job + "</DIAG-COMMS>")
    assert xml.count("<BASE-VARIANTS>") == 1 and xml.count("</BASE-VARIANTS>") == 1
    return xml.replace("<BASE-VARIANTS>", esd + "<BASE-VARIANTS>").replace("</BASE-VARIANTS>", "</BASE-VARIANTS>" + ev)


def overview_rows(txt, names):
    rows = {}
    for line in txt.splitlines():
        cells = [c.strip() for c in line.replace("│", "|").replace("┃", "|").split("|")]
        for nm in names:
            if nm in cells:
                rows[nm] = [int(c) for c in cells if c.isdigit()]
    return rows


def family_checks(ck, rng, base, es):
    """layers which inherit, layers without communication parameters, layer names which are no plain attribute names:
    the overview of the list tool and of print_dl_metrics in both orders; an edit in the base variant seen through the
    inheriting ECU variant"""
    import contextlib
    import odxtools.cli.list as list_tool
    from odxtools.cli._print_utils import print_dl_metrics
    docs = [hc.cpsubset_doc(), hc.cpsubset2_doc(), hc.cpspec_doc()]
    esd_name = rng.choice(ESD_NAMES)
    Lm = copy.deepcopy(base)
    Lm["ncp"], Lm["ncp_dup"] = 3, 1
    try:
        db = hc.load_docs([emit_family(Lm, esd_name)] + docs, aux_files=["job1.jar"])
    except Exception as e:  # noqa
        ck.note_broken(f"the three-layer document does not load: {type(e).__name__}: {e}")
        return
    nsvc = len(Lm["services"])
    want = {esd_name: [0, 2, 0], "BV": [nsvc, 3, 4], "EV": [nsvc, 3, 4]}
    rep = {"old": Lm, "family": True, "esd_name": esd_name}
    by_name = {dl.short_name: dl for dl in db.diag_layers}
    first = Lm["services"][0]["name"] if Lm["services"] else "nosuch"
    runs = [("list tool, all layers", lambda: list_tool.print_summary(db)),
            # asking the tool to print one service only does not change how many services a layer has
            ("list tool, one service selected (--services)",
             lambda: list_tool.print_summary(db, print_services=True, service_filter=lambda sv: sv.short_name == first)),
            ("print_dl_metrics, shared data last", lambda: print_dl_metrics([by_name["BV"], by_name["EV"], by_name[esd_name]])),
            ("print_dl_metrics, shared data first", lambda: print_dl_metrics([by_name[esd_name], by_name["EV"], by_name["BV"]]))]
    os.environ["COLUMNS"] = "250"  # (rich truncates cells to the width of the terminal)
    for what, fn in runs:
        buf = io.StringIO()
        with contextlib.redirect_stdout(buf):
            r2, e2, _ = cc.guarded(fn)
        ck.count(("family", what, esd_name, json.dumps(Lm)))
        rows = overview_rows(buf.getvalue().split("Diagnostic layer:")[0], list(want))
        if e2 is not None or rows != want:
            ck.violation(f"{what}: the overview shows {rows} (services, DOPs, communication parameters per layer)"
                         + (f" and raised {type(e2).__name__}: {e2}" if e2 is not None else "") + f", the actual numbers are {want}",
                         dict(rep, output=buf.getvalue()[-800:]))
            return
    # edits of the base variant, observed on the ECU variant which merely inherits
    ev_old = by_name["EV"]
    for label, new, exp in es[:10]:
        try:
            db_new = hc.load_docs([emit_family(new, esd_name)] + docs, aux_files=["job1.jar"])
        except Exception:  # noqa
            continue
        r = run_compare({dl.short_name: dl for dl in db_new.diag_layers}["EV"], ev_old)
        ck.count(("family-edit", json.dumps(base), json.dumps(new)))
        if isinstance(r, tuple):
            ck.violation(f"compare_diagnostic_layers on the inheriting layer raised {r[1]}: {r[2]}", dict(rep, new=new, edit=label))
            return
        r_bv = run_compare({dl.short_name: dl for dl in db_new.diag_layers}["BV"], by_name["BV"])
        key = lambda x: {k: sorted(map(str, x[k])) for k in ("new", "deleted", "renamed", "changed")}
        if not isinstance(r_bv, tuple) and key(r) != key(r_bv):
            ck.violation(f"edit '{label}' of the base variant: comparing the base variants reports {key(r_bv)}, comparing the ECU variants "
                         f"which inherit all of it reports {key(r)}", dict(rep, new=new, edit=label, expect=exp))
            return


def cli_compare_many(ck):
    """`odxtools compare A -db B C` compares A with B and then A with C.  With C an identical copy of B the two reports
    are the same, apart from the file name; with C a copy of A the second report shows no change at all."""
    import argparse
    import contextlib
    import re
    import shutil
    import tempfile
    import odxtools.cli.compare as cmp_tool
    ex = os.path.join(common.REPO, "examples")
    d = tempfile.mkdtemp(prefix="c18cli_", dir="/var/tmp")
    try:
        a, b = os.path.join(d, "a.pdx"), os.path.join(d, "b.pdx")
        shutil.copy(os.path.join(ex, "somersault_modified.pdx"), a)
        shutil.copy(os.path.join(ex, "somersault.pdx"), b)
        shutil.copy(b, os.path.join(d, "c.pdx"))
        shutil.copy(a, os.path.join(d, "a2.pdx"))
        os.environ["COLUMNS"] = "250"

        def run(others, variants=None):
            args = argparse.Namespace(pdx_file=a, database=[os.path.join(d, x) for x in others], variants=variants, no_details=True)
            buf = io.StringIO()
            with contextlib.redirect_stdout(buf):
                _, e, _ = cc.guarded(lambda: cmp_tool.run(args), timeout=120)
            txt = buf.getvalue()
            secs = re.split(r"Changes in file '[^']*'?\s*\(compared to '([^']*)'\)", txt)
            # -> [head, name1, body1, name2, body2, ...]
            norm = lambda t: "\n".join(l.rstrip() for l in t.strip().splitlines())
            return e, {secs[i]: norm(secs[i + 1]) for i in range(1, len(secs) - 1, 2)}, txt

        for variants in (None, ["somersault_lazy"]):
            e, secs, txt = run(["b.pdx", "c.pdx"], variants)
            ck.count(("cli-compare", "b c", str(variants)))
            rep = {"cli": f"compare a.pdx -db b.pdx c.pdx (a = somersault_modified, b = c = somersault), variants={variants}"}
            if e is not None or set(secs) != {"b.pdx", "c.pdx"}:
                ck.violation(f"compare with two further databases raised {e!r} / printed the sections {sorted(secs)}", dict(rep, output=txt[-600:]))
                return
            if secs["b.pdx"].replace("b.pdx", "X") != secs["c.pdx"].replace("c.pdx", "X"):
                ck.violation("compare a -db b c with c an identical copy of b: the changes reported against c differ from those "
                             "reported against b", dict(rep, against_b=secs["b.pdx"][-700:], against_c=secs["c.pdx"][-700:]))
                return
            if "tester_present" not in secs["b.pdx"] and "hanged" not in secs["b.pdx"]:
                ck.note_broken("the shipped pair somersault / somersault_modified no longer differs in a way the tool prints")
            e, secs2, txt2 = run(["b.pdx", "a2.pdx"], variants)
            ck.count(("cli-compare", "b a2", str(variants)))
            if e is not None or set(secs2) != {"b.pdx", "a2.pdx"}:
                ck.violation(f"compare with two further databases raised {e!r} / printed the sections {sorted(secs2)}", dict(rep, output=txt2[-600:]))
                return
            e0, secs0, _ = run(["a2.pdx"], variants)
            if e0 is None and "a2.pdx" in secs0 and secs2["a2.pdx"] != secs0["a2.pdx"]:
                ck.violation("compare a -db b a2 with a2 an identical copy of a: the second comparison does not report what comparing "
                             "a with a2 alone reports (no change)", dict(rep, second=secs2["a2.pdx"][-700:], alone=secs0["a2.pdx"][-700:]))
                return
    finally:
        shutil.rmtree(d, ignore_errors=True)


def printed_wrong(txt, want):
    """None, or what is wrong with the printed report: each heading is present iff there is such a change, and the table
    under it names exactly the services concerned"""
    heads = {"new": "New services", "deleted": "Deleted services", "renamed": "Renamed services"}
    marks = sorted((txt.find(h), k) for k, h in heads.items() if h in txt) + [(len(txt), None)]
    secs = {k: txt[a:marks[j + 1][0]] for j, (a, k) in enumerate(marks[:-1])}
    end = txt.find("Services with parameter changes")
    for k in heads:
        names = [x[0] if isinstance(x, list) else x for x in want[k]]
        if bool(names) != (k in secs):
            return f"{'lacks' if names else 'has'} the heading '{heads[k]}' although the comparison found {names}"
        body = secs.get(k, "")
        if end >= 0 and end > txt.find(heads[k]) >= 0:
            body = body.split("Services with parameter changes")[0]
        for n in names:
            if n not in body:
                return f"does not name the service {n} under '{heads[k]}'"
    return None


def run_compare(dl_new, dl_old):
    from odxtools.cli.compare import Comparison
    cmp_ = Comparison()
    r, e, _ = cc.guarded(lambda: cmp_.compare_diagnostic_layers(dl_new, dl_old), timeout=20)
    if e is not None:
        return ("error", type(e).__name__, str(e)[:200])
    ch = r["changed_parameters_of_service"]
    props = []
    for info in ch[2]:
        for x in info:
            if isinstance(x, dict) and "Property" in x:
                props.extend(x["Property"])
    import contextlib
    os.environ["COLUMNS"] = "250"
    buf = io.StringIO()
    cmp_.param_detailed = False
    with contextlib.redirect_stdout(buf):
        _, e_pr, _ = cc.guarded(lambda: cmp_.print_dl_changes(r), timeout=20)
    return dict(printed=buf.getvalue(), print_error=None if e_pr is None else f"{type(e_pr).__name__}: {e_pr}",
                new=[s.short_name for s in r["new_services"]], deleted=[s.short_name for s in r["deleted_services"]],
                renamed=[[a.short_name, b] for a, b in zip(r["changed_name_of_service"][0], r["changed_name_of_service"][1])],
                changed=[s.short_name for s in ch[0]], props=props, texts=list(ch[1]))


def main(argv=None):
    import warnings
    warnings.simplefilter("ignore")
    ck = Check("C18", argv)
    ck.prologue()
    rng = ck.rng
    quick = ck.tier == "quick"
    layers = []
    if ck.replay:
        rp = json.load(open(ck.replay))["replay"]
        layers.append((rp["old"], [("replay", rp["new"], rp.get("expect", {}))]))
    else:
        for _ in range(12 if quick else 120):
            base, es = edits(rng, gen_layer(rng, dup=(_ % 3 == 2)))
            if quick and len(es) > 30:
                es = es[:8] + rng.sample(es[8:], 22)
            layers.append((base, [("self", copy.deepcopy(base), dict())] + es))
    pending = []  # (wire, impl result, names, report) for the model comparison
    ppending = []  # (wire, impl rows, description, report): attribute level, Model/CompareParams.v
    wi = 0
    for li, (base, es) in enumerate(layers):
        try:
            db_old = hc.load_docs([emit(base), hc.cpsubset_doc(), hc.cpsubset2_doc(), hc.cpspec_doc()])
        except Exception as e:  # noqa
            ck.violation(f"loading raised {type(e).__name__}: {e}", {"old": base})
            continue
        dl_old = db_old.diag_layers[0]
        for ei, (label, new, exp) in enumerate(es):
            ck.count((json.dumps(base), json.dumps(new)), nontrivial=label != "self")
            ck.hist("edit", label)
            rep = {"old": base, "new": new, "edit": label, "expect": exp}
            try:
                db_new = hc.load_docs([emit(new), hc.cpsubset_doc(), hc.cpsubset2_doc(), hc.cpspec_doc()])
            except Exception as e:  # noqa
                ck.hist("load", type(e).__name__)
                continue
            r = run_compare(db_new.diag_layers[0], dl_old)
            if isinstance(r, tuple):
                ck.violation(f"compare_diagnostic_layers raised {r[1]}: {r[2]}", rep)
                continue
            want = dict(new=exp.get("new", []), deleted=exp.get("deleted", []), renamed=exp.get("renamed", []),
                        changed=exp.get("changed", []))
            got = {k: r[k] for k in want}
            got["changed"], want["changed"] = sorted(set(got["changed"])), sorted(want["changed"])
            if label.startswith("change-bytepos") or label.startswith("change-bl") or label.startswith("change-value"):
                # edits of the leading constants change the request prefix: the tool cannot tell this from new + deleted
                pass
            if got != want:
                # a changed request prefix is reported as new + deleted (documented TODO of the tool)
                prefix_edit = label.startswith("change-") and exp.get("param") in ("sid", "sub") and label in (
                    "change-bytepos", "change-bl", "change-value", "change-bt")
                # deleting one of several services with the same request prefix cannot be told from a
                # rename by the tool's duck typing (documented design): compared with the model only
                twin_delete = label == "delete" and any(
                    prefix_of(sv) == prefix_of(o)
                    for o in base["services"] if o["name"] in exp["deleted"] for sv in new["services"])
                if twin_delete:
                    ck.hist("edit", "delete-with-twin(model only)")
                if not prefix_edit and not twin_delete:
                    ck.violation(f"edit '{label}' of {exp} is reported as {got}", rep)
                    continue
            elif label in ("add", "delete", "rename", "delete+rename") and got == want and (r["print_error"] or printed_wrong(r["printed"], want)):
                # what the tool prints for the comparison names the services under the right headings
                ck.violation(f"edit '{label}': the report printed by the compare tool " +
                             (f"raised {r['print_error']}" if r["print_error"] else printed_wrong(r["printed"], want)),
                             dict(rep, printed=r["printed"][-1500:]))
                continue
            elif label.startswith("change-") and exp["prop"] not in r["props"]:
                ck.violation(f"edit '{label}' of parameter {exp['param']}: the changed property '{exp['prop']}' is not listed "
                             f"(listed: {r['props']})", rep)
                continue
            elif label in ("change-bytepos", "change-semantic", "change-bl", "change-value", "change-bt", "change-bitpos") and \
                    r["props"] != [exp["prop"]]:
                # one attribute of one parameter was edited: exactly that kind of change, once (linking another data object
                # also changes what is derived from it -- its name, its bit length -- and is not held to this)
                ck.violation(f"edit '{label}' of parameter {exp['param']} (one attribute of one parameter): the reported property "
                             f"changes are {r['props']}, the edit is exactly ['{exp['prop']}']", rep)
                continue
            try:
                for w_, i_, d_ in param_cases(db_new.diag_layers[0], dl_old, f"edit '{label}'"):
                    ppending.append((w_, i_, d_, rep))
            except Exception as e:  # noqa
                ck.violation(f"compare_parameters raised {type(e).__name__}: {e} (edit '{label}')", rep)
                continue
            # abstraction for the model: (name, constant request prefix as the library computes it, content)
            names, bodies = {}, {}

            def tok(layer, dl):
                out = []
                for sv in layer["services"]:
                    nid = names.setdefault(sv["name"], len(names) + 1)
                    bid = bodies.setdefault(json.dumps([sv["rq"], sv["pr"], [layer["dopbits"][d] for d in used_dops(sv)]],
                                                       sort_keys=True), len(bodies) + 1)
                    pre = list(dl.services[sv["name"]].request.coded_const_prefix())
                    # the DiagService element itself: its name and the ids it carries / refers to
                    did = bodies.setdefault("decl:" + sv["name"] + "/" + sv.get("key", sv["name"]), len(bodies) + 1)
                    out.append([nid, [pre], bid, did])
                return out

            try:
                wire = [M, [tok(new, db_new.diag_layers[0]), tok(base, dl_old)]]
                pending.append((wire, r, dict((v, k) for k, v in names.items()), rep, label))
            except Exception:  # noqa
                pass
        # layer overview: actual numbers of services, DOPs and communication parameters
        for ncp, ndup in ((0, 0), (2, 0), (3, 0), (3, 2)):
            Lm = copy.deepcopy(base)
            Lm["ncp"], Lm["ncp_dup"] = ncp, ndup
            try:
                dbm = hc.load_docs([emit(Lm), hc.cpsubset_doc(), hc.cpsubset2_doc(), hc.cpspec_doc()])
            except Exception:  # noqa
                continue
            from odxtools.cli._print_utils import print_dl_metrics
            import contextlib
            buf = io.StringIO()
            import rich.console
            with contextlib.redirect_stdout(buf):
                r2, e2, _ = cc.guarded(lambda: print_dl_metrics(list(dbm.diag_layers)))
            txt = buf.getvalue()
            ck.count(("metrics", json.dumps(Lm)))
            cells = [c.strip() for line in txt.splitlines() if "BV" in line for c in line.replace("│", "|").replace("┃", "|").split("|")]
            nums = [int(c) for c in cells if c.isdigit()]
            want_nums = [len(Lm["services"]), 3, ncp + ndup]
            if e2 is not None or nums != want_nums:
                ck.violation(f"print_dl_metrics reports {nums} (services, DOPs, communication parameters), actual numbers are {want_nums}",
                             {"old": Lm, "output": txt[-600:]})
                break
        if not ck.replay or layers[li][1][0][0] == "replay":
            family_checks(ck, rng, base, [e for e in es if e[0] != "self"])
        if li % 4 == 0:
            ck.sample({"layer": base, "n_edits": len(es)})
    if ck.model_available() and pending:
        try:
            mres = common.run_model_ocaml([p[0] for p in pending], chunk=100)
            pick = sorted(rng.sample(range(len(pending)), min(len(pending), 30 if quick else 150)))
            cres = common.run_model_coq([pending[i][0] for i in pick], tag="c18", chunk=15)
            if any(x != mres[i] for i, x in zip(pick, cres)):
                ck.note_broken("extracted model and vm_compute disagree")
            ck.coverage["evaluated_in_coq"] = len(pick)
            for (wire, r, names, rep, label), m in zip(pending, mres):
                impl = [sorted(r["new"]), sorted(r["deleted"]), sorted(map(tuple, r["renamed"])), sorted(set(r["changed"]))]
                mod = [sorted(names[x] for x in m[0]), sorted(names[x] for x in m[1]),
                       sorted((names[a], names[b]) for a, b in m[2]), sorted(set(names[x] for x in m[3]))]
                if impl != mod:
                    ck.violation(f"implementation and model disagree on edit '{label}': impl {impl} model {mod}",
                                 dict(rep, impl=impl, model=mod, broken="correspondence Compare.compare_layers"), found_input=False)
        except Exception as e:  # noqa
            ck.note_broken(f"model execution failed: {e}")
    elif not ck.model_available():
        ck.note_broken("model not built")
    if not ck.replay:
        try:
            cli_compare_many(ck)
        except Exception as e:  # noqa
            ck.note_broken(f"the compare tool could not be driven with several databases: {type(e).__name__}: {e}")
    # attribute level: the shipped example pair too (units, text tables, structures, physical constants)
    if not ck.replay:
        try:
            import odxtools
            da = odxtools.load_pdx_file(common.REPO + "/examples/somersault.pdx")
            dbm = odxtools.load_pdx_file(common.REPO + "/examples/somersault_modified.pdx")
            for la in dbm.diag_layers:
                lb = next((x for x in da.diag_layers if x.short_name == la.short_name), None)
                if lb is not None:
                    for w_, i_, d_ in param_cases(la, lb, f"somersault_modified vs somersault, layer {la.short_name}"):
                        ppending.append((w_, i_, d_, {"shipped": True, "layer": la.short_name}))
        except Exception as e:  # noqa
            ck.note_broken(f"attribute-level comparison of the shipped examples failed: {type(e).__name__}: {e}")
    # ... and a hand-written layer in which one attribute at a time differs: the property must be among the reported ones
    if not ck.replay:
        try:
            base_db = hc.load_docs([attr_doc({})])
            for what, knobs, code in ATTR_VARIANTS:
                vdb = hc.load_docs([attr_doc(knobs)])
                cases_ = param_cases(vdb.diag_layers[0], base_db.diag_layers[0], f"attribute variant '{what}'")
                ck.count(("attr", what))
                got = {c for _, impl, _ in cases_ for row in (impl[0] if impl else []) for c in row[1]}
                if code not in got:
                    ck.violation(f"a layer which differs from the base in the {what} only: compare_parameters reports the properties "
                                 f"{sorted(got)}, not {code} ({[k for k, v in LABELS.items() if v == code][0]})",
                                 {"attribute_variant": what, "knobs": {k: (list(v) if isinstance(v, tuple) else v) for k, v in knobs.items()}})
                for w_, i_, d_ in cases_:
                    ppending.append((w_, i_, d_, {"attribute_variant": what}))
        except Exception as e:  # noqa
            ck.note_broken(f"attribute variants failed: {type(e).__name__}: {e}")
    if ck.model_available() and ppending:
        try:
            mres = common.run_model_ocaml([p[0] for p in ppending], chunk=100)
            pick = sorted(rng.sample(range(len(ppending)), min(len(ppending), 30 if quick else 150)))
            cres = common.run_model_coq([ppending[i][0] for i in pick], tag="c18p", chunk=15)
            if any(x != mres[i] for i, x in zip(pick, cres)):
                ck.note_broken("extracted model and vm_compute disagree (CompareParams)")
            nrep = 0
            for (wire, impl, desc, rep_), m in zip(ppending, mres):
                ck.count(("params", json.dumps(wire)), nontrivial=bool(impl and impl[0]))
                for row in (impl[0] if impl else []):
                    for c in row[1]:
                        ck.hist("reported_property", c)
                if impl != m and nrep < 5:
                    nrep += 1
                    ck.violation(f"compare_parameters and the model disagree ({desc}): reported {impl}, model {m}",
                                 dict(rep_, impl=impl, model=m, what=desc, broken="correspondence CompareParams.compare_message"),
                                 found_input=False)
            ck.coverage["parameter_list_comparisons"] = len(ppending)
        except Exception as e:  # noqa
            ck.note_broken(f"model execution failed (CompareParams): {e}")
    ck.assumptions = ["edits which change the constant request prefix are reported as new + deleted by design of the tool (its own TODO)"]
    ck.finish(
        trusted_base=["Coq 8.16.1 kernel; no axioms", "extraction + driver cross-checked with vm_compute",
                      "harness: layer generator, single-edit enumeration, abstraction of a service to (name, request prefix, content hash)",
                      "list / find / decode sub-commands are not modelled (their logic is C06's)"],
        rule="generated layers of 1-4 services x every single edit (add, delete, rename service; byte position, bit length, coded value, "
        "semantic, data type, linked DOP of every parameter of every request/response) + self comparison + metrics rows; non-trivial = an edit")


if __name__ == "__main__":
    main()
