"""C14 -- variant identification selects the first candidate whose pattern matches.

Theorems: coq/Properties/C14.v (first match, cache independence, only identification
requests, no repeated request with caching -- for all candidate lists and all
deterministic ECUs).  Tie: correspondence of Model/Variant.v with VariantMatcher on
generated ECU-/base-variant candidates loaded from ODX; direct oracle: the property
itself, evaluated with an independent reference of "pattern matches".
"""
import itertools
import json
import xml.etree.ElementTree as ET

import codec_common as cc
import common
import hier_common as hc
from common import Check

M = 14
U8 = '<DIAG-CODED-TYPE BASE-DATA-TYPE="A_UINT32" xsi:type="STANDARD-LENGTH-TYPE"><BIT-LENGTH>8</BIT-LENGTH></DIAG-CODED-TYPE>'


def const(name, v):
    return f'<PARAM xsi:type="CODED-CONST"><SHORT-NAME>{name}</SHORT-NAME><CODED-VALUE>{v}</CODED-VALUE>{U8}</PARAM>'


def gen(rng):
    nsvc = rng.choice([1, 2, 2, 3])
    # how the identification value is reachable in the response: 0 plain, 1 inside a structure (SNPATHREF)
    # 2 plain, behind another positive response which decodes the same reply but lacks the parameter; 3 inside the
    # items of an end-of-PDU field (any item may match, none if the field is empty)
    # 4 inside a structure inside a structure (a path of three names)
    # 5 the response code of a GLOBAL-NEG-RESPONSE of the layer, the service having a NEG-RESPONSE of its own which lacks
    # the parameter
    # 6 a plain parameter of a real-valued physical type and large magnitude (1e9 + byte): compared numerically, with an
    # absolute tolerance
    svcs = [dict(j=j + 1, shape=rng.choice([0, 0, 1, 2, 3, 4, 5, 6])) for j in range(nsvc)]
    flavour = rng.choice(["ecu", "ecu", "base"])
    nvar = rng.choice([0, 1, 2, 3, 4])
    variants = []
    for i in range(nvar):
        npat = rng.choice([0, 1, 1, 2, 3]) if flavour == "ecu" else rng.choice([0, 1, 1])
        pats = []
        for _ in range(npat):
            pat = []
            for _ in range(rng.choice([1, 1, 2, 3])):
                s = rng.choice(svcs)
                # (expected values are compared verbatim: blanks count)
                exp = rng.choice(["0", "1", "2", "0", "1", "2", " 1", "2 "])
                if s["shape"] == 6:
                    exp = rng.choice(["1000000000", "1000000001", "1000000002"])
                pat.append(dict(svc=s["j"], expected=exp, phys=rng.random() < 0.7))
            pats.append(pat)
        variants.append(pats)
    # ECU variants may define their own identification services (same names, same request bytes) whose
    # responses carry the value one byte later
    # (layout 2: as layout 1, and the services of the variant send other request bytes -- 22 F2 j -- under the same names)
    layouts = [rng.choice([0, 0, 1, 2]) if flavour == "ecu" else 0 for _ in range(nvar)]
    # short names of the identification services: plain, starting with a digit (legal in ODX), or names of list methods
    return dict(flavour=flavour, services=svcs, variants=variants, layouts=layouts, names=rng.choice([0, 0, 1, 2]))


def svc_name(case, j):
    st = case.get("names", 0)
    if st == 1:
        return f"22F19{j}_ReadIdent"
    if st == 2:
        return ["count", "index", "pop"][j - 1]
    return f"ident{j}"


def emit(case):
    dops = ('<DATA-OBJECT-PROP ID="BV.dop"><SHORT-NAME>u8</SHORT-NAME><COMPU-METHOD><CATEGORY>IDENTICAL</CATEGORY></COMPU-METHOD>'
            f'{U8}<PHYSICAL-TYPE BASE-DATA-TYPE="A_UINT32"/></DATA-OBJECT-PROP>'
            '<DATA-OBJECT-PROP ID="BV.fdop"><SHORT-NAME>big</SHORT-NAME><COMPU-METHOD><CATEGORY>LINEAR</CATEGORY><COMPU-INTERNAL-TO-PHYS>'
            '<COMPU-SCALES><COMPU-SCALE><COMPU-RATIONAL-COEFFS><COMPU-NUMERATOR><V>1000000000</V><V>1</V></COMPU-NUMERATOR>'
            '<COMPU-DENOMINATOR><V>1</V></COMPU-DENOMINATOR></COMPU-RATIONAL-COEFFS></COMPU-SCALE></COMPU-SCALES></COMPU-INTERNAL-TO-PHYS>'
            f'</COMPU-METHOD>{U8}<PHYSICAL-TYPE BASE-DATA-TYPE="A_FLOAT64"/></DATA-OBJECT-PROP>')
    structs = ('<STRUCTURE ID="BV.st"><SHORT-NAME>st</SHORT-NAME><PARAMS><PARAM xsi:type="VALUE"><SHORT-NAME>id</SHORT-NAME>'
               '<DOP-REF ID-REF="BV.dop"/></PARAM></PARAMS></STRUCTURE>'
               '<STRUCTURE ID="BV.st2"><SHORT-NAME>st2</SHORT-NAME><PARAMS><PARAM xsi:type="VALUE"><SHORT-NAME>inner</SHORT-NAME>'
               '<DOP-REF ID-REF="BV.st"/></PARAM></PARAMS></STRUCTURE>')
    fields = ('<END-OF-PDU-FIELDS><END-OF-PDU-FIELD ID="BV.eop"><SHORT-NAME>eop</SHORT-NAME><BASIC-STRUCTURE-REF ID-REF="BV.st"/>'
              '</END-OF-PDU-FIELD></END-OF-PDU-FIELDS>')
    VAL = {0: '<PARAM xsi:type="VALUE"><SHORT-NAME>id</SHORT-NAME><DOP-REF ID-REF="BV.dop"/></PARAM>',
           1: '<PARAM xsi:type="VALUE"><SHORT-NAME>data</SHORT-NAME><DOP-REF ID-REF="BV.st"/></PARAM>',
           2: '<PARAM xsi:type="VALUE"><SHORT-NAME>id</SHORT-NAME><DOP-REF ID-REF="BV.dop"/></PARAM>',
           3: '<PARAM xsi:type="VALUE"><SHORT-NAME>items</SHORT-NAME><DOP-REF ID-REF="BV.eop"/></PARAM>',
           4: '<PARAM xsi:type="VALUE"><SHORT-NAME>data</SHORT-NAME><DOP-REF ID-REF="BV.st2"/></PARAM>',
           5: '<PARAM xsi:type="VALUE"><SHORT-NAME>id</SHORT-NAME><DOP-REF ID-REF="BV.dop"/></PARAM>',
           6: '<PARAM xsi:type="VALUE"><SHORT-NAME>id</SHORT-NAME><DOP-REF ID-REF="BV.fdop"/></PARAM>'}
    OTHER = '<PARAM xsi:type="VALUE"><SHORT-NAME>other</SHORT-NAME><DOP-REF ID-REF="BV.dop"/></PARAM>'

    def responses(pre, j, shape, lead=""):
        """(POS-RESPONSE-REFS content, POS-RESPONSE elements) of identification service j"""
        refs = res = ""
        if shape == 2:
            refs += f'<POS-RESPONSE-REF ID-REF="{pre}.pr{j}x"/>'
            res += (f'<POS-RESPONSE ID="{pre}.pr{j}x"><SHORT-NAME>pr{j}x</SHORT-NAME><PARAMS>{const("sid", 0x62)}{const("a", 0xF1)}'
                    f'{const("b", j)}{lead}{OTHER}</PARAMS></POS-RESPONSE>')
        refs += f'<POS-RESPONSE-REF ID-REF="{pre}.pr{j}"/>'
        res += (f'<POS-RESPONSE ID="{pre}.pr{j}"><SHORT-NAME>pr{j}</SHORT-NAME><PARAMS>{const("sid", 0x62)}{const("a", 0xF1)}'
                f'{const("b", j)}{lead}{VAL[shape]}</PARAMS></POS-RESPONSE>')
        return refs, res

    svc = reqs = resps = negs = ""
    for s in case["services"]:
        j = s["j"]
        refs, res = responses("BV", j, s["shape"])
        nrefs = f'<NEG-RESPONSE-REFS><NEG-RESPONSE-REF ID-REF="BV.nr{j}"/></NEG-RESPONSE-REFS>' if s["shape"] == 5 else ""
        if s["shape"] == 5:
            negs += (f'<NEG-RESPONSE ID="BV.nr{j}"><SHORT-NAME>nr{j}</SHORT-NAME><PARAMS>{const("sid", 0x7F)}{const("rq", 0x22)}'
                     f'{const("code", 0x31)}</PARAMS></NEG-RESPONSE>')
        svc += (f'<DIAG-SERVICE ID="BV.svc{j}"><SHORT-NAME>{svc_name(case, j)}</SHORT-NAME><REQUEST-REF ID-REF="BV.rq{j}"/>'
                f'<POS-RESPONSE-REFS>{refs}</POS-RESPONSE-REFS>{nrefs}</DIAG-SERVICE>')
        reqs += (f'<REQUEST ID="BV.rq{j}"><SHORT-NAME>rq{j}</SHORT-NAME><PARAMS>{const("sid", 0x22)}{const("a", 0xF1)}{const("b", j)}</PARAMS></REQUEST>')
        resps += res

    def mp(p, tag):
        shape = next(s["shape"] for s in case["services"] if s["j"] == p["svc"])
        out = {0: '<OUT-PARAM-IF-SNREF SHORT-NAME="id"/>', 1: '<OUT-PARAM-IF-SNPATHREF SHORT-NAME-PATH="data.id"/>',
               2: '<OUT-PARAM-IF-SNREF SHORT-NAME="id"/>', 3: '<OUT-PARAM-IF-SNPATHREF SHORT-NAME-PATH="items.id"/>',
               4: '<OUT-PARAM-IF-SNPATHREF SHORT-NAME-PATH="data.inner.id"/>',
               5: '<OUT-PARAM-IF-SNREF SHORT-NAME="nrc"/>', 6: '<OUT-PARAM-IF-SNREF SHORT-NAME="id"/>'}[shape]
        phys = "" if tag == "MATCHING-PARAMETER" else f"<USE-PHYSICAL-ADDRESSING>{'true' if p['phys'] else 'false'}</USE-PHYSICAL-ADDRESSING>"
        return (f'<{tag}><EXPECTED-VALUE>{p["expected"]}</EXPECTED-VALUE><DIAG-COMM-SNREF SHORT-NAME="{svc_name(case, p["svc"])}"/>{out}{phys}</{tag}>')

    body = (f'<DIAG-DATA-DICTIONARY-SPEC><DATA-OBJECT-PROPS>{dops}</DATA-OBJECT-PROPS><STRUCTURES>{structs}</STRUCTURES>{fields}</DIAG-DATA-DICTIONARY-SPEC>'
            f'<DIAG-COMMS>{svc}</DIAG-COMMS><REQUESTS>{reqs}</REQUESTS><POS-RESPONSES>{resps}</POS-RESPONSES>'
            + (f'<NEG-RESPONSES>{negs}</NEG-RESPONSES>' if negs else "") +
            (f'<GLOBAL-NEG-RESPONSES><GLOBAL-NEG-RESPONSE ID="BV.gnr"><SHORT-NAME>gnr</SHORT-NAME><PARAMS>{const("sid", 0x7F)}{const("rq", 0x22)}'
             '<PARAM xsi:type="VALUE"><SHORT-NAME>nrc</SHORT-NAME><DOP-REF ID-REF="BV.dop"/></PARAM></PARAMS></GLOBAL-NEG-RESPONSE>'
             '</GLOBAL-NEG-RESPONSES>' if any(s["shape"] == 5 for s in case["services"]) else ""))
    if case["flavour"] == "ecu":
        evs = ""
        for i, pats in enumerate(case["variants"]):
            px = "".join("<ECU-VARIANT-PATTERN><MATCHING-PARAMETERS>" + "".join(mp(p, "MATCHING-PARAMETER") for p in pat) +
                         "</MATCHING-PARAMETERS></ECU-VARIANT-PATTERN>" for pat in pats)
            local = ""
            if case.get("layouts", [0] * 99)[i] in (1, 2):
                lsvc = lreq = lres = ""
                for s in case["services"]:
                    j = s["j"]
                    rev = '<PARAM xsi:type="VALUE"><SHORT-NAME>rev</SHORT-NAME><DOP-REF ID-REF="BV.dop"/></PARAM>'
                    refs, res = responses(f"EV{i}", j, s["shape"], rev)
                    lsvc += (f'<DIAG-SERVICE ID="EV{i}.svc{j}"><SHORT-NAME>{svc_name(case, j)}</SHORT-NAME><REQUEST-REF ID-REF="EV{i}.rq{j}"/>'
                             f'<POS-RESPONSE-REFS>{refs}</POS-RESPONSE-REFS></DIAG-SERVICE>')
                    lreq += (f'<REQUEST ID="EV{i}.rq{j}"><SHORT-NAME>rq{j}</SHORT-NAME><PARAMS>{const("sid", 0x22)}{const("a", 0xF1 if case["layouts"][i] == 1 else 0xF2)}{const("b", j)}</PARAMS></REQUEST>')
                    lres += res
                local = f"<DIAG-COMMS>{lsvc}</DIAG-COMMS><REQUESTS>{lreq}</REQUESTS><POS-RESPONSES>{lres}</POS-RESPONSES>"
            evs += (f'<ECU-VARIANT ID="EV{i}"><SHORT-NAME>EV{i}</SHORT-NAME>{local}'
                    + (f"<ECU-VARIANT-PATTERNS>{px}</ECU-VARIANT-PATTERNS>" if px else "") +
                    '<PARENT-REFS><PARENT-REF ID-REF="BV" DOCREF="DLC" DOCTYPE="CONTAINER" xsi:type="BASE-VARIANT-REF"/></PARENT-REFS></ECU-VARIANT>')
        layers = f'<BASE-VARIANTS><BASE-VARIANT ID="BV"><SHORT-NAME>BV</SHORT-NAME>{body}</BASE-VARIANT></BASE-VARIANTS><ECU-VARIANTS>{evs}</ECU-VARIANTS>'
    else:
        bvs = f'<BASE-VARIANT ID="BV"><SHORT-NAME>BV</SHORT-NAME>{body}</BASE-VARIANT>'
        for i, pats in enumerate(case["variants"]):
            px = ""
            if pats:
                px = ("<BASE-VARIANT-PATTERN><MATCHING-BASE-VARIANT-PARAMETERS>" + "".join(mp(p, "MATCHING-BASE-VARIANT-PARAMETER") for p in pats[0]) +
                      "</MATCHING-BASE-VARIANT-PARAMETERS></BASE-VARIANT-PATTERN>")
            bvs += (f'<BASE-VARIANT ID="EV{i}"><SHORT-NAME>EV{i}</SHORT-NAME>{px}'
                    '<PARENT-REFS><PARENT-REF ID-REF="BVP" DOCREF="DLC" DOCTYPE="CONTAINER" xsi:type="FUNCTIONAL-GROUP-REF"/></PARENT-REFS></BASE-VARIANT>')
        layers = (f'<FUNCTIONAL-GROUPS><FUNCTIONAL-GROUP ID="BVP"><SHORT-NAME>BVP</SHORT-NAME>{body.replace("BV.", "BVP.")}</FUNCTIONAL-GROUP></FUNCTIONAL-GROUPS>'
                  f'<BASE-VARIANTS>{bvs}</BASE-VARIANTS>')
    return ('<?xml version="1.0" encoding="UTF-8"?><ODX MODEL-VERSION="2.2.0" xmlns:xsi="http://www.w3.org/2001/XMLSchema-instance">'
            f'<DIAG-LAYER-CONTAINER ID="DLC"><SHORT-NAME>DLC</SHORT-NAME>{layers}</DIAG-LAYER-CONTAINER></ODX>')


def ref_match(p, resp, layout=0, shape=0):
    """independent reference: does the response satisfy the matching parameter?
    (a CODED-CONST mismatch only warns, so only the length and the value byte count)"""
    k = 3 + layout
    if shape == 6:  # 1e9 + value byte, a real number
        return len(resp) > k and abs(float(p["expected"]) - (1e9 + resp[k])) < 1e-8
    if shape == 5:  # 7F <sid> <response code>, read through the global negative response
        return len(resp) >= 3 and str(resp[2]) == p["expected"]
    if shape == 3:  # a field of one-byte items behind the constants: any item
        return len(resp) >= k and any(str(b) == p["expected"] for b in resp[k:])
    return len(resp) > k and str(resp[k]) == p["expected"]


def shape_of(c, p):
    return next(s["shape"] for s in c["services"] if s["j"] == p["svc"])


def key_of(case, p, vi):
    """(how the identification request of a matching parameter of candidate vi is addressed, its bytes): only the matching
    parameters of base variants choose the addressing, all others use physical addressing; a candidate with its own
    identification services (layout 2) sends other bytes under the same service names"""
    own = case.get("layouts", [0] * 99)[vi] == 2
    return (bool(p["phys"]) if case["flavour"] == "base" else True, bytes([0x22, 0xF2 if own else 0xF1, p["svc"]]))


def key_z(k):
    return 4 * k[1][2] + (2 if k[1][1] == 0xF2 else 0) + (0 if k[0] else 1)


def ecu_to_json(ecu):
    return {("p" if ph else "f") + ":" + k.hex(): v.hex() for (ph, k), v in ecu.items()}


def run_impl(case, db, ecu, use_cache):
    from odxtools.variantmatcher import VariantMatcher
    cands = [db.diag_layers[f"EV{i}"] for i in range(len(case["variants"]))]
    m = VariantMatcher(cands, use_cache=use_cache)
    issued = []
    buf = bytearray()  # the tester's receive buffer, re-used for every reply

    def go():
        for phys, rq in m.request_loop():
            issued.append((bool(phys), bytes(rq)))
            buf[:] = ecu[(bool(phys), bytes(rq))]
            m.evaluate(buf)
        return m.has_match(), (None if m.matching_variant is None else m.matching_variant.short_name)

    r, e, _ = cc.guarded(go, timeout=10)
    if e is not None:
        return ("error", type(e).__name__, str(e)[:100]), issued
    return r, issued


def run_impl_interrupted(case, db, ecu, use_cache, k):
    """the tester's send function fails at the k-th identification request (the loop is abandoned there), then the
    request loop of the SAME matcher is run again to its end against the same ECU"""
    from odxtools.variantmatcher import VariantMatcher
    cands = [db.diag_layers[f"EV{i}"] for i in range(len(case["variants"]))]
    m = VariantMatcher(cands, use_cache=use_cache)

    def go():
        n = 0
        try:
            for phys, rq in m.request_loop():
                if n == k:
                    raise TimeoutError("no answer")
                n += 1
                m.evaluate(ecu[(bool(phys), bytes(rq))])
        except TimeoutError:
            pass
        for phys, rq in m.request_loop():
            m.evaluate(ecu[(bool(phys), bytes(rq))])
        return m.has_match(), (None if m.matching_variant is None else m.matching_variant.short_name)

    r, e, _ = cc.guarded(go, timeout=10)
    if e is not None:
        return ("error", type(e).__name__, str(e)[:100])
    return r


def main(argv=None):
    import warnings
    warnings.simplefilter("ignore")
    ck = Check("C14", argv)
    ck.prologue()
    rng = ck.rng
    quick = ck.tier == "quick"
    cases = []
    if ck.replay:
        rp = json.load(open(ck.replay))["replay"]
        cases.append((rp["case"], [{(k[0] == "p", bytes.fromhex(k[2:])): bytes.fromhex(v) for k, v in rp["ecu"].items()}]))
    else:
        for _ in range(70 if quick else 900):
            c = gen(rng)
            # the ECU answers per (addressing, request): a functionally addressed request may be answered differently
            used = sorted({key_of(c, p, vi_) for vi_, pats in enumerate(c["variants"]) for pat in pats for p in pat})
            rqs = sorted(set([(True, bytes([0x22, 0xF1, s["j"]])) for s in c["services"]] + used))
            # every response function over a small alphabet of answers (exhaustive for <= 2 services)
            answers = lambda j: [bytes([0x62, 0xF1, j, 1, 2]), bytes([0x62, 0xF1, j, 2, 1]), bytes([0x62, 0xF1, j, 0, 0]),
                                 bytes([0x62, 0xF1, j, 0]), bytes([0x7F, 0x22, 0x31]), b"", bytes([0x7F, 0x22, 0x31, 0x02, 0x00]),
                                 bytes([0x62, 0xF1, j]), bytes([0x7F, 0x22, 0x01]), bytes([0x7F, 0x22, 0x02, 0x01])]
            if len(rqs) <= 2:
                combos = list(itertools.product(*[answers(k_[1][2]) for k_ in rqs]))
            else:
                combos = [tuple(rng.choice(answers(k_[1][2])) for k_ in rqs) for _ in range(300)]
            if len(combos) > (36 if quick else 216):
                combos = rng.sample(combos, 36 if quick else 216)
            cases.append((c, [dict(zip(rqs, cb)) for cb in combos]))
    # model cases
    wires, idx = [], []
    for ci, (c, ecus) in enumerate(cases):
        for ei, ecu in enumerate(ecus):
            resp_ids = {}
            ecu_t = []
            for rq, rs in ecu.items():
                resp_ids.setdefault(rs, len(resp_ids) + 1)
                ecu_t.append([key_z(rq), resp_ids[rs]])
            pid = 0
            m_t = []
            vs = []
            for vi_, pats in enumerate(c["variants"]):
                vp = []
                for pat in pats:
                    pp = []
                    for p in pat:
                        pid += 1
                        for rs, rid in resp_ids.items():
                            m_t.append([pid, rid, ref_match(p, rs, min(1, c.get("layouts", [0] * 99)[vi_]), shape_of(c, p))])
                        pp.append([key_z(key_of(c, p, vi_)), pid])
                    vp.append(pp)
                vs.append(vp)
            for uc in (True, False):
                wires.append([M, [uc, ecu_t, m_t, vs]])
                idx.append((ci, ei, uc))
    mres = None
    if ck.model_available():
        try:
            mres = dict(zip(idx, common.run_model_ocaml(wires, chunk=100)))
            pick = sorted(rng.sample(range(len(wires)), min(len(wires), 40 if quick else 200)))
            cres = common.run_model_coq([wires[i] for i in pick], tag="c14", chunk=20)
            if any(x != mres[idx[i]] for i, x in zip(pick, cres)):
                ck.note_broken("extracted model and vm_compute disagree")
            ck.coverage["evaluated_in_coq"] = len(pick)
        except Exception as e:  # noqa
            ck.note_broken(f"model execution failed: {e}")
            mres = None
    else:
        ck.note_broken("model not built")
    for ci, (c, ecus) in enumerate(cases):
        try:
            db = hc.load_docs([emit(c)])
        except Exception as e:  # noqa
            ck.violation(f"loading the candidate database raised {type(e).__name__}: {e}", {"case": c})
            continue
        ck.hist("flavour", c["flavour"])
        ck.hist("variants", len(c["variants"]))
        for ei, ecu in enumerate(ecus):
            ck.count((json.dumps(c), sorted(ecu_to_json(ecu).items())),
                     nontrivial=len(c["variants"]) >= 1)
            rep = {"case": c, "ecu": ecu_to_json(ecu)}
            # the specification
            want = None
            for i, pats in enumerate(c["variants"]):
                if any(all(ref_match(p, ecu[key_of(c, p, i)], min(1, c.get("layouts", [0] * 99)[i]), shape_of(c, p)) for p in pat) for pat in pats):
                    want = f"EV{i}"
                    break
            allowed = {key_of(c, p, vi_) for vi_, pats in enumerate(c["variants"]) for pat in pats for p in pat}
            res = {}
            bad = None
            for uc in (True, False):
                r, issued = run_impl(c, db, ecu, uc)
                res[uc] = (r, issued)
                if isinstance(r, tuple) and r and r[0] == "error":
                    bad = f"request_loop raised {r[1]}: {r[2]} (cache={uc})"
                    break
                has, name = r
                if name != want or has != (want is not None):
                    bad = f"matcher reports {name} (has_match={has}), first matching candidate is {want} (cache={uc})"
                    break
                if not set(issued) <= allowed:
                    bad = f"a request which is no identification request of the candidates was issued (cache={uc})"
                    break
                if uc and len(set(issued)) != len(issued):
                    bad = "with caching a request was issued twice"
                    break
            if bad is None and ei % 3 == 0:
                # a run cut short by a send failure at the k-th request, then the loop run again: the outcome is that of an
                # undisturbed run
                for uc in (True, False):
                    nreq = len(res[uc][1])
                    for k in range(min(nreq, 3)):
                        r2 = run_impl_interrupted(c, db, ecu, uc, k)
                        ck.count(("interrupted", json.dumps(c), ei, uc, k))
                        if r2 != res[uc][0]:
                            bad = (f"request loop abandoned at request {k} and run again: {r2}, an undisturbed run gives {res[uc][0]} (cache={uc})")
                            break
                    if bad:
                        break
            if bad:
                ck.violation(bad, rep)
                continue
            if mres is not None:
                for uc in (True, False):
                    m = mres[(ci, ei, uc)]
                    r, issued = res[uc]
                    impl = [[] if r[1] is None else [int(r[1][2:])], [key_z((ph, rq)) for ph, rq in issued]]
                    if m != impl:
                        ck.violation(f"implementation and model disagree (cache={uc}): impl {impl} model {m}",
                                     dict(rep, impl=impl, model=m, broken="correspondence Variant.request_loop"),
                                     found_input=False)
                        break
        if ci % 20 == 0:
            ck.sample({"case": c, "n_ecus": len(ecus)})
    ck.assumptions = ["deterministic ECU; responses that decode with a CODED-CONST mismatch count as decoded (the library only warns)",
                      "`matches` (decode + path walk) is a section variable of the theorems; the harness instantiates it with an "
                      "independent reference for the generated response shapes (plain value, value inside a structure)"]
    ck.finish(
        trusted_base=["Coq 8.16.1 kernel; no axioms; theorems are quantified over the ECU function and the match oracle (Section variables)",
                      "extraction + driver cross-checked with vm_compute", "harness: candidate generator, ODX emitter, reference of 'matches' (harness/c14.py)",
                      "MatchingParameter.matches for floats, byte fields, DTCs and fields is not exercised"],
        rule="0-4 ECU- or base-variant candidates x 0-3 patterns x 1-3 matching parameters over 1-3 identification services (SNREF and "
        "SNPATHREF targets) x every response function over 6 answers per service (exhaustive up to 36/216 functions) x cache on/off")


if __name__ == "__main__":
    main()
