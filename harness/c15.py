"""C15 -- communication parameters resolve to the most specific definition.

Theorems: coq/Properties/C15.v.  Tie: correspondence of Model/Inherit.v (comparams,
get_comparam, get_value, get_subvalue) with loaded hierarchies carrying simple and
complex COMPARAM-REFs with / without PROTOCOL-SNREF and with omitted values; direct
oracle: override per (parameter, protocol) by closer layers, specific-before-generic
lookup, default fallback, typed accessors = numeric content.
"""
import json
import xml.etree.ElementTree as ET

import codec_common as cc
import common
import hier_common as hc
from common import Check
import c09

M = 9
SPEC_IDS = {("CPSUB", n): i + 1 for i, (n, _) in enumerate(hc.SIMPLE_CPS)}
SPEC_IDS.update({(sub, n): 20 + i for i, (sub, n, _) in enumerate(hc.COMPLEX_CPS)})


def gen(rng):
    layers = c09.gen_hierarchy(rng, nmax=rng.choice([1, 2, 3, 4, 5]), names=1)
    if not any(L["type"] == 0 for L in layers):
        layers[0]["type"] = 0
        layers[0]["parents"] = []
    protos = [L["id"] for L in layers if L["type"] == 0]
    tag = 0
    for L in layers:
        for c in CATS_CLEAR:
            L["locals"][c] = []
        # (no inherited objects at all here: conflicts between value-inherited objects are C09's subject and make loading fail)
        L["jobs"], L["unit_groups"] = [], {}
        for p in L["parents"]:
            p["excl"] = {c: [] for c in c09.EXCL_TAG}
        cps = []
        if L["type"] != 4:
            for _ in range(rng.choice([0, 1, 1, 2, 3])):
                tag += 1
                proto = rng.choice([None, None] + protos)
                if rng.random() < 0.6:
                    n, d = rng.choice(hc.SIMPLE_CPS)
                    v = rng.choice(["", str(rng.randint(1, 9999)), str(rng.randint(1, 9999))])
                    if n == "CP_CANFDTxMaxDataLength":
                        v = rng.choice(["", "TX_DL=64 CANFD", "TX_DL = 12 CANFD", "TX_DL=8", "whatever", "CAN FD, TX_DL = 32", "TX_DL=48"])
                    cps.append(dict(subset="CPSUB", name=n, proto=proto, value=v, sub=None, tag=tag))
                else:
                    sub, n, subs = rng.choice(hc.COMPLEX_CPS)
                    k = rng.choice([len(subs), len(subs), len(subs) - 1, 1])
                    sv = []
                    for (sn, sd) in subs[:k]:
                        # (0 is a CAN identifier like any other)
                        sv.append(["x"] if sd is hc.NESTED else rng.choice(["", str(rng.randint(1, 4000)), "0"]))
                    cps.append(dict(subset=sub, name=n, proto=proto, value=None, sub=sv, tag=tag))
        L["cps"] = cps
    return layers


CATS_CLEAR = c09.CATS


def emit(layers):
    xml = c09.emit(layers)
    # insert COMPARAM-REFS into every hierarchy element
    for L in layers:
        if not L.get("cps"):
            continue
        refs = ""
        for c in L["cps"]:
            if c["sub"] is None:
                val = f"<SIMPLE-VALUE>{c['value']}</SIMPLE-VALUE>"
            else:
                val = "<COMPLEX-VALUE>" + "".join(
                    (f"<COMPLEX-VALUE><SIMPLE-VALUE>{x[0]}</SIMPLE-VALUE></COMPLEX-VALUE>" if isinstance(x, list)
                     else f"<SIMPLE-VALUE>{x}</SIMPLE-VALUE>") for x in c["sub"]) + "</COMPLEX-VALUE>"
            pr = "" if c["proto"] is None else f'<PROTOCOL-SNREF SHORT-NAME="L{c["proto"]}"/>'
            if c["tag"] % 3 == 0:
                # restricted to a protocol stack as well (which is a restriction of its own and changes nothing else)
                pr = '<PROT-STACK-SNREF SHORT-NAME="ps"/>' + pr
            sub = c.get("subset", "CPSUB")
            refs += (f'<COMPARAM-REF ID-REF="{sub}.{c["name"]}" DOCREF="{sub}" DOCTYPE="COMPARAM-SUBSET">{val}'
                     f'<DESC><p>{c["tag"]}</p></DESC>{pr}</COMPARAM-REF>')
        marker = f"<SHORT-NAME>L{L['id']}</SHORT-NAME>"
        xml = xml.replace(marker, marker + f"<COMPARAM-REFS>{refs}</COMPARAM-REFS>", 1)
    return xml


def tag_of(cp):
    import re
    return int(re.sub(r"[^0-9]", "", cp.description.text))


def w_specs():
    out = []
    for n, d in hc.SIMPLE_CPS:
        out.append([SPEC_IDS[("CPSUB", n)], cc.w_name(n), cc.w_name(d), False, []])
    for sub, n, subs in hc.COMPLEX_CPS:
        out.append([SPEC_IDS[(sub, n)], cc.w_name(n), [], True,
                    [[cc.w_name(sn), [] if sd is hc.NESTED else [cc.w_name(sd)]] for sn, sd in subs]])
    return out


def w_hier(layers):
    return [[L["id"], L["type"], [[p["target"], []] for p in L["parents"]],
             [[SPEC_IDS[(c.get("subset", "CPSUB"), c["name"])], cc.w_opt(c["proto"]), cc.w_name(c["value"] or ""),
               [] if c["sub"] is None else [[cc.w_name("N" if isinstance(x, list) else x)] for x in c["sub"]], c["tag"]]
              for c in L.get("cps", [])]] for L in layers]


def queries(layers):
    protos = [L["id"] for L in layers if L["type"] == 0]
    qs = []
    for n, _ in hc.SIMPLE_CPS:
        for p in [None] + protos:
            qs.append((n, p, None))
    for n in sorted(set(n for _, n, _ in hc.COMPLEX_CPS)):
        for p in [None] + protos:
            for sn in ("CP_CanPhysReqId", "CP_CanRespUSDTId", "CP_DoIPLogicalEcuAddress", "CP_NoSuchSub"):
                qs.append((n, p, sn))
    return qs


def spec_comparams(layers, i, memo=None):
    """declarative oracle: {(name, proto): tag} visible in layer i: parents (low priority first), then local"""
    memo = {} if memo is None else memo
    if i in memo:
        return memo[i]
    L = layers[i]
    d = {}
    ps = sorted(L["parents"], key=lambda p: c09.PRIO[layers[p["target"]]["type"]])
    for p in ps:
        if layers[p["target"]]["type"] == 4:
            continue
        for k, v in spec_comparams(layers, p["target"], memo).items():
            d[k] = v
    for c in L.get("cps", []):
        d[(c.get("subset", "CPSUB"), c["name"], c["proto"])] = c
    memo[i] = d
    return d


def check_refresh_history(ck, layers, db):
    """the communication parameters of a layer follow the hierarchy as it is now: a COMPARAM-REF is taken out of the live
    database, later put back; after each refresh() every layer has what override prescribes for the database as it is"""
    import copy
    owners = [L for L in layers if L.get("cps") and L["type"] != 4]
    if not owners:
        return
    L = owners[len(json.dumps(layers)) % len(owners)]
    dl = next(d for d in db.diag_layers if d.short_name == f"L{L['id']}")
    raw = dl.diag_layer_raw.comparam_refs
    victim = L["cps"][-1]
    k = next((j for j, cp in enumerate(raw) if tag_of(cp) == victim["tag"]), None)
    if k is None:
        return
    removed = raw.pop(k)
    mod = copy.deepcopy(layers)
    next(x for x in mod if x["id"] == L["id"])["cps"].pop()
    for step, (lay, undo) in enumerate(((mod, False), (layers, True))):
        if undo:
            raw.insert(k, removed)
        _, e, _ = cc.guarded(db.refresh, timeout=20)
        ck.count(("refresh-history", json.dumps(layers), step))
        hist = f"COMPARAM-REF {victim['name']} (tag {victim['tag']}) of L{L['id']} removed" + (", then put back" if undo else "") + "; refresh()"
        rep = {"layers": layers, "history": hist}
        if e is not None:
            ck.violation(f"{hist}: refresh raised {type(e).__name__}: {e}", rep)
            return
        for d2 in db.diag_layers:
            i = int(d2.short_name[1:])
            if lay[i]["type"] == 4:
                continue
            got = sorted(tag_of(cp) for cp in d2.comparam_refs)
            want = sorted(c["tag"] for c in spec_comparams(lay, i).values())
            if got != want:
                ck.violation(f"{hist}: layer L{i} has the communication parameters {got}, override prescribes {want}", rep)
                return


def main(argv=None):
    import warnings
    warnings.simplefilter("ignore")
    ck = Check("C15", argv)
    ck.prologue()
    rng = ck.rng
    quick = ck.tier == "quick"
    hs = []
    if ck.replay:
        hs.append(json.load(open(ck.replay))["replay"]["layers"])
    else:
        e = {c: [] for c in c09.EXCL_TAG}
        z = {c: [] for c in c09.CATS}
        # corpus: generic listed before protocol specific; omitted sub-value; empty simple value
        hs.append([dict(id=0, type=0, parents=[], locals=z, cps=[]),
                   dict(id=1, type=2, parents=[dict(target=0, excl=e)], locals=z,
                        cps=[dict(name="CP_Baudrate", proto=None, value="111111", sub=None, tag=1),
                             dict(name="CP_Baudrate", proto=0, value="500000", sub=None, tag=2),
                             dict(subset="CPSUB", name="CP_UniqueRespIdTable", proto=None, value=None, sub=["", ["x"], "1234"], tag=3),
                             dict(name="CP_CanFuncReqId", proto=None, value="", sub=None, tag=4)])])
        # corpus: two protocols; the table of the other protocol (no CAN ids) is listed first
        hs.append([dict(id=0, type=0, parents=[], locals=z, cps=[]), dict(id=1, type=0, parents=[], locals=z, cps=[]),
                   dict(id=2, type=2, parents=[dict(target=0, excl=e), dict(target=1, excl=e)], locals=z,
                        cps=[dict(subset="CPSUB2", name="CP_UniqueRespIdTable", proto=0, value=None, sub=["4097"], tag=1),
                             dict(subset="CPSUB", name="CP_UniqueRespIdTable", proto=1, value=None, sub=["1001", ["x"], "1002"], tag=2),
                             dict(subset="CPSUB", name="CP_CANFDTxMaxDataLength", proto=1, value="TX_DL=64 CANFD", sub=None, tag=3),
                             dict(subset="CPSUB", name="CP_CANFDBaudrate", proto=1, value="4000000", sub=None, tag=4)])])
        for _ in range(200 if quick else 3000):
            hs.append(gen(rng))
    wires, idx = [], []
    for hi, layers in enumerate(hs):
        qs = queries(layers)
        for L in layers:
            if L["type"] == 4:
                continue
            wires.append([M, [2, w_specs(), w_hier([x for x in layers if x["type"] != 4] if False else layers), L["id"],
                              [[cc.w_name(n), cc.w_opt(p), [] if s is None else [cc.w_name(s)]] for n, p, s in qs]]])
            idx.append((hi, L["id"]))
    mres = None
    if ck.model_available():
        try:
            mres = dict(zip(idx, common.run_model_ocaml(wires, chunk=50)))
            pick = sorted(rng.sample(range(len(wires)), min(len(wires), 20 if quick else 100)))
            cres = common.run_model_coq([wires[i] for i in pick], tag="c15", chunk=5)
            if any(x != mres[idx[i]] for i, x in zip(pick, cres)):
                ck.note_broken("extracted model and vm_compute disagree")
            ck.coverage["evaluated_in_coq"] = len(pick)
        except Exception as e:  # noqa
            ck.note_broken(f"model execution failed: {e}")
            mres = None
    else:
        ck.note_broken("model not built")
    for hi, layers in enumerate(hs):
        ck.count(json.dumps(layers), nontrivial=sum(len(L.get("cps", [])) for L in layers) >= 2)
        rep = {"layers": layers}

        def go():
            return hc.load_docs([emit(layers), hc.cpsubset_doc(), hc.cpsubset2_doc(), hc.cpspec_doc()])

        db, e, _ = cc.guarded(go, timeout=20)
        if e is not None:
            ck.violation(f"loading raised {type(e).__name__}: {e}", rep)
            continue
        qs = queries(layers)
        for dl in db.diag_layers:
            i = int(dl.short_name[1:])
            if layers[i]["type"] == 4:
                continue
            refs = [tag_of(cp) for cp in dl.comparam_refs]
            want = spec_comparams(layers, i)
            if sorted(refs) != sorted(c["tag"] for c in want.values()):
                ck.violation(f"layer L{i} has communication parameters {sorted(refs)}, override per (parameter, protocol) by "
                             f"closer layers prescribes {sorted(c['tag'] for c in want.values())}", rep)
                break
            res = []
            bad = None
            for n, p, s in qs:
                pn = None if p is None else f"L{p}"
                cp, e2, _ = cc.guarded(lambda: dl.get_comparam(n, protocol=pn))
                if e2 is not None:
                    bad = f"get_comparam({n}, {pn}) raised {type(e2).__name__}"
                    break
                if pn is not None:
                    # the protocol may be given by name or as the protocol layer itself: the same parameter
                    pobj = next((x for x in db.diag_layers if x.short_name == pn), None)
                    cpo, e2o, _ = cc.guarded(lambda: dl.get_comparam(n, protocol=pobj))
                    if e2o is not None or (cpo is None) != (cp is None) or (cp is not None and tag_of(cpo) != tag_of(cp)):
                        bad = (f"L{i}.get_comparam({n}, protocol=<the layer {pn}>) gives "
                               f"{type(e2o).__name__ if e2o is not None else (None if cpo is None else tag_of(cpo))}, "
                               f"by name it gives {None if cp is None else tag_of(cp)}")
                        break
                if cp is None:
                    res.append([])
                    exp = None
                else:
                    if s is None:
                        v, e3, _ = cc.guarded(lambda: cp.get_value())
                    else:
                        v, e3, _ = cc.guarded(lambda: cp.get_subvalue(s))
                    if e3 is not None:
                        res.append([tag_of(cp), []])
                    elif v is None:
                        res.append([tag_of(cp), [[]]])
                    else:
                        res.append([tag_of(cp), [cc.w_name(v)]])
                # oracle: the specific definition first, then the generic one (unique name only)
                named = [c for (ss, nn, pp), c in want.items() if nn == n]
                subsets = set(c.get("subset", "CPSUB") for c in named)
                if len(subsets) <= 1:
                    spec = [c for c in named if p is not None and c["proto"] == p]
                    gen_ = [c for c in named if c["proto"] is None]
                    if p is None:
                        cand = named[0] if len(named) == 1 else (None if not named else "any")
                    else:
                        cand = spec[0] if spec else (gen_[0] if gen_ else None)
                    if cand != "any":
                        if (cand is None) != (cp is None) or (cp is not None and tag_of(cp) != cand["tag"]):
                            bad = (f"L{i}.get_comparam({n}, protocol={pn}) returns "
                                   f"{None if cp is None else tag_of(cp)}, most specific definition is "
                                   f"{None if cand is None else cand['tag']}")
                            break
                        if cp is not None and s is None and cand["sub"] is None:
                            dflt = dict(hc.SIMPLE_CPS)[n]
                            expv = cand["value"] or dflt
                            if res[-1][1] != [cc.w_name(expv)]:
                                bad = f"L{i}: value of {n} is {res[-1][1]}, expected {expv!r} (default {dflt})"
                                break
            if bad is None:
                # typed accessors = numeric content
                protos_ = [None] + [L["id"] for L in layers if L["type"] == 0]
                for acc, n, s in (("get_can_baudrate", "CP_Baudrate", None), ("get_can_func_req_id", "CP_CanFuncReqId", None),
                                  ("get_can_receive_id", "CP_UniqueRespIdTable", "CP_CanPhysReqId"),
                                  ("get_can_send_id", "CP_UniqueRespIdTable", "CP_CanRespUSDTId")):
                    for p in protos_:
                        pn = None if p is None else f"L{p}"
                        fn = getattr(dl, acc, None)
                        if fn is None:
                            continue
                        v, e4, _ = cc.guarded(lambda: fn(protocol=pn))
                        cp = dl.get_comparam(n, protocol=pn)
                        e5 = None
                        if cp is None:
                            expn = None
                        else:
                            sv, e5, _ = cc.guarded(lambda: cp.get_value() if s is None else cp.get_subvalue(s))
                            expn = None if (e5 is not None or sv is None) else int(sv)
                        if e4 is not None and cp is not None and (e5 is None):
                            bad = f"L{i}.{acc}(protocol={pn}) raised {type(e4).__name__}: {e4}"
                        elif e4 is None and v != expn:
                            bad = f"L{i}.{acc}(protocol={pn}) = {v}, numeric content of {n} is {expn}"
                        if bad:
                            break
                    if bad:
                        break
                # derived CAN-FD accessors: defined through the per-protocol lookups above
                for p in protos_ if bad is None else []:
                    pn = None if p is None else f"L{p}"
                    rx, e6, _ = cc.guarded(lambda: dl.get_can_receive_id(protocol=pn))
                    if e6 is not None:
                        continue
                    fdp = dl.get_comparam("CP_CANFDTxMaxDataLength", protocol=pn)
                    # (the effective value: the instance's own, else the default of the parameter specification)
                    fdv = None if fdp is None else (fdp.value or dict(hc.SIMPLE_CPS)["CP_CANFDTxMaxDataLength"])
                    want_fd = rx is not None and fdp is not None and "CANFD" in fdv
                    got_fd, e7, _ = cc.guarded(lambda: dl.uses_can_fd(protocol=pn))
                    if e7 is None and got_fd != want_fd:
                        bad = f"L{i}.uses_can_fd(protocol={pn}) = {got_fd}, the parameters of that protocol say {want_fd}"
                        break
                    got_can, e9, _ = cc.guarded(lambda: dl.uses_can(protocol=pn))
                    if e9 is None and got_can != (rx is not None):
                        bad = f"L{i}.uses_can(protocol={pn}) = {got_can} although the CAN receive id of that protocol is {rx}"
                        break
                    if fdp is not None and isinstance(fdv, str):
                        import re as _re
                        m_ = _re.search("TX_DL *= *([0-9]+)", fdv)
                        got_sz, e10, _ = cc.guarded(lambda: dl.get_max_can_payload_size(protocol=pn))
                        if m_ and (e10 is not None or got_sz != int(m_.group(1))):
                            bad = (f"L{i}.get_max_can_payload_size(protocol={pn}) = {got_sz if e10 is None else type(e10).__name__}, the "
                                   f"numeric content of CP_CANFDTxMaxDataLength {fdv!r} is {int(m_.group(1))}")
                            break
                    if fdp is None:
                        got_sz, e10, _ = cc.guarded(lambda: dl.get_max_can_payload_size(protocol=pn))
                        want_sz = 8 if rx is not None else None
                        if e10 is not None or got_sz != want_sz:
                            bad = (f"L{i}.get_max_can_payload_size(protocol={pn}) = {got_sz if e10 is None else type(e10).__name__}; "
                                   f"no CP_CANFDTxMaxDataLength is defined and the CAN receive id is {rx}, so it is {want_sz}")
                            break
                    brp = dl.get_comparam("CP_CANFDBaudrate", protocol=pn)
                    if want_fd and brp is not None:
                        wb = int(brp.get_value())
                        gb, e8, _ = cc.guarded(lambda: dl.get_can_fd_baudrate(protocol=pn))
                        if e8 is None and gb != wb:
                            bad = f"L{i}.get_can_fd_baudrate(protocol={pn}) = {gb}, numeric content is {wb}"
                            break
            if bad:
                ck.violation(bad, rep)
                break
            if mres is not None:
                m = mres[(hi, i)]
                if m[0] != refs or m[1] != res:
                    k = next((j for j, (a, b) in enumerate(zip(m[1], res)) if a != b), None)
                    ck.violation(f"implementation and model disagree for layer L{i}" +
                                 (f" on query {qs[k]}" if k is not None else " on comparam_refs"),
                                 dict(rep, impl=[refs, res[k] if k is not None else None],
                                      model=[m[0], m[1][k] if k is not None else None],
                                      broken="correspondence Inherit.comparams/get_comparam"), found_input=False)
                    break
        if hi % 3 == 0 and not ck.replay or ck.replay:
            check_refresh_history(ck, layers, db)
        if hi % 40 == 0:
            ck.sample({"layers": layers})
    ck.assumptions = ["simple values are strings, complex values lists of strings (what the ODX parser produces)"]
    ck.finish(
        trusted_base=["Coq 8.16.1 kernel; no axioms", "translator: layer-type priorities", "extraction + driver cross-checked with vm_compute",
                      "harness: hierarchy generator, comparam documents (hier_common.py), declarative override oracle",
                      "DoIP accessors and get_max_can_payload_size are compared through the generic get_value path only"],
        rule="hierarchies of 1-5 layers with 0-3 comparam instances each (4 simple, 1 complex parameter; with/without protocol qualifier; "
        "empty values, omitted sub-values); every (parameter, protocol, sub-parameter) query on every layer; non-trivial = at least two instances")


if __name__ == "__main__":
    main()
