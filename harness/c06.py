"""C06 -- messages are attributed to exactly the services whose description matches.

Theorems: coq/Properties/C06.v (prefix tree sound/complete, decode reports exactly the
matching candidates).  Tie: correspondence of Model/Dispatch.v with DiagLayer.decode /
decode_response / service_groups on generated layers; direct oracle: the services
reported are exactly those with a matching coding object (computed from the
implementation's own coding objects, independently of the prefix tree).
"""
import itertools
import json
import xml.etree.ElementTree as ET

import codec_common as cc
import codec_run as cr
import common
from common import Check

M = 6
SIDS = [0x10, 0x22, 0x3E]


def u8(v):
    return cc.param(None, dict(k="coded", dct=cc.std(cc.BUINT, 8), v=v))


def named(ps, prefix):
    out = []
    for i, p in enumerate(ps):
        q = dict(p)
        q["name"] = f"{prefix}{i}"
        out.append(q)
    return out


def gen_layer(rng):
    nsvc = rng.choice([1, 2, 2, 3, 3, 4, 5, 6])
    services = []
    cid = 0
    for si in range(nsvc):
        sid = rng.choice(SIDS)
        if rng.random() < 0.08:
            sid = rng.choice([0x00, 0xFF])  # both ends of the byte range
        sub = rng.choice([None, None, 0x01, 0x02])
        form = rng.random()
        req_ps = []
        if form < 0.06:
            pass  # request without any constant prefix
        elif form < 0.25:
            # SID and sub-function described by one 16 bit constant
            req_ps.append(cc.param(None, dict(k="coded", dct=cc.std(cc.BUINT, 16), v=(sid << 8) | (sub or rng.choice([1, 0x90, 0xFF])))))
        elif form < 0.35:
            # SID split into two nibbles
            req_ps.append(cc.param(None, dict(k="coded", dct=cc.std(cc.BUINT, 4), v=sid & 15), 0, 0))
            req_ps.append(cc.param(None, dict(k="coded", dct=cc.std(cc.BUINT, 4), v=sid >> 4), 0, 4))
        else:
            req_ps.append(u8(sid))
            if sub is not None:
                # the sub-function as CODED-CONST or as PHYS-CONST: both belong to the constant prefix
                req_ps.append(u8(sub) if rng.random() < 0.6 else
                              cc.param(None, dict(k="physconst", dop=cc.simple(cc.std(cc.BUINT, 8)), v=sub)))
        if req_ps and rng.random() < 0.15:
            # reserved bits directly behind the constants: a peer may set them, they do not belong to the constant prefix
            req_ps.append(cc.param(None, dict(k="reserved", bl=8)))
        # payload
        for _ in range(rng.choice([0, 0, 1, 1, 2])):
            req_ps.append(cc.param(None, dict(k="value", dop=cc.simple(cc.std(cc.BUINT, rng.choice([8, 8, 16]))), dflt=None)))
        if not req_ps:
            req_ps.append(cc.param(None, dict(k="value", dop=cc.simple(cc.std(cc.BUINT, 8)), dflt=None)))
        has_req = rng.random() > 0.05
        cid += 1
        req = dict(id=cid, name=f"rq{cid}", params=named(req_ps, f"q{cid}_"), resp=False) if has_req else None
        pos = []
        for _ in range(rng.choice([0, 1, 1, 2])):
            ps = [u8((sid + 0x40) & 0xFF)]
            r = rng.random()
            if sub is not None and r < 0.1:
                # mirrors the sub-function and the first variable byte with ONE parameter: it starts inside the constant part of
                # the request and ends behind it (the constant prefix of the response ends in front of it)
                ps.append(cc.param(None, dict(k="matchreq", rqpos=1, len=2)))
            elif sub is not None and r < 0.6:
                ps.append(cc.param(None, dict(k="matchreq", rqpos=1, len=1)))
            elif sub is not None and r < 0.8:
                ps.append(u8(sub))
            if sub is not None and rng.random() < 0.3:
                # the response also mirrors variable bytes of the request (behind the request's constant part) and goes
                # on with a constant: the constant prefix of the response ends in front of the mirrored variable bytes
                ps.append(cc.param(None, dict(k="matchreq", rqpos=2, len=rng.choice([1, 2]))))
                ps.append(u8(rng.choice([0x10, 0x00])))
            if rng.random() < 0.15:
                ps.append(cc.param(None, dict(k="reserved", bl=8)))
            for _ in range(rng.choice([0, 1, 1])):
                ps.append(cc.param(None, dict(k="value", dop=cc.simple(cc.std(cc.BUINT, rng.choice([8, 16]))), dflt=None)))
            cid += 1
            pos.append(dict(id=cid, name=f"pr{cid}", params=named(ps, f"r{cid}_"), resp=True))
        neg = []
        if rng.random() < 0.5:
            ps = [u8(0x7F), rng.choice([u8(sid), cc.param(None, dict(k="matchreq", rqpos=0, len=1))]),
                  cc.param(None, dict(k="nrc", dct=cc.std(cc.BUINT, 8), vs=sorted(set(rng.choice([0x10, 0x11, 0x22, 0x31]) for _ in range(2)))))]
            if rng.random() < 0.4:
                # a detail byte behind the response code
                ps.append(cc.param(None, dict(k="value", dop=cc.simple(cc.std(cc.BUINT, 8)), dflt=None)))
            cid += 1
            neg.append(dict(id=cid, name=f"nr{cid}", params=named(ps, f"n{cid}_"), resp=True))
        services.append(dict(id=si + 1, name=f"svc{si + 1}", req=req, pos=pos, neg=neg))
    gnrs = []
    for _ in range(rng.choice([0, 0, 1, 1, 2, 2, 3])):
        ps = [u8(0x7F)]
        r = rng.random()
        if r < 0.5:
            ps.append(cc.param(None, dict(k="value", dop=cc.simple(cc.std(cc.BUINT, 8)), dflt=None)))
        else:
            ps.append(cc.param(None, dict(k="matchreq", rqpos=0, len=1)))
        if rng.random() < 0.4:
            # restricted to some response codes: it does not apply to every 7F message (later ones may)
            ps.append(cc.param(None, dict(k="nrc", dct=cc.std(cc.BUINT, 8, None, True), vs=sorted(set(rng.choice([0x11, 0x21, 0x78, 0x31]) for _ in range(2))))))
        else:
            ps.append(cc.param(None, dict(k="value", dop=cc.simple(cc.std(cc.BUINT, 8)), dflt=None)))
        cid += 1
        g = dict(id=cid, name=f"gn{cid}", params=named(ps, f"g{cid}_"), resp=True)
        # global negative responses and the negative responses of a service live in different name spaces: a clash of
        # their short names is legal and changes nothing
        negs = [c for sv in services for c in sv["neg"]]
        free = [c["name"] for c in negs if c["name"] not in [x.get("sn") for x in gnrs]]
        if free and rng.random() < 0.5:
            g["sn"] = rng.choice(free)     # (short names stay unique among the global negative responses)
        gnrs.append(g)
    return dict(services=services, gnrs=gnrs)


def reserved_set(params, pdu):
    """the PDU with the bytes of its RESERVED parameters set to FF / 80 (sequential one-byte layout of the generator)"""
    off, out = 0, []
    for p in params:
        kd = p["kind"]
        if p["bytepos"] is not None or p["bitpos"] is not None:
            return []
        if kd["k"] == "reserved" and off < len(pdu):
            out += [pdu[:off] + bytes([v]) + pdu[off + 1:] for v in (0xFF, 0x80)]
        if kd["k"] in ("coded", "nrc"):
            off += kd["dct"]["bl"] // 8
        elif kd["k"] == "reserved":
            off += kd["bl"] // 8
        elif kd["k"] == "matchreq":
            off += kd["len"]
        elif kd["k"] == "physconst" or kd["k"] == "value":
            off += kd["dop"]["dct"]["bl"] // 8
        else:
            return out
    return out


def inherited_gnr_probe(ck):
    """oracle only: what a layer attributes a message to depends on that layer alone, not on which other layer decoded
    something before.  A base variant without global negative responses, an ECU variant which inherits its service and
    defines a global negative response, a second ECU variant with another one: every order of first uses."""
    import hier_common as hc
    import itertools
    u8 = '<DIAG-CODED-TYPE BASE-DATA-TYPE="A_UINT32" xsi:type="STANDARD-LENGTH-TYPE"><BIT-LENGTH>8</BIT-LENGTH></DIAG-CODED-TYPE>'
    cst = lambda n, v: f'<PARAM xsi:type="CODED-CONST"><SHORT-NAME>{n}</SHORT-NAME><CODED-VALUE>{v}</CODED-VALUE>{u8}</PARAM>'
    val = lambda n: f'<PARAM xsi:type="VALUE"><SHORT-NAME>{n}</SHORT-NAME><DOP-REF ID-REF="BV.u8"/></PARAM>'
    gnr = lambda lid, code: (f'<GLOBAL-NEG-RESPONSES><GLOBAL-NEG-RESPONSE ID="{lid}.gnr"><SHORT-NAME>gnr</SHORT-NAME><PARAMS>{cst("sid", 0x7F)}'
                             f'{val("rq")}{cst("code", code)}</PARAMS></GLOBAL-NEG-RESPONSE></GLOBAL-NEG-RESPONSES>')
    pref = '<PARENT-REFS><PARENT-REF ID-REF="BV" DOCREF="DLC" DOCTYPE="CONTAINER" xsi:type="BASE-VARIANT-REF"/></PARENT-REFS>'
    doc = ('<?xml version="1.0" encoding="UTF-8"?><ODX MODEL-VERSION="2.2.0" xmlns:xsi="http://www.w3.org/2001/XMLSchema-instance">'
           '<DIAG-LAYER-CONTAINER ID="DLC"><SHORT-NAME>DLC</SHORT-NAME><BASE-VARIANTS><BASE-VARIANT ID="BV"><SHORT-NAME>BV</SHORT-NAME>'
           f'<DIAG-DATA-DICTIONARY-SPEC><DATA-OBJECT-PROPS><DATA-OBJECT-PROP ID="BV.u8"><SHORT-NAME>u8</SHORT-NAME><COMPU-METHOD><CATEGORY>IDENTICAL</CATEGORY></COMPU-METHOD>{u8}'
           '<PHYSICAL-TYPE BASE-DATA-TYPE="A_UINT32"/></DATA-OBJECT-PROP></DATA-OBJECT-PROPS></DIAG-DATA-DICTIONARY-SPEC>'
           '<DIAG-COMMS><DIAG-SERVICE ID="BV.read"><SHORT-NAME>read</SHORT-NAME><REQUEST-REF ID-REF="BV.rq"/><POS-RESPONSE-REFS>'
           '<POS-RESPONSE-REF ID-REF="BV.pr"/></POS-RESPONSE-REFS></DIAG-SERVICE></DIAG-COMMS>'
           f'<REQUESTS><REQUEST ID="BV.rq"><SHORT-NAME>rq</SHORT-NAME><PARAMS>{cst("sid", 0x22)}{val("id")}</PARAMS></REQUEST></REQUESTS>'
           f'<POS-RESPONSES><POS-RESPONSE ID="BV.pr"><SHORT-NAME>pr</SHORT-NAME><PARAMS>{cst("sid", 0x62)}{val("id")}</PARAMS></POS-RESPONSE></POS-RESPONSES>'
           '</BASE-VARIANT></BASE-VARIANTS><ECU-VARIANTS>'
           f'<ECU-VARIANT ID="EV1"><SHORT-NAME>EV1</SHORT-NAME>{gnr("EV1", 0x31)}{pref}</ECU-VARIANT>'
           f'<ECU-VARIANT ID="EV2"><SHORT-NAME>EV2</SHORT-NAME>{gnr("EV2", 0x78)}{pref}</ECU-VARIANT>'
           '</ECU-VARIANTS></DIAG-LAYER-CONTAINER></ODX>')
    msgs = [bytes([0x22, 5]), bytes([0x62, 5]), bytes([0x7F, 0x22, 0x31]), bytes([0x7F, 0x22, 0x78]), bytes([0x7F, 0x22, 0x10])]
    calls = [(ln, m) for ln in ("BV", "EV1", "EV2") for m in msgs]

    def obs(layer, m):
        r, e, _ = cc.guarded(lambda: layer.decode(m))
        if e is not None:
            return type(e).__name__
        return sorted((x.service.short_name, x.coding_object.short_name, tuple(sorted(x.param_dict.items()))) for x in r)

    try:
        alone = {}
        for ln, m in calls:
            db = hc.load_docs([doc])
            alone[(ln, m)] = obs({d.short_name: d for d in db.diag_layers}[ln], m)
    except Exception as e:  # noqa
        ck.note_broken(f"the inherited-service document does not load: {type(e).__name__}: {e}")
        return
    for first in ("BV", "EV1", "EV2"):
        for order in (calls, calls[::-1]):
            db = hc.load_docs([doc])
            lay = {d.short_name: d for d in db.diag_layers}
            seq = [c for c in order if c[0] == first] + [c for c in order if c[0] != first]
            for ln, m in seq:
                ck.count(("inherited-gnr", first, order is calls, ln, m))
                got = obs(lay[ln], m)
                if got != alone[(ln, m)]:
                    ck.violation(f"layer {ln} attributes message {m.hex()} to {got} after other layers of the database (first {first}) "
                                 f"decoded before it; on a database used for nothing else it is {alone[(ln, m)]}",
                                 {"probe": "inherited service, layer-specific global negative responses", "first_layer": first,
                                  "sequence": [[a, b.hex()] for a, b in seq[:seq.index((ln, m)) + 1]]})
                    return


def emit_layer(L):
    em = cc.Emitter()

    def msg(tag, c):
        ps = "".join(em.x_param(p) for p in c["params"])
        return f'<{tag} ID="{c["name"]}"><SHORT-NAME>{c.get("sn", c["name"])}</SHORT-NAME><PARAMS>{ps}</PARAMS></{tag}>'

    reqs = "".join(msg("REQUEST", s["req"]) for s in L["services"] if s["req"])
    pos = "".join(msg("POS-RESPONSE", c) for s in L["services"] for c in s["pos"])
    neg = "".join(msg("NEG-RESPONSE", c) for s in L["services"] for c in s["neg"])
    gn = "".join(msg("GLOBAL-NEG-RESPONSE", c) for c in L["gnrs"])
    svcs = ""
    for s in L["services"]:
        rr = f'<REQUEST-REF ID-REF="{s["req"]["name"]}"/>' if s["req"] else ""
        pr = "".join(f'<POS-RESPONSE-REF ID-REF="{c["name"]}"/>' for c in s["pos"])
        nr = "".join(f'<NEG-RESPONSE-REF ID-REF="{c["name"]}"/>' for c in s["neg"])
        svcs += (f'<DIAG-SERVICE ID="{s["name"]}"><SHORT-NAME>{s["name"]}</SHORT-NAME>{rr}'
                 + (f"<POS-RESPONSE-REFS>{pr}</POS-RESPONSE-REFS>" if pr else "")
                 + (f"<NEG-RESPONSE-REFS>{nr}</NEG-RESPONSE-REFS>" if nr else "") + "</DIAG-SERVICE>")

    def sec(tag, items):
        return f"<{tag}>{''.join(items)}</{tag}>" if items else ""

    ddds = ("<DIAG-DATA-DICTIONARY-SPEC>" + sec("DATA-OBJECT-PROPS", em.dops) + sec("STRUCTURES", em.structs) +
            "</DIAG-DATA-DICTIONARY-SPEC>")
    return ('<?xml version="1.0" encoding="UTF-8"?><ODX MODEL-VERSION="2.2.0" xmlns:xsi="http://www.w3.org/2001/XMLSchema-instance">'
            '<DIAG-LAYER-CONTAINER ID="DLC"><SHORT-NAME>DLC</SHORT-NAME><BASE-VARIANTS><BASE-VARIANT ID="BV"><SHORT-NAME>BV</SHORT-NAME>'
            + ddds + f"<DIAG-COMMS>{svcs}</DIAG-COMMS>" + (f"<REQUESTS>{reqs}</REQUESTS>" if reqs else "")
            + (f"<POS-RESPONSES>{pos}</POS-RESPONSES>" if pos else "") + (f"<NEG-RESPONSES>{neg}</NEG-RESPONSES>" if neg else "")
            + (f"<GLOBAL-NEG-RESPONSES>{gn}</GLOBAL-NEG-RESPONSES>" if gn else "")
            + "</BASE-VARIANT></BASE-VARIANTS></DIAG-LAYER-CONTAINER></ODX>")


def w_cobj(c):
    return [c["id"], [cc.w_param(p) for p in c["params"]], c["resp"]]


def w_layer(L):
    return [[[s["id"], [] if s["req"] is None else [w_cobj(s["req"])], [w_cobj(c) for c in s["pos"]],
              [w_cobj(c) for c in s["neg"]]] for s in L["services"]], [w_cobj(c) for c in L["gnrs"]]]


def load_layer(L):
    from odxtools.database import Database
    db = Database()
    db._process_xml_tree(ET.fromstring(emit_layer(L)))
    db.refresh()
    return db.diag_layers[0]


def ids_of(L):
    m = {}
    for s in L["services"]:
        m[s["name"]] = s["id"]
        for c in ([s["req"]] if s["req"] else []) + s["pos"] + s["neg"]:
            m[c["name"]] = c["id"]
    for c in L["gnrs"]:
        m[c["name"]] = c["id"]
    return m


def impl_decode(layer, idmap, msg, rq=None):
    fn = (lambda: layer.decode(bytes(msg))) if rq is None else (lambda: layer.decode_response(bytes(msg), bytes(rq)))
    r, e, _ = cc.guarded(fn)
    if e is not None:
        k = cc.classify_exc(e)
        if k[:2] == [-1, 3]:
            k = [-1, 2]
        if k[:2] == [-1, 5]:
            k = [-1, 5]
        return k
    # (in lenient mode a service which cannot decode the message yields a result without coding object: 0)
    return [0, [[idmap[m.service.short_name], 0 if m.coding_object is None else idmap[m.coding_object.odx_id.local_id],
                 cc.canon_value(m.param_dict)] for m in r]]


def norm_model(m):
    if m[0] == 0:
        return m
    if m[:2] == [-1, 3]:
        return [-1, 2]
    if m[:2] == [-1, 5]:
        return [-1, 5]
    return m


def oracle(layer, L, idmap, msg, impl):
    """services reported == services with a matching coding object (prefix-tree independent)"""
    from odxtools.exceptions import DecodeError, DecodeMismatch
    want = []
    sibling = set()
    ambiguous = False
    reachable_problem = False
    for s in layer.services:
        rqp = b""
        try:
            if s.request is not None:
                rqp = bytes(s.request.coded_const_prefix())
        except Exception:  # noqa
            return None
        match = 0
        hard_error = False
        sib_err = False
        cands = list(s.positive_responses) + list(s.negative_responses) + ([s.request] if s.request is not None else [])
        any_prefix = False
        for c in cands:
            try:
                p = bytes(c.coded_const_prefix(request_prefix=rqp))
            except Exception:  # noqa
                return None
            if bytes(msg).startswith(p):
                if len(p) > 0:
                    any_prefix = True
                try:
                    c.decode(bytes(msg))
                    match += 1
                except DecodeMismatch:
                    pass
                except DecodeError:
                    sib_err = True
                except Exception:  # noqa
                    hard_error = True
        if hard_error:
            return None
        if match > 1:
            ambiguous = True
        if match == 1:
            if not any_prefix and not any(bytes(msg).startswith(bytes(g.coded_const_prefix(request_prefix=rqp))) and
                                          len(g.coded_const_prefix(request_prefix=rqp)) > 0
                                          for g in layer.global_negative_responses):
                # recorded finding: services without constant prefix are never found
                reachable_problem = True
            want.append(idmap[s.short_name])
            if sib_err:
                sibling.add(idmap[s.short_name])
    if ambiguous:
        return None
    # global negative responses apply to every service for which nothing else matched
    gn_ok = False
    for g in layer.global_negative_responses:
        try:
            g.decode(bytes(msg))
            gn_ok = True
        except DecodeError:
            pass
        except Exception:  # noqa
            return None
    got = sorted(set(x[0] for x in impl[1])) if impl[0] == 0 else []
    if gn_ok:
        # every candidate service not matching by itself is reported through the GNR: only check the own matches
        if not set(want) <= set(got) and not reachable_problem:
            return f"services {sorted(set(want) - set(got))} have a matching coding object but are not reported"
        return None
    if reachable_problem:
        return "KF:empty-prefix"
    missing = set(want) - set(got)
    if missing and missing <= sibling and set(got) <= set(want):
        return "KF:sibling"
    if sorted(set(want)) != got:
        return (f"reported services {got} differ from the services with a matching coding object {sorted(set(want))}"
                + ("" if impl[0] == 0 else f" (outcome {impl})"))
    return None


def main(argv=None):
    import warnings
    warnings.simplefilter("ignore")
    ck = Check("C06", argv)
    ck.prologue()
    rng = ck.rng
    quick = ck.tier == "quick"
    layers = []
    if ck.replay:
        rp = cc.from_json(json.load(open(ck.replay))["replay"])
        layers.append((rp["layer"], [(rp["msg"], rp.get("rq"))]))
    else:
        # corpus: the historic failures
        Lc = dict(services=[dict(id=1, name="svc1", req=dict(id=1, name="rq1", params=named([u8(0x22), cc.param(None, dict(k="value", dop=cc.simple(cc.std(cc.BUINT, 8)), dflt=None))], "a"), resp=False), pos=[], neg=[]),
                            dict(id=2, name="svc2", req=dict(id=2, name="rq2", params=named([u8(0x22), u8(0x01), cc.param(None, dict(k="value", dop=cc.simple(cc.std(cc.BUINT, 16)), dflt=None))], "b"), resp=False), pos=[], neg=[])], gnrs=[])
        layers.append((Lc, [(b"\x22\x01", None), (b"\x22\x01\x00\x05", None), (b"\x22", None)]))
        Le = dict(services=[dict(id=1, name="svc1", req=dict(id=1, name="rq1", params=named([cc.param(None, dict(k="value", dop=cc.simple(cc.std(cc.BUINT, 8)), dflt=None))], "a"), resp=False), pos=[], neg=[])], gnrs=[])
        layers.append((Le, [(b"\x05", None)]))
        Ls = dict(services=[dict(id=1, name="svc1", req=dict(id=1, name="rq1", params=named([u8(0x3E), cc.param(None, dict(k="value", dop=cc.simple(cc.std(cc.BUINT, 8)), dflt=None))], "a"), resp=False),
                                 pos=[dict(id=2, name="pr2", params=named([u8(0x7E), cc.param(None, dict(k="value", dop=cc.simple(cc.std(cc.BUINT, 16)), dflt=None))], "b"), resp=True),
                                      dict(id=3, name="pr3", params=named([u8(0x7E)], "c"), resp=True)], neg=[])], gnrs=[])
        layers.append((Ls, [(b"\x7e\x01", None), (b"\x7e", None), (b"\x7e\x00\x01", None)]))
        for _ in range(60 if quick else 700):
            layers.append((gen_layer(rng), None))
    alpha = SIDS + [0x50, 0x62, 0x7E, 0x7F, 0x01, 0x02, 0x00, 0x11, 0xFF]
    shorts = cr.small_strings(alpha[:9], 2) + [bytes(x) for x in itertools.product(alpha[:6], repeat=3)][: (60 if quick else 216)]
    work = []
    for L, msgs in layers:
        try:
            layer = load_layer(L)
        except Exception as e:  # noqa
            ck.hist("load", type(e).__name__)
            continue
        idmap = ids_of(L)
        if msgs is None:
            msgs = []
            # own encodings of every coding object
            for s in L["services"]:
                rqb = None
                if s["req"]:
                    g = cc.Gen(rng)
                    v = g.values_for_params(s["req"]["params"], "valid")
                    r = cc.impl_encode(layer.diag_layer_raw.requests[s["req"]["name"]], v)
                    if r[0] == 0:
                        rqb = bytes(r[1])
                        msgs.append((rqb, None))
                        msgs += [(m_, None) for m_ in reserved_set(s["req"]["params"], rqb)]
                for c in s["pos"] + s["neg"]:
                    g = cc.Gen(rng)
                    v = g.values_for_params(c["params"], "valid")
                    coll = layer.diag_layer_raw.positive_responses if c in s["pos"] else layer.diag_layer_raw.negative_responses
                    for p in c["params"]:
                        if p["kind"]["k"] == "nrc":
                            pass
                    r = cc.impl_encode(coll[c["name"]], v, rqb or b"\x00\x00\x00")
                    if r[0] == 0:
                        pdu = bytearray(r[1])
                        # NRC-CONST bytes are left to the caller: fill in an admissible value
                        off = 0
                        for p in c["params"]:
                            if p["kind"]["k"] == "nrc" and off < len(pdu):
                                pdu[off] = p["kind"]["vs"][0]
                            off += 1 if p["kind"]["k"] in ("coded", "nrc", "matchreq", "reserved") else (p["kind"]["dop"]["dct"]["bl"] // 8)
                        msgs.append((bytes(pdu), None))
                        msgs += [(m_, None) for m_ in reserved_set(c["params"], bytes(pdu))]
                        if rqb:
                            msgs.append((bytes(pdu), rqb))
                        # the coding object reads its own encoding back with the values which were encoded
                        d_, e_, _w = cc.guarded(lambda: coll[c["name"]].decode(bytes(pdu)))
                        ck.count(("own", json.dumps(cc.to_json(L)), c["name"], bytes(pdu)))
                        # (a value the generator passes for a RESERVED parameter is ignored by design: it is not read back)
                        rsv_ = {p_["name"] for p_ in c["params"] if p_["kind"]["k"] == "reserved"}
                        if e_ is not None or any(d_.get(k_) != x_ for k_, x_ in v.items() if k_ not in rsv_):
                            ck.violation(f"the encoding {bytes(pdu).hex()} of {c['name']} with {v!r} is read back by the same object as "
                                         f"{d_ if e_ is None else type(e_).__name__ + ': ' + str(e_)}",
                                         {"layer": cc.to_json(L), "msg": cc.to_json(bytes(pdu)), "rq": None,
                                          "object": c["name"], "value": cc.to_json(v)})
            for g in L["gnrs"]:
                for code in (0x11, 0x21, 0x31, 0x78, 0x10):
                    msgs.append((bytes([0x7F, rng.choice(SIDS), code]), None))
            base = list(msgs)
            for m, rq in base[:6]:
                for k in range(len(m)):
                    msgs.append((m[:k], rq))
                msgs.append((m + b"\x00", rq))
            for m in rng.sample(shorts, min(len(shorts), 40 if quick else 120)):
                msgs.append((m, None))
        for m, rq in msgs:
            work.append((L, layer, idmap, m, rq))
    wires = [[M, [1 if rq is None else 2, w_layer(L), list(m), list(rq or b"")]] for L, _, _, m, rq in work]
    gw = {}
    for L, layer, idmap, _, _ in work:
        gw.setdefault(id(L), (L, layer, idmap))
    gl = list(gw.values())
    gwires = [[M, [3, w_layer(L), [], []]] for L, _, _ in gl]
    mres = None
    if ck.model_available():
        try:
            allres = common.run_model_ocaml(wires + gwires, chunk=40)
            mres, gres = allres[:len(wires)], allres[len(wires):]
            idx = sorted(rng.sample(range(len(wires)), min(len(wires), 20 if quick else 80)))
            cres = common.run_model_coq([wires[i] for i in idx], tag="c06", chunk=10)
            if any(x != mres[i] for i, x in zip(idx, cres)):
                ck.note_broken("extracted model and vm_compute disagree")
            ck.coverage["evaluated_in_coq"] = len(idx)
        except Exception as e:  # noqa
            ck.note_broken(f"model execution failed: {e}")
            mres = None
    else:
        ck.note_broken("model not built")
    strict_res = {}
    for i, (L, layer, idmap, m, rq) in enumerate(work):
        ck.count((json.dumps(cc.to_json(L)), bytes(m), rq))
        impl = impl_decode(layer, idmap, m, rq)
        strict_res[i] = impl
        ck.hist("outcome", "ok" if impl[0] == 0 else impl[1])
        ck.hist("n_services", len(L["services"]))
        rep = {"layer": cc.to_json(L), "msg": cc.to_json(bytes(m)), "rq": None if rq is None else cc.to_json(bytes(rq))}
        if impl[:2] in ([-1, 5], [-1, 8], [-1, 4], [-1, 1]):  # (an EncodeError out of decoding is no decode error either)
            ck.violation(f"DiagLayer.decode raised {impl} for message {bytes(m).hex()}", rep)
            continue
        if rq is None:
            bad = oracle(layer, L, idmap, m, impl)
            if bad == "KF:sibling":
                kf = ck.match_known({"sibling-coding-object-fails"})
                if kf:
                    ck.known_finding(kf["id"], kf["what"])
                else:
                    ck.violation("a coding object which cannot decode the message hides a matching sibling of the same service", rep)
                continue
            if bad == "KF:empty-prefix":
                kf = ck.match_known({"empty-constant-prefix"})
                if kf:
                    ck.known_finding(kf["id"], kf["what"])
                else:
                    ck.violation("a service without constant prefix matches the message but is never considered", rep)
                continue
            if bad:
                ck.violation(bad, rep)
                continue
        if mres is not None and impl != norm_model(mres[i]):
            rep.update({"impl": impl, "model": mres[i], "broken": "correspondence Dispatch.layer_decode vs DiagLayer.decode"})
            ck.violation(f"implementation and model disagree on message {bytes(m).hex()}", rep, found_input=False)
        if i % 499 == 0:
            ck.sample({"msg": bytes(m).hex(), "result": impl, "n_services": len(L["services"])})
    # the same messages in non-strict mode on a freshly loaded layer (nothing cached by an earlier strict call): what
    # decodes strictly is attributed to the same services with the same values
    import odxtools.exceptions as oex
    fresh = {}
    nlen = 0
    for i, (L, layer, idmap, m, rq) in enumerate(work):
        if strict_res.get(i, [None])[0] != 0:
            continue
        oex.strict_mode = False
        try:
            if id(L) not in fresh:
                try:
                    fresh[id(L)] = load_layer(L)
                except Exception:  # noqa
                    fresh[id(L)] = None
            fl = fresh[id(L)]
            impl2 = None if fl is None else impl_decode(fl, idmap, m, rq)
        finally:
            oex.strict_mode = True
        if impl2 is None:
            continue
        nlen += 1
        ck.count(("lenient", json.dumps(cc.to_json(L)), bytes(m), rq))
        if impl2 != strict_res[i]:
            ck.violation(f"message {bytes(m).hex()} is attributed differently in non-strict mode on a fresh layer: {impl2} "
                         f"instead of {strict_res[i]}",
                         {"layer": cc.to_json(L), "msg": cc.to_json(bytes(m)), "rq": None if rq is None else cc.to_json(bytes(rq)),
                          "mode": "non-strict, layer loaded in non-strict mode and not used before"})
    ck.coverage["messages_repeated_in_non_strict_mode"] = nlen
    # service groups
    if mres is not None:
        for (L, layer, idmap), g in zip(gl, gres):
            r, e, _ = cc.guarded(lambda: [[[] if k is None else [k], [idmap[s.short_name] for s in v]]
                                          for k, v in layer.service_groups._service_groups.items()])
            ck.count(("groups", json.dumps(cc.to_json(L))))
            if e is not None:
                ck.violation(f"service_groups raised {type(e).__name__}", {"layer": cc.to_json(L)})
                continue
            # direct oracle: each service is filed under the first byte of its request
            for s in L["services"]:
                if s["req"] and s["req"]["params"] and s["req"]["params"][0]["kind"]["k"] == "coded" and \
                        s["req"]["params"][0]["bitpos"] is None:
                    pre = bytes(layer.diag_layer_raw.requests[s["req"]["name"]].coded_const_prefix())
                    b0 = pre[0]
                    grp = [k for k, v in r if s["id"] in v]
                    if grp != [[b0]]:
                        ck.violation(f"service {s['name']} with request SID {b0:#x} is filed under {grp}", {"layer": cc.to_json(L)})
                        break
            else:
                # the public view: asking for every SID (and for "no SID") returns exactly the services filed under it
                filed = {(k[0] if k else None): v for k, v in r}
                for q in [None] + list(range(256)):
                    got, e2, _ = cc.guarded(lambda: [idmap[x.short_name] for x in layer.service_groups[q]])
                    if e2 is not None or got != filed.get(q, []):
                        ck.violation(f"service_groups[{q!r}] returns {got if e2 is None else type(e2).__name__}, "
                                     f"the services filed under it are {filed.get(q, [])}", {"layer": cc.to_json(L)})
                        break
                if r != g:
                    ck.violation("implementation and model disagree on the service groups",
                                 {"layer": cc.to_json(L), "impl": r, "model": g, "broken": "correspondence service_groups"},
                                 found_input=False)
    if not ck.replay:
        inherited_gnr_probe(ck)
    ck.assumptions = ["messages matched by more than one coding object of the same service are reported as ambiguous by the "
                      "implementation (DecodeError); the oracle skips them"]
    ck.finish(
        trusted_base=[
            "Coq 8.16.1 kernel; no axioms",
            "the coding objects' decoders are the codec model (Model/Codec.v), see C01-C05 for its scope",
            "extraction + driver, cross-checked with vm_compute on a sample",
            "harness: layer generator and ODX emitter (harness/c06.py); oracle uses the implementation's own coding objects",
        ],
        rule="layers of 1-6 services over a 3-symbol SID alphabet (shared, nested, empty constant prefixes, MATCHING-REQUEST and "
        "NRC-CONST responses, 0-2 global negative responses); messages: own encodings of every coding object, their prefixes, "
        "extensions, all short strings over a reduced alphabet; decode and decode_response; distinct by (layer, message, request)")


if __name__ == "__main__":
    main()
