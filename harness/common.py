"""Shared machinery of the /verif checks: build, model execution, proof
transcript, evidence, known findings, violation reports."""
import fcntl
import hashlib
import json
import os
import random
import re
import subprocess
import sys
import time

ROOT = os.path.dirname(os.path.dirname(os.path.abspath(__file__)))
COQ = os.path.join(ROOT, "coq")
OCAML = os.path.join(ROOT, "ocaml")
REPO = os.environ.get("VERIF_REPO", "/repo")
PY = "/venv/bin/python"
NCPU = os.cpu_count() or 4

ALLOWED_AXIOMS = set()  # every property theorem must be closed under the global context

FORBIDDEN = re.compile(
    r"\b(Admitted|admit|Axiom|Axioms|Parameter|Parameters|Conjecture|Conjectures|"
    r"Unset\s+Guard|bypass_check|Admit\s+Obligations|type-in-type|impredicative-set|"
    r"native_compute)\b")


# ----------------------------------------------------------------------------
# wire codec (mirrors coq/Base/Wire.v)
# ----------------------------------------------------------------------------
def wire_enc(x, out=None):
    top = out is None
    if top:
        out = []
    if isinstance(x, bool):
        out.append(3 if x else 2)
    elif isinstance(x, int):
        out.append(x if x < 0 else x + 2)
    elif isinstance(x, (list, tuple)):
        out.append(0)
        for y in x:
            wire_enc(y, out)
        out.append(1)
    elif isinstance(x, (bytes, bytearray)):
        out.append(0)
        out.extend(b + 2 for b in x)
        out.append(1)
    elif isinstance(x, str):
        out.append(0)
        out.extend(ord(c) + 2 for c in x)
        out.append(1)
    elif x is None:
        out.extend((0, 1))
    else:
        raise TypeError(f"cannot wire-encode {type(x)}")
    return out


def wire_dec_all(toks):
    """flat token list -> list of top-level values"""
    stack = [[]]
    for t in toks:
        if t == 0:
            stack.append([])
        elif t == 1:
            l = stack.pop()
            stack[-1].append(l)
        else:
            stack[-1].append(t if t < 0 else t - 2)
    if len(stack) != 1:
        raise ValueError("unbalanced wire output")
    return stack[0]


# ----------------------------------------------------------------------------
# build
# ----------------------------------------------------------------------------
class BuildStatus:

    def __init__(self):
        self.translate_ok = True
        self.translate_msg = ""
        self.make_ok = True
        self.failed_files = []
        self.log = ""
        self.driver_ok = True
        self.forbidden = []


def _run(cmd, cwd=None, timeout=3600, env=None, input=None):
    e = dict(os.environ)
    if env:
        e.update(env)
    return subprocess.run(
        cmd, cwd=cwd, timeout=timeout, env=e, input=input, capture_output=True, text=True)


def impl_env():
    return {"PYTHONPATH": REPO, "PYTHONHASHSEED": "0", "VERIF_REPO": REPO}


def scan_forbidden():
    bad = []
    for d, _, fs in os.walk(COQ):
        for f in fs:
            if f.endswith(".v"):
                p = os.path.join(d, f)
                txt = open(p).read()
                txt = re.sub(r"\(\*.*?\*\)", "", txt, flags=re.S)
                for m in FORBIDDEN.finditer(txt):
                    bad.append(f"{os.path.relpath(p, ROOT)}: {m.group(0)}")
    return bad


def ensure_build(verbose=False):
    """translator -> Generated.v; make -k (full .vo build); extracted driver.
    Serialised with a file lock so that concurrent checks do not race."""
    st = BuildStatus()
    os.makedirs(os.path.join(OCAML, "gen"), exist_ok=True)
    with open(os.path.join(ROOT, ".build.lock"), "w") as lk:
        fcntl.flock(lk, fcntl.LOCK_EX)
        r = _run([PY, os.path.join(ROOT, "harness", "translate.py")], env=impl_env())
        if r.returncode != 0:
            st.translate_ok = False
            st.translate_msg = (r.stdout + r.stderr).strip()[-2000:]
        if not os.path.exists(os.path.join(COQ, "Makefile")) or os.path.getmtime(
                os.path.join(COQ, "Makefile")) < os.path.getmtime(
                    os.path.join(COQ, "_CoqProject")):
            _run(["coq_makefile", "-f", "_CoqProject", "-o", "Makefile"], cwd=COQ)
        r = _run(["timeout", "3000", "make", "-k", f"-j{NCPU}"], cwd=COQ, timeout=3100)
        st.log = (r.stdout + r.stderr)[-6000:]
        if r.returncode != 0:
            st.make_ok = False
            st.failed_files = sorted(set(re.findall(r'File "\./([^"]+\.v)"', r.stdout + r.stderr)))
        # extracted driver
        ml = os.path.join(COQ, "model.ml")
        gen = os.path.join(OCAML, "gen", "model.ml")
        drv = os.path.join(OCAML, "driver")
        if os.path.exists(ml):
            new = open(ml).read()
            old = open(gen).read() if os.path.exists(gen) else None
            if new != old or not os.path.exists(drv):
                open(gen, "w").write(new)
                open(gen + "i", "w").write(open(ml + "i").read())
                r = _run([
                    "ocamlfind", "ocamlopt", "-O3", "-w", "-a", "-I", "gen", "gen/model.mli",
                    "gen/model.ml", "driver.ml", "-o", "driver"
                ], cwd=OCAML, timeout=600)
                if r.returncode != 0:
                    st.driver_ok = False
                    st.log += r.stdout + r.stderr
        else:
            st.driver_ok = False
        st.forbidden = scan_forbidden()
    return st


# ----------------------------------------------------------------------------
# model execution
# ----------------------------------------------------------------------------
MAX_REPLAY_FILES = 200
MODEL_TIMEOUT = 1500  # seconds per driver process; the extracted model is total, so this only bounds blow-ups of generated sizes


def run_model_ocaml(cases, chunk=200):
    """cases: list of [model_id, payload]; returns list of results (one per case)"""
    drv = os.path.join(OCAML, "driver")
    lines = []
    for i in range(0, len(cases), chunk):
        toks = []
        for c in cases[i:i + chunk]:
            wire_enc(c, toks)
        lines.append(" ".join(map(str, toks)))
    # split the lines over processes
    nproc = min(NCPU, max(1, len(lines)))
    shards = [lines[i::nproc] for i in range(nproc)]
    procs = []
    for sh in shards:
        p = subprocess.Popen(["bash", "-c", 'ulimit -s unlimited 2>/dev/null; exec "$0"', drv], stdin=subprocess.PIPE,
                             stdout=subprocess.PIPE, text=True)
        procs.append((p, sh))
    outs = {}
    import threading

    def feed(idx, p, sh):
        try:
            o, _ = p.communicate("\n".join(sh) + "\n", timeout=MODEL_TIMEOUT)
        except subprocess.TimeoutExpired:
            p.kill()
            o = ""
        outs[idx] = o

    ths = [threading.Thread(target=feed, args=(i, p, sh)) for i, (p, sh) in enumerate(procs)]
    for t in ths:
        t.start()
    for t in ths:
        t.join()
    res_lines = [None] * len(lines)
    for i in range(nproc):
        ol = outs[i].split("\n")
        if ol and ol[-1] == "":
            ol = ol[:-1]
        if len(ol) != len(shards[i]):
            raise RuntimeError("model driver produced wrong number of lines")
        for j, l in enumerate(ol):
            res_lines[i + j * nproc] = l
    results = []
    for l in res_lines:
        results.extend(wire_dec_all([int(x) for x in l.split()]))
    if len(results) != len(cases):
        raise RuntimeError(f"model returned {len(results)} results for {len(cases)} cases")
    return results


def run_model_coq(cases, tag="x", chunk=150):
    """Evaluate the cases inside Coq (vm_compute)."""
    tmpd = os.path.join(ROOT, "out", "cases")
    os.makedirs(tmpd, exist_ok=True)
    files = []
    for i in range(0, len(cases), chunk):
        toks = []
        for c in cases[i:i + chunk]:
            wire_enc(c, toks)
        fn = os.path.join(tmpd, f"cases_{tag}_{os.getpid()}_{i // chunk}.v")
        with open(fn, "w") as f:
            f.write("From Coq Require Import ZArith List.\nImport ListNotations.\n"
                    "From OV Require Import Run.\nOpen Scope Z_scope.\n"
                    "Eval vm_compute in (run_wire [" + "; ".join(map(str, toks)) + "]).\n")
        files.append(fn)
    procs = []
    results = []
    outs = []
    for k in range(0, len(files), NCPU):
        batch = [
            subprocess.Popen(["bash", "-c", 'ulimit -s unlimited 2>/dev/null; exec timeout 600 coqc -Q "$0" OV "$1"', COQ, fn],
                             stdout=subprocess.PIPE, stderr=subprocess.PIPE, text=True, cwd=tmpd)
            for fn in files[k:k + NCPU]
        ]
        for p in batch:
            o, e = p.communicate()
            if p.returncode != 0:
                raise RuntimeError("coqc failed on cases file: " + e[-500:])
            outs.append(o)
    for o in outs:
        m = re.search(r"=\s*\[(.*?)\]\s*:\s*list Z", o, flags=re.S)
        if not m:
            raise RuntimeError("cannot parse coqc output: " + o[:300])
        toks = [int(x) for x in re.findall(r"-?\d+", m.group(1))]
        results.extend(wire_dec_all(toks))
    for fn in files:
        for ext in ("", "o", "os", "ok"):
            try:
                os.remove(fn + ext)
            except OSError:
                pass
        base = fn[:-2]
        for ext in (".glob", ".aux"):
            try:
                os.remove(base + ext)
            except OSError:
                pass
        try:
            os.remove(os.path.join(os.path.dirname(fn), "." + os.path.basename(base) + ".aux"))
        except OSError:
            pass
    if len(results) != len(cases):
        raise RuntimeError(f"coq returned {len(results)} results for {len(cases)} cases")
    return results


# ----------------------------------------------------------------------------
# proof transcript
# ----------------------------------------------------------------------------
STMT_RE = re.compile(r"^\s*(Theorem|Lemma|Corollary|Example|Fact|Remark|Proposition)\s+([A-Za-z0-9_']+)",
                     re.M)


def coq_deps(vfile):
    """transitive OV dependencies of a .v file inside /verif/coq (by Require)"""
    seen = []
    todo = [vfile]
    while todo:
        f = todo.pop()
        if f in seen or not os.path.exists(f):
            continue
        seen.append(f)
        txt = open(f).read()
        for m in re.finditer(r"From\s+OV\s+Require\s+(?:Import\s+|Export\s+)?(.*?)\.\s*$", txt,
                             flags=re.M | re.S):
            for mod in m.group(1).split():
                todo.append(os.path.join(COQ, mod.replace(".", "/") + ".v"))
    return seen


def proof_transcript(pid):
    """Recompile Properties/<pid>.v and parse the Print Assumptions output.
    Returns dict with theorems, per-theorem assumptions, obligations, discharged."""
    vf = os.path.join(COQ, "Properties", f"{pid}.v")
    res = {"file": os.path.relpath(vf, ROOT), "ok": False, "theorems": [], "assumptions": {},
           "obligations": 0, "discharged": 0, "error": "", "bad_axioms": []}
    if not os.path.exists(vf):
        res["error"] = "no properties file"
        return res
    deps = coq_deps(vf)
    n_obl = 0
    n_dis = 0
    for d in deps:
        names = STMT_RE.findall(re.sub(r"\(\*.*?\*\)", "", open(d).read(), flags=re.S))
        n_obl += len(names)
        vo = d[:-2] + ".vo"
        if os.path.exists(vo) and os.path.getmtime(vo) >= os.path.getmtime(d):
            n_dis += len(names)
    res["obligations"] = n_obl
    res["discharged"] = n_dis
    res["dep_files"] = [os.path.relpath(d, ROOT) for d in deps]
    txt = re.sub(r"\(\*.*?\*\)", "", open(vf).read(), flags=re.S)
    thms = [n for _, n in STMT_RE.findall(txt)]
    res["theorems"] = thms
    tmpd = os.path.join(ROOT, "out", f"prop_{pid}_{os.getpid()}")
    os.makedirs(tmpd, exist_ok=True)
    r = _run(["timeout", "900", "coqc", "-Q", COQ, "OV", "-o", os.path.join(tmpd, f"{pid}.vo"), vf],
             cwd=COQ, timeout=1000)
    out = r.stdout
    import shutil
    shutil.rmtree(tmpd, ignore_errors=True)
    if r.returncode != 0:
        res["error"] = (r.stdout + r.stderr)[-3000:]
        m = re.search(r'File "[^"]*", line (\d+)', r.stderr)
        if m:
            # which theorem is around that line
            line = int(m.group(1))
            src = open(vf).read().split("\n")
            for i in range(min(line, len(src)) - 1, -1, -1):
                mm = STMT_RE.match(src[i])
                if mm:
                    res["failed_theorem"] = mm.group(2)
                    break
        return res
    # Print Assumptions blocks, in order
    blocks = re.split(r"(?=Closed under the global context|Axioms:)", out)
    blocks = [b for b in blocks if b.startswith("Closed under") or b.startswith("Axioms:")]
    pa = re.findall(r"Print\s+Assumptions\s+([A-Za-z0-9_']+)\s*\.", txt)
    for name, b in zip(pa, blocks):
        if b.startswith("Closed under"):
            res["assumptions"][name] = []
        else:
            axs = re.findall(r"^([A-Za-z0-9_.']+)\s*:", b, flags=re.M)
            res["assumptions"][name] = axs
            for a in axs:
                if a not in ALLOWED_AXIOMS:
                    res["bad_axioms"].append(f"{name}: {a}")
    if len(pa) != len(blocks):
        res["error"] = f"Print Assumptions count mismatch ({len(pa)} vs {len(blocks)})"
        return res
    missing = [t for t in thms if t not in pa and not t.endswith("_nonvacuous") and
               not t.startswith("ex_")]
    if missing:
        res["error"] = "theorems without Print Assumptions: " + ", ".join(missing)
        return res
    res["ok"] = not res["bad_axioms"]
    return res


# ----------------------------------------------------------------------------
# known findings
# ----------------------------------------------------------------------------
def load_known_findings(pid):
    p = os.path.join(ROOT, "known_findings.json")
    if not os.path.exists(p):
        return []
    kf = json.load(open(p))
    return [f for f in kf.get("findings", []) if f["property"] == pid]


# ----------------------------------------------------------------------------
# check context
# ----------------------------------------------------------------------------
class Check:
    """One run of one property's check."""

    def __init__(self, pid, argv=None):
        import argparse
        ap = argparse.ArgumentParser()
        ap.add_argument("--tier", default=os.environ.get("VERIF_TIER", "quick"))
        ap.add_argument("--replay", default=None)
        ap.add_argument("--seed", type=int, default=None)
        a = ap.parse_args(argv)
        self.pid = pid
        self.tier = "thorough" if a.tier == "thorough" else "quick"
        self.replay = a.replay
        seed = a.seed if a.seed is not None else os.environ.get("VERIF_SEED", "0")
        try:
            self.seed = int(seed)
        except ValueError:
            self.seed = int(hashlib.sha256(str(seed).encode()).hexdigest()[:8], 16)
        self.rng = random.Random(self.seed * 1000003 + int(pid[1:]))
        self.t0 = time.time()
        self.violations = []  # (replay_path, found_input:bool)
        self.known_hits = {}
        self.known = load_known_findings(pid)
        self.coverage = {"evaluations": 0, "distinct_nontrivial": 0, "rule": "", "samples": []}
        self.assumptions = []
        self.notes = []
        self._distinct = set()
        self.build = None
        self.proof = None
        os.makedirs(os.path.join(ROOT, "out", "replay"), exist_ok=True)
        if not self.replay:
            import glob
            for f in glob.glob(os.path.join(ROOT, "out", "replay", f"{self.pid}_{self.tier}_*.json")):
                try:
                    os.remove(f)
                except OSError:
                    pass
        os.makedirs(os.path.join(ROOT, "evidence"), exist_ok=True)

    # -- bookkeeping
    def count(self, case_key, nontrivial=True):
        self.coverage["evaluations"] += 1
        if nontrivial:
            self._distinct.add(hashlib.md5(repr(case_key).encode()).digest())

    def sample(self, s, limit=5):
        if len(self.coverage["samples"]) < limit:
            self.coverage["samples"].append(s)

    def hist(self, name, key):
        h = self.coverage.setdefault("distribution", {}).setdefault(name, {})
        h[str(key)] = h.get(str(key), 0) + 1

    # -- reporting
    def violation(self, what, replay_obj, found_input=True):
        n = len(self.violations)
        path = os.path.join(ROOT, "out", "replay", f"{self.pid}_{self.tier}_{n}.json")
        obj = {"property": self.pid, "what": what, "seed": self.seed, "tier": self.tier,
               "found_failing_input": found_input, "replay": replay_obj}
        if n < MAX_REPLAY_FILES:
            with open(path, "w") as f:
                json.dump(obj, f, indent=1, default=repr)
        else:  # (counted, but not every one of thousands of failing inputs is kept as a file)
            path = self.violations[MAX_REPLAY_FILES - 1][0]
        self.violations.append((path, found_input, what))
        if found_input:
            self._print_violation(path, True, what)
        # a broken correspondence / proof without a concrete failing input is
        # only reported (in finish) when the whole run found no failing input

    def _print_violation(self, path, found_input, what):
        self._printed = getattr(self, "_printed", 0) + 1
        if self._printed <= 20:
            tail = "" if found_input else " no-failing-input-found"
            print(f"VIOLATION property={self.pid} replay={path}{tail}", flush=True)
            print(f"  ({what})", flush=True)

    def known_finding(self, fid, what):
        if fid not in self.known_hits:
            self.known_hits[fid] = 0
            print(f"KNOWN-FINDING: property={self.pid} {what}", flush=True)
        self.known_hits[fid] += 1

    def match_known(self, tags):
        """tags: set of strings describing the failing case; a finding matches
        if its 'match' list is a subset of the tags"""
        for f in self.known:
            if set(f["match"]) <= set(tags):
                return f
        return None

    # -- standard prologue: build + proof transcript
    def prologue(self):
        self.build = ensure_build()
        b = self.build
        if b.forbidden:
            self.violation("forbidden construct in Coq sources: " + "; ".join(b.forbidden[:5]),
                           {"broken": "source gate", "items": b.forbidden}, found_input=False)
        if not b.translate_ok:
            self.note_broken("translator failed (tie to source broken): " + b.translate_msg)
        self.proof = proof_transcript(self.pid)
        return b

    def note_broken(self, msg):
        self.notes.append(msg)
        self.broken = getattr(self, "broken", []) + [msg]

    def proof_ok(self):
        return self.proof is not None and self.proof["ok"] and self.proof[
            "obligations"] == self.proof["discharged"]

    def model_available(self):
        return self.build.driver_ok and os.path.exists(os.path.join(COQ, "Run.vo")) and \
            os.path.getmtime(os.path.join(COQ, "Run.vo")) >= os.path.getmtime(os.path.join(COQ, "Generated.v"))

    def finish(self, trusted_base, rule, checker_note=""):
        """Write evidence, print summary, exit."""
        # a broken proof/tie with no concrete input found -> still a violation
        broken = list(getattr(self, "broken", []))
        if self.proof is not None and not self.proof_ok():
            msg = "proof obligations not discharged: " + (
                self.proof.get("failed_theorem") or self.proof.get("error", "")[-300:] or
                "; ".join(self.proof.get("bad_axioms", [])) or
                f"{self.proof['discharged']}/{self.proof['obligations']}")
            broken.append(msg)
        if broken and not any(v[1] for v in self.violations):
            self.violation("; ".join(broken)[:1500],
                           {"broken": broken, "proof": self.proof,
                            "build_log": self.build.log[-3000:] if self.build else ""},
                           found_input=False)
        if self.violations and not any(v[1] for v in self.violations):
            for path, fi, what in self.violations:
                self._print_violation(path, False, what)
        cov = self.coverage
        cov["distinct_nontrivial"] = len(self._distinct)
        cov["rule"] = rule
        pr = self.proof or {"obligations": 0, "discharged": 0, "theorems": [], "assumptions": {}}
        cov["obligations"] = pr["obligations"]
        cov["discharged"] = pr["discharged"] if not broken else min(pr["discharged"], max(0, pr["obligations"] - 1))
        cov["checker_cmd"] = (f"cd /verif/coq && make -k -j{NCPU} (coqc 8.16.1, full .vo) && "
                              f"coqc -Q . OV Properties/{self.pid}.v  # Print Assumptions transcript"
                              + checker_note)
        cov["trusted_base"] = trusted_base
        cov["theorems"] = pr.get("theorems", [])
        cov["print_assumptions"] = {k: (v or "Closed under the global context")
                                    for k, v in pr.get("assumptions", {}).items()}
        cov["proof_files"] = pr.get("dep_files", [])
        cov["known_findings_hit"] = self.known_hits
        cov["notes"] = self.notes
        ev = {
            "property_id": self.pid,
            "tier": self.tier,
            "seed": self.seed,
            "level": "proof",
            "coverage": cov,
            "assumptions": self.assumptions,
            "wall_s": round(time.time() - self.t0, 2),
            "violations": len(self.violations),
        }
        with open(os.path.join(ROOT, "evidence", f"{self.pid}.json"), "w") as f:
            json.dump(ev, f, indent=1, default=repr)
        print(f"[{self.pid}] tier={self.tier} seed={self.seed} evaluations={cov['evaluations']} "
              f"distinct={cov['distinct_nontrivial']} obligations={cov['obligations']} "
              f"discharged={cov['discharged']} violations={len(self.violations)} "
              f"wall={ev['wall_s']}s", flush=True)
        sys.exit(1 if self.violations else 0)


def run_impl_worker(script, payload, timeout=600, extra_env=None):
    """Run harness/<script> under /venv python with PYTHONPATH=/repo; JSON in/out."""
    env = impl_env()
    if extra_env:
        env.update(extra_env)
    r = _run([PY, os.path.join(ROOT, "harness", script)], env=env, input=json.dumps(payload),
             timeout=timeout)
    if r.returncode != 0:
        raise RuntimeError(f"{script} failed: {r.stderr[-2000:]}")
    return json.loads(r.stdout)
