"""C11 -- writing a database to PDX and loading it back preserves it.

Theorems: coq/Properties/C11.v (text layer: escaping round trip for element text and attribute
values, refutation of the unescaped attribute writer; order independence of the assembled
database; the coverage obligation "every tag / attribute the parsers read occurs in a template",
regenerated from the sources).  Tie: (a) correspondence of Model/Xml.v's escape / unescape with
markupsafe (jinja's |e), xml.sax.saxutils.escape (make_xml_attrib) and the ElementTree parser on
generated strings; (b) the enumeration the property asks for: every dataclass field of every
element class reachable in the base databases set to a non-default value (XML metacharacters
included) -> write -> load -> compare the dataclass trees, write again -> compare the ODX
members, encode / decode behaviour, file orders and load entry points.
"""
import dataclasses
import enum
import io
import json
import os
import shutil
import tempfile
import typing
import xml.etree.ElementTree as ET
import zipfile

import codec_common as cc
import common
import hier_common as hc
from common import Check

M = 11
META = "P<&>\"'q"       # every XML metacharacter
TAME = "Pq7"
SCRATCH = None


# ---------------------------------------------------------------- object graph
SKIP_CLASSES = {"OdxLinkId", "OdxLinkRef", "OdxDocFragment"}
SKIP_FIELDS = {"short_name", "odx_id"}
# fields which are not described by the element itself but follow from the tag name / the class which
# the parser chose: setting them alone makes the object inconsistent, a writer cannot preserve that
TAG_DETERMINED = {
    "variant_type": "the tag of the layer (BASE-VARIANT, ECU-VARIANT, ...) determines it",
    "response_type": "the tag of the response (POS-RESPONSE, NEG-RESPONSE, GLOBAL-NEG-RESPONSE) determines it",
    "category": "the compu method class is chosen by CATEGORY; changing the field alone contradicts the class",
}


# fields which record the mere presence of an empty tag: False is not a describable value
PRESENCE_ONLY = {("EnvironmentData", "all_value"): "<ALL-VALUE/> is present or absent"}


def contextual_fields(cls):
    """fields which from_et receives from the enclosing element (extra parameters of from_et: the data types a compu
    method, scale, limit or constant is interpreted with): not independently described either"""
    import inspect
    out = set()
    for k in cls.__mro__:
        for nm, fn in list(k.__dict__.items()):
            if not nm.endswith("from_et"):
                continue
            fn = getattr(fn, "__func__", fn)
            try:
                ps = list(inspect.signature(fn).parameters)
            except Exception:  # noqa
                continue
            out |= {x for x in ps if x not in ("et_element", "doc_frags", "cls", "self", "et", "doc_fragments")}
    return out


def is_dc(o):
    return dataclasses.is_dataclass(o) and not isinstance(o, type)


def children(o):
    """(path element, child) of a node of the described tree"""
    if is_dc(o):
        for f in dataclasses.fields(o):
            yield f.name, getattr(o, f.name, None)
    elif isinstance(o, (list, tuple)) or type(o).__name__ == "NamedItemList":
        for i, x in enumerate(o):
            yield i, x
    elif isinstance(o, dict):
        for k in o:
            yield k, o[k]


def walk(o, path, visit, seen):
    if is_dc(o):
        if id(o) in seen or type(o).__name__ in SKIP_CLASSES:
            return
        seen.add(id(o))
        visit(o, path)
    for k, ch in children(o):
        if is_dc(ch) or isinstance(ch, (list, tuple, dict)) or type(ch).__name__ == "NamedItemList":
            walk(ch, path + (k,), visit, seen)


def roots(db):
    return [("containers", sorted(db.diag_layer_containers, key=lambda x: x.short_name)),
            ("comparam_subsets", sorted(db.comparam_subsets, key=lambda x: x.short_name)),
            ("comparam_specs", sorted(db.comparam_specs, key=lambda x: x.short_name))]


def diff(a, b, path=()):
    """first difference between two described trees, or None"""
    if is_dc(a) or is_dc(b):
        if type(a).__name__ != type(b).__name__:
            return path, f"{type(a).__name__} vs {type(b).__name__}"
        for f in dataclasses.fields(a):
            if not f.compare:
                continue
            d = diff(getattr(a, f.name, None), getattr(b, f.name, None), path + (f.name,))
            if d:
                return d
        return None
    la = isinstance(a, (list, tuple)) or type(a).__name__ == "NamedItemList"
    lb = isinstance(b, (list, tuple)) or type(b).__name__ == "NamedItemList"
    if la or lb:
        if not (la and lb) or len(a) != len(b):
            return path, f"list of {len(a) if la else a!r} vs {len(b) if lb else b!r}"
        for i, (x, y) in enumerate(zip(a, b)):
            d = diff(x, y, path + (i,))
            if d:
                return d
        return None
    if isinstance(a, dict) and isinstance(b, dict):
        if sorted(map(str, a)) != sorted(map(str, b)):
            return path, "dict keys differ"
        for k in a:
            d = diff(a[k], b[k], path + (k,))
            if d:
                return d
        return None
    if isinstance(a, float) and isinstance(b, float) and a != a and b != b:
        return None
    if type(a) != type(b) and not (isinstance(a, (bytes, bytearray)) and isinstance(b, (bytes, bytearray))):
        return path, f"{a!r} ({type(a).__name__}) vs {b!r} ({type(b).__name__})"
    if a != b:
        return path, f"{a!r} vs {b!r}"
    return None


def db_diff(db1, db2):
    for (n, r1), (_, r2) in zip(roots(db1), roots(db2)):
        d = diff(list(r1), list(r2), (n,))
        if d:
            return d
    return None


# ---------------------------------------------------------------- write / load
def write(db, name):
    from odxtools.writepdxfile import write_pdx_file
    p = os.path.join(SCRATCH, name)
    write_pdx_file(p, db)
    return p


def load(p):
    import odxtools
    return odxtools.load_pdx_file(p)


def odx_members(p):
    z = zipfile.ZipFile(p)
    return {n: z.read(n) for n in z.namelist() if ".odx" in n and "jinja" not in n}


def roundtrip(db, tag):
    """-> (db2, error class, error text)"""
    from odxtools.exceptions import OdxError
    try:
        p = write(db, f"{tag}.pdx")
    except Exception as e:  # noqa
        return None, "write:" + type(e).__name__, str(e)[:200]
    try:
        return load(p), None, p
    except ET.ParseError as e:
        return None, "parse", str(e)[:200]
    except Exception as e:  # noqa
        return None, "load:" + type(e).__name__, str(e)[:200]


# ---------------------------------------------------------------- perturbation
def hints_of(cls):
    try:
        return typing.get_type_hints(cls)
    except Exception:  # noqa
        return {}


def strip_optional(t):
    if typing.get_origin(t) is typing.Union:
        args = [a for a in typing.get_args(t) if a is not type(None)]
        if len(args) == 1:
            return args[0], True
    return t, False


def candidates(t, old, markup=False):
    """non-default values of type t different from old, each a list of alternatives tried in turn until the loader
    accepts one: [[v, fallback, ...], ...]; [] if the type is not perturbed"""
    base, opt = strip_optional(t)
    if base is str and markup:
        return [["<p>P &amp; q &lt; r</p>", "<p>Pq7</p>", "Pq7"]]
    if base is str:
        return [[x for x in (META, TAME, "7") if x != old]]
    if base is bool:
        return [[v] for v in (True, False) if v is not old]
    if base is int:
        out = [[(old + 1) if isinstance(old, int) else 1]]
        if old != 0:
            out.append([0])          # falsy, but not absent
        return out
    if base is float:
        out = [[(old + 0.5) if isinstance(old, (int, float)) else 1.5]]
        if old != 0.0:
            out.append([0.0])
        return out
    if isinstance(base, type) and issubclass(base, enum.Enum):
        ms = list(base)
        if len(ms) < 2:
            return []
        return [[ms[(ms.index(old) + 1) % len(ms)] if old in ms else ms[0]]]
    return []


def perturbed(t, old, variant, markup=False):
    c = candidates(t, old, markup)
    return (bool(c), c[0][0] if c else None)


def field_table(db):
    """(class name, field) -> list of (object, path) over the described trees of db"""
    tab = {}

    def visit(o, path):
        cls = type(o)
        hints = hints_of(cls)
        ctx = contextual_fields(cls)
        for f in dataclasses.fields(o):
            if f.name in SKIP_FIELDS or f.name.startswith("_") or f.name.endswith("_snref") or f.name.endswith("snrefs") \
                    or f.name.endswith("_snpathref"):
                continue
            if (cls.__name__, f.name) in PRESENCE_ONLY:
                continue
            if f.name in TAG_DETERMINED or f.name in ctx:
                continue
            t = hints.get(f.name)
            if t is None:
                continue
            ok, _ = perturbed(t, getattr(o, f.name, None), 0)
            if ok:
                tab.setdefault((cls.__name__, f.name), []).append((o, path, t))

    seen = set()
    for n, r in roots(db):
        walk(list(r), (n,), visit, seen)
    return tab


# ---------------------------------------------------------------- base databases
def base_databases(rng, quick):
    import odxtools
    out = [("somersault", lambda: odxtools.load_pdx_file(common.REPO + "/examples/somersault.pdx")),
           ("somersault_modified", lambda: odxtools.load_pdx_file(common.REPO + "/examples/somersault_modified.pdx"))]
    import c10
    import random
    for k in range(1 if quick else 4):
        seed = rng.randrange(1 << 30)

        def mk(seed=seed):
            r = random.Random(seed)
            # the writer drops DOCREF / DOCTYPE of all but PARENT-, IMPORT- and COMPARAM- references (known finding
            # docref-dropped, probed separately): the generated link databases use fragment-relative references
            c10.DOCREFS[0] = False
            try:
                for _ in range(200):
                    c = c10.gen_case(r, fault=None, big=True)
                    if len(c.conts) != 1:
                        continue
                    err, db = c10.impl_load(c)
                    if db is not None:
                        return db
            finally:
                c10.DOCREFS[0] = True
            raise RuntimeError("no loadable generated database")
        out.append((f"links{k}", mk))
    for k in range(1 if quick else 4):
        seed = rng.randrange(1 << 30)

        def mk2(seed=seed):
            r = random.Random(seed)
            for _ in range(50):
                msgs = []
                for i in range(4):
                    g = cc.Gen(r)
                    is_resp = i % 2 == 1
                    msgs.append((f"m{i}", g.params(0, response=is_resp), is_resp))
                try:
                    return hc.load_docs([cc.emit_document(msgs)])
                except Exception:  # noqa
                    continue
            raise RuntimeError("no loadable codec database")
        out.append((f"codec{k}", mk2))
    import c15
    if hasattr(c15, "emit"):
        pass
    out.append(("extras", lambda: hc.load_docs([open(os.path.join(os.path.dirname(os.path.abspath(__file__)), "c11_extra.xml")).read()])))
    def mk_extras2():
        from odxtools.database import Database
        db = Database()
        db.add_auxiliary_file("lib.jar", io.BytesIO(b"library"))
        db._process_xml_tree(ET.fromstring(open(os.path.join(os.path.dirname(os.path.abspath(__file__)), "c11_extra2.xml")).read()))
        db.refresh()
        return db
    out.append(("extras2", mk_extras2))

    def mk_extras3():
        from odxtools.database import Database
        db = Database()
        db.add_auxiliary_file("lib.jar", io.BytesIO(b"library"))
        db.add_auxiliary_file("job.jar", io.BytesIO(b"job"))
        db._process_xml_tree(ET.fromstring(open(os.path.join(os.path.dirname(os.path.abspath(__file__)), "c11_extra3.xml")).read()))
        db.refresh()
        return db
    out.append(("extras3", mk_extras3))
    out.append(("comparams", lambda: hc.load_docs([hc.cpsubset_doc(), hc.cpsubset2_doc(), hc.cpspec_doc()])))
    # inheritance across containers (the inheriting layer's document sorts first), and a container without any layer
    out.append(("split", lambda: hc.load_docs([SPLIT_CHILD, SPLIT_PARENT, SPLIT_ADMIN, hc.cpsubset_doc(), hc.cpsubset2_doc(), hc.cpspec_doc()])))
    # two containers from one blueprint: the same local ids name different objects in the two documents
    out.append(("twins", lambda: hc.load_docs([TWIN.format(name="alpha", bits=8, sid=0x22),
                                              TWIN.format(name="beta", bits=24, sid=0x2e)])))
    return out


_HD = '<?xml version="1.0" encoding="UTF-8"?><ODX MODEL-VERSION="2.2.0" xmlns:xsi="http://www.w3.org/2001/XMLSchema-instance">'
SPLIT_PARENT = (_HD + '<DIAG-LAYER-CONTAINER ID="DLC.zparent"><SHORT-NAME>zparent</SHORT-NAME><BASE-VARIANTS>'
                '<BASE-VARIANT ID="BVP"><SHORT-NAME>BVP</SHORT-NAME><COMPARAM-REFS>'
                '<COMPARAM-REF ID-REF="CPSUB.CP_Baudrate" DOCREF="CPSUB" DOCTYPE="COMPARAM-SUBSET"><SIMPLE-VALUE>250000</SIMPLE-VALUE></COMPARAM-REF>'
                '<COMPARAM-REF ID-REF="CPSUB.CP_CanFuncReqId" DOCREF="CPSUB" DOCTYPE="COMPARAM-SUBSET"><SIMPLE-VALUE>2015</SIMPLE-VALUE></COMPARAM-REF>'
                '</COMPARAM-REFS></BASE-VARIANT></BASE-VARIANTS></DIAG-LAYER-CONTAINER></ODX>')
SPLIT_CHILD = (_HD + '<DIAG-LAYER-CONTAINER ID="DLC.achild"><SHORT-NAME>achild</SHORT-NAME><ECU-VARIANTS>'
               '<ECU-VARIANT ID="EVC"><SHORT-NAME>EVC</SHORT-NAME><COMPARAM-REFS>'
               '<COMPARAM-REF ID-REF="CPSUB.CP_CanFuncReqId" DOCREF="CPSUB" DOCTYPE="COMPARAM-SUBSET"><SIMPLE-VALUE>2016</SIMPLE-VALUE></COMPARAM-REF>'
               '</COMPARAM-REFS><PARENT-REFS><PARENT-REF ID-REF="BVP" DOCREF="zparent" DOCTYPE="CONTAINER" xsi:type="BASE-VARIANT-REF"/>'
               '</PARENT-REFS></ECU-VARIANT></ECU-VARIANTS></DIAG-LAYER-CONTAINER></ODX>')
SPLIT_ADMIN = (_HD + '<DIAG-LAYER-CONTAINER ID="DLC.madmin"><SHORT-NAME>madmin</SHORT-NAME><LONG-NAME>administrative data only</LONG-NAME>'
               '<ADMIN-DATA><LANGUAGE>en</LANGUAGE></ADMIN-DATA></DIAG-LAYER-CONTAINER></ODX>')
TWIN = ('<?xml version="1.0" encoding="UTF-8"?><ODX MODEL-VERSION="2.2.0" xmlns:xsi="http://www.w3.org/2001/XMLSchema-instance">'
 '<DIAG-LAYER-CONTAINER ID="DLC.{name}"><SHORT-NAME>{name}</SHORT-NAME><BASE-VARIANTS><BASE-VARIANT ID="BV"><SHORT-NAME>{name}_bv</SHORT-NAME>'
 '<DIAG-DATA-DICTIONARY-SPEC><DATA-OBJECT-PROPS>'
 '<DATA-OBJECT-PROP ID="DOP.value"><SHORT-NAME>value</SHORT-NAME><COMPU-METHOD><CATEGORY>IDENTICAL</CATEGORY></COMPU-METHOD>'
 '<DIAG-CODED-TYPE BASE-DATA-TYPE="A_UINT32" xsi:type="STANDARD-LENGTH-TYPE"><BIT-LENGTH>{bits}</BIT-LENGTH></DIAG-CODED-TYPE>'
 '<PHYSICAL-TYPE BASE-DATA-TYPE="A_UINT32"/></DATA-OBJECT-PROP></DATA-OBJECT-PROPS></DIAG-DATA-DICTIONARY-SPEC>'
 '<DIAG-COMMS><DIAG-SERVICE ID="DS.read"><SHORT-NAME>read</SHORT-NAME><REQUEST-REF ID-REF="RQ.read"/>'
 '<POS-RESPONSE-REFS><POS-RESPONSE-REF ID-REF="PR.read"/></POS-RESPONSE-REFS></DIAG-SERVICE></DIAG-COMMS>'
 '<REQUESTS><REQUEST ID="RQ.read"><SHORT-NAME>read_rq</SHORT-NAME><PARAMS>'
 '<PARAM SEMANTIC="SERVICE-ID" xsi:type="CODED-CONST"><SHORT-NAME>sid</SHORT-NAME><BYTE-POSITION>0</BYTE-POSITION><CODED-VALUE>{sid}</CODED-VALUE>'
 '<DIAG-CODED-TYPE BASE-DATA-TYPE="A_UINT32" xsi:type="STANDARD-LENGTH-TYPE"><BIT-LENGTH>8</BIT-LENGTH></DIAG-CODED-TYPE></PARAM>'
 '<PARAM xsi:type="VALUE"><SHORT-NAME>value</SHORT-NAME><BYTE-POSITION>1</BYTE-POSITION><DOP-REF ID-REF="DOP.value"/></PARAM>'
 '</PARAMS></REQUEST></REQUESTS>'
 '<POS-RESPONSES><POS-RESPONSE ID="PR.read"><SHORT-NAME>read_pr</SHORT-NAME><PARAMS>'
 '<PARAM SEMANTIC="SERVICE-ID" xsi:type="CODED-CONST"><SHORT-NAME>sid</SHORT-NAME><BYTE-POSITION>0</BYTE-POSITION><CODED-VALUE>{sid}</CODED-VALUE>'
 '<DIAG-CODED-TYPE BASE-DATA-TYPE="A_UINT32" xsi:type="STANDARD-LENGTH-TYPE"><BIT-LENGTH>8</BIT-LENGTH></DIAG-CODED-TYPE></PARAM>'
 '<PARAM xsi:type="VALUE"><SHORT-NAME>value</SHORT-NAME><BYTE-POSITION>1</BYTE-POSITION><DOP-REF ID-REF="DOP.value"/></PARAM>'
 '</PARAMS></POS-RESPONSE></POS-RESPONSES>'
 '</BASE-VARIANT></BASE-VARIANTS></DIAG-LAYER-CONTAINER></ODX>')


def check_write_history(ck, bname, pdx):
    """What is written depends on the database only, not on what this process wrote before: the same description in
    containers of other names (documents renamed on the XML level, DOCREFs following) is written after the original
    and must come back as itself."""
    import odxtools
    z = zipfile.ZipFile(pdx)
    names = [n for n in z.namelist() if not n.endswith(".jinja2.orig")]
    trees, ren = {}, {}
    for n in names:
        if ".odx" not in n:
            continue
        t = ET.fromstring(z.read(n))
        trees[n] = t
        c = t.find("DIAG-LAYER-CONTAINER")
        if c is not None:
            # (a leading underscore is legal in an ODX short name; the document is then written as "_<name>.odx-d")
            ren[c.findtext("SHORT-NAME")] = "_" + c.findtext("SHORT-NAME") + "_h"
    if not ren:
        return
    d = os.path.join(SCRATCH, "hist")
    shutil.rmtree(d, ignore_errors=True)
    os.makedirs(d)
    files = []
    for n, t in trees.items():
        c = t.find("DIAG-LAYER-CONTAINER")
        if c is not None:
            c.find("SHORT-NAME").text = ren[c.findtext("SHORT-NAME")]
        for el in t.iter():
            if el.get("DOCTYPE") == "CONTAINER" and el.get("DOCREF") in ren:
                el.set("DOCREF", ren[el.get("DOCREF")])
        fn = os.path.join(d, n)
        ET.ElementTree(t).write(fn, encoding="utf-8", xml_declaration=True)
        files.append(fn)
    for n in names:
        if n not in trees and n != "index.xml":
            with open(os.path.join(d, n), "wb") as f:
                f.write(z.read(n))
    rep = {"base": bname, "history": "original written first, then the same description in renamed containers"}
    ck.count(("history", bname))
    try:
        dbh = odxtools.load_directory(d)
    except Exception as e:  # noqa
        ck.note_broken(f"{bname}: the renamed copy of the written archive does not load: {type(e).__name__}: {e}")
        return
    dbh2, err, info = roundtrip(dbh, "hist")
    if err:
        ck.violation(f"{bname} in renamed containers, written after the original: the archive does not load back ({err}: {info})", rep)
        return
    dd = db_diff(dbh, dbh2)
    if dd:
        ck.violation(f"{bname} in renamed containers, written after the original: reloaded database differs at "
                     f"{'.'.join(map(str, dd[0]))}: {dd[1]}", rep)
        return
    if behaviour(dbh) != behaviour(dbh2):
        ck.violation(f"{bname} in renamed containers, written after the original: the reloaded database encodes / decodes differently", rep)


def behaviour(db):
    """encode / decode behaviour of every service whose request encodes without arguments"""
    out = []
    for dl in db.diag_layers:
        # the communication parameters which apply to the layer (own and inherited)
        cps = getattr(dl, "comparam_refs", None)
        if cps is not None:
            out.append((dl.short_name, "comparams", sorted((cp.spec_ref.ref_id, repr(cp.protocol_snref), repr(cp.value)) for cp in cps)))
        for svc in dl.services:
            r, e, _ = cc.guarded(lambda: bytes(svc.encode_request()), timeout=5)
            if e is not None:
                out.append((dl.short_name, svc.short_name, "E", type(e).__name__))
                continue
            d, e2, _ = cc.guarded(lambda: [(m.service.short_name, repr(cc.canon_value(m.param_dict))) for m in dl.decode(r)], timeout=5)
            out.append((dl.short_name, svc.short_name, r.hex(), d if e2 is None else type(e2).__name__))
    # (the order of db.diag_layers follows the order in which the documents were read; it is no behaviour of a layer)
    return sorted(out, key=repr)


# ---------------------------------------------------------------- text layer
def text_cases(rng, n):
    alpha = ["&", "<", ">", '"', "'", "a", "b", ";", "#", "3", "4", "9", "l", "t", "g", "m", "p", "q", "u", "o", "s", " ", "é", "€"]
    out = ["", "&", "&amp;", "&#34;", "<a>", "]]>", "a&b<c>\"d'", "&&;;", "&lt", "&#38;#38;"]
    for _ in range(n):
        out.append("".join(rng.choice(alpha) for _ in range(rng.randint(0, 12))))
    return out


def impl_text(s):
    import markupsafe
    from xml.sax.saxutils import escape as sax_escape
    from odxtools.writepdxfile import make_xml_attrib
    e1 = str(markupsafe.escape(s))
    attr = make_xml_attrib("A", s)
    el = ET.fromstring(f"<r{attr}>{e1}</r>")
    return dict(esc=e1, attr=attr, text_back=el.text or "", attr_back=el.attrib.get("A"))


def main(argv=None):
    global SCRATCH
    import warnings
    warnings.simplefilter("ignore")
    ck = Check("C11", argv)
    ck.prologue()
    rng = ck.rng
    quick = ck.tier == "quick"
    SCRATCH = tempfile.mkdtemp(prefix="c11_", dir=os.environ.get("VERIF_SCRATCH", "/var/tmp"))
    try:
        run(ck, rng, quick)
    finally:
        shutil.rmtree(SCRATCH, ignore_errors=True)


def run(ck, rng, quick):
    # ---- (a) text layer: model vs markupsafe / saxutils / ElementTree
    texts = text_cases(rng, 150 if quick else 2000)
    wires = [[M, [1, [ord(ch) for ch in s]]] for s in texts]
    mres = None
    if ck.model_available():
        try:
            mres = common.run_model_ocaml(wires, chunk=200)
            pick = sorted(rng.sample(range(len(wires)), min(len(wires), 40 if quick else 200)))
            cres = common.run_model_coq([wires[i] for i in pick], tag="c11", chunk=40)
            if any(x != mres[i] for i, x in zip(pick, cres)):
                ck.note_broken("extracted model and vm_compute disagree")
            ck.coverage["evaluated_in_coq"] = len(pick)
        except Exception as e:  # noqa
            ck.note_broken(f"model execution failed: {e}")
    else:
        ck.note_broken("model not built")
    for i, s in enumerate(texts):
        ck.count(("text", s), nontrivial=any(ch in s for ch in "&<>\"'"))
        try:
            r = impl_text(s)
        except Exception as e:  # noqa
            ck.violation(f"text {s!r}: written element does not parse: {type(e).__name__}: {e}", {"text": s})
            continue
        if r["text_back"] != s or r["attr_back"] != s:
            ck.violation(f"text {s!r} comes back as element text {r['text_back']!r} / attribute value {r['attr_back']!r}", {"text": s})
            continue
        if mres is not None:
            m = mres[i]
            mesc = "".join(map(chr, m[0]))
            mattr = "".join(map(chr, m[1]))
            back = [None if x == [] else "".join(map(chr, x[0])) for x in (m[2], m[3])]
            if mesc != r["esc"] or f' A="{mattr}"' != r["attr"] or back != [s, s]:
                ck.violation(f"implementation and model disagree on {s!r}: impl {r} model {[mesc, mattr, back]}",
                             {"text": s, "broken": "correspondence Xml.escape"}, found_input=False)
    # ---- (b) base databases and perturbations
    tasks = []
    if ck.replay:
        rp = json.load(open(ck.replay))["replay"]
        only = (rp.get("base"), rp.get("cls"), rp.get("field"), None)
    else:
        only = None
    for bname, mk in base_databases(base_rng(ck.seed, ck.pid), quick):
        if only and only[0] not in (None, bname):
            continue
        try:
            db = mk()
        except Exception as e:  # noqa
            ck.note_broken(f"base database {bname}: {type(e).__name__}: {e}")
            continue
        ck.count(("base", bname))
        db2, err, info = roundtrip(db, "base")
        rep = {"base": bname}
        if err:
            ck.violation(f"{bname}: written archive does not load back ({err}: {info})", rep)
            continue
        d = db_diff(db, db2)
        if d:
            ck.violation(f"{bname}: reloaded database differs at {'.'.join(map(str, d[0]))}: {d[1]}", rep)
            continue
        # second write: identical ODX documents
        p2 = write(db2, "again.pdx")
        m1, m2 = odx_members(info), odx_members(p2)
        bad = [n for n in m1 if m1[n] != m2.get(n)]
        if bad or sorted(m1) != sorted(m2):
            ck.violation(f"{bname}: writing the reloaded database changes the ODX member(s) {bad or sorted(set(m1) ^ set(m2))}", rep)
            continue
        # behaviour
        b1, b2 = behaviour(db), behaviour(db2)
        if b1 != b2:
            k = [x for x, y in zip(b1, b2) if x != y][:1]
            ck.violation(f"{bname}: the reloaded database encodes / decodes differently: {k}", rep)
            continue
        # file orders and entry points
        check_entry_points(ck, rng, bname, db, info, quick)
        check_write_history(ck, bname, info)
        # every dataclass field of every element class
        tab = field_table(db)
        keys = sorted(tab)
        ck.hist("classes", f"{bname}:{len({k[0] for k in keys})} classes/{len(keys)} fields")
        if only and only[1]:
            keys = [k for k in keys if k == (only[1], only[2])]
        for k in keys:
            tasks.append((bname, k[0], k[1]))
    # ---- (c) the perturbations, in parallel worker processes (each builds its own copy of the base databases)
    import multiprocessing as mp
    nproc = 1 if only else min(14, max(1, len(tasks)))
    chunks = [tasks[i::nproc] for i in range(nproc)]
    seed_b = ck.seed
    args = [(seed_b, ck.pid, quick, ch, i) for i, ch in enumerate(chunks) if ch]
    if nproc == 1:
        results = [perturb_worker(a) for a in args]
    else:
        with mp.get_context("fork").Pool(nproc) as pool:
            results = pool.map(perturb_worker, args)
    for res in results:
        for rec in res:
            if rec[0] == "count":
                ck.count(rec[1])
            elif rec[0] == "hist":
                ck.hist(rec[1], rec[2])
            elif rec[0] == "broken":
                ck.note_broken(rec[1])
            else:
                report(ck, set(rec[1]), rec[2], rec[3])
    probes(ck)
    ck.assumptions = [
        "the order of the containers / subsets / specs inside the database object follows the file order; databases are compared with these "
        "lists sorted by short name",
        "a perturbed value which the loader rejects with an ODX error (a value which is not valid for the field) is not a counterexample; "
        "a document which is not well-formed XML is",
        "short names, ids and references are not perturbed (they would change the meaning of other elements)",
    ]
    ck.finish(
        trusted_base=[
            "Coq 8.16.1 kernel; no axioms", "extraction + driver cross-checked with vm_compute",
            "translator: tag / attribute names read by the from_et parsers and occurring in the templates (harness/translate.py)",
            "harness: reflection over dataclass fields, tree comparison, base databases (shipped examples, generated link / codec / comparam documents)",
            "NOT modelled: the jinja templates and from_et parsers themselves (enumerated, not proved)",
        ],
        rule="strings over XML metacharacters for the text layer; per base database: write/load/compare, second write byte equality, encode/decode "
        "behaviour, member orders x 3 load entry points, and every (element class, dataclass field) reachable, set on all instances to a "
        "non-default value (strings: all five metacharacters, then tame values if the loader rejects) -> write -> load -> compare trees; "
        "quick tier samples the (class, field) pairs")


H = ('<?xml version="1.0" encoding="UTF-8"?><ODX MODEL-VERSION="2.2.0" xmlns:xsi="http://www.w3.org/2001/XMLSchema-instance">')


def _dop(i):
    return (f'<DATA-OBJECT-PROP ID="{i}"><SHORT-NAME>{i}</SHORT-NAME><COMPU-METHOD><CATEGORY>IDENTICAL</CATEGORY></COMPU-METHOD>'
            '<DIAG-CODED-TYPE BASE-DATA-TYPE="A_UINT32" xsi:type="STANDARD-LENGTH-TYPE"><BIT-LENGTH>8</BIT-LENGTH></DIAG-CODED-TYPE>'
            '<PHYSICAL-TYPE BASE-DATA-TYPE="A_UINT32"/></DATA-OBJECT-PROP>')


def probes(ck):
    """situations behind the recorded findings, probed on purpose so that they are reported (as findings) while they persist"""
    # 1. a DOCREF to another container on an ordinary reference
    k0 = (H + '<DIAG-LAYER-CONTAINER ID="K0"><SHORT-NAME>K0</SHORT-NAME><BASE-VARIANTS><BASE-VARIANT ID="A"><SHORT-NAME>A</SHORT-NAME>'
          f'<DIAG-DATA-DICTIONARY-SPEC><DATA-OBJECT-PROPS>{_dop("X")}</DATA-OBJECT-PROPS></DIAG-DATA-DICTIONARY-SPEC>'
          '</BASE-VARIANT></BASE-VARIANTS></DIAG-LAYER-CONTAINER></ODX>')
    k1 = (H + '<DIAG-LAYER-CONTAINER ID="K1"><SHORT-NAME>K1</SHORT-NAME><BASE-VARIANTS><BASE-VARIANT ID="B"><SHORT-NAME>B</SHORT-NAME>'
          '<REQUESTS><REQUEST ID="rq"><SHORT-NAME>rq</SHORT-NAME><PARAMS><PARAM xsi:type="VALUE"><SHORT-NAME>p</SHORT-NAME>'
          '<DOP-REF ID-REF="X" DOCREF="K0" DOCTYPE="CONTAINER"/></PARAM></PARAMS></REQUEST></REQUESTS>'
          '</BASE-VARIANT></BASE-VARIANTS></DIAG-LAYER-CONTAINER></ODX>')
    try:
        db = hc.load_docs([k0, k1])
        ck.count(("probe", "docref"))
        db2, err, info = roundtrip(db, "probe")
        d = None if err else db_diff(db, db2)
        if err or d:
            report(ck, {"docref-dropped"}, f"DOP-REF with DOCREF to another container: {err or d}", {"probe": "docref"})
    except Exception as e:  # noqa
        ck.note_broken(f"probe docref: {type(e).__name__}: {e}")
    # 2. a PARENT-REF without DOCREF
    k2 = (H + '<DIAG-LAYER-CONTAINER ID="K0"><SHORT-NAME>K0</SHORT-NAME><BASE-VARIANTS><BASE-VARIANT ID="A"><SHORT-NAME>A</SHORT-NAME>'
          '</BASE-VARIANT></BASE-VARIANTS><ECU-VARIANTS><ECU-VARIANT ID="V"><SHORT-NAME>V</SHORT-NAME><PARENT-REFS>'
          '<PARENT-REF ID-REF="A" xsi:type="BASE-VARIANT-REF"/></PARENT-REFS></ECU-VARIANT></ECU-VARIANTS></DIAG-LAYER-CONTAINER></ODX>')
    try:
        db = hc.load_docs([k2])
        ck.count(("probe", "parent-docref"))
        db2, err, info = roundtrip(db, "probe")
        d = None if err else db_diff(db, db2)
        if err or d:
            report(ck, {"parent-ref-docref-added"}, f"PARENT-REF without DOCREF: {err or d}", {"probe": "parent-docref"})
    except Exception as e:  # noqa
        ck.note_broken(f"probe parent-docref: {type(e).__name__}: {e}")
    # 2b. a PARENT-REF which names its parent by DOCREF=<layer> DOCTYPE="LAYER": whatever form the writer gives the
    # reference, the written PDX loads and the ECU variant still inherits from the same layer
    k2b = k2.replace('<PARENT-REF ID-REF="A" xsi:type', '<PARENT-REF ID-REF="A" DOCREF="A" DOCTYPE="LAYER" xsi:type')
    try:
        db = hc.load_docs([k2b])
        ck.count(("probe", "parent-docref-layer"))
        db2, err, info = roundtrip(db, "probe")
        par = None
        if not err:
            v2 = [dl for dl in db2.diag_layers if dl.short_name == "V"][0]
            par = [pr.layer.short_name for pr in v2.diag_layer_raw.parent_refs]
        if err or par != ["A"]:
            ck.violation(f"PARENT-REF with DOCREF to the parent layer (DOCTYPE LAYER): after writing and loading {err or par} {info if err else ''}",
                         {"probe": "parent-docref-layer", "document": k2b})
        elif db_diff(db, db2):
            report(ck, {"parent-ref-docref-added"}, f"PARENT-REF with DOCTYPE LAYER: {db_diff(db, db2)}", {"probe": "parent-docref-layer"})
    except Exception as e:  # noqa
        ck.note_broken(f"probe parent-docref-layer: {type(e).__name__}: {e}")
    # 2c. free text which spans several lines (special data, descriptions): the writer indents every macro output, which
    # re-indents the continuation lines of the text itself
    k2c = k2.replace('<SHORT-NAME>A</SHORT-NAME>', '<SHORT-NAME>A</SHORT-NAME><SDGS><SDG><SD SI="note">first line\nsecond line</SD></SDG></SDGS>', 1)
    try:
        db = hc.load_docs([k2c])
        ck.count(("probe", "multiline-text"))
        db2, err, info = roundtrip(db, "probe")
        d = None if err else db_diff(db, db2)
        if err or d:
            report(ck, {"multiline-text-indented"}, f"special data whose text spans two lines: {err or d}", {"probe": "multiline-text"})
    except Exception as e:  # noqa
        ck.note_broken(f"probe multiline-text: {type(e).__name__}: {e}")
    # 3. diagnostic variables: the template which writes them has never worked
    try:
        db = hc.load_docs([open(os.path.join(os.path.dirname(os.path.abspath(__file__)), "c11_diagvar.xml")).read()])
        ck.count(("probe", "diag-variables"))
        db2, err, info = roundtrip(db, "probe")
        d = None if err else db_diff(db, db2)
        if err or d:
            report(ck, {"diag-variables-unwritable"}, f"database with DIAG-VARIABLES / VARIABLE-GROUPS: {err or d} {info if err else ''}",
                   {"probe": "diag-variables"})
    except Exception as e:  # noqa
        ck.note_broken(f"probe diag-variables: {type(e).__name__}: {e}")
    # 4. names the parsers read but no template emits
    import translate
    reads, writes, gaps = translate.xml_names()
    still = [g for g in gaps if g in reads and g not in writes]
    if still:
        report(ck, {"unwritten-names"}, f"tags read but never written: {still}", {"probe": "names"})


def base_rng(seed, pid):
    import random
    return random.Random(seed * 7919 + 11)


def perturb_worker(arg):
    """sets one (class, field) at a time on all instances of a base database to each candidate value, writes, loads,
    compares; returns records for the main process"""
    global SCRATCH
    import warnings
    warnings.simplefilter("ignore")
    seed, pid, quick, tasks, wi = arg
    out = []
    SCRATCH_saved = SCRATCH
    SCRATCH = tempfile.mkdtemp(prefix=f"c11w{wi}_", dir=SCRATCH_saved)
    try:
        makers = dict(base_databases(base_rng(seed, pid), quick))
        by_base = {}
        for bname, cls, fname in tasks:
            by_base.setdefault(bname, []).append((cls, fname))
        for bname, keys in by_base.items():
            try:
                db = makers[bname]()
            except Exception as e:  # noqa
                out.append(("broken", f"worker: base database {bname}: {type(e).__name__}: {e}"))
                continue
            tab = field_table(db)
            for cls, fname in keys:
                insts = tab.get((cls, fname))
                if not insts:
                    continue
                markup = cls == "Description" and fname == "text"
                olds = [getattr(o, fname, None) for o, _, _ in insts]
                ncand = max(len(candidates(t, old, markup)) for (_, _, t), old in zip(insts, olds))
                for ci in range(ncand):
                    depth = 0
                    while True:
                        news = []
                        for (o, path, t), old in zip(insts, olds):
                            cs = candidates(t, old, markup)
                            alt = cs[min(ci, len(cs) - 1)]
                            nv = alt[min(depth, len(alt) - 1)]
                            news.append(nv)
                            object.__setattr__(o, fname, nv)
                        rep = {"base": bname, "cls": cls, "field": fname, "variant": [ci, depth], "value": repr(news[0])}
                        tags = ["pert", f"{cls}.{fname}"]
                        retry = False
                        try:
                            # derived attributes (resolved references, converted keys, ...) follow the described ones
                            _, e_ref, _ = cc.guarded(db.refresh, timeout=60)
                            if e_ref is not None:
                                out.append(("hist", "perturbation", f"rejected:refresh:{type(e_ref).__name__}"))
                                retry = True
                            else:
                                dbp, err, info2 = roundtrip(db, "pert")
                                out.append(("count", ("pert", bname, cls, fname, ci, depth)))
                                if err == "parse":
                                    out.append(("viol", tags + ["not-well-formed"],
                                                f"{cls}.{fname} = {news[0]!r}: the written document is not well-formed XML ({info2})", rep))
                                elif err:
                                    out.append(("hist", "perturbation", f"rejected:{err}"))
                                    retry = True
                                else:
                                    out.append(("hist", "perturbation", "ok:" + type(news[0]).__name__))
                                    d = db_diff(db, dbp)
                                    if d:
                                        out.append(("viol", tags, f"{cls}.{fname} set to {news[0]!r}: after write + load the database "
                                                    f"differs at {'.'.join(map(str, d[0]))}: {d[1]}", rep))
                        finally:
                            for (o, _, _), old in zip(insts, olds):
                                object.__setattr__(o, fname, old)
                            cc.guarded(db.refresh, timeout=60)
                        # a value the loader rejects: try the tamer alternative
                        alts = max(len(candidates(t, old, markup)[min(ci, len(candidates(t, old, markup)) - 1)])
                                   for (_, _, t), old in zip(insts, olds))
                        if retry and depth + 1 < alts:
                            depth += 1
                            continue
                        break
    except Exception as e:  # noqa
        import traceback
        out.append(("broken", f"perturbation worker {wi}: {type(e).__name__}: {e} {traceback.format_exc()[-300:]}"))
    finally:
        shutil.rmtree(SCRATCH, ignore_errors=True)
        SCRATCH = SCRATCH_saved
    return out


def report(ck, tags, what, rep):
    f = ck.match_known(tags)
    if f is not None:
        ck.known_finding(f["id"], f["what"])
    else:
        ck.violation(what, rep)


def check_entry_points(ck, rng, bname, db, pdx, quick):
    import odxtools
    d = os.path.join(SCRATCH, "dir")
    shutil.rmtree(d, ignore_errors=True)
    os.makedirs(d)
    z = zipfile.ZipFile(pdx)
    names = [n for n in z.namelist() if not n.endswith(".jinja2.orig")]
    for n in names:
        with open(os.path.join(d, n), "wb") as f:
            f.write(z.read(n))
    ref = load(pdx)
    variants = [("directory", lambda: odxtools.load_directory(d))]
    orders = [sorted(names), sorted(names, reverse=True)]
    for _ in range(1 if quick else 4):
        o = list(names)
        rng.shuffle(o)
        orders.append(o)
    for o in orders:
        variants.append((f"files {o[:3]}..", lambda o=o: odxtools.load_files(*[os.path.join(d, n) for n in o])))

        def rezip(o=o):
            p = os.path.join(SCRATCH, "re.pdx")
            with zipfile.ZipFile(p, "w") as zo:
                for n in o:
                    zo.writestr(n, z.read(n))
            return odxtools.load_pdx_file(p)
        variants.append((f"archive order {o[:3]}..", rezip))
    # the suffix dispatch is case-insensitive at every entry point: the same members with upper-case suffixes
    du = os.path.join(SCRATCH, "dirU")
    shutil.rmtree(du, ignore_errors=True)
    os.makedirs(du)

    def up(n):
        stem, dot, suf = n.rpartition(".")
        return f"{stem}.{suf.upper()}" if dot and suf.lower().startswith("odx") else n
    for n in names:
        with open(os.path.join(du, up(n)), "wb") as f:
            f.write(z.read(n))
    variants.append(("directory, upper-case suffixes", lambda: odxtools.load_directory(du)))
    variants.append(("files, upper-case suffixes", lambda: odxtools.load_files(*[os.path.join(du, up(n)) for n in sorted(names)])))

    def rezip_upper():
        p = os.path.join(SCRATCH, "reU.PDX")
        with zipfile.ZipFile(p, "w") as zo:
            for n in names:
                zo.writestr(up(n), z.read(n))
        return odxtools.load_file(p)
    variants.append(("archive, upper-case suffixes", rezip_upper))
    for what, fn in variants:
        ck.count(("entry", bname, what))
        try:
            dbv = fn()
        except Exception as e:  # noqa
            ck.violation(f"{bname}: loading through {what} raised {type(e).__name__}: {e}", {"base": bname, "entry": what})
            return
        dd = db_diff(ref, dbv)
        if dd:
            ck.violation(f"{bname}: loading through {what} gives a different database at {'.'.join(map(str, dd[0]))}: {dd[1]}",
                         {"base": bname, "entry": what})
            return
        if behaviour(ref) != behaviour(dbv):
            ck.violation(f"{bname}: loading through {what} changes the encode / decode behaviour", {"base": bname, "entry": what})
            return


if __name__ == "__main__":
    main()
