#!/usr/bin/env python3
"""Regenerates MANIFEST.json from the table below (kept in one place)."""
import json, os
ROOT = os.path.dirname(os.path.dirname(os.path.abspath(__file__)))
TB = ("Trusted: Coq 8.16.1 kernel (full .vo build, vm_compute only in finite obligations/witnesses, no native_compute); no axioms "
      "(every property theorem is 'Closed under the global context'); translator harness/translate.py for the constant tables; "
      "extraction (ExtrOcamlBasic only) + ocaml/driver.ml, cross-checked against vm_compute; the correspondence harness. ")
CHECKS = {
 "C12": ("Coq theorems for every frame sequence / interleaving / telegram length 1..4095 / frame size >= 8 / padding (C12_interleaved, "
         "locality, flow-control neutrality, active-decoder CTS) about Model/IsoTp.v, tied to odxtools.isotp_state_machine by a correspondence "
         "check (passive + active decoder, callbacks, frames sent) and the direct oracle 'reported == transmitted', incl. candump log reader.",
         TB + "The text-log reader (regex, asyncio) is covered by the direct oracle only, not modelled. bitstruct nibble unpacking modelled as div/mod 16.",
         "Rocq/Coq proof (induction over frames/segments, projection lemma) + correspondence", "DESIGN.md §3 C12"),
 "C13": ("Coq theorems over ALL frame sequences (provenance of every reported telegram via a history invariant, at-most-once per first frame, "
         "recovery from any state, locality) about Model/IsoTp.v; 'never raises' is carried by the correspondence (the model is a total function) on "
         "single/double fault enumeration at every position plus random sequences, with an independent provenance oracle.",
         TB + "Exceptions cannot be exhibited by a theorem about a total model: that half is fault enumeration against the implementation.",
         "Rocq/Coq proof (history invariant) + fault-enumeration correspondence", "DESIGN.md §3 C13"),
 "C16": ("Coq theorems over all operation histories (invariant by induction over fold_left step: names/list permutation, NoDup names, no reserved name, "
         "termination of the uniquification loop by pigeonhole) about Model/NamedList.v, tied to odxtools.nameditemlist by a correspondence check on "
         "exhaustive small and random long histories plus the invariant evaluated directly on the real object.",
         TB + "CPython list/dict/hasattr/pickle semantics are modelled, not verified.",
         "Rocq/Coq proof (invariant induction) + correspondence", "DESIGN.md §3 C16"),
}

PART = ("PARTIAL proof level: the theorems cover (a) the atomic layer (emplace/extract of one value: every bit length > 0, bit position, both byte orders, "
        "any previous message content, all signed encodings, unsigned, byte fields, latin-1 strings) and (b) the message level, about the model's real entry points "
        "encode_msg / decode_msg / static_bits_msg, for every message whose parameters are standard-length CODED-CONST / VALUE parameters with implicit positions or "
        "STRUCTUREs of such nested to any depth: round trip (C01_flat_message_roundtrip, C01_nested_message_roundtrip), wire format = concatenation of the leaf bytes "
        "(C02_flat_wire_format, C02_nested_wire_format), re-encoding of canonical PDUs (C03_flat_message_reencode, C03_nested_message_reencode), every value is rejected with "
        "the library's error or accepted and read back (C04_flat_rejections_are_library_errors, C04_flat_accept_or_reject for integer parameters), every byte string decodes to "
        "values or a decode error and truncated PDUs are rejected (C05_flat_message_total, C05_nested_message_total, *_truncation), static length = length of every encoding, "
        "required parameters needed and sufficient (C08_flat_*, C08_nested_*). Further composites are theorems as 'good members' which nest to any depth "
        "(Proofs/FieldProofs.v ff.): STATIC-FIELDs (exact and padded items), DYNAMIC-LENGTH-FIELDs, messages ending in an END-OF-PDU-FIELD, structures with BYTE-SIZE, "
        "LINEAR leaves, RESERVED parameters, one-byte bit fields, PHYS-CONST and LEADING-LENGTH leaves, and MULTIPLEXERs (C01_multiplexer_member, C02_multiplexer_bytes: a case "
        "selected by name writes its lower limit as switch key followed by the content, and reads back as case name + content); C05 totality for messages with lists and "
        "multiplexers (C05_message_with_fields_total). NOT theorems: end-marker fields, MIN-MAX / PARAM-LENGTH types, explicit byte positions and bit positions beyond the "
        "one-byte bit field, length keys, bit masks, MATCHING-REQUEST parameters, multiplexer cases selected by number / default cases: these are decided by the "
        "model/implementation correspondence on generated ODX documents plus the property's direct oracle on the implementation. ")
CODEC_NOTE = TB + ("Model scope: strict mode; int/bytefield/string base types (no floats), STANDARD/MIN-MAX/LEADING-LENGTH/PARAM-LENGTH types, IDENTICAL and integer "
        "LINEAR compu, structures, 4 field kinds, multiplexers, 7 parameter kinds; tables, DTC, env-data, floats and real-valued physical types are not modelled: hand-written ODX documents exercise them against direct oracles only (codec_checks.py UNMODELLED_DOC, UNMODELLED_DOC2, REAL_DOPS, the float document, snoop telegram sequences). String codecs re-implemented in Gallina; "
        "bitstruct modelled as shift/mask arithmetic. Own ODX emitter and generators are trusted for coverage. ")
CHECKS.update({
 "C01": (PART + "Oracle: decode(encode(v)) returns v plus defaults/constants and reads the whole PDU.", CODEC_NOTE,
         "Rocq/Coq proof (bit-level masked-write lemma, Z.testbit) + correspondence + round-trip oracle", "DESIGN.md §2 C01"),
 "C02": (PART + "Theorems C02_atomic_bits (each written bit is the specified one, every other bit untouched), C02_atomic_read, C02_overlap_flag (flag iff a used bit is claimed again), "
         "C02_byte_order. Correspondence run on both bitstruct backends (second interpreter with the pure-python backend).", CODEC_NOTE,
         "Rocq/Coq proof (bit-exact region lemma) + two-backend correspondence", "DESIGN.md §2 C02"),
 "C03": (PART + "Theorems: canonical raw values re-encode to themselves (signed incl. the negative-zero refutation, unsigned, byte fields). Oracle: decode->encode reproduces own encodings.", CODEC_NOTE,
         "Rocq/Coq proof (atomic decode/encode inverse) + correspondence + re-encode oracle", "DESIGN.md §2 C03"),
 "C04": (PART + "Theorems: acceptance implies representability and exact read-back; rejections are always the library's error class. Streams valid/boundary/ill-typed; oracle: rejection or faithful PDU, never a foreign exception.", CODEC_NOTE,
         "Rocq/Coq proof (acceptance => representability) + boundary-value correspondence", "DESIGN.md §2 C04"),
 "C05": (PART + "Theorems: atomic extraction from any byte string is a value or DecodeError; truncated input is rejected. The model's decoders are total functions with explicit fuel. "
         "Inputs: prefixes, single-byte mutations, random strings, all short strings on the shipped somersault database (layer-level decode).", CODEC_NOTE,
         "Rocq/Coq proof (totality of extraction) + mutation/prefix enumeration against the implementation", "DESIGN.md §2 C05"),
 "C08": (PART + "Theorem: a successful emplace advances the cursor by ceil((bitpos+bitlength)/8), the summand of the static length. Message level (static length, constant prefix, required/free) by correspondence + oracle. "
         "Known finding: condensed bit masks.", CODEC_NOTE,
         "Rocq/Coq proof (cursor advance) + correspondence of static descriptions", "DESIGN.md §2 C08"),
 "C17": ("Coq theorems about the strict-mode discipline (any program of soft checks/hard raises: strict success => identical lenient result with empty log; strict errors are hard raises or logged downgrades; "
         "the mode is read at each call) plus a finite obligation regenerated from the sources each run (odxraise raises iff the flag is set at call time; no module binds strict_mode at import). "
         "Correspondence: every encode/decode case under strict, lenient and re-enabled strict mode.",
         TB + "The lenient continuation after a downgraded error is declared undefined by the README and is not modelled.",
         "Rocq/Coq proof (free-monad discipline) + translator obligation + mode-schedule correspondence", "DESIGN.md §2 C17"),
})
CHECKS["C07"] = ("Coq theorems over all coefficients / limits / values (exact integer arithmetic): rounding is nearest with ties to even, limit semantics, LINEAR formula and inverse for slope magnitude > 1 "
    "(with the unit-slope tie refutation), validity <-> limits, valid physical values convert, continuous increasing SCALE-LINEAR always encodes, TAB-INTP valid values always convert (discrete intermediate value theorem). "
    "Model tied to odxtools.compumethods by correspondence over 7 categories x every value of -3..258 plus an exact-fraction oracle.",
    TB + "Model: integer internal/physical types and integer coefficients only; float-typed methods are decided by an oracle against exact rational arithmetic (neighbouring doubles of dyadic limits; decimal piecewise-linear methods), no theorem; COMPUCODE not modelled.",
    "Rocq/Coq proof (nearest-rounding lemmas, induction over segments) + correspondence with exact rational oracle", "DESIGN.md §3 C07")
CHECKS["C06"] = ("Coq theorems for all entry sets / messages: the prefix tree finds exactly the services filed under a non-empty prefix of the message (induction over the trie, with the empty-prefix refutation = recorded finding); "
    "the layer reports exactly the candidates that contribute a message and raises DecodeError iff none does. Model tied to DiagLayer.decode / decode_response / service_groups by correspondence on generated layers "
    "(shared, nested and empty prefixes, MATCHING-REQUEST, NRC-CONST, global negative responses) plus a prefix-tree-independent oracle built from the implementation's own coding objects.",
    TB + "Coding objects' decoders are the codec model (scope as in C01-C05). Known findings: empty-constant-prefix, sibling-coding-object-fails.",
    "Rocq/Coq proof (trie induction, exactness of candidate filtering) + correspondence", "DESIGN.md §3 C06")
CHECKS["C09"] = ("Coq theorems for every hierarchy / layer / fuel: unique names, local override, every visible object is local or inherited from a parent and not excluded, every non-excluded parent name is visible; the object seen under an inherited name comes through a parent of maximal priority among the exposing parents and all exposing parents of that priority expose the same object (else not IOk: a conflict is reported); priority table obligation regenerated from source. "
    "Model (transcription of _compute_available_objects incl. dictionary order, priority comparison through the parent, conflict test) tied to loaded ODX hierarchies by correspondence for 8 categories (diag comms, data objects, structures, multiplexers, tables, global negative responses, functional classes, audiences) plus an independent declarative visibility oracle "
    "and decode of an inherited service.",
    TB + "The converse (C09_conflict_only_when_real: a conflict is reported only if a parent's view is in conflict or two parents of equal priority expose different objects under a name the layer does not define) and the priority order of the parents (sort_desc is a sorted permutation) are theorems too; C09_exclusion_lists_routed: the (data dictionary list -> NOT-INHERITED list) table regenerated from hierarchyelement.py equals the ODX prescription. Categories not generated: state charts, the remaining DDD lists (covered by the routing obligation only).",
    "Rocq/Coq proof (dictionary invariant by induction over parent refs) + correspondence + declarative oracle", "DESIGN.md §3 C09")
CHECKS["C15"] = ("Coq theorems: protocol-specific definition before generic (any instance list), value defaults; refutation of the pre-fix first-hit lookup; for every hierarchy and layer: keys (specification, protocol) are unique, a local definition wins, otherwise the parent folded in last (ascending priority order) which knows the key wins and ignorant parents change nothing. Model of the (spec, protocol)-keyed override through the hierarchy, get_comparam, get_value, get_subvalue tied to loaded hierarchies by correspondence; "
    "oracle: declarative override, specific-first lookup, default fallback, typed accessors equal the numeric content.",
    TB + "sort_asc is proved to return a sorted permutation of the parent references (C15_parents_in_priority_order), hence C15_highest_priority_parent_wins independent of the order of the PARENT-REFs. DoIP accessors compared through the generic value path.",
    "Rocq/Coq proof (lookup precedence) + correspondence + declarative oracle", "DESIGN.md §3 C15")
CHECKS["C14"] = ("Coq theorems for all candidate lists, all deterministic ECUs and all match oracles: the loop reports the first candidate with a pattern all of whose parameters match; outcome independent of caching; only identification requests of the candidates are issued; "
    "with caching no request is issued twice (cache-consistency and NoDup invariants by induction over parameters/patterns/variants). Model tied to VariantMatcher by correspondence on generated ECU-/base-variant databases x all response functions x cache on/off.",
    TB + "`matches` (decode + path walk) is a Section variable; the harness instantiates it with an independent reference for plain and structured values; float/bytes/DTC/field comparisons are not exercised.",
    "Rocq/Coq proof (loop invariants) + correspondence over all response functions", "DESIGN.md §3 C14")
CHECKS["C18"] = ("Coq theorems for all layers: self comparison reports nothing; an added service is reported as new; a renamed service (same request prefix) as renamed; a deleted service is reported as deleted (also from a layer left empty) and every reported deletion is real; concrete single-edit examples. "
    "Model of compare_diagnostic_layers' classification tied to the tool by correspondence on generated layers x every single edit of the property text; oracle: exactly that kind of change for exactly that service and the changed property listed; rows of print_dl_metrics.",
    TB + "Attribute level: Model/CompareParams.v models compare_parameters over abstracted attribute values (theorems: self comparison empty, each basic property reported iff different, linked DOP / unit / coded constant reported iff different), tied to the tool on every parameter list under every edit, the shipped example pair and one-attribute variants. PARTIAL: metrics rows are oracle only; list/find/decode sub-commands not covered (their logic is C06's).",
    "Rocq/Coq proof (classification lemmas by induction over the service lists) + single-edit enumeration", "DESIGN.md §3 C18")
CHECKS["C10"] = ("Coq theorems for all link databases / references / layers: a lookup yields the object carrying the id (ids unique per fragment); an ODXLINK reference binds to what the innermost of its fragments binding the id holds, a DOCREF reference to the referenced fragment alone; "
    "unresolvable iff no fragment binds the id; typed references bind only to the expected kind; imported ids become visible in the importing layer's fragments, never shadow a bound id and change no other fragment; only shared-data layers are imported; "
    "a short-name reference binds to the unique carrier of the name in its explicit list / in the inherited view (C09 model); strict loading succeeds only if every reference is so bound; retarget_snrefs rebinds exactly the references of the target and its ancestors. "
    "Model tied to odxtools by correspondence on generated multi-container databases with colliding ids and names (15 reference kinds as ID-REF with/without DOCREF or SNREF, imports, injected dangling / leaking / ambiguous references, retargeting, direct resolve calls), "
    "plus a declarative oracle reading the property text.",
    TB + "PARTIAL: aliasing (the shallow-copy leak fixed in fa48f3b) cannot be stated about an immutable model; it is carried by the correspondence / oracle (leak scenarios are generated on purpose). Reference kinds not generated: state charts, audiences, env-data, DTC, SDG captions, libraries, sub-components, comparam refs (C15).",
    "Rocq/Coq proof (fold characterisation of dictionary updates, list induction for resolve) + correspondence + declarative oracle", "DESIGN.md §3 C10")
CHECKS["C11"] = ("Coq theorems: element text written through |e and attribute values written by make_xml_attrib are read back unchanged for every string (and contain no character that ends the token); refutation of the verbatim attribute writer; "
    "the assembled database does not depend on the file order (permutations of documents with distinct names); the finite coverage obligation 'every tag / attribute name a from_et parser reads occurs in a template', regenerated from the sources and closed by vm_compute on every run. "
    "The per-element statement 'no attribute the parser reads is dropped or altered' is ENUMERATED, not proved: every dataclass field of every element class reachable in the base databases (shipped examples, generated link / codec / comparam documents, a hand-written document of rare elements) "
    "is set to a non-default value incl. all XML metacharacters -> write -> load -> tree comparison; second write byte equality; encode/decode behaviour; file orders x load entry points.",
    TB + "PARTIAL: the jinja templates and from_et parsers are not modelled; element classes which no base database instantiates are reached only by the coverage obligation. Known findings: unwritten-names, docref-dropped, parent-ref-docref-added, diag-variables-unwritable (known_findings.json). Also checked: write history (a second write in one process), twin documents with equal local ids.",
    "Rocq/Coq proof (text-layer round trip by induction; insertion-sort permutation invariance; finite obligation by vm_compute) + reflective enumeration", "DESIGN.md §3 C11")
NA_REASON = "no check registered"
def main():
    checks = []
    for pid in sorted(CHECKS):
        text, note, tech, ref = CHECKS[pid]
        checks.append({"property_id": pid, "quick_cmd": f"./check {pid} --tier quick", "thorough_cmd": f"./check {pid} --tier thorough",
                       "evidence_file": f"/verif/evidence/{pid}.json", "replay_cmd_template": f"./check {pid} --replay {{path}}",
                       "engine": "coq-proof+correspondence", "level_claimed": {"category": "proof", "text": text, "design_ref": ref},
                       "level_note": note, "technique": tech})
    na = json.load(open(os.path.join(ROOT, "harness", "not_applicable.json"))) if os.path.exists(os.path.join(ROOT, "harness", "not_applicable.json")) else {}
    m = {"version": 1, "setup_cmd": "./setup.sh",
         "hooks": {"guard": "ODXTOOLS_VERIF", "enable": "no source hooks are used; checks import /repo's working tree with PYTHONPATH=/repo",
                   "baseline_off_cmd": "cd /repo && /venv/bin/python -m pytest -ra -q -p no:cacheprovider --timeout=900 --continue-on-collection-errors",
                   "source_commits": [], "add_only": True},
         "engines": [{"name": "coq-proof+correspondence", "path": "/verif/check", "serves_properties": sorted(CHECKS),
                      "kind_free_text": "Coq 8.16.1 theorems about hand-written executable Gallina models; ast translator for constant tables; differential correspondence check model vs implementation (extracted OCaml + vm_compute cross-sample); direct property oracles for the failing-input search"}],
         "checks": checks, "notes": "see DESIGN.md; known_findings.json lists recorded findings and fixed defects",
         "not_applicable": [{"property_id": f"C{i:02d}", "reason": na.get(f"C{i:02d}", NA_REASON)} for i in range(1, 19) if f"C{i:02d}" not in CHECKS]}
    json.dump(m, open(os.path.join(ROOT, "MANIFEST.json"), "w"), indent=1)
if __name__ == "__main__":
    main()
