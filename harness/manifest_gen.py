#!/usr/bin/env python3
"""Regenerates MANIFEST.json from the table below (kept in one place)."""
import json, os
ROOT = os.path.dirname(os.path.dirname(os.path.abspath(__file__)))
TB = ("Trusted: Coq 8.16.1 kernel (full .vo build, vm_compute only in finite obligations/witnesses, no native_compute); no axioms "
      "(every property theorem is 'Closed under the global context'); translator harness/translate.py for the constant tables; "
      "extraction (ExtrOcamlBasic only) + ocaml/driver.ml, cross-checked against vm_compute; the correspondence harness. ")
CHECKS = {
 "C12": ("Coq theorems for every frame sequence / interleaving / telegram length 1..4095 / frame size >= 8 / padding (C12_interleaved, "
         "locality, flow-control neutrality, active-decoder CTS) about Model/IsoTp.v, tied to odxtools.isotp_state_machine by a correspondence "
         "check (passive + active decoder, callbacks, frames sent) and the direct oracle 'reported == transmitted', incl. candump log reader.",
         TB + "The text-log reader (regex, asyncio) is covered by the direct oracle only, not modelled. bitstruct nibble unpacking modelled as div/mod 16.",
         "Rocq/Coq proof (induction over frames/segments, projection lemma) + correspondence", "DESIGN.md §3 C12"),
 "C13": ("Coq theorems over ALL frame sequences (provenance of every reported telegram via a history invariant, at-most-once per first frame, "
         "recovery from any state, locality) about Model/IsoTp.v; 'never raises' is carried by the correspondence (the model is a total function) on "
         "single/double fault enumeration at every position plus random sequences, with an independent provenance oracle.",
         TB + "Exceptions cannot be exhibited by a theorem about a total model: that half is fault enumeration against the implementation.",
         "Rocq/Coq proof (history invariant) + fault-enumeration correspondence", "DESIGN.md §3 C13"),
 "C16": ("Coq theorems over all operation histories (invariant by induction over fold_left step: names/list permutation, NoDup names, no reserved name, "
         "termination of the uniquification loop by pigeonhole) about Model/NamedList.v, tied to odxtools.nameditemlist by a correspondence check on "
         "exhaustive small and random long histories plus the invariant evaluated directly on the real object.",
         TB + "CPython list/dict/hasattr/pickle semantics are modelled, not verified.",
         "Rocq/Coq proof (invariant induction) + correspondence", "DESIGN.md §3 C16"),
}
NA_REASON = "check not built yet in this round (work in progress; DESIGN.md §6 gives the order of work)"
def main():
    checks = []
    for pid in sorted(CHECKS):
        text, note, tech, ref = CHECKS[pid]
        checks.append({"property_id": pid, "quick_cmd": f"./check {pid} --tier quick", "thorough_cmd": f"./check {pid} --tier thorough",
                       "evidence_file": f"/verif/evidence/{pid}.json", "replay_cmd_template": f"./check {pid} --replay {{path}}",
                       "engine": "coq-proof+correspondence", "level_claimed": {"category": "proof", "text": text, "design_ref": ref},
                       "level_note": note, "technique": tech})
    na = json.load(open(os.path.join(ROOT, "harness", "not_applicable.json"))) if os.path.exists(os.path.join(ROOT, "harness", "not_applicable.json")) else {}
    m = {"version": 1, "setup_cmd": "./setup.sh",
         "hooks": {"guard": "ODXTOOLS_VERIF", "enable": "no source hooks are used; checks import /repo's working tree with PYTHONPATH=/repo",
                   "baseline_off_cmd": "cd /repo && /venv/bin/python -m pytest -ra -q -p no:cacheprovider --timeout=900 --continue-on-collection-errors",
                   "source_commits": [], "add_only": True},
         "engines": [{"name": "coq-proof+correspondence", "path": "/verif/check", "serves_properties": sorted(CHECKS),
                      "kind_free_text": "Coq 8.16.1 theorems about hand-written executable Gallina models; ast translator for constant tables; differential correspondence check model vs implementation (extracted OCaml + vm_compute cross-sample); direct property oracles for the failing-input search"}],
         "checks": checks, "notes": "see DESIGN.md; known_findings.json lists recorded findings and fixed defects",
         "not_applicable": [{"property_id": f"C{i:02d}", "reason": na.get(f"C{i:02d}", NA_REASON)} for i in range(1, 19) if f"C{i:02d}" not in CHECKS]}
    json.dump(m, open(os.path.join(ROOT, "MANIFEST.json"), "w"), indent=1)
if __name__ == "__main__":
    main()
