#!/bin/bash
# Build everything from files on disk: Generated.v from /repo, full .vo build, extracted driver.
set -u
here="$(cd "$(dirname "$0")" && pwd)"
export PYTHONPATH="${VERIF_REPO:-/repo}:$here/harness" PYTHONHASHSEED=0 PYTHONDONTWRITEBYTECODE=1
cd "$here/coq" && coq_makefile -f _CoqProject -o Makefile >/dev/null
exec /venv/bin/python - <<'PY'
import sys, common
st = common.ensure_build()
print("translate_ok", st.translate_ok, "make_ok", st.make_ok, "driver_ok", st.driver_ok)
if not (st.translate_ok and st.make_ok and st.driver_ok):
    print(st.translate_msg); print(st.log[-4000:]); sys.exit(1)
if st.forbidden:
    print("forbidden:", st.forbidden); sys.exit(1)
PY
