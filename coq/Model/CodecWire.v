(* Wire decoding of codec descriptions / values and the case runner. *)
From Coq Require Import ZArith List Bool.
From OV Require Import Base.Bytes Base.Wire Model.Str Model.Codec.
Import ListNotations.
Open Scope Z_scope.

Definition nthZ (l : list tok) (n : nat) : Z := tz (tnth l n).
Definition optZ (t : tok) : option Z := match tl t with [x] => Some (tz x) | _ => None end.

Fixpoint value_of_tok (fuel : nat) (t : tok) : value :=
  match fuel with
  | O => VNone
  | S f =>
    let l := tl t in
    let c := nthZ l 0 in
    if c =? 0 then VInt (nthZ l 1)
    else if c =? 1 then VBytes (tzs (tnth l 1))
    else if c =? 2 then VStr (tzs (tnth l 1))
    else if c =? 4 then VDict (map (fun e => (tzs (tnth (tl e) 0), value_of_tok f (tnth (tl e) 1))) (tl (tnth l 1)))
    else if c =? 5 then VList (map (value_of_tok f) (tl (tnth l 1)))
    else VNone
  end.

Fixpoint tok_of_value (fuel : nat) (v : value) : tok :=
  match fuel with
  | O => TL [TZ 3]
  | S f =>
    match v with
    | VInt z => TL [TZ 0; TZ z]
    | VBytes b => TL [TZ 1; TZs b]
    | VStr s => TL [TZ 2; TZs s]
    | VNone => TL [TZ 3]
    | VDict kv => TL [TZ 4; TL (map (fun e => TL [TZs (fst e); tok_of_value f (snd e)]) kv)]
    | VList l => TL [TZ 5; TL (map (tok_of_value f) l)]
    end
  end.

Definition bt_of (z : Z) : btype :=
  if z =? 0 then BInt else if z =? 1 then BUint else if z =? 2 then BF32 else if z =? 3 then BF64
  else if z =? 4 then BUni else if z =? 5 then BBytes else if z =? 6 then BAscii else BUtf8.
Definition enc_of (t : tok) : option enc :=
  match optZ t with
  | None => None
  | Some z => Some (if z =? 0 then EncNONE else if z =? 1 then EncBcdP else if z =? 2 then EncBcdUp
                    else if z =? 3 then Enc1C else if z =? 4 then Enc2C else if z =? 5 then EncSM
                    else if z =? 6 then EncUtf8 else if z =? 7 then EncUcs2 else if z =? 8 then EncIso1
                    else EncOther)
  end.
Definition term_of (z : Z) : term := if z =? 0 then TermZero else if z =? 1 then TermFF else TermEop.

Definition dct_of_tok (t : tok) : dct :=
  let l := tl t in
  let c := nthZ l 0 in
  let bt := bt_of (nthZ l 1) in let en := enc_of (tnth l 2) in let hl := tbool (tnth l 3) in
  if c =? 0 then Std bt en hl (nthZ l 4) (optZ (tnth l 5))
  else if c =? 1 then MinMax bt en hl (nthZ l 4) (optZ (tnth l 5)) (term_of (nthZ l 6))
  else if c =? 2 then Leading bt en hl (nthZ l 4)
  else ParamLen bt en hl (tzs (tnth l 4)).

Definition compu_of_tok (t : tok) : compu :=
  let l := tl t in
  if nthZ l 0 =? 0 then CIdent
  else CLinear (nthZ l 1) (nthZ l 2) (nthZ l 3) (optZ (tnth l 4)) (optZ (tnth l 5)).

Fixpoint dop_of_tok (fuel : nat) (t : tok) : dop :=
  match fuel with
  | O => DStruct [] None
  | S f =>
    let l := tl t in
    let c := nthZ l 0 in
    if c =? 0 then DSimple (dct_of_tok (tnth l 1)) (compu_of_tok (tnth l 2)) (bt_of (nthZ l 3))
    else if c =? 1 then DStruct (map (param_of_tok f) (tl (tnth l 1))) (optZ (tnth l 2))
    else if c =? 2 then DStatic (dop_of_tok f (tnth l 1)) (nthZ l 2) (nthZ l 3)
    else if c =? 3 then DDynLen (dop_of_tok f (tnth l 1)) (nthZ l 2) (nthZ l 3) (nthZ l 4) (dop_of_tok f (tnth l 5))
    else if c =? 4 then DEop (dop_of_tok f (tnth l 1))
    else if c =? 5 then DEndMarker (dop_of_tok f (tnth l 1)) (dop_of_tok f (tnth l 2)) (value_of_tok fuel (tnth l 3))
    else
      let case_of := fun (t : tok) =>
        let k := tl t in
        MC (tzs (tnth k 0)) (nthZ k 1) (nthZ k 2)
           (match tl (tnth k 3) with [x] => Some (dop_of_tok f x) | _ => None end) in
      DMux (nthZ l 1) (nthZ l 2) (nthZ l 3) (dop_of_tok f (tnth l 4)) (map case_of (tl (tnth l 5)))
           (match tl (tnth l 6) with [x] => Some (case_of x) | _ => None end)
  end
with param_of_tok (fuel : nat) (t : tok) : param :=
  match fuel with
  | O => P [] None None (KReserved 0)
  | S f =>
    let l := tl t in
    let k := tl (tnth l 3) in
    let c := nthZ k 0 in
    P (tzs (tnth l 0)) (optZ (tnth l 1)) (optZ (tnth l 2))
      (if c =? 0 then KCoded (dct_of_tok (tnth k 1)) (value_of_tok fuel (tnth k 2))
       else if c =? 1 then KValue (dop_of_tok f (tnth k 1))
                                  (match tl (tnth k 2) with [x] => Some (value_of_tok fuel x) | _ => None end)
       else if c =? 2 then KReserved (nthZ k 1)
       else if c =? 3 then KPhysConst (dop_of_tok f (tnth k 1)) (value_of_tok fuel (tnth k 2))
       else if c =? 4 then KMatchReq (nthZ k 1) (nthZ k 2)
       else if c =? 5 then KNrc (dct_of_tok (tnth k 1)) (map (value_of_tok fuel) (tl (tnth k 2)))
       else KLenKey (dop_of_tok f (tnth k 1)))
  end.

Definition err_tok (e : err) : tok :=
  match e with
  | ERej => TL [TZ (-1); TZ 1]
  | EDecode => TL [TZ (-1); TZ 2]
  | EMismatch => TL [TZ (-1); TZ 3]
  | EOdx => TL [TZ (-1); TZ 4]
  | EForeign t => TL [TZ (-1); TZ 5; TZ t]
  | EFuel => TL [TZ (-1); TZ 9]
  end.

Definition FUEL : nat := 64.

Definition params_of_tok (t : tok) : list param := map (param_of_tok FUEL) (tl t).
Definition req_of_tok (t : tok) : option bytes := match tl t with [x] => Some (tzs x) | _ => None end.

(* ops: 1 encode [params; req; value]   2 decode [params; msg]
        3 static info [params; req prefix]
        4 emplace_atomic [msg; used; cur; bit; value; bl; bt; en; hl; mask]
        5 extract_atomic [msg; cur; bit; bl; bt; en; hl] *)
Definition run_case (t : tok) : tok :=
  let l := tl t in
  let op := nthZ l 0 in
  if op =? 1 then
    match encode_msg (params_of_tok (tnth l 1)) (req_of_tok (tnth l 2)) (value_of_tok FUEL (tnth l 3)) with
    | Ok (m, w) => TL [TZ 0; TZs m; TB w]
    | Err e => err_tok e
    end
  else if op =? 2 then
    match decode_msg (params_of_tok (tnth l 1)) (tzs (tnth l 2)) with
    | Ok v => TL [TZ 0; tok_of_value FUEL v]
    | Err e => err_tok e
    end
  else if op =? 3 then
    let ps := params_of_tok (tnth l 1) in
    TL [ TOpt (option_map TZ (static_bits_msg ps));
         TL (map (fun p => TZs (pname p)) (filter is_required ps));
         TL (map (fun p => TZs (pname p)) (filter is_settable ps));
         match const_prefix ps (tzs (tnth l 2)) with Ok b => TL [TZ 0; TZs b] | Err e => err_tok e end ]
  else if op =? 4 then
    let s := mkE (tzs (tnth l 1)) (tzs (tnth l 2)) 0 (nthZ l 3) (nthZ l 4) true [] [] None false in
    match emplace_atomic s (value_of_tok FUEL (tnth l 5)) (nthZ l 6) (bt_of (nthZ l 7)) (enc_of (tnth l 8))
                         (tbool (tnth l 9)) (match tl (tnth l 10) with [x] => Some (tzs x) | _ => None end) with
    | Ok s' => TL [TZ 0; TZs (e_msg s'); TZs (e_used s'); TZ (e_cur s'); TB (e_warn s')]
    | Err e => err_tok e
    end
  else
    let s := mkD (tzs (tnth l 1)) 0 (nthZ l 2) (nthZ l 3) [] in
    match extract_atomic s (nthZ l 4) (bt_of (nthZ l 5)) (enc_of (tnth l 6)) (tbool (tnth l 7)) with
    | Ok (v, s') => TL [TZ 0; tok_of_value FUEL v; TZ (d_cur s')]
    | Err e => err_tok e
    end.
