(* Executable model of message dispatch: DiagLayer._prefix_tree / _find_services_for_uds /
   _decode / decode / decode_response, DiagService.decode_message, ServiceBinner.__extract_sid. *)
From Coq Require Import ZArith List Bool.
From OV Require Import Base.Bytes Base.Wire Model.Str Model.Codec Model.CodecWire.
Import ListNotations.
Open Scope Z_scope.

Record cobj := mkC { c_id : Z; c_params : list param; c_resp : bool }.
Record service := mkS { s_id : Z; s_req : option cobj; s_pos : list cobj; s_neg : list cobj }.
Record layer := mkL { l_services : list service; l_gnrs : list cobj }.

(* ---------- the prefix tree ---------- *)
Inductive trie := Node (leaf : list Z) (kids : list (Z * trie)).
Definition empty_trie := Node [] [].

Fixpoint kid_find (b : Z) (ks : list (Z * trie)) : option trie :=
  match ks with
  | [] => None
  | (k, t) :: r => if k =? b then Some t else kid_find b r
  end.
Fixpoint kid_set (b : Z) (t : trie) (ks : list (Z * trie)) : list (Z * trie) :=
  match ks with
  | [] => [(b, t)]
  | (k, t') :: r => if k =? b then (k, t) :: r else (k, t') :: kid_set b t r
  end.

Fixpoint insert (p : bytes) (s : Z) (t : trie) : trie :=
  match t with
  | Node leaf kids =>
    match p with
    | [] => Node (leaf ++ [s]) kids
    | b :: r =>
      let sub := match kid_find b kids with Some x => x | None => empty_trie end in
      Node leaf (kid_set b (insert r s sub) kids)
    end
  end.

(* _find_services_for_uds: the leaf of the root is never inspected *)
Fixpoint walk (t : trie) (msg : bytes) : list Z :=
  match msg with
  | [] => []
  | b :: r =>
    match t with
    | Node _ kids =>
      match kid_find b kids with
      | None => []
      | Some (Node leaf kids' as sub) => leaf ++ walk sub r
      end
    end
  end.

(* ---------- prefixes ---------- *)
Definition cprefix (c : cobj) (rq : bytes) : res bytes := const_prefix (c_params c) rq.
Definition req_prefix (s : service) : res bytes :=
  match s_req s with Some r => cprefix r [] | None => Ok [] end.

Fixpoint collect {A B} (f : A -> res B) (l : list A) : res (list B) :=
  match l with
  | [] => Ok []
  | x :: r => do y <- f x; do ys <- collect f r; Ok (y :: ys)
  end.

Definition service_prefixes (L : layer) (s : service) : res (list bytes) :=
  do rq <- req_prefix s;
  do ps <- collect (fun c => cprefix c rq) (s_pos s ++ s_neg s ++ l_gnrs L);
  Ok (rq :: ps).

Definition build_trie (L : layer) : res trie :=
  (fix go (ss : list service) (t : trie) : res trie :=
     match ss with
     | [] => Ok t
     | s :: r =>
       do ps <- service_prefixes L s;
       go r (fold_left (fun t p => insert p (s_id s) t) ps t)
     end) (l_services L) empty_trie.

Fixpoint is_prefix (p m : bytes) : bool :=
  match p, m with
  | [], _ => true
  | x :: p', y :: m' => (x =? y) && is_prefix p' m'
  | _ :: _, [] => false
  end.

(* ---------- DiagService.decode_message ---------- *)
Definition is_decode_err (e : err) : bool := match e with EDecode | EMismatch => true | _ => false end.

Definition service_decode (s : service) (msg : bytes) : res (Z * value) :=
  do rq <- req_prefix s;
  let cands := s_pos s ++ s_neg s ++ (match s_req s with Some r => [r] | None => [] end) in
  do coding <- (fix go (l : list cobj) : res (list cobj) :=
                  match l with
                  | [] => Ok []
                  | c :: r =>
                    do p <- cprefix c rq;
                    do rest <- go r;
                    Ok (if is_prefix p msg then c :: rest else rest)
                  end) cands;
  do results <- (fix go (l : list cobj) : res (list (Z * value)) :=
                   match l with
                   | [] => Ok []
                   | c :: r =>
                     match decode_msg (c_params c) msg with
                     | Ok v => do rest <- go r; Ok ((c_id c, v) :: rest)
                     | Err EMismatch => go r
                     | Err e => Err e
                     end
                   end) coding;
  match results with
  | [x] => Ok x
  | _ => Err EDecode
  end.

(* ---------- DiagLayer._decode ---------- *)
Fixpoint find_service (id : Z) (ss : list service) : option service :=
  match ss with
  | [] => None
  | s :: r => if s_id s =? id then Some s else find_service id r
  end.

(* global negative responses tried for a service which cannot decode the message *)
Fixpoint gnr_fallback (id : Z) (gs : list cobj) (msg : bytes) : res (list (Z * Z * value)) :=
  match gs with
  | [] => Ok []
  | g :: gr =>
    match decode_msg (c_params g) msg with
    | Ok v => do rest <- gnr_fallback id gr msg; Ok ((id, c_id g, v) :: rest)
    | Err e' => if is_decode_err e' then gnr_fallback id gr msg else Err e'
    end
  end.

(* what one candidate contributes *)
Definition cand_messages (L : layer) (id : Z) (msg : bytes) : res (list (Z * Z * value)) :=
  match find_service id (l_services L) with
  | None => Ok []
  | Some s =>
    match service_decode s msg with
    | Ok (c, v) => Ok [(id, c, v)]
    | Err e => if is_decode_err e then gnr_fallback id (l_gnrs L) msg else Err e
    end
  end.

Fixpoint all_messages (L : layer) (cands : list Z) (msg : bytes) : res (list (Z * Z * value)) :=
  match cands with
  | [] => Ok []
  | id :: r =>
    do m <- cand_messages L id msg;
    do rest <- all_messages L r msg;
    Ok (m ++ rest)
  end.

Definition layer_decode_cands (L : layer) (cands : list Z) (msg : bytes) : res (list (Z * Z * value)) :=
  do out <- all_messages L cands msg;
  match out with
  | [] => Err EDecode
  | l => Ok l
  end.

Definition layer_decode (L : layer) (msg : bytes) : res (list (Z * Z * value)) :=
  do t <- build_trie L;
  layer_decode_cands L (walk t msg) msg.

Definition layer_decode_response (L : layer) (resp rq : bytes) : res (list (Z * Z * value)) :=
  do t <- build_trie L;
  layer_decode_cands L (walk t rq) resp.

(* ---------- ServiceBinner.__extract_sid ---------- *)
Definition extract_sid (s : service) : option Z :=
  match s_req s with
  | None => None
  | Some r =>
    (fix go (ps : list param) (prefix cursor : Z) : option Z :=
       match ps with
       | [] => None
       | P _ _ _ (KCoded dc (VInt cv)) :: rest =>
         match static_bits_dct dc with
         | None => None
         | Some len =>
           let prefix := Z.lor (prefix * 2 ^ len) (Z.land cv (2 ^ len - 1)) in
           let cursor := cursor + len in
           if 8 <=? cursor then Some (Z.land (prefix / 2 ^ (cursor - 8)) 255) else go rest prefix cursor
         end
       | _ => None
       end) (c_params r) 0 0
  end.

Fixpoint bin_insert (k : option Z) (id : Z) (groups : list (option Z * list Z)) : list (option Z * list Z) :=
  match groups with
  | [] => [(k, [id])]
  | (k', l) :: r =>
    if (match k, k' with Some a, Some b => a =? b | None, None => true | _, _ => false end)
    then (k', l ++ [id]) :: r else (k', l) :: bin_insert k id r
  end.
Definition service_groups (L : layer) : list (option Z * list Z) :=
  fold_left (fun g s => bin_insert (extract_sid s) (s_id s) g) (l_services L) [].

(* ---------- wire ---------- *)
Definition cobj_of (t : tok) : cobj :=
  let l := tl t in mkC (nthZ l 0) (params_of_tok (tnth l 1)) (tbool (tnth l 2)).
Definition service_of (t : tok) : service :=
  let l := tl t in
  mkS (nthZ l 0) (match tl (tnth l 1) with [x] => Some (cobj_of x) | _ => None end)
      (map cobj_of (tl (tnth l 2))) (map cobj_of (tl (tnth l 3))).
Definition layer_of (t : tok) : layer :=
  let l := tl t in mkL (map service_of (tl (tnth l 0))) (map cobj_of (tl (tnth l 1))).

Definition msgs_tok (r : res (list (Z * Z * value))) : tok :=
  match r with
  | Ok l => TL [TZ 0; TL (map (fun x => TL [TZ (fst (fst x)); TZ (snd (fst x)); tok_of_value FUEL (snd x)]) l)]
  | Err e => err_tok e
  end.

(* case: [op; layer; msg; request]  op 1: decode  2: decode_response  3: service groups *)
Definition run_case (t : tok) : tok :=
  let l := tl t in
  let op := nthZ l 0 in
  let L := layer_of (tnth l 1) in
  if op =? 1 then msgs_tok (layer_decode L (tzs (tnth l 2)))
  else if op =? 2 then msgs_tok (layer_decode_response L (tzs (tnth l 2)) (tzs (tnth l 3)))
  else TL (map (fun g => TL [TOpt (option_map TZ (fst g)); TZs (snd g)]) (service_groups L)).
