(* Executable model of the odxtools positional codec in strict mode:
   EncodeState.emplace_atomic_value / emplace_bytes, DecodeState.extract_atomic_value,
   the four diag-coded types, simple DOPs with IDENTICAL / LINEAR compu methods,
   structures (BYTE-SIZE), static / dynamic-length / end-of-pdu / end-marker
   fields and the parameter kinds CODED-CONST, VALUE, RESERVED, PHYS-CONST,
   MATCHING-REQUEST-PARAM, NRC-CONST, LENGTH-KEY.  References are resolved. *)
From Coq Require Import ZArith List Bool QArith.
From OV Require Import Base.Bytes Base.Wire Model.Str.
Import ListNotations.
Open Scope Z_scope.

Notation name := (list Z) (only parsing).

(* ---------- outcomes ---------- *)
Inductive err :=
| ERej            (* encode side: EncodeError or another OdxError *)
| EDecode         (* DecodeError *)
| EMismatch       (* DecodeMismatch *)
| EOdx            (* decode side: OdxError which is not a DecodeError *)
| EForeign (tag : Z)  (* an exception which is not an OdxError escapes *)
| EFuel.
Inductive res (A : Type) := Ok (a : A) | Err (e : err).
Arguments Ok {A} a.
Arguments Err {A} e.
Definition bind {A B} (r : res A) (f : A -> res B) : res B :=
  match r with Ok a => f a | Err e => Err e end.
Notation "'do' x <- r ; k" := (bind r (fun x => k)) (at level 200, x pattern, r at level 100, k at level 200).
Definition guard (b : bool) (e : err) : res unit := if b then Ok tt else Err e.

(* ---------- values ---------- *)
Inductive value :=
| VInt (z : Z) | VBytes (b : bytes) | VStr (s : list Z) | VNone
| VDict (kv : list (name * value)) | VList (l : list value).

Definition atom_eqb (a b : value) : bool :=
  match a, b with
  | VInt x, VInt y => x =? y
  | VBytes x, VBytes y => bytes_eqb x y
  | VStr x, VStr y => bytes_eqb x y
  | VNone, VNone => true
  | _, _ => false
  end.

Fixpoint lookup {A} (k : name) (l : list (name * A)) : option A :=
  match l with
  | [] => None
  | (k', v) :: r => if bytes_eqb k k' then Some v else lookup k r
  end.
Fixpoint update {A} (k : name) (v : A) (l : list (name * A)) : list (name * A) :=
  match l with
  | [] => [(k, v)]
  | (k', v') :: r => if bytes_eqb k k' then (k, v) :: r else (k', v') :: update k v r
  end.

(* ---------- descriptions ---------- *)
Inductive btype := BInt | BUint | BF32 | BF64 | BUni | BBytes | BAscii | BUtf8.
Inductive enc := EncNONE | EncBcdP | EncBcdUp | Enc1C | Enc2C | EncSM | EncUtf8 | EncUcs2 | EncIso1
               | EncOther.
Inductive term := TermZero | TermFF | TermEop.

Inductive dct :=
| Std (bt : btype) (en : option enc) (hl : bool) (bl : Z) (mask : option Z)
| MinMax (bt : btype) (en : option enc) (hl : bool) (minl : Z) (maxl : option Z) (tm : term)
| Leading (bt : btype) (en : option enc) (hl : bool) (bl : Z)
| ParamLen (bt : btype) (en : option enc) (hl : bool) (key : name).

Definition dct_bt (d : dct) : btype :=
  match d with Std b _ _ _ _ | MinMax b _ _ _ _ _ | Leading b _ _ _ | ParamLen b _ _ _ => b end.

(* closed internal limits; LINEAR: phys = round((off + num*x)/den) *)
Inductive compu := CIdent | CLinear (off num den : Z) (lo hi : option Z).

Inductive dop :=
| DSimple (d : dct) (c : compu) (pt : btype)
| DStruct (ps : list param) (byte_size : option Z)
| DStatic (s : dop) (n item_size : Z)
| DDynLen (s : dop) (offset cnt_byte cnt_bit : Z) (cnt : dop)
| DEop (s : dop)
| DEndMarker (s : dop) (tdop : dop) (tval : value)
(* MUX: BYTE-POSITION of the case content, position of the switch key (both relative to the
   multiplexer), the switch key's data object, the cases and the optional default case *)
| DMux (bytepos key_byte key_bit : Z) (key : dop) (cases : list mcase) (dflt : option mcase)
with mcase :=
| MC (nm : name) (lo hi : Z) (s : option dop)   (* limits are read as closed, whatever their INTERVAL-TYPE *)
with param :=
| P (nm : name) (bytepos bitpos : option Z) (k : pkind)
with pkind :=
| KCoded (d : dct) (v : value)
| KValue (d : dop) (dflt : option value)
| KReserved (bl : Z)
| KPhysConst (d : dop) (v : value)
| KMatchReq (rqpos len : Z)
| KNrc (d : dct) (vs : list value)
| KLenKey (d : dop).

Definition mc_name (c : mcase) : name := match c with MC n _ _ _ => n end.
Definition mc_lo (c : mcase) : Z := match c with MC _ l _ _ => l end.
Definition mc_hi (c : mcase) : Z := match c with MC _ _ h _ => h end.
Definition mc_struct (c : mcase) : option dop := match c with MC _ _ _ s => s end.
Definition mc_applies (key : Z) (c : mcase) : bool := (mc_lo c <=? key) && (key <=? mc_hi c).

Definition pname (p : param) : name := match p with P n _ _ _ => n end.
Definition pkind_of (p : param) : pkind := match p with P _ _ _ k => k end.
(* the names of the LENGTH-KEY parameters of a parameter list *)
Definition own_keys (ps : list param) : list name :=
  flat_map (fun p => match pkind_of p with KLenKey _ => [pname p] | _ => [] end) ps.

(* ---------- encode state ---------- *)
Record estate := mkE {
  e_msg : bytes; e_used : bytes; e_origin : Z; e_cur : Z; e_bit : Z; e_eop : bool;
  e_lkeys : list (name * Z); e_keypos : list (name * Z); e_req : option bytes; e_warn : bool }.

Definition set_cur (s : estate) (c : Z) : estate :=
  mkE (e_msg s) (e_used s) (e_origin s) c (e_bit s) (e_eop s) (e_lkeys s) (e_keypos s) (e_req s) (e_warn s).
Definition set_bit (s : estate) (b : Z) : estate :=
  mkE (e_msg s) (e_used s) (e_origin s) (e_cur s) b (e_eop s) (e_lkeys s) (e_keypos s) (e_req s) (e_warn s).
Definition set_origin (s : estate) (o : Z) : estate :=
  mkE (e_msg s) (e_used s) o (e_cur s) (e_bit s) (e_eop s) (e_lkeys s) (e_keypos s) (e_req s) (e_warn s).
Definition set_eop (s : estate) (b : bool) : estate :=
  mkE (e_msg s) (e_used s) (e_origin s) (e_cur s) (e_bit s) b (e_lkeys s) (e_keypos s) (e_req s) (e_warn s).
Definition set_lkeys (s : estate) (l : list (name * Z)) : estate :=
  mkE (e_msg s) (e_used s) (e_origin s) (e_cur s) (e_bit s) (e_eop s) l (e_keypos s) (e_req s) (e_warn s).
Definition drop_keys (names : list name) (s : estate) : estate :=
  match names with
  | [] => s
  | _ => set_lkeys s (filter (fun kv => negb (existsb (bytes_eqb (fst kv)) names)) (e_lkeys s))
  end.
Definition set_keypos (s : estate) (l : list (name * Z)) : estate :=
  mkE (e_msg s) (e_used s) (e_origin s) (e_cur s) (e_bit s) (e_eop s) (e_lkeys s) l (e_req s) (e_warn s).

(* ---------- EncodeState.emplace_bytes ---------- *)
Fixpoint masked_write (old new m : bytes) : bytes :=
  match old, new, m with
  | o :: old', n :: new', k :: m' =>
    Z.lor (Z.land o (Z.lnot k)) (Z.land n k) :: masked_write old' new' m'
  | _, _, _ => []
  end.
Fixpoint mask_or (u m : bytes) : bytes :=
  match u, m with
  | x :: u', k :: m' => Z.lor x k :: mask_or u' m'
  | _, _ => []
  end.
Fixpoint mask_clash (u m : bytes) : bool :=
  match u, m with
  | x :: u', k :: m' => negb (Z.land x k =? 0) || mask_clash u' m'
  | _, _ => false
  end.

Definition emplace_bytes (s : estate) (new : bytes) (m : option bytes) : res estate :=
  if negb (e_bit s =? 0) then Err (EForeign 1) (* RuntimeError *) else
  let pos := e_cur s in
  let n := blen new in
  let msg := grow (pos + n) (e_msg s) in
  let used := grow (pos + n) (e_used s) in
  match m with
  | None =>
    let clash := negb (bytes_eqb (slice pos n used) (zeros n)) in
    Ok (mkE (splice pos new msg) (splice pos (ffs n) used) (e_origin s) (pos + n) 0 (e_eop s)
            (e_lkeys s) (e_keypos s) (e_req s) (e_warn s || clash))
  | Some mk =>
    if blen mk <? n then Err (EForeign 2) (* IndexError *) else
    let mk := take n mk in
    let clash := mask_clash (slice pos n used) mk in
    Ok (mkE (splice pos (masked_write (slice pos n msg) new mk) msg)
            (splice pos (mask_or (slice pos n used) mk) used) (e_origin s) (pos + n) 0 (e_eop s)
            (e_lkeys s) (e_keypos s) (e_req s) (e_warn s || clash))
  end.

(* ---------- raw value computation ---------- *)
Definition is_numeric (bt : btype) : bool :=
  match bt with BInt | BUint | BF32 | BF64 => true | _ => false end.

(* get_string_encoding: None = odxraise (illegal encoding) *)
Definition string_codec (bt : btype) (en : option enc) (hl : bool) : option codec :=
  match en, bt with
  | Some EncUtf8, _ | None, BUtf8 => Some Utf8
  | Some EncUcs2, _ | None, BUni => Some (if hl then Utf16BE else Utf16LE)
  | Some EncIso1, _ | None, BAscii => Some Latin1
  | _, _ => None
  end.

(* __encode_bcd_p / __encode_bcd_up: while value > 0 *)
Fixpoint bcd_enc (fuel : nat) (shift : Z) (v : Z) : Z :=
  match fuel with
  | O => 0
  | S f => if v <=? 0 then 0 else (v mod 10) + 2 ^ shift * bcd_enc f shift (v / 10)
  end.
Fixpoint bcd_dec (fuel : nat) (shift : Z) (v : Z) : Z :=
  match fuel with
  | O => 0
  | S f => if v <=? 0 then 0 else (v mod 16) + 10 * bcd_dec f shift (v / 2 ^ shift)
  end.
Definition zfuel (v : Z) : nat := S (Z.to_nat (Z.log2 (Z.abs v + 1))).

Definition bit_len (v : Z) : Z := if v =? 0 then 0 else Z.log2 (Z.abs v) + 1.

(* raw value as a non-negative integer of bl bits (byte-like types: big-endian reading) *)
Definition raw_of (v : value) (bl : Z) (bt : btype) (en : option enc) (hl : bool) : res Z :=
  match bt with
  | BBytes =>
    match v with
    | VBytes b =>
      match en with
      | None | Some EncNONE | Some EncBcdP | Some EncBcdUp =>
        if 8 * blen b =? bl then Ok (be_int b) else Err ERej
      | _ => Err ERej
      end
    | _ => Err ERej
    end
  | BAscii | BUtf8 | BUni =>
    match v with
    | VStr s =>
      match string_codec bt en hl with
      | None => Err ERej
      | Some k => match str_enc k s with
                  | None => Err ERej
                  | Some b => if 8 * blen b =? bl then Ok (be_int b) else Err ERej
                  end
      end
    | _ => Err ERej
    end
  | BInt =>
    match v with
    | VInt z =>
      let two := match en with None | Some Enc2C => true | _ => false end in
      match en with
      | None | Some Enc1C | Some Enc2C | Some EncSM =>
        (* without any bit, zero is the only value (since the fix commit "a signed integer of zero bits") *)
        let maxv := if 0 <? bl then 2 ^ (bl - 1) - 1 else 0 in
        let minv := if (0 <? bl) && two then - maxv - 1 else - maxv in
        if (z <? minv) || (maxv <? z) then Err ERej else
        let raw := if 0 <=? z then z
                   else match en with
                        | Some Enc1C => 2 ^ bl - 1 + z
                        | Some EncSM => 2 ^ (bl - 1) + Z.abs z
                        | _ => 2 ^ bl + z
                        end in
        if bl <? bit_len raw then Err ERej else Ok raw
      | _ => Err ERej
      end
    | _ => Err ERej
    end
  | BUint =>
    match v with
    | VInt z =>
      if z <? 0 then Err ERej else
      match en with
      | Some EncBcdP => let r := bcd_enc (zfuel z) 4 z in if bl <? bit_len r then Err ERej else Ok r
      | Some EncBcdUp => let r := bcd_enc (zfuel z) 8 z in if bl <? bit_len r then Err ERej else Ok r
      | None | Some EncNONE => if bl <? bit_len z then Err ERej else Ok z
      | _ => Err ERej
      end
    | _ => Err ERej
    end
  | _ => Err (EForeign 99)   (* floats are not modelled *)
  end.

(* ---------- EncodeState.emplace_atomic_value ---------- *)
Definition nbytes_of (bl bp : Z) : Z := (bl + bp + 7) / 8.

Definition emplace_atomic (s : estate) (v : value) (bl : Z) (bt : btype) (en : option enc)
           (hl : bool) (mask : option bytes) : res estate :=
  do raw <- raw_of v bl bt en hl;
  if bl =? 0 then emplace_bytes (set_bit s 0) [] None else
  (* bitstruct.c: integers over 64 bits are reported as EncodeError *)
  if is_numeric bt && (64 <? bl) then Err ERej else
  let bp := e_bit s in
  let n := nbytes_of bl bp in
  let coded := to_be (Z.to_nat n) (raw * 2 ^ bp) in
  let m0 := match mask with Some mk => be_int mk | None => 2 ^ bl - 1 end in
  let mlen := match mask with Some mk => if bp =? 0 then blen mk else n | None => n end in
  if (negb (bp =? 0)) && (256 ^ n <=? m0 * 2 ^ bp) then Err (EForeign 3) (* OverflowError *) else
  let mraw := to_be (Z.to_nat mlen) (m0 * 2 ^ bp) in
  let flip := negb hl && is_numeric bt in
  let coded := if flip then rev coded else coded in
  let mraw := if flip then rev mraw else mraw in
  emplace_bytes (set_bit s 0) coded (Some mraw).

(* ---------- decode state, DecodeState.extract_atomic_value ---------- *)
Record dstate := mkD { d_msg : bytes; d_origin : Z; d_cur : Z; d_bit : Z; d_lkeys : list (name * Z) }.
Definition dset_cur (s : dstate) (c : Z) := mkD (d_msg s) (d_origin s) c (d_bit s) (d_lkeys s).
Definition dset_bit (s : dstate) (b : Z) := mkD (d_msg s) (d_origin s) (d_cur s) b (d_lkeys s).
Definition dset_origin (s : dstate) (o : Z) := mkD (d_msg s) o (d_cur s) (d_bit s) (d_lkeys s).
Definition dset_lkeys (s : dstate) (l : list (name * Z)) := mkD (d_msg s) (d_origin s) (d_cur s) (d_bit s) l.

Definition empty_of (bt : btype) : value :=
  match bt with BInt | BUint | BF32 | BF64 => VInt 0 | BBytes => VBytes [] | _ => VStr [] end.

Definition value_of_raw (raw bl : Z) (bt : btype) (en : option enc) (hl : bool) : res value :=
  match bt with
  | BBytes =>
    match en with
    | None | Some EncNONE | Some EncBcdP | Some EncBcdUp => Ok (VBytes (to_be (Z.to_nat ((bl + 7) / 8)) raw))
    | _ => Err EOdx
    end
  | BAscii | BUtf8 | BUni =>
    match string_codec bt en hl with
    | None => Err EOdx
    | Some k => match str_dec k (to_be (Z.to_nat ((bl + 7) / 8)) raw) with
                | Some s => Ok (VStr s)
                | None => Err EDecode
                end
    end
  | BInt =>
    let sign := 2 ^ (bl - 1) in
    match en with
    | Some Enc1C => Ok (VInt (if raw <? sign then raw else - (2 ^ bl - raw - 1)))
    | None | Some Enc2C => Ok (VInt (if raw <? sign then raw else - (2 ^ bl - raw)))
    | Some EncSM => Ok (VInt (if raw <? sign then raw else - (raw - sign)))
    | _ => Err EOdx
    end
  | BUint =>
    match en with
    | Some EncBcdP => Ok (VInt (bcd_dec (zfuel raw) 4 raw))
    | Some EncBcdUp => Ok (VInt (bcd_dec (zfuel raw) 8 raw))
    | None | Some EncNONE => Ok (VInt raw)
    | _ => Err EOdx
    end
  | _ => Err (EForeign 99)
  end.

Definition extract_atomic (s : dstate) (bl : Z) (bt : btype) (en : option enc) (hl : bool)
  : res (value * dstate) :=
  if bl =? 0 then Ok (empty_of bt, s) else
  let bp := d_bit s in
  let n := nbytes_of bl bp in
  if blen (d_msg s) <? d_cur s + n then Err EDecode else
  if negb (is_numeric bt) && negb (bl mod 8 =? 0) then Err EDecode else
  if is_numeric bt && (64 <? bl) then Err EDecode else
  let ex := slice (d_cur s) n (d_msg s) in
  let ex := if negb hl && is_numeric bt then rev ex else ex in
  let raw := (be_int ex / 2 ^ bp) mod 2 ^ bl in
  do v <- value_of_raw raw bl bt en hl;
  Ok (v, mkD (d_msg s) (d_origin s) (d_cur s + n) 0 (d_lkeys s)).

(* ---------- diag coded types ---------- *)
Definition static_bits_dct (d : dct) : option Z :=
  match d with Std _ _ _ bl _ => Some bl | _ => None end.

Definition utf8_len (s : list Z) : option Z :=
  match utf8_enc s with Some b => Some (blen b) | None => None end.

Definition term_seq (bt : btype) (tm : term) : bytes :=
  let two := match bt with BUni => true | _ => false end in
  match tm with
  | TermZero => if two then [0; 0] else [0]
  | TermFF => if two then [255; 255] else [255]
  | TermEop => []
  end.

(* StandardLengthType.__apply_mask / __get_used_mask (non-condensed) *)
Definition std_apply_mask (mask : option Z) (v : value) : res value :=
  match mask with
  | None => Ok v
  | Some m =>
    match v with
    | VInt z => Ok (VInt (Z.land z m))
    | VBytes b => let x := Z.land (be_int b) m in
                  if 256 ^ blen b <=? x then Err (EForeign 3) else Ok (VBytes (to_be (List.length b) x))
    | _ => Err ERej
    end
  end.
Definition std_used_mask (mask : option Z) (bl : Z) (v : value) : option bytes :=
  match mask with
  | None => None
  | Some m =>
    let sz := match v with VBytes b => blen b | _ => (bl + 7) / 8 end in
    Some (to_be (Z.to_nat sz) (Z.land m (256 ^ sz - 1)))
  end.

(* bytes.find(seq, start, end) restricted to aligned hits *)
Fixpoint find_term (fuel : nat) (msg : bytes) (ts : bytes) (orig pos maxpos : Z) : Z :=
  match fuel with
  | O => maxpos - orig
  | S f =>
    if maxpos <? pos + blen ts then maxpos - orig
    else if bytes_eqb (slice pos (blen ts) msg) ts && ((pos - orig) mod blen ts =? 0) then pos - orig
    else find_term f msg ts orig (pos + 1) maxpos
  end.

Definition enc_dct (d : dct) (v : value) (s : estate) : res estate :=
  match d with
  | Std bt en hl bl mask =>
    (* the used mask is handed over in big endian byte order; emplace_atomic applies the byte
       order of the object to it (since the fix commit; before, it was byte-swapped twice) *)
    do v' <- std_apply_mask mask v;
    let um := std_used_mask mask bl v in
    emplace_atomic s v' bl bt en hl um
  | MinMax bt en hl minl maxl tm =>
    do raw <- match v with
              | VStr str => match string_codec bt en hl with
                            | None => Err ERej
                            | Some k => match str_enc k str with Some b => Ok b | None => Err ERej end
                            end
              | VBytes b => Ok b
              | _ => Err ERej
              end;
    let n := blen raw in
    do _ <- guard (minl <=? n) ERej;
    do _ <- guard (match maxl with Some mx => n <=? mx | None => true end) ERej;
    do _ <- guard (match tm with
                   | TermEop => true
                   | _ => negb (find_term (S (List.length raw)) raw (term_seq bt tm) 0 minl n <? n)
                   end) ERej;
    do s1 <- emplace_atomic s (VBytes raw) (8 * n) BBytes None true None;
    do _ <- guard (match tm with TermEop => e_eop s1 | _ => true end) ERej;
    if e_eop s1 || (match maxl with Some mx => n =? mx | None => false end) then Ok s1
    else
      let ts := term_seq bt tm in
      do _ <- guard (n mod blen ts =? 0) ERej;
      emplace_bytes s1 ts None
  | Leading bt en hl bl =>
    do n <- match v, bt with
            | VBytes b, BBytes => Ok (blen b)
            | VStr str, BBytes => Ok (blen str)
            (* since the fix commit: an A_ASCIISTRING counts one byte per character, as it is written *)
            | VStr str, BAscii => Ok (blen str)
            | VStr str, BUtf8 => match utf8_len str with Some n => Ok n | None => Err ERej end   (* replaced, then rejected *)
            | VStr str, BUni => match utf16_enc false str with Some b => Ok (blen b) | None => Err (EForeign 4) end
            | VBytes _, (BAscii | BUtf8 | BUni) => Err ERej
            | _, _ => Err ERej
            end;
    do s1 <- emplace_atomic s (VInt n) bl BUint None hl None;
    emplace_atomic s1 v (8 * n) bt None hl None
  | ParamLen bt en hl key =>
    do bls <- match lookup key (e_lkeys s) with
              | Some b => Ok (b, s)
              | None =>
                do b <- match bt, v with
                        | (BBytes | BAscii | BUtf8), VBytes x => Ok (8 * blen x)
                        | (BBytes | BAscii | BUtf8), VStr x => Ok (8 * blen x)
                        | BUni, VBytes x => Ok (16 * blen x)
                        | BUni, VStr x => Ok (16 * blen x)
                        | (BInt | BUint), VInt z =>
                          Ok ((bit_len z + (match bt with BInt => 1 | _ => 0 end) + 7) / 8 * 8)
                        | _, _ => Err (EForeign 5)
                        end;
                Ok (b, set_lkeys s (update key b (e_lkeys s)))
              end;
    let '(b, s1) := bls in
    emplace_atomic s1 v b bt en hl None
  end.

Definition dec_dct (d : dct) (s : dstate) : res (value * dstate) :=
  match d with
  | Std bt en hl bl mask =>
    do vs <- extract_atomic s bl bt en hl;
    let '(v, s1) := vs in
    match mask with
    | None => Ok (v, s1)
    | Some m =>
      match v with
      | VInt z => Ok (VInt (Z.land z m), s1)
      | VBytes b => let x := Z.land (be_int b) m in
                    if 256 ^ blen b <=? x then Err (EForeign 3) else Ok (VBytes (to_be (List.length b) x), s1)
      | _ => Err EOdx
      end
    end
  | MinMax bt en hl minl maxl tm =>
    do _ <- guard (d_bit s =? 0) EOdx;
    let len := blen (d_msg s) in
    do _ <- guard (d_cur s + minl <=? len) EDecode;
    let orig := d_cur s in
    let maxpos := match maxl with Some mx => Z.min len (orig + mx) | None => len end in
    match tm with
    | TermEop => extract_atomic s (8 * (maxpos - orig)) bt en hl
    | _ =>
      let ts := term_seq bt tm in
      let n := find_term (S (List.length (d_msg s))) (d_msg s) ts orig (orig + minl) maxpos in
      do vs <- extract_atomic s (8 * n) bt en hl;
      let '(v, s1) := vs in
      let skip := negb (d_cur s1 =? len) &&
                  negb (match maxl with Some mx => d_cur s1 - orig =? mx | None => false end) in
      Ok (v, if skip then dset_cur s1 (d_cur s1 + blen ts) else s1)
    end
  | Leading bt en hl bl =>
    do ns <- extract_atomic s bl BUint None hl;
    let '(nv, s1) := ns in
    match nv with
    | VInt n => extract_atomic s1 (8 * n) bt None hl
    | _ => Err EOdx
    end
  | ParamLen bt en hl key =>
    match lookup key (d_lkeys s) with
    | None => Err EOdx
    | Some b => do _ <- guard (0 <=? b) EDecode;   (* since the fix commit: a negative length is a decode error *)
                extract_atomic s b bt en hl
    end
  end.

(* ---------- compu methods (integer physical and internal types) ---------- *)
Definition round_half_even (q : Q) : Z :=
  let n := Qnum q in let d := Z.pos (Qden q) in
  let fl := n / d in
  let r2 := 2 * (n - fl * d) in
  if r2 <? d then fl else if d <? r2 then fl + 1 else if Z.even fl then fl else fl + 1.

Definition in_limits (lo hi : option Z) (x : Z) : bool :=
  (match lo with Some l => l <=? x | None => true end) &&
  (match hi with Some h => x <=? h | None => true end).

Definition lin_i2p (off num den x : Z) : Z :=
  if den =? 0 then 0 else round_half_even (Qmake (off + num * x) 1 / (inject_Z den)).

Definition isinstance_bt (bt : btype) (v : value) : bool :=
  match bt, v with
  | (BInt | BUint | BF32 | BF64), VInt _ => true
  | BBytes, VBytes _ => true
  | (BAscii | BUtf8 | BUni), VStr _ => true
  | _, _ => false
  end.

Definition valid_phys (c : compu) (pt : btype) (v : value) : bool :=
  match c with
  | CIdent => isinstance_bt pt v
  | CLinear off num den lo hi =>
    match v with
    | VInt y =>
      let plo := option_map (lin_i2p off num den) (if 0 <=? num then lo else hi) in
      let phi := option_map (lin_i2p off num den) (if 0 <=? num then hi else lo) in
      in_limits plo phi y
    | _ => false
    end
  end.

Definition p2i (c : compu) (v : value) : res value :=
  match c with
  | CIdent => Ok v
  | CLinear off num den lo hi =>
    match v with
    | VInt y => if num =? 0 then Ok (VInt 0)
                else Ok (VInt (round_half_even (Qmake (y * den - off) 1 / inject_Z num)))
    | _ => Err ERej
    end
  end.

Definition valid_int (c : compu) (it : btype) (v : value) : bool :=
  match c with
  | CIdent => isinstance_bt it v
  | CLinear _ _ _ lo hi => match v with VInt x => in_limits lo hi x | _ => false end
  end.

Definition i2p (c : compu) (v : value) : res value :=
  match c with
  | CIdent => Ok v
  | CLinear off num den _ _ => match v with VInt x => Ok (VInt (lin_i2p off num den x)) | _ => Err EOdx end
  end.

(* ---------- static bit lengths ---------- *)
Fixpoint static_bits (fuel : nat) (d : dop) : option Z :=
  match fuel with
  | O => None
  | S f =>
    match d with
    | DSimple dc _ _ => static_bits_dct dc
    | DStruct ps (Some bs) => Some (8 * bs)
    | DStruct ps None =>
      (fix go (ps : list param) (cursor len : Z) : option Z :=
         match ps with
         | [] => Some (8 * len)
         | P _ bp bt k :: r =>
           match (match k with
                  | KCoded dc _ | KNrc dc _ => static_bits_dct dc
                  | KValue d' _ | KPhysConst d' _ | KLenKey d' => static_bits f d'
                  | KReserved bl => Some bl
                  | KMatchReq _ len => Some (8 * len)
                  end) with
           | None => None
           | Some pbl =>
             let cursor := match bp with Some b => b | None => cursor end in
             let cursor := cursor + ((match bt with Some b => b | None => 0 end) + pbl + 7) / 8 in
             go r cursor (Z.max len cursor)
           end
         end) ps 0 0
    | _ => None
    end
  end.

Definition is_required (p : param) : bool :=
  match pkind_of p with KValue _ None => true | _ => false end.
Definition is_settable (p : param) : bool :=
  match pkind_of p with KValue _ _ | KLenKey _ => true | _ => false end.

Definition zlen {A} (l : list A) : Z := Z.of_nat (List.length l).
Definition opt_or0 (o : option Z) : Z := match o with Some z => z | None => 0 end.

Definition vget (k : name) (v : list (name * value)) : value :=
  match lookup k v with Some x => x | None => VNone end.
Definition is_none (v : value) : bool := match v with VNone => true | _ => false end.

(* ---------- encoding ---------- *)
Fixpoint enc_dop (fuel : nat) (d : dop) (v : value) (s : estate) {struct fuel} : res estate :=
  match fuel with
  | O => Err EFuel
  | S f =>
    match d with
    | DSimple dc c pt =>
      do _ <- guard (valid_phys c pt v) ERej;
      do iv <- p2i c v;
      (* since the fix commit: a conversion result outside the internal limits (rounding) is rejected *)
      do _ <- guard (valid_int c (dct_bt dc) iv) ERej;
      enc_dct dc iv s
    | DStruct ps bs =>
      let orig_pos := e_cur s in
      do s1 <- enc_composite f ps v s;
      match bs with
      | None => Ok s1
      | Some b =>
        if b <? e_cur s1 - orig_pos then Err ERej else
        if e_cur s1 - orig_pos <? b then
          let endp := orig_pos + b in
          let missing := endp - blen (e_msg s1) in
          Ok (mkE (e_msg s1 ++ zeros missing) (e_used s1 ++ ffs missing) (e_origin s1) endp (e_bit s1)
                  (e_eop s1) (e_lkeys s1) (e_keypos s1) (e_req s1) (e_warn s1))
        else Ok s1
      end
    | DStatic sd n isz =>
      match v with
      | VList items =>
        do _ <- guard (zlen items =? n) ERej;
        let orig_eop := e_eop s in
        do s2 <- (fix go (items : list value) (i : Z) (s : estate) : res estate :=
                    match items with
                    | [] => Ok s
                    | it :: r =>
                      do _ <- guard (match it with VDict _ => true | _ => false end) ERej;
                      let s := if i =? n - 1 then set_eop s orig_eop else s in
                      let before := e_cur s in
                      do s1 <- enc_dop f sd it s;
                      let used := e_cur s1 - before in
                      do _ <- guard (used <=? isz) ERej;
                      do s1 <- (if used <? isz then emplace_bytes s1 (zeros (isz - used)) None else Ok s1);
                      go r (i + 1) s1
                    end) items 0 (set_eop s false);
        Ok (set_eop s2 orig_eop)
      | _ => Err ERej
      end
    | DDynLen sd offset cb cbit cnt =>
      do _ <- guard (e_bit s =? 0) ERej;
      match v with
      | VList items =>
        let orig_origin := e_origin s in
        let s := set_origin s (e_cur s) in
        let s := set_cur (set_bit s cbit) (e_origin s + cb) in
        do s1 <- enc_dop f cnt (VInt (zlen items)) s;
        do _ <- guard (e_cur s1 - e_origin s1 <=? offset) ERej;
        let s1 := set_bit (set_cur s1 (e_origin s1 + offset)) 0 in
        let orig_eop := e_eop s1 in
        let n := zlen items in
        do s2 <- (fix go (items : list value) (i : Z) (s : estate) : res estate :=
                    match items with
                    | [] => Ok s
                    | it :: r =>
                      let s := if i =? n - 1 then set_eop s orig_eop else s in
                      do s1 <- enc_dop f sd it s;
                      go r (i + 1) s1
                    end) items 0 (set_eop s1 false);
        let s2 := set_eop s2 orig_eop in
        do s3 <- (if n =? 0 then emplace_bytes s2 [] None else Ok s2);
        Ok (set_origin s3 orig_origin)
      | _ => Err ERej
      end
    | DEop sd =>
      do _ <- guard (e_bit s =? 0) ERej;
      do _ <- guard (e_eop s) ERej;
      match v with
      | VList items =>
        let orig_eop := e_eop s in
        let n := zlen items in
        do s2 <- (fix go (items : list value) (i : Z) (s : estate) : res estate :=
                    match items with
                    | [] => Ok s
                    | it :: r =>
                      let s := if i =? n - 1 then set_eop s orig_eop else s in
                      do s1 <- enc_dop f sd it s;
                      go r (i + 1) s1
                    end) items 0 (set_eop s false);
        Ok (set_eop s2 orig_eop)
      | _ => Err ERej
      end
    | DEndMarker sd td tv =>
      do _ <- guard (e_bit s =? 0) ERej;
      match v with
      | VList items =>
        let orig_eop := e_eop s in
        let n := zlen items in
        do s2 <- (fix go (items : list value) (i : Z) (s : estate) : res estate :=
                    match items with
                    | [] => Ok s
                    | it :: r =>
                      let s := if i =? n - 1 then set_eop s orig_eop else s in
                      do s1 <- enc_dop f sd it s;
                      go r (i + 1) s1
                    end) items 0 (set_eop s false);
        let s2 := set_eop s2 orig_eop in
        if e_eop s2 then Ok s2
        else
          let tmp := e_cur s2 in
          do s3 <- enc_dop f td tv s2;
          Ok (set_cur s3 tmp)
      | _ => Err ERej
      end
    | DMux bp kb kbit kd cases dflt =>
      do _ <- guard (e_bit s =? 0) ERej;
      let orig_origin := e_origin s in
      let s := set_origin s (e_cur s) in
      do sc <- match v with
               | VList [spec; cv] => Ok (spec, cv)
               | VDict [(k, cv)] => Ok (VStr k, cv)
               | _ => Err ERej
               end;
      let '(spec, cv) := sc in
      (* the case (its content structure) and the value of the switch key *)
      do sel <- match spec with
                | VStr nm =>
                  match filter (fun c => bytes_eqb (mc_name c) nm) cases with
                  | [] => match dflt with Some c => Ok (mc_struct c, 0) | None => Err ERej end
                  | [c] => Ok (mc_struct c, mc_lo c)
                  | _ => Err ERej
                  end
                | VInt n =>
                  match filter (mc_applies n) cases with
                  | [] => match dflt with Some c => Ok (mc_struct c, n) | None => Err ERej end
                  | c :: _ => Ok (mc_struct c, n)
                  end
                | VNone => match dflt with Some c => Ok (mc_struct c, 0) | None => Err ERej end
                | _ => Err ERej
                end;
      let '(st, key) := sel in
      let s := set_bit (set_cur s (e_origin s + kb)) kbit in
      do s1 <- enc_dop f kd (VInt key) s;
      let s1 := set_bit s1 0 in
      (* since the fix commit: the multiplexer extends at least to the end of its switch key *)
      do s2 <- match st with
               | Some sd => do s3 <- enc_dop f sd cv (set_cur s1 (e_origin s1 + bp));
                            Ok (set_cur s3 (Z.max (e_cur s3) (e_cur s1)))
               | None => Ok s1
               end;
      Ok (set_origin s2 orig_origin)
    end
  end

with enc_composite (fuel : nat) (ps : list param) (v : value) (s : estate) {struct fuel} : res estate :=
  match fuel with
  | O => Err EFuel
  | S f =>
    match v with
    | VDict kv =>
      do _ <- guard (e_bit s =? 0) ERej;
      let orig_origin := e_origin s in
      let orig_eop := e_eop s in
      (* since the fix commit "items of a field shared the values of their length- and table keys": the object forgets
         what was determined for keys named like its own *)
      let s := drop_keys (own_keys ps) s in
      let s := set_eop (set_origin s (e_cur s)) false in
      (* unknown parameters *)
      do _ <- guard (forallb (fun k => existsb (fun p => bytes_eqb (fst k) (pname p)) ps) kv) ERej;
      let n := zlen ps in
      do s1 <- (fix go (l : list param) (i : Z) (s : estate) : res estate :=
                  match l with
                  | [] => Ok s
                  | p :: r =>
                    let s := if i =? n - 1 then set_eop s orig_eop else s in
                    do s1 <- enc_param f p kv s;
                    go r (i + 1) s1
                  end) ps 0 s;
      let s1 := set_eop s1 false in
      let cursor_after_params := e_cur s1 in
      do s2 <- (fix keys (l : list param) (s : estate) : res estate :=
                  match l with
                  | [] => Ok s
                  | P nm bp bt (KLenKey d) :: r =>
                    match lookup nm (e_lkeys s) with
                    | None => Err ERej
                    | Some lv =>
                      let s := set_bit (set_cur s (match lookup nm (e_keypos s) with Some p => p | None => 0 end))
                                       (opt_or0 bt) in
                      do s1 <- enc_dop f d (VInt lv) s;
                      keys r s1
                    end
                  | _ :: r => keys r s
                  end) ps s1;
      Ok (set_origin (set_cur s2 cursor_after_params) orig_origin)
    | _ => Err ERej
    end
  end

with enc_param (fuel : nat) (p : param) (kv : list (name * value)) (s : estate) {struct fuel} : res estate :=
  match fuel with
  | O => Err EFuel
  | S f =>
    match p with
    | P nm bp bt (KLenKey d) =>
      (* encode_placeholder_into_pdu *)
      let pv := vget nm kv in
      do s <- (if is_none pv then Ok s else
               match d, pv with
               | DSimple _ c pt, VInt z =>
                 do _ <- guard (valid_phys c pt pv) ERej;
                 do _ <- guard (match lookup nm (e_lkeys s) with Some l => l =? z | None => true end) ERej;
                 Ok (set_lkeys s (update nm z (e_lkeys s)))
               | _, _ => Err ERej
               end);
      let pos := match bp with Some b => e_origin s + b | None => e_cur s end in
      let s := set_keypos s (update nm pos (e_keypos s)) in
      let s := set_bit (set_cur s pos) (opt_or0 bt) in
      match static_bits (S f) d with
      | None => Err ERej
      | Some sb =>
        let tmp := zeros ((sb + e_bit s + 7) / 8) in
        emplace_bytes (set_bit s 0) tmp (Some tmp)
      end
    | P nm bp bt k =>
      do _ <- guard (negb (is_required p) || (match lookup nm kv with Some _ => true | None => false end)) ERej;
      let pv := vget nm kv in
      let s := match bp with Some b => set_cur s (e_origin s + b) | None => s end in
      let s := set_bit s (opt_or0 bt) in
      do s1 <-
        match k with
        | KCoded dc cv =>
          do _ <- guard (is_none pv || atom_eqb pv cv) ERej;
          enc_dct dc cv s
        | KValue d dflt =>
          let pv := if is_none pv then match dflt with Some x => x | None => VNone end else pv in
          do _ <- guard (negb (is_none pv)) ERej;
          enc_dop f d pv s
        | KReserved bl =>
          emplace_bytes (set_bit (set_cur s (e_cur s + (e_bit s + bl + 7) / 8)) 0) [] None
        | KPhysConst d cv =>
          do _ <- guard (is_none pv || atom_eqb pv cv) ERej;
          enc_dop f d cv s
        | KMatchReq rqpos len =>
          match e_req s with
          | None => Err ERej
          | Some rq =>
            (* since the fix commit: a negative REQUEST-BYTE-POS counts from the end of the request (-1 = its last byte) *)
            let pos := if rqpos <? 0 then blen rq + rqpos else rqpos in
            do _ <- guard ((0 <=? pos) && (pos + len <=? blen rq)) ERej;
            emplace_bytes s (slice pos len rq) None
          end
        | KNrc dc vs =>
          do _ <- guard (is_none pv) ERej;
          match static_bits_dct dc with
          | None => Err ERej
          | Some bl => emplace_bytes (set_bit (set_cur s (e_cur s + (e_bit s + bl + 7) / 8)) 0) [] None
          end
        | KLenKey _ => Err (EForeign 6)
        end;
      Ok (set_bit s1 0)
    end
  end.

(* ---------- decoding ---------- *)
Fixpoint dec_dop (fuel : nat) (d : dop) (s : dstate) {struct fuel} : res (value * dstate) :=
  match fuel with
  | O => Err EFuel
  | S f =>
    match d with
    | DSimple dc c pt =>
      do vs <- dec_dct dc s;
      let '(iv, s1) := vs in
      if valid_int c (dct_bt dc) iv then do pv <- i2p c iv; Ok (pv, s1) else Err EDecode
    | DStruct ps bs =>
      let orig_pos := d_cur s in
      do vs <- dec_composite f ps s;
      let '(v, s1) := vs in
      match bs with
      | None => Ok (v, s1)
      | Some b => if b <? d_cur s1 - orig_pos then Err EDecode else Ok (v, dset_cur s1 (orig_pos + b))
      end
    | DStatic sd n isz =>
      do _ <- guard (d_bit s =? 0) EOdx;
      let orig_origin := d_origin s in
      let s := dset_origin s (d_cur s) in
      do r <- (fix go (k : nat) (s : dstate) (acc : list value) : res (list value * dstate) :=
                 match k with
                 | O => Ok (rev acc, s)
                 | S k' =>
                   let oc := d_cur s in
                   do vs <- dec_dop f sd s;
                   let '(v, s1) := vs in
                   go k' (dset_cur s1 (oc + isz)) (v :: acc)
                 end) (Z.to_nat n) s [];
      let '(l, s1) := r in
      Ok (VList l, dset_origin s1 orig_origin)
    | DDynLen sd offset cb cbit cnt =>
      do _ <- guard (d_bit s =? 0) EOdx;
      let orig_origin := d_origin s in
      let s := dset_origin s (d_cur s) in
      let s := dset_bit (dset_cur s (d_origin s + cb)) cbit in
      do ns <- dec_dop f cnt s;
      let '(nv, s1) := ns in
      match nv with
      | VInt n =>
        do _ <- guard (0 <=? n) EDecode;
        let s1 := dset_cur s1 (d_origin s1 + offset) in
        do r <- (fix go (k : nat) (s : dstate) (acc : list value) : res (list value * dstate) :=
                   match k with
                   | O => Ok (rev acc, s)
                   | S k' =>
                     do vs <- dec_dop f sd s;
                     let '(v, s1) := vs in
                     go k' s1 (v :: acc)
                   end) (Z.to_nat n) s1 [];
        let '(l, s2) := r in
        Ok (VList l, dset_origin s2 orig_origin)
      | _ => Err EOdx
      end
    | DEop sd =>
      do _ <- guard (d_bit s =? 0) EOdx;
      let orig_origin := d_origin s in
      let s := dset_origin s (d_cur s) in
      do r <- (fix go (k : nat) (s : dstate) (acc : list value) : res (list value * dstate) :=
                 if blen (d_msg s) <=? d_cur s then Ok (rev acc, s) else
                 match k with
                 | O => Err EFuel
                 | S k' =>
                   let oc := d_cur s in
                   do vs <- dec_dop f sd s;
                   let '(v, s1) := vs in
                   if d_cur s1 <=? oc then Err EDecode else go k' s1 (v :: acc)
                 end) (S (List.length (d_msg s))) s [];
      let '(l, s1) := r in
      Ok (VList l, dset_origin s1 orig_origin)
    | DEndMarker sd td tv =>
      do _ <- guard (d_bit s =? 0) EOdx;
      let orig_origin := d_origin s in
      let s := dset_origin s (d_cur s) in
      do r <- (fix go (k : nat) (s : dstate) (acc : list value) : res (list value * dstate) :=
                 if blen (d_msg s) <=? d_cur s then Ok (rev acc, s) else
                 match k with
                 | O => Err EFuel
                 | S k' =>
                   let oc := d_cur s in
                   let stop := match dec_dop f td s with
                               | Ok (cand, _) => Ok (atom_eqb cand tv)
                               | Err EDecode | Err EMismatch => Ok false
                               | Err e => Err e
                               end in
                   do st <- stop;
                   if st then Ok (rev acc, dset_cur s oc) else
                   do vs <- dec_dop f sd (dset_cur s oc);
                   let '(v, s1) := vs in
                   if d_cur s1 <=? oc then Err EDecode else go k' s1 (v :: acc)
                 end) (S (S (List.length (d_msg s)))) s [];
      let '(l, s1) := r in
      Ok (VList l, dset_origin s1 orig_origin)
    | DMux bp kb kbit kd cases dflt =>
      let orig_origin := d_origin s in
      let s := dset_origin s (d_cur s) in
      let s := dset_bit (dset_cur s (d_origin s + kb)) kbit in
      do ks <- dec_dop f kd s;
      let '(kv, s1) := ks in
      let s1 := dset_bit s1 0 in
      match kv with
      | VInt key =>
        match (match find (mc_applies key) cases with Some c => Some c | None => dflt end) with
        | Some c =>
          (* since the fix commit: the cursor only moves to BYTE-POSITION if the case has content, like the encoder *)
          do r <- match mc_struct c with
                  | Some sd => do r' <- dec_dop f sd (dset_cur s1 (d_origin s1 + bp));
                               Ok (fst r', dset_cur (snd r') (Z.max (d_cur (snd r')) (d_cur s1)))
                  | None => Ok (VDict [], s1)
                  end;
          Ok (VList [VStr (mc_name c); fst r], dset_origin (snd r) orig_origin)
        | None => Err EDecode
        end
      | _ => Err EOdx
      end
    end
  end

with dec_composite (fuel : nat) (ps : list param) (s : dstate) {struct fuel} : res (value * dstate) :=
  match fuel with
  | O => Err EFuel
  | S f =>
    let orig_origin := d_origin s in
    let s := dset_origin s (d_cur s) in
    do r <- (fix go (l : list param) (s : dstate) (acc : list (name * value)) : res (list (name * value) * dstate) :=
               match l with
               | [] => Ok (acc, s)
               | p :: r =>
                 do vs <- dec_param f p s;
                 let '(v, s1) := vs in
                 go r s1 (update (pname p) v acc)
               end) ps s [];
    let '(kv, s1) := r in
    Ok (VDict kv, dset_origin s1 orig_origin)
  end

with dec_param (fuel : nat) (p : param) (s : dstate) {struct fuel} : res (value * dstate) :=
  match fuel with
  | O => Err EFuel
  | S f =>
    match p with
    | P nm bp bt k =>
      let s := match bp with Some b => dset_cur s (d_origin s + b) | None => s end in
      let s := dset_bit s (opt_or0 bt) in
      do vs <-
        match k with
        | KCoded dc cv => dec_dct dc s   (* a mismatch only produces a warning *)
        | KValue d _ => dec_dop f d s
        | KReserved bl => extract_atomic s bl BUint None false
        | KPhysConst d cv =>
          do vs <- dec_dop f d s;
          if atom_eqb (fst vs) cv then Ok vs else Err EDecode
        | KMatchReq _ len => extract_atomic s (8 * len) BUint None false
        | KNrc dc vals =>
          do vs <- dec_dct dc s;
          if existsb (atom_eqb (fst vs)) vals then Ok vs else Err EMismatch
        | KLenKey d =>
          do vs <- dec_dop f d s;
          match fst vs with
          | VInt z => Ok (fst vs, dset_lkeys (snd vs) (update nm z (d_lkeys (snd vs))))
          | _ => Err EOdx
          end
        end;
      Ok (fst vs, dset_bit (snd vs) 0)
    end
  end.

(* ---------- entry points: Request.encode / Request.decode, Response.* ---------- *)
Definition estate0 (rq : option bytes) : estate := mkE [] [] 0 0 0 true [] [] rq false.
Definition dstate0 (m : bytes) : dstate := mkD m 0 0 0 [].

Fixpoint dop_size (fuel : nat) (d : dop) : nat :=
  match fuel with
  | O => 1
  | S f =>
    match d with
    | DSimple _ _ _ => 1
    | DStruct ps _ =>
      S (fold_right (fun p acc =>
          (match pkind_of p with
           | KValue d' _ | KPhysConst d' _ | KLenKey d' => dop_size f d'
           | _ => 1 end + acc)%nat) 1%nat ps)
    | DStatic s _ _ | DEop s => S (dop_size f s)
    | DDynLen s _ _ _ c => S (dop_size f s + dop_size f c)
    | DEndMarker s t _ => S (dop_size f s + dop_size f t)
    | DMux _ _ _ k cs d =>
      let csz := fun c => match mc_struct c with Some d' => dop_size f d' | None => 1%nat end in
      S (dop_size f k + fold_right (fun c acc => (csz c + acc)%nat) 1%nat cs
         + match d with Some c => csz c | None => 1 end)
    end
  end.

Definition fuel_of (ps : list param) : nat := (4 * dop_size 64 (DStruct ps None) + 8)%nat.

Definition encode_msg (ps : list param) (rq : option bytes) (v : value) : res (bytes * bool) :=
  do s <- enc_composite (fuel_of ps) ps v (estate0 rq);
  Ok (e_msg s, e_warn s).

Definition decode_msg (ps : list param) (m : bytes) : res value :=
  do vs <- dec_composite (fuel_of ps) ps (dstate0 m);
  Ok (fst vs).

(* composite_codec_get_static_bit_length / coded_const_prefix / required / free *)
Definition static_bits_msg (ps : list param) : option Z := static_bits (fuel_of ps) (DStruct ps None).

Definition const_prefix (ps : list param) (rq : bytes) : res bytes :=
  (fix go (l : list param) (s : estate) : res bytes :=
     match l with
     | [] => Ok (e_msg s)
     | p :: r =>
       let take_it := match pkind_of p with
                      | KCoded _ _ | KPhysConst _ _ => true
                      | KMatchReq rqpos len => (0 <=? rqpos) && (rqpos + len <=? blen rq)
                        (* since the fix commits: the whole mirrored range, counted from the start of the request *)
                      | _ => false
                      end in
       if take_it then do s1 <- enc_param (fuel_of ps) p [] s; go r s1 else Ok (e_msg s)
     end) ps (estate0 (Some rq)).
