(* Executable model of odxtools/nameditemlist.py (NamedItemList).
   Names are lists of character codes.  Items carry an identity (uid),
   a short name and a payload: Python's `is` compares all three (the same
   object has the same fields), Python's `==` compares short name and
   payload (dataclass equality). *)
From Coq Require Import ZArith List Bool Ascii String DecimalString.
From OV Require Import Base.Wire Generated.
Import ListNotations.
Open Scope Z_scope.

Definition name := list Z.

Record item := mkItem { uid : Z; sn : name; pay : Z }.

Fixpoint name_eqb (a b : name) : bool :=
  match a, b with
  | [], [] => true
  | x :: a', y :: b' => (x =? y) && name_eqb a' b'
  | _, _ => false
  end.

Definition item_is (a b : item) : bool :=
  (uid a =? uid b) && name_eqb (sn a) (sn b) && (pay a =? pay b).
Definition item_eq (a b : item) : bool :=
  name_eqb (sn a) (sn b) && (pay a =? pay b).

Record st := mkSt { items : list item; names : list (name * item) }.

Definition init : st := mkSt [] [].

(* ---- key derivation: NamedItemList._get_item_key ---- *)
Definition is_digit (c : Z) : bool := (48 <=? c) && (c <=? 57).
Definition mem_name (k : name) (l : list name) : bool := existsb (name_eqb k) l.

Definition item_key (i : item) : name :=
  match sn i with
  | [] => []          (* the real code raises IndexError; excluded by wf *)
  | c :: _ => if is_digit c || mem_name (sn i) keywords then 95 :: sn i else sn i
  end.

(* ---- uniquification: ItemAttributeList._add_attribute_item ---- *)
Definition codes_of_string (s : string) : name :=
  map (fun a => Z.of_nat (nat_of_ascii a)) (list_ascii_of_string s).
Definition digits (n : nat) : name :=
  codes_of_string (NilEmpty.string_of_uint (Nat.to_uint n)).

Definition ends_with_underscore (k : name) : bool :=
  match rev k with 95 :: _ => true | _ => false end.

Definition candidate (k : name) (i : nat) : name :=
  if ends_with_underscore k then k ++ digits i else k ++ 95 :: digits i.

(* hasattr(self, tmp): class attributes and instance dict (reserved, generated
   from the source) or an existing item name *)
Definition taken (s : st) (k : name) : bool :=
  mem_name k reserved || mem_name k (map fst (names s)).

Fixpoint first_free (s : st) (k : name) (i : nat) (fuel : nat) : option name :=
  match fuel with
  | O => None
  | S f => let c := candidate k i in
           if taken s c then first_free s k (S i) f else Some c
  end.

Definition fresh_fuel (s : st) : nat := S (List.length reserved + List.length (names s)).

Definition fresh_name (s : st) (k : name) : option name :=
  if taken s k then first_free s k 2 (fresh_fuel s) else Some k.

(* outcome of one operation *)
Inductive outcome := OOk | OValueError | OIndexError | OOutOfFuel.

Definition add_attr (s : st) (x : item) : option st :=
  match fresh_name s (item_key x) with
  | None => None
  | Some k => Some (mkSt (items s) (names s ++ [(k, x)]))
  end.

Definition append (s : st) (x : item) : option st :=
  match add_attr s x with
  | None => None
  | Some s' => Some (mkSt (items s' ++ [x]) (names s'))
  end.

Fixpoint extend (s : st) (xs : list item) : option st :=
  match xs with
  | [] => Some s
  | x :: r => match append s x with None => None | Some s' => extend s' r end
  end.

(* Python index normalisation *)
Definition insert_pos (len i : Z) : nat :=
  let j := if i <? 0 then Z.max 0 (i + len) else Z.min i len in Z.to_nat j.

Definition insert (s : st) (i : Z) (x : item) : option st :=
  match add_attr s x with
  | None => None
  | Some s' =>
    let p := insert_pos (Z.of_nat (List.length (items s))) i in
    Some (mkSt (firstn p (items s') ++ x :: skipn p (items s')) (names s'))
  end.

Fixpoint remove_first {A} (f : A -> bool) (l : list A) : list A :=
  match l with
  | [] => []
  | x :: r => if f x then r else x :: remove_first f r
  end.

(* by_identity = true is the code as it is now (after the fix commit);
   false reproduces the earlier behaviour: names deleted by equality *)
Definition drop_names (by_identity : bool) (r : item) (ns : list (name * item)) :=
  if by_identity then remove_first (fun kv => item_is (snd kv) r) ns
  else filter (fun kv => negb (item_eq (snd kv) r)) ns.

Definition pop_at (bi : bool) (s : st) (p : nat) : st * outcome :=
  match nth_error (items s) p with
  | None => (s, OIndexError)
  | Some r => (mkSt (firstn p (items s) ++ skipn (S p) (items s))
                    (drop_names bi r (names s)), OOk)
  end.

Definition pop (bi : bool) (s : st) (i : Z) : st * outcome :=
  let len := Z.of_nat (List.length (items s)) in
  let j := if i <? 0 then i + len else i in
  if (j <? 0) || (len <=? j) then (s, OIndexError) else pop_at bi s (Z.to_nat j).

Fixpoint find_index {A} (f : A -> bool) (l : list A) (n : nat) : option nat :=
  match l with
  | [] => None
  | x :: r => if f x then Some n else find_index f r (S n)
  end.

Definition remove (bi : bool) (s : st) (x : item) : st * outcome :=
  match find_index (fun y => item_eq y x) (items s) 0 with
  | None => (s, OValueError)
  | Some p => pop_at bi s p
  end.

(* copy(): same items, copy of the dict.  __copy__, __deepcopy__ and
   __reduce__ (pickle) rebuild the list from its items; deepcopy and pickle
   give the items fresh identities (uid + g, sharing preserved). *)
Definition refresh (g : Z) (x : item) : item := mkItem (uid x + g) (sn x) (pay x).
Definition rebuild (g : Z) (s : st) : option st := extend init (map (refresh g) (items s)).

Inductive op :=
| OpAppend (x : item) | OpInsert (i : Z) (x : item) | OpExtend (xs : list item)
| OpRemove (x : item) | OpPop (i : Z) | OpClear | OpCopy | OpRebuild (g : Z).

Definition lift (o : option st) (s : st) : st * outcome :=
  match o with Some s' => (s', OOk) | None => (s, OOutOfFuel) end.

Definition step (bi : bool) (s : st) (o : op) : st * outcome :=
  match o with
  | OpAppend x => lift (append s x) s
  | OpInsert i x => lift (insert s i x) s
  | OpExtend xs => lift (extend s xs) s
  | OpRemove x => remove bi s x
  | OpPop i => pop bi s i
  | OpClear => (init, OOk)
  | OpCopy => (s, OOk)
  | OpRebuild g => lift (rebuild g s) s
  end.

Definition run (bi : bool) (ops : list op) (s : st) : st :=
  fold_left (fun s o => fst (step bi s o)) ops s.

(* lookup: nil[key] / getattr(nil, key) *)
Fixpoint get (ns : list (name * item)) (k : name) : option item :=
  match ns with
  | [] => None
  | (k', v) :: r => if name_eqb k k' then Some v else get r k
  end.

(* ---------- wire ---------- *)
Definition item_of_tok (t : tok) : item :=
  mkItem (tz (tnth (tl t) 0)) (tzs (tnth (tl t) 1)) (tz (tnth (tl t) 2)).

Definition op_of_tok (t : tok) : op :=
  let l := tl t in
  let c := tz (tnth l 0) in
  if c =? 0 then OpAppend (item_of_tok (tnth l 1))
  else if c =? 1 then OpInsert (tz (tnth l 1)) (item_of_tok (tnth l 2))
  else if c =? 2 then OpExtend (map item_of_tok (tl (tnth l 1)))
  else if c =? 3 then OpRemove (item_of_tok (tnth l 1))
  else if c =? 4 then OpPop (tz (tnth l 1))
  else if c =? 5 then OpClear
  else if c =? 6 then OpCopy
  else OpRebuild (tz (tnth l 1)).

Definition outcome_code (o : outcome) : Z :=
  match o with OOk => 0 | OValueError => 1 | OIndexError => 2 | OOutOfFuel => 9 end.

(* identity class of an object: first position in the list holding it *)
Definition ident_class (s : st) (x : item) : Z :=
  match find_index (fun y => item_is y x) (items s) 0 with
  | Some p => Z.of_nat p | None => -1 end.

Definition observe (s : st) (o : outcome) : tok :=
  TL [ TZ (outcome_code o);
       TL (map (fun x => TL [TZs (sn x); TZ (pay x); TZ (ident_class s x)]) (items s));
       TL (map (fun kv => TL [TZs (fst kv); TZ (ident_class s (snd kv))]) (names s)) ].

Fixpoint run_obs (bi : bool) (ops : list op) (s : st) : list tok :=
  match ops with
  | [] => []
  | o :: r => let (s', oc) := step bi s o in observe s' oc :: run_obs bi r s'
  end.

(* case: [bi; [op...]] *)
Definition run_case (t : tok) : tok :=
  TL (run_obs (tbool (tnth (tl t) 0)) (map op_of_tok (tl (tnth (tl t) 1))) init).
