(* Executable model of odxtools/cli/compare.py: Comparison.compare_diagnostic_layers
   (classification of services as new / deleted / renamed / changed) and
   compare_databases (new / deleted layers). A service is abstracted to its short name,
   the constant prefix of its request (None: no request) and its remaining content. *)
From Coq Require Import ZArith List Bool.
From OV Require Import Base.Bytes Base.Wire.
Import ListNotations.
Open Scope Z_scope.

(* sv_decl: the DiagService element itself (its dataclass fields: ids, references, attributes);
   sv_body: the content of the referenced request and responses *)
Record svc := mkSvc { sv_name : Z; sv_prefix : option (list Z); sv_body : Z; sv_decl : Z }.

Definition oprefix_eqb (a b : option (list Z)) : bool :=
  match a, b with Some x, Some y => bytes_eqb x y | None, None => true | _, _ => false end.
(* `service in layer.services`: dataclass equality of the DiagService objects, which does not
   look into the referenced request / responses *)
Definition svc_eqb (a b : svc) : bool := (sv_name a =? sv_name b) && (sv_decl a =? sv_decl b).
Definition mem_svc (s : svc) (l : list svc) : bool := existsb (svc_eqb s) l.
Definition mem_name (n : Z) (l : list svc) : bool := existsb (fun s => sv_name s =? n) l.
Definition mem_prefix (p : option (list Z)) (l : list svc) : bool := existsb (fun s => oprefix_eqb p (sv_prefix s)) l.

Fixpoint find_by_prefix (p : option (list Z)) (l : list svc) : option svc :=
  match l with [] => None | s :: r => if oprefix_eqb p (sv_prefix s) then Some s else find_by_prefix p r end.

(* the partner of a renamed service: the first old service with its request prefix whose name
   vanished from the new layer, else the first old service with that prefix *)
Fixpoint find_vanished (news : list svc) (p : option (list Z)) (l : list svc) : option svc :=
  match l with
  | [] => None
  | s :: r => if oprefix_eqb p (sv_prefix s) && negb (mem_name (sv_name s) news) then Some s
              else find_vanished news p r
  end.
Definition rename_partner (news : list svc) (p : option (list Z)) (olds : list svc) : option svc :=
  match find_vanished news p olds with Some s => Some s | None => find_by_prefix p olds end.

Record report := mkR { r_new : list Z; r_deleted : list Z; r_renamed : list (Z * Z); r_changed : list Z }.

(* the inner loop over the services of the old layer, for one service of the new layer *)
Fixpoint inner (news : list svc) (s1 : svc) (olds : list svc) (r : report) : report :=
  match olds with
  | [] => r
  | s2 :: rest =>
    let r2 := if (sv_name s1 =? sv_name s2) && negb (sv_body s1 =? sv_body s2)
              then mkR (r_new r) (r_deleted r) (r_renamed r) (r_changed r ++ [sv_name s1]) else r in
    inner news s1 rest r2
  end.

(* the deleted services: a separate pass over the old layer (since the fix commit) *)
Definition deleted_pass (news olds : list svc) : list Z :=
  map sv_name (filter (fun s2 => negb (mem_name (sv_name s2) news) && negb (mem_prefix (sv_prefix s2) news)) olds).

Definition outer_step (news olds : list svc) (r : report) (s1 : svc) : report :=
  let r1 := if negb (mem_svc s1 olds) && negb (mem_prefix (sv_prefix s1) olds)
            then mkR (r_new r ++ [sv_name s1]) (r_deleted r) (r_renamed r) (r_changed r) else r in
  let r2 := if negb (mem_svc s1 olds) && negb (mem_name (sv_name s1) olds) && mem_prefix (sv_prefix s1) olds
            then match rename_partner news (sv_prefix s1) olds with
                 | Some s2 =>
                   let r' := mkR (r_new r1) (r_deleted r1) (r_renamed r1 ++ [(sv_name s1, sv_name s2)]) (r_changed r1) in
                   if negb (sv_body s1 =? sv_body s2)
                   then mkR (r_new r') (r_deleted r') (r_renamed r') (r_changed r' ++ [sv_name s1]) else r'
                 | None => r1
                 end
            else r1 in
  inner news s1 olds r2.

Definition compare_layers (news olds : list svc) : report :=
  let r := fold_left (outer_step news olds) news (mkR [] [] [] []) in
  mkR (r_new r) (r_deleted r ++ deleted_pass news olds) (r_renamed r) (r_changed r).

(* ---------- wire ---------- *)
Definition nthZ (l : list tok) (n : nat) : Z := tz (tnth l n).
Definition svc_of (t : tok) : svc :=
  let l := tl t in
  mkSvc (nthZ l 0) (match tl (tnth l 1) with [x] => Some (tzs x) | _ => None end) (nthZ l 2) (nthZ l 3).
Definition run_case (t : tok) : tok :=
  let l := tl t in
  let r := compare_layers (map svc_of (tl (tnth l 0))) (map svc_of (tl (tnth l 1))) in
  TL [TZs (r_new r); TZs (r_deleted r); TL (map (fun p => TL [TZ (fst p); TZ (snd p)]) (r_renamed r)); TZs (r_changed r)].
