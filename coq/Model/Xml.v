(* Executable model of the text layer of the PDX writer / loader:
   - jinja's |e filter (markupsafe.escape) used for element text,
   - make_xml_attrib of odxtools/writepdxfile.py (xml.sax.saxutils.escape plus &quot;),
   - the character-data / attribute-value decoding of an XML parser (predefined entities and
     decimal character references; a raw less-than sign, or a raw double quote inside a
     double-quoted attribute value, ends the token: modelled as failure),
   and of the assembly of a database from files (the lists follow the file order; the comparison
   is made on the lists sorted by short name).  Characters are code points. *)
From Coq Require Import ZArith List Bool.
From OV Require Import Base.Wire.
Import ListNotations.
Open Scope Z_scope.

Definition memZ (x : Z) (l : list Z) : bool := existsb (Z.eqb x) l.
Fixpoint list_eqb (a b : list Z) : bool :=
  match a, b with
  | [], [] => true
  | x :: a', y :: b' => (x =? y) && list_eqb a' b'
  | _, _ => false
  end.

(* the entities amp, lt, gt, #34, #39 and quot *)
Definition e_amp : list Z := [38; 97; 109; 112; 59].
Definition e_lt : list Z := [38; 108; 116; 59].
Definition e_gt : list Z := [38; 103; 116; 59].
Definition e_34 : list Z := [38; 35; 51; 52; 59].
Definition e_39 : list Z := [38; 35; 51; 57; 59].
Definition e_quot : list Z := [38; 113; 117; 111; 116; 59].

(* markupsafe.escape *)
Definition esc_char (c : Z) : list Z :=
  if c =? 38 then e_amp else if c =? 60 then e_lt else if c =? 62 then e_gt
  else if c =? 34 then e_34 else if c =? 39 then e_39 else [c].
Definition escape (s : list Z) : list Z := flat_map esc_char s.

(* xml.sax.saxutils.escape with the extra entity quot for the double quote *)
Definition attr_char (c : Z) : list Z :=
  if c =? 38 then e_amp else if c =? 60 then e_lt else if c =? 62 then e_gt
  else if c =? 34 then e_quot else [c].
Definition attr_escape (s : list Z) : list Z := flat_map attr_char s.

(* the writer before the fix: the value verbatim *)
Definition attr_verbatim (s : list Z) : list Z := s.

Fixpoint decimal (ds : list Z) (acc : Z) : option Z :=
  match ds with
  | [] => Some acc
  | d :: r => if (48 <=? d) && (d <=? 57) then decimal r (acc * 10 + (d - 48)) else None
  end.

Definition decode_entity (p : list Z) : option Z :=
  if list_eqb p [97; 109; 112] then Some 38
  else if list_eqb p [108; 116] then Some 60
  else if list_eqb p [103; 116] then Some 62
  else if list_eqb p [113; 117; 111; 116] then Some 34
  else if list_eqb p [97; 112; 111; 115] then Some 39
  else match p with
       | 35 :: d :: ds => decimal (d :: ds) 0
       | _ => None
       end.

(* pend = the characters after an open ampersand, newest first *)
Fixpoint unesc (forbidden : list Z) (pend : option (list Z)) (s : list Z) : option (list Z) :=
  match s with
  | [] => match pend with None => Some [] | Some _ => None end
  | c :: r =>
    match pend with
    | None => if c =? 38 then unesc forbidden (Some []) r
              else if memZ c forbidden then None
              else option_map (cons c) (unesc forbidden None r)
    | Some p => if c =? 59
                then match decode_entity (rev p) with
                     | Some ch => option_map (cons ch) (unesc forbidden None r)
                     | None => None
                     end
                else unesc forbidden (Some (c :: p)) r
    end
  end.

Definition parse_text (s : list Z) : option (list Z) := unesc [60] None s.
Definition parse_attr (s : list Z) : option (list Z) := unesc [60; 34] None s.

(* ---------- assembly ---------- *)
(* a document: (short name, content) *)
Fixpoint insert (x : Z * Z) (l : list (Z * Z)) : list (Z * Z) :=
  match l with
  | [] => [x]
  | y :: r => if fst x <=? fst y then x :: l else y :: insert x r
  end.
Definition canon (l : list (Z * Z)) : list (Z * Z) := fold_right insert [] l.
(* Database._process_xml_tree appends in file order *)
Definition assemble (files : list (Z * Z)) : list (Z * Z) := fold_left (fun db f => db ++ [f]) files [].

(* ---------- coverage ---------- *)
Definition mem_name (n : list Z) (l : list (list Z)) : bool := existsb (list_eqb n) l.
Definition covered (writes gaps : list (list Z)) (r : list Z) : bool := mem_name r writes || mem_name r gaps.

(* ---------- wire ---------- *)
Definition TOptZs (o : option (list Z)) : tok := match o with Some l => TL [TZs l] | None => TL [] end.
(* op 1: [1; text] -> [escape; attr_escape; parse_text (escape); parse_attr (attr_escape)]
   op 2: [2; files [[name; content]...]] -> canon (assemble files) *)
Definition run_case (t : tok) : tok :=
  let l := tl t in
  let op := tz (tnth l 0) in
  if op =? 1 then
    let s := tzs (tnth l 1) in
    TL [TZs (escape s); TZs (attr_escape s); TOptZs (parse_text (escape s)); TOptZs (parse_attr (attr_escape s))]
  else
    let fs := map (fun x => (tz (tnth (tl x) 0), tz (tnth (tl x) 1))) (tl (tnth l 1)) in
    TL (map (fun p => TL [TZ (fst p); TZ (snd p)]) (canon (assemble fs))).
