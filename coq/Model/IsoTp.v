(* Executable model of odxtools/isotp_state_machine.py:
   IsoTpStateMachine.decode_rx_frame and the flow-control logic of
   IsoTpActiveDecoder.  Bytes are Z in 0..255. *)
From Coq Require Import ZArith List Bool.
From OV Require Import Base.Wire Generated.
Import ListNotations.
Open Scope Z_scope.

Notation bytes := (list Z) (only parsing).

(* per receive id: (_telegram_specified_len, _telegram_data, _telegram_last_rx_fragment_idx) *)
Record slot := mkSlot { spec_len : Z; data : option bytes; last_idx : Z }.
Definition slot0 : slot := mkSlot 0 None 0.

(* callbacks, without the telegram index *)
Inductive cb :=
| CbSingle (p : bytes) | CbFirst (d : bytes) | CbConsec (seg : Z) (p : bytes)
| CbFlow (flag : Z) | CbSeqErr (expected rx : Z) | CbTypeErr (ft : Z) | CbComplete (p : bytes).

Definition blen (b : bytes) : Z := Z.of_nat (List.length b).
Definition take (n : Z) (b : bytes) : bytes := firstn (Z.to_nat n) b.
Definition drop (n : Z) (b : bytes) : bytes := skipn (Z.to_nat n) b.

(* big-endian number *)
Definition be_len (b : bytes) : Z := fold_left (fun a x => a * 256 + x) b 0.

(* one frame addressed to this slot: new slot, telegrams yielded, callbacks *)
Definition slot_step (s : slot) (d : bytes) : slot * list bytes * list cb :=
  match d with
  | [] => (s, [], [])
  | b0 :: rest =>
    let ft := b0 / 16 in
    let lo := b0 mod 16 in
    if ft =? isotp_frame_type_single then
      let '(len, off) :=
        if (lo =? 0) && (8 <? blen d) then (nth 1 d 0, 2) else (lo, 1) in
      let p := take len (drop off d) in
      (s, [p], [CbSingle p; CbComplete p])
    else if ft =? isotp_frame_type_first then
      match rest with
      | [] => (s, [], [CbTypeErr ft])
      | b1 :: pl =>
        (* ISO 15765-2:2016: a 12 bit length of zero announces the length as 32 bit number in the next four bytes
           (since the fix commit "ISO-TP first frames of telegrams longer than 4095 bytes") *)
        if (lo * 256 + b1 =? 0) && (6 <=? blen d)
        then (mkSlot (be_len (take 4 pl)) (Some (drop 4 pl)) 0, [], [CbFirst d])
        else (mkSlot (lo * 256 + b1) (Some pl) 0, [], [CbFirst d])
      end
    else if ft =? isotp_frame_type_consecutive then
      let expected := (last_idx s + 1) mod 16 in
      match data s with
      | None => (s, [], [CbConsec lo rest; CbSeqErr expected lo])
      | Some td =>
        if expected =? lo then
          let td' := td ++ rest in
          let n := spec_len s in
          if n <=? blen td' then
            let t := take n td' in
            (mkSlot n None lo, [t], [CbConsec lo rest; CbComplete t])
          else (mkSlot n (Some td') lo, [], [CbConsec lo rest])
        else (s, [], [CbConsec lo rest; CbSeqErr expected lo])
      end
    else if ft =? isotp_frame_type_flow_control then (s, [], [CbFlow lo])
    else (s, [], [CbTypeErr ft])
  end.

(* ---------- the machine: a slot per configured receive id ---------- *)
Fixpoint index_of (x : Z) (l : list Z) (n : nat) : option nat :=
  match l with
  | [] => None
  | y :: r => if x =? y then Some n else index_of x r (S n)
  end.

Fixpoint set_nth {A} (n : nat) (x : A) (l : list A) : list A :=
  match l, n with
  | [], _ => []
  | _ :: r, O => x :: r
  | y :: r, S m => y :: set_nth m x r
  end.

Record machine := mkMachine { ids : list Z; slots : list slot }.
Definition machine0 (ids : list Z) : machine := mkMachine ids (map (fun _ => slot0) ids).

Definition frame := (Z * bytes)%type.

(* returns: new machine, yielded (id, telegram) tuples, callbacks with telegram index *)
Definition step (m : machine) (f : frame) : machine * list (Z * bytes) * list (nat * cb) :=
  let '(rx, d) := f in
  match index_of rx (ids m) 0 with
  | None => (m, [], [])
  | Some idx =>
    let '(s', ts, cbs) := slot_step (nth idx (slots m) slot0) d in
    (mkMachine (ids m) (set_nth idx s' (slots m)), map (fun t => (rx, t)) ts,
     map (fun c => (idx, c)) cbs)
  end.

Fixpoint run (m : machine) (fs : list frame) : machine * list (Z * bytes) :=
  match fs with
  | [] => (m, [])
  | f :: r => let '(m1, ts, _) := step m f in
              let '(m2, ts2) := run m1 r in (m2, ts ++ ts2)
  end.

Definition telegrams (ids : list Z) (fs : list frame) : list (Z * bytes) :=
  snd (run (machine0 ids) fs).

(* ---------- IsoTpActiveDecoder: flow-control frames sent to the bus ---------- *)
Record astate := mkA { block_size : option Z; frames_received : option Z }.
Definition astate0 := mkA None None.

Definition fc_payload (bs : Z) : bytes :=
  [isotp_frame_type_flow_control * 16 + isotp_flow_control_continue; bs; 0].

Definition pad_to (size value : Z) (p : bytes) : bytes :=
  p ++ repeat value (Z.to_nat (size - blen p)).

(* reaction of the active decoder to one callback: new state, frames sent *)
Definition active_cb (a : astate) (c : cb) : astate * list bytes :=
  match c with
  | CbSingle _ => (mkA (block_size a) None, [fc_payload 255])
  | CbFirst _ => (mkA (Some 255) (Some 0), [fc_payload 255])
  | CbConsec _ _ =>
    match frames_received a with
    | None => (a, [])
    | Some n =>
      match block_size a with
      | Some bs => if bs <=? n then (mkA (block_size a) (Some 0), [fc_payload bs])
                   else (mkA (block_size a) (Some (n + 1)), [])
      | None => (mkA (block_size a) (Some (n + 1)), [])
      end
    end
  | _ => (a, [])
  end.

Fixpoint active_cbs (tx : list Z) (psize pval : Z) (as_ : list astate) (cbs : list (nat * cb))
  : list astate * list (Z * bytes) :=
  match cbs with
  | [] => (as_, [])
  | (idx, c) :: r =>
    let '(a', sent) := active_cb (nth idx as_ astate0) c in
    let '(as2, sent2) := active_cbs tx psize pval (set_nth idx a' as_) r in
    (as2, map (fun p => (nth idx tx 0, pad_to psize pval p)) sent ++ sent2)
  end.

(* full trace: per frame the yielded telegrams, the callbacks and the frames sent *)
Fixpoint run_trace (tx : list Z) (psize pval : Z) (m : machine) (as_ : list astate) (fs : list frame)
  : list (list (Z * bytes) * list (nat * cb) * list (Z * bytes)) :=
  match fs with
  | [] => []
  | f :: r =>
    let '(m1, ts, cbs) := step m f in
    let '(as1, sent) := active_cbs tx psize pval as_ cbs in
    (ts, cbs, sent) :: run_trace tx psize pval m1 as1 r
  end.

(* ---------- ISO 15765-2 segmentation (the specification side) ---------- *)
(* consecutive frames: fuel-recursive on the remaining bytes *)
Fixpoint cfs (fuel : nat) (fsz : Z) (k : Z) (rest pad : bytes) : list bytes :=
  match fuel with
  | O => []
  | S f =>
    if blen rest <=? fsz - 1 then [ (32 + k mod 16) :: rest ++ pad ]
    else ((32 + k mod 16) :: take (fsz - 1) rest) :: cfs f fsz (k + 1) (drop (fsz - 1) rest) pad
  end.

(* frame size fsz: 8 for classic CAN; 12, 16, 20, 24, 32, 48, 64 for CAN-FD *)
Definition be4 (n : Z) : bytes := [n / 16777216 mod 256; n / 65536 mod 256; n / 256 mod 256; n mod 256].
Definition segment (fsz : Z) (t pad : bytes) : list bytes :=
  let n := blen t in
  if n <=? 7 then [ n :: t ++ pad ]
  else if n <=? fsz - 2 then [ 0 :: n :: t ++ pad ]
  else if n <=? 4095 then
       ((16 + n / 256) :: (n mod 256) :: take (fsz - 2) t)
       :: cfs (List.length t) fsz 1 (drop (fsz - 2) t) pad
  else (* more than 4095 bytes: FF_DL = 0, then the length as 32 bit number *)
       (16 :: 0 :: be4 n ++ take (fsz - 6) t)
       :: cfs (List.length t) fsz 1 (drop (fsz - 6) t) pad.

(* ---------- wire ---------- *)
Definition frame_of_tok (t : tok) : frame := (tz (tnth (tl t) 0), tzs (tnth (tl t) 1)).

Definition cb_tok (ic : nat * cb) : tok :=
  let i := TZ (Z.of_nat (fst ic)) in
  match snd ic with
  | CbSingle p => TL [TZ 0; i; TZs p]
  | CbFirst d => TL [TZ 1; i; TZs d]
  | CbConsec s p => TL [TZ 2; i; TZ s; TZs p]
  | CbFlow f => TL [TZ 3; i; TZ f]
  | CbSeqErr e r => TL [TZ 4; i; TZ e; TZ r]
  | CbTypeErr f => TL [TZ 5; i; TZ f]
  | CbComplete p => TL [TZ 6; i; TZs p]
  end.

Definition pair_tok (p : Z * bytes) : tok := TL [TZ (fst p); TZs (snd p)].

(* case: [rx ids; tx ids; padding size; padding value; frames; active?]
   result: per frame [telegrams; callbacks; sent] *)
Definition run_case (t : tok) : tok :=
  let l := tl t in
  let rx := tzs (tnth l 0) in
  let tx := tzs (tnth l 1) in
  let fs := map frame_of_tok (tl (tnth l 4)) in
  TL (map (fun x => let '(ts, cbs, sent) := x in
                    TL [TL (map pair_tok ts); TL (map cb_tok cbs);
                        TL (if tbool (tnth l 5) then map pair_tok sent else [])])
          (run_trace tx (tz (tnth l 2)) (tz (tnth l 3)) (machine0 rx) (map (fun _ => astate0) rx) fs)).

(* spec case: [fsz; telegram; pad] -> frames *)
Definition segment_case (t : tok) : tok :=
  let l := tl t in
  TL (map TZs (segment (tz (tnth l 0)) (tzs (tnth l 1)) (tzs (tnth l 2)))).
