(* Executable model of odxtools/diaglayers/hierarchyelement.py:
   value inheritance (_compute_available_objects) and communication parameter
   inheritance / lookup (_compute_available_commmunication_parameters, get_comparam,
   ComparamInstance.get_value / get_subvalue). *)
From Coq Require Import ZArith List Bool.
From OV Require Import Base.Bytes Base.Wire Generated.
Import ListNotations.
Open Scope Z_scope.

(* layer types *)
Inductive ltype := TProtocol | TFuncGroup | TBaseVariant | TEcuVariant | TEcuShared.
Definition prio (t : ltype) : Z :=
  match t with
  | TProtocol => prio_protocol | TFuncGroup => prio_functional_group
  | TBaseVariant => prio_base_variant | TEcuVariant => prio_ecu_variant
  | TEcuShared => prio_ecu_shared_data
  end.

(* an object: its short name and the layer defining it (dataclass equality of the
   real objects includes the ODXLINK id, i.e. the defining layer) *)
Record obj := mkObj { o_name : Z; o_src : Z }.
Definition obj_eqb (a b : obj) : bool := (o_name a =? o_name b) && (o_src a =? o_src b).

Record pref := mkPref { p_target : Z; p_excl : list Z }.
Record layer := mkLayer { l_id : Z; l_type : ltype; l_parents : list pref; l_locals : list Z }.

Fixpoint find_layer (id : Z) (H : list layer) : option layer :=
  match H with [] => None | l :: r => if l_id l =? id then Some l else find_layer id r end.

(* insertion sort by descending priority, stable (Python: sorted(..., reverse=True)) *)
Fixpoint ins_desc (H : list layer) (p : pref) (l : list pref) : list pref :=
  match l with
  | [] => [p]
  | q :: r =>
    let pp := match find_layer (p_target p) H with Some x => prio (l_type x) | None => 0 end in
    let pq := match find_layer (p_target q) H with Some x => prio (l_type x) | None => 0 end in
    if pq <? pp then p :: q :: r else q :: ins_desc H p r
  end.
Definition sort_desc (H : list layer) (l : list pref) : list pref :=
  fold_left (fun acc p => ins_desc H p acc) l [].
Fixpoint ins_asc (H : list layer) (p : pref) (l : list pref) : list pref :=
  match l with
  | [] => [p]
  | q :: r =>
    let pp := match find_layer (p_target p) H with Some x => prio (l_type x) | None => 0 end in
    let pq := match find_layer (p_target q) H with Some x => prio (l_type x) | None => 0 end in
    if pp <? pq then p :: q :: r else q :: ins_asc H p r
  end.
Definition sort_asc (H : list layer) (l : list pref) : list pref :=
  fold_left (fun acc p => ins_asc H p acc) l [].

(* the result dictionary: short name -> (object, parent layer through which it arrived) *)
Definition entry := (Z * (obj * Z))%type.
Fixpoint dget (k : Z) (d : list entry) : option (obj * Z) :=
  match d with [] => None | (k', v) :: r => if k' =? k then Some v else dget k r end.
Fixpoint dset (k : Z) (v : obj * Z) (d : list entry) : list entry :=
  match d with
  | [] => [(k, v)]
  | (k', v') :: r => if k' =? k then (k, v) :: r else (k', v') :: dset k v r
  end.
Definition memZ (x : Z) (l : list Z) : bool := existsb (Z.eqb x) l.

Inductive ires (A : Type) := IOk (a : A) | IConflict | IFuel.
Arguments IOk {A} a.
Arguments IConflict {A}.
Arguments IFuel {A}.

Definition layer_prio (H : list layer) (id : Z) : Z :=
  match find_layer id H with Some x => prio (l_type x) | None => 0 end.

(* merging the objects inherited through one parent reference into the dictionary *)
Fixpoint merge_objs (H : list layer) (locals : list Z) (pid : Z) (objs : list obj) (d : list entry)
  : ires (list entry) :=
  match objs with
  | [] => IOk d
  | o :: r =>
    match dget (o_name o) d with
    | None => merge_objs H locals pid r (dset (o_name o) (o, pid) d)
    | Some (o', via) =>
      let orig := layer_prio H via in
      let new := layer_prio H pid in
      if new <? orig then merge_objs H locals pid r d
      else if orig <? new then merge_objs H locals pid r (dset (o_name o) (o, pid) d)
      else if memZ (o_name o) locals then merge_objs H locals pid r d
      else if obj_eqb o o' then merge_objs H locals pid r d
      else IConflict
    end
  end.

(* all parent references, highest priority first; [rec] computes a parent's own view *)
Fixpoint go_parents (rec : layer -> ires (list obj)) (H : list layer) (L : layer) (ps : list pref)
         (d : list entry) : ires (list entry) :=
  match ps with
  | [] => IOk d
  | p :: r =>
    match find_layer (p_target p) H with
    | None => go_parents rec H L r d
    | Some PL =>
      match rec PL with
      | IOk objs =>
        let inh := filter (fun o => negb (memZ (o_name o) (p_excl p))) objs in
        match merge_objs H (l_locals L) (l_id PL) inh d with
        | IOk d' => go_parents rec H L r d'
        | IConflict => IConflict
        | IFuel => IFuel
        end
      | IConflict => IConflict
      | IFuel => IFuel
      end
    end
  end.

Definition add_locals (L : layer) (d : list entry) : list entry :=
  fold_left (fun d n => dset n (mkObj n (l_id L), l_id L) d) (l_locals L) d.

Fixpoint avail (fuel : nat) (H : list layer) (L : layer) : ires (list obj) :=
  match fuel with
  | O => IFuel
  | S f =>
    match go_parents (avail f H) H L (sort_desc H (l_parents L)) [] with
    | IOk d => IOk (map (fun e => fst (snd e)) (add_locals L d))
    | IConflict => IConflict
    | IFuel => IFuel
    end
  end.

(* ---------- communication parameters ---------- *)
Record cpinst := mkCp { cp_spec : Z; cp_proto : option Z; cp_value : list Z (* simple value, [] = unset *);
                        cp_sub : list (option (list Z)) (* complex value *); cp_tag : Z }.
Definition key_eqb (a b : Z * option Z) : bool :=
  (fst a =? fst b) && match snd a, snd b with
                      | Some x, Some y => x =? y | None, None => true | _, _ => false end.
Fixpoint cset (c : cpinst) (d : list cpinst) : list cpinst :=
  match d with
  | [] => [c]
  | c' :: r => if key_eqb (cp_spec c', cp_proto c') (cp_spec c, cp_proto c) then c :: r else c' :: cset c r
  end.

Record clayer := mkCL { cl_id : Z; cl_type : ltype; cl_parents : list pref; cl_cps : list cpinst }.
Fixpoint find_cl (id : Z) (H : list clayer) : option clayer :=
  match H with [] => None | l :: r => if cl_id l =? id then Some l else find_cl id r end.
Definition as_layer (c : clayer) : layer := mkLayer (cl_id c) (cl_type c) (cl_parents c) [].

Fixpoint comparams (fuel : nat) (H : list clayer) (L : clayer) : list cpinst :=
  match fuel with
  | O => []
  | S f =>
    let inherited :=
      fold_left (fun d p =>
                   match find_cl (p_target p) H with
                   | None => d
                   | Some PL => fold_left (fun d c => cset c d) (comparams f H PL) d
                   end) (sort_asc (map as_layer H) (cl_parents L)) [] in
    fold_left (fun d c => cset c d) (cl_cps L) inherited
  end.

(* comparam specifications: short name, default value *)
Record cpspec := mkSpec { sp_id : Z; sp_name : list Z; sp_default : list Z; sp_complex : bool;
                          sp_subs : list (list Z * option (list Z)) }.
Fixpoint find_spec (id : Z) (S : list cpspec) : option cpspec :=
  match S with [] => None | s :: r => if sp_id s =? id then Some s else find_spec id r end.

Definition cp_name (S : list cpspec) (c : cpinst) : list Z :=
  match find_spec (cp_spec c) S with Some s => sp_name s | None => [] end.

(* get_comparam: the protocol specific definition first, then the generic one *)
Definition get_comparam (S : list cpspec) (cps : list cpinst) (name : list Z) (proto : option Z) : option cpinst :=
  let named := filter (fun c => bytes_eqb (cp_name S c) name) cps in
  match proto with
  | None => hd_error named
  | Some p =>
    let ok := filter (fun c => match cp_proto c with None => true | Some q => q =? p end) named in
    let specific := filter (fun c => match cp_proto c with Some _ => true | None => false end) ok in
    let generic := filter (fun c => match cp_proto c with Some _ => false | None => true end) ok in
    hd_error (specific ++ generic)
  end.

(* get_value: the value if it is non-empty, else the default of the specification *)
Definition get_value (S : list cpspec) (c : cpinst) : option (list Z) :=
  match find_spec (cp_spec c) S with
  | None => None
  | Some s => if sp_complex s then None
              else Some (match cp_value c with [] => sp_default s | v => v end)
  end.

Fixpoint index_name (n : list Z) (l : list (list Z * option (list Z))) (i : nat) : option (nat * option (list Z)) :=
  match l with
  | [] => None
  | (m, d) :: r => if bytes_eqb m n then Some (i, d) else index_name n r (S i)
  end.

(* get_subvalue: Some None = absent (None is returned), None = error *)
Definition get_subvalue (S : list cpspec) (c : cpinst) (sub : list Z) : option (option (list Z)) :=
  match find_spec (cp_spec c) S with
  | None => None
  | Some s =>
    if negb (sp_complex s) then None else
    match index_name sub (sp_subs s) 0 with
    | None => Some None
    | Some (i, dflt) =>
      match nth_error (cp_sub c) i with
      | Some (Some (x :: v)) => Some (Some (x :: v))
      | _ => (* unspecified or empty: the default of the sub-parameter *)
        match dflt with Some d => Some (Some d) | None => None end
      end
    end
  end.

(* ---------- wire ---------- *)
Definition nthZ (l : list tok) (n : nat) : Z := tz (tnth l n).
Definition ltype_of (z : Z) : ltype :=
  if z =? 0 then TProtocol else if z =? 1 then TFuncGroup else if z =? 2 then TBaseVariant
  else if z =? 3 then TEcuVariant else TEcuShared.
Definition pref_of (t : tok) : pref := mkPref (nthZ (tl t) 0) (tzs (tnth (tl t) 1)).
Definition layer_of (t : tok) : layer :=
  let l := tl t in mkLayer (nthZ l 0) (ltype_of (nthZ l 1)) (map pref_of (tl (tnth l 2))) (tzs (tnth l 3)).

(* case op 1: [1; hierarchy; layer id] -> [0; [[name; src]...]] | [-1; 1] conflict *)
Definition otext (t : tok) : option (list Z) := match tl t with [x] => Some (tzs x) | _ => None end.
Definition cpinst_of (t : tok) : cpinst :=
  let l := tl t in
  mkCp (nthZ l 0) (match tl (tnth l 1) with [x] => Some (tz x) | _ => None end) (tzs (tnth l 2))
       (map otext (tl (tnth l 3))) (nthZ l 4).
Definition clayer_of (t : tok) : clayer :=
  let l := tl t in mkCL (nthZ l 0) (ltype_of (nthZ l 1)) (map pref_of (tl (tnth l 2))) (map cpinst_of (tl (tnth l 3))).
Definition spec_of (t : tok) : cpspec :=
  let l := tl t in
  mkSpec (nthZ l 0) (tzs (tnth l 1)) (tzs (tnth l 2)) (tbool (tnth l 3))
         (map (fun x => (tzs (tnth (tl x) 0), otext (tnth (tl x) 1))) (tl (tnth l 4))).

Definition run_case (t : tok) : tok :=
  let l := tl t in
  let op := nthZ l 0 in
  if op =? 1 then
    let H := map layer_of (tl (tnth l 1)) in
    match find_layer (nthZ l 2) H with
    | None => TL [TZ (-1); TZ 9]
    | Some L =>
      match avail (S (List.length H)) H L with
      | IOk os => TL [TZ 0; TL (map (fun o => TL [TZ (o_name o); TZ (o_src o)]) os)]
      | IConflict => TL [TZ (-1); TZ 1]
      | IFuel => TL [TZ (-1); TZ 9]
      end
    end
  else
    (* op 2: [2; specs; hierarchy; layer id; queries [[name; proto opt; sub opt]...]]
       -> [[tags of comparam_refs]; per query [found tag opt; value opt-opt]] *)
    let S := map spec_of (tl (tnth l 1)) in
    let H := map clayer_of (tl (tnth l 2)) in
    match find_cl (nthZ l 3) H with
    | None => TL [TZ (-1); TZ 9]
    | Some L =>
      let cps := comparams (Datatypes.S (List.length H)) H L in
      TL [ TZs (map cp_tag cps);
           TL (map (fun q =>
                      let ql := tl q in
                      let proto := match tl (tnth ql 1) with [x] => Some (tz x) | _ => None end in
                      match get_comparam S cps (tzs (tnth ql 0)) proto with
                      | None => TL []
                      | Some c =>
                        TL [TZ (cp_tag c);
                            match otext (tnth ql 2) with
                            | None => match get_value S c with Some v => TL [TZs v] | None => TL [] end
                            | Some sub => match get_subvalue S c sub with
                                          | Some (Some v) => TL [TZs v]
                                          | Some None => TL [TL []]
                                          | None => TL []
                                          end
                            end]
                      end) (tl (tnth l 4))) ]
    end.
