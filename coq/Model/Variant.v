(* Executable model of odxtools/variantmatcher.py: VariantMatcher.request_loop.
   A matching parameter is abstracted to (request key, parameter id) -- the key stands for the
   addressing together with the request bytes, which is what the cache is keyed by --; the ECU is a
   deterministic function from request keys to response ids; [matchf] says whether
   the decoded response satisfies the parameter (decode + path walk, see DESIGN). *)
From Coq Require Import ZArith List Bool.
From OV Require Import Base.Wire.
Import ListNotations.
Open Scope Z_scope.

Record mparam := mkMP { mp_req : Z; mp_id : Z }.
Definition pattern := list mparam.
Definition variant := list pattern.

Section Matcher.
  Variable ecu : Z -> Z.
  Variable matchf : Z -> Z -> bool.
  Variable use_cache : bool.

  Record mstate := mkM { cache : list (Z * Z); issued : list Z }.

  Fixpoint clookup (k : Z) (c : list (Z * Z)) : option Z :=
    match c with [] => None | (k', v) :: r => if k' =? k then Some v else clookup k r end.

  (* one matching parameter: response from the cache or from the ECU *)
  Definition ask (s : mstate) (p : mparam) : Z * mstate :=
    match (if use_cache then clookup (mp_req p) (cache s) else None) with
    | Some r => (r, s)
    | None =>
      let r := ecu (mp_req p) in
      (r, mkM (if use_cache then (mp_req p, r) :: cache s else cache s) (issued s ++ [mp_req p]))
    end.

  (* all parameters of a pattern, stopping at the first mismatch *)
  Fixpoint run_pattern (s : mstate) (ps : pattern) : bool * mstate :=
    match ps with
    | [] => (true, s)
    | p :: r =>
      let '(resp, s1) := ask s p in
      if matchf (mp_id p) resp then run_pattern s1 r else (false, s1)
    end.

  (* any pattern of a variant, stopping at the first match *)
  Fixpoint run_variant (s : mstate) (pats : variant) : bool * mstate :=
    match pats with
    | [] => (false, s)
    | ps :: r =>
      let '(ok, s1) := run_pattern s ps in
      if ok then (true, s1) else run_variant s1 r
    end.

  (* the first variant, stopping at the first match; returns its index *)
  Fixpoint run_variants (s : mstate) (vs : list variant) (i : nat) : option nat * mstate :=
    match vs with
    | [] => (None, s)
    | v :: r =>
      let '(ok, s1) := run_variant s v in
      if ok then (Some i, s1) else run_variants s1 r (S i)
    end.

  Definition request_loop (vs : list variant) : option nat * list Z :=
    let '(m, s) := run_variants (mkM [] []) vs 0 in (m, issued s).

  (* the specification: first variant with a pattern all of whose parameters match *)
  Definition param_ok (p : mparam) : bool := matchf (mp_id p) (ecu (mp_req p)).
  Definition variant_ok (v : variant) : bool := existsb (forallb param_ok) v.
  Fixpoint first_ok (vs : list variant) (i : nat) : option nat :=
    match vs with [] => None | v :: r => if variant_ok v then Some i else first_ok r (S i) end.
End Matcher.

(* ---------- wire ----------
   case: [use_cache; ecu table [[req; resp]...]; match table [[pid; resp; bool]...];
          variants [[[ [req; pid]...]...]...]] -> [match index opt; issued] *)
Definition nthZ (l : list tok) (n : nat) : Z := tz (tnth l n).
Fixpoint tlookup (k : Z) (t : list (Z * Z)) : Z :=
  match t with [] => -1 | (a, b) :: r => if a =? k then b else tlookup k r end.
Fixpoint mlookup (p r : Z) (t : list (Z * Z * bool)) : bool :=
  match t with [] => false | (a, b, c) :: q => if (a =? p) && (b =? r) then c else mlookup p r q end.

Definition run_case (t : tok) : tok :=
  let l := tl t in
  let ecu_t := map (fun e => (nthZ (tl e) 0, nthZ (tl e) 1)) (tl (tnth l 1)) in
  let m_t := map (fun e => (nthZ (tl e) 0, nthZ (tl e) 1, tbool (tnth (tl e) 2))) (tl (tnth l 2)) in
  let vs := map (fun v => map (fun p => map (fun mp => mkMP (nthZ (tl mp) 0) (nthZ (tl mp) 1)) (tl p)) (tl v))
                (tl (tnth l 3)) in
  let '(m, iss) := request_loop (fun k => tlookup k ecu_t) (fun p r => mlookup p r m_t) (tbool (tnth l 0)) vs in
  TL [TOpt (option_map (fun n => TZ (Z.of_nat n)) m); TZs iss].
