(* Executable model of reference resolution: odxtools/odxlink.py (OdxLinkDatabase.update /
   resolve / resolve_lenient, resolve_snref), the IMPORT-REF mechanism of
   DiagLayer._resolve_odxlinks, the phases of Database.refresh as far as they decide what a
   reference binds to, and utils.retarget_snrefs.

   Fragments, local ids, short names and objects are integers. A database is the
   per-fragment dictionary of the implementation as association lists. The view of a layer
   against which its short-name references are resolved is the value-inheritance model of
   Model/Inherit.v, one hierarchy per object category. *)
From Coq Require Import ZArith List Bool.
From OV Require Import Base.Wire Model.Inherit.
Import ListNotations.
Open Scope Z_scope.

(* ---------- association lists = Python dictionaries (lookups only) ---------- *)
Section Assoc.
  Context {A : Type}.
  Fixpoint aget (k : Z) (m : list (Z * A)) : option A :=
    match m with [] => None | (k', v) :: r => if k =? k' then Some v else aget k r end.
  Fixpoint aset (k : Z) (v : A) (m : list (Z * A)) : list (Z * A) :=
    match m with
    | [] => [(k, v)]
    | (k', v') :: r => if k =? k' then (k, v) :: r else (k', v') :: aset k v r
    end.
End Assoc.

Definition idmap := list (Z * Z).
Definition fdb := list (Z * idmap).

Definition frag_map (db : fdb) (f : Z) : idmap := match aget f db with Some m => m | None => [] end.
Definition db_get (db : fdb) (f id : Z) : option Z := aget id (frag_map db f).
Definition frag_known (db : fdb) (f : Z) : bool := match aget f db with Some _ => true | None => false end.

(* one assignment of OdxLinkDatabase.update: self._db[frag][id] = obj / setdefault *)
Definition db_put (overwrite : bool) (db : fdb) (f id o : Z) : fdb :=
  let m := frag_map db f in
  match aget id m with
  | Some _ => if overwrite then aset f (aset id o m) db else aset f m db
  | None => aset f (aset id o m) db
  end.

Record entry := mkE { e_id : Z; e_frags : list Z; e_obj : Z }.

Definition put_entry (overwrite : bool) (db : fdb) (e : entry) : fdb :=
  fold_left (fun d f => db_put overwrite d f (e_id e) (e_obj e)) (e_frags e) db.
Definition update (overwrite : bool) (db : fdb) (es : list entry) : fdb :=
  fold_left (put_entry overwrite) es db.

(* ---------- ODXLINK references ---------- *)
Record ref := mkRef { r_id : Z; r_docs : list Z }.

(* the fragments are searched innermost (= last) first; unknown fragments are skipped *)
Fixpoint resolve_in (db : fdb) (id : Z) (docs_rev : list Z) : option Z :=
  match docs_rev with
  | [] => None
  | f :: r => match db_get db f id with Some o => Some o | None => resolve_in db id r end
  end.
Definition resolve (db : fdb) (r : ref) : option Z := resolve_in db (r_id r) (rev (r_docs r)).
(* the warnings of resolve: the unknown fragments visited before the hit *)
Fixpoint unknown_in (db : fdb) (id : Z) (docs_rev : list Z) : list Z :=
  match docs_rev with
  | [] => []
  | f :: r => if frag_known db f
              then match db_get db f id with Some _ => [] | None => unknown_in db id r end
              else f :: unknown_in db id r
  end.

Inductive rres := ROk (o : Z) | RKey | RType (o : Z).
Definition type_ok (kind_of : Z -> Z) (expected : list Z) (o : Z) : bool :=
  match expected with [] => true | _ => memZ (kind_of o) expected end.
Definition resolve_typed (kind_of : Z -> Z) (db : fdb) (r : ref) (expected : list Z) : rres :=
  match resolve db r with
  | None => RKey
  | Some o => if type_ok kind_of expected o then ROk o else RType o
  end.

(* ---------- layers and IMPORT-REFs ---------- *)
(* ll_entries: the layer's own _build_odxlinks() (the layer itself included), in order *)
Record llayer := mkLL { ll_oid : Z; ll_frags : list Z; ll_esd : bool;
                        ll_entries : list (Z * Z); ll_imports : list ref }.

Fixpoint find_ll (o : Z) (ls : list llayer) : option llayer :=
  match ls with [] => None | L :: r => if ll_oid L =? o then Some L else find_ll o r end.

Definition k_layer : Z := 9.
Definition k_esd : Z := 10.

(* the dictionary of imported links: keyed by local id, a later import replaces an earlier *)
Fixpoint imported (kind_of : Z -> Z) (ls : list llayer) (db : fdb) (imps : list ref) (acc : idmap)
  : option idmap :=
  match imps with
  | [] => Some acc
  | r :: rest =>
    match resolve_typed kind_of db r [k_layer; k_esd] with
    | ROk o =>
      match find_ll o ls with
      | Some IL =>
        if ll_esd IL
        then imported kind_of ls db rest (fold_left (fun a p => aset (fst p) (snd p) a) (ll_entries IL) acc)
        else None
      | None => None
      end
    | _ => None
    end
  end.

(* the database against which the references of layer L are resolved (None: loading fails) *)
Definition layer_db (kind_of : Z -> Z) (ls : list llayer) (db : fdb) (L : llayer) : option fdb :=
  match ll_imports L with
  | [] => Some db
  | imps =>
    match imported kind_of ls db imps [] with
    | Some m => Some (update false db (map (fun p => mkE (fst p) (ll_frags L) (snd p)) m))
    | None => None
    end
  end.

(* ---------- short-name references ---------- *)
Record item := mkIt { it_name : Z; it_obj : Z; it_kind : Z }.
Inductive sres := SOk (o : Z) | SNone | SAmbiguous | SType (o : Z).

Definition resolve_snref (name : Z) (items : list item) (expected : list Z) : sres :=
  match filter (fun it => it_name it =? name) items with
  | [] => SNone
  | [x] => match expected with
           | [] => SOk (it_obj x)
           | _ => if memZ (it_kind x) expected then SOk (it_obj x) else SType (it_obj x)
           end
  | _ => SAmbiguous
  end.

(* the view of a layer: for each requested category the objects available after value
   inheritance, concatenated in the given order. Objects are (category, name, defining layer) *)
Record vobj := mkV { v_cat : Z; v_name : Z; v_src : Z }.

Fixpoint view (hs : list (Z * list layer)) (cats : list Z) (lid : Z) : ires (list vobj) :=
  match cats with
  | [] => IOk []
  | c :: r =>
    match aget c hs with
    | None => view hs r lid
    | Some H =>
      match find_layer lid H with
      | None => view hs r lid
      | Some L =>
        match avail (S (List.length H)) H L with
        | IOk os =>
          match view hs r lid with
          | IOk rest => IOk (map (fun o => mkV c (o_name o) (o_src o)) os ++ rest)
          | IConflict => IConflict
          | IFuel => IFuel
          end
        | IConflict => IConflict
        | IFuel => IFuel
        end
      end
    end
  end.

Inductive vres := VOk (o : vobj) | VNone | VAmbiguous | VType (o : vobj) | VConflict.

Definition resolve_in_view (hs : list (Z * list layer)) (lid : Z) (cats : list Z) (name : Z)
           (expected : list Z) : vres :=
  match view hs cats lid with
  | IOk os =>
    match filter (fun o => v_name o =? name) os with
    | [] => VNone
    | [x] => match expected with
             | [] => VOk x
             | _ => if memZ (v_cat x) expected then VOk x else VType x
             end
    | _ => VAmbiguous
    end
  | _ => VConflict
  end.

(* a short-name reference held by a raw object of layer sn_owner *)
Record snref := mkSn { sn_owner : Z; sn_cats : list Z; sn_name : Z; sn_expected : list Z }.

(* after loading: every layer resolves the references of its own raw objects in its own view *)
Definition bind_loaded (hs : list (Z * list layer)) (s : snref) : vres :=
  resolve_in_view hs (sn_owner s) (sn_cats s) (sn_name s) (sn_expected s).

(* retarget_snrefs(database, V): V and, recursively, all its parents re-resolve the references
   of their raw objects in the view of V. [parents] is the PARENT-REF relation. *)
Fixpoint ancestors (fuel : nat) (parents : list (Z * list Z)) (lid : Z) : list Z :=
  match fuel with
  | O => [lid]
  | S f => lid :: flat_map (ancestors f parents) (match aget lid parents with Some ps => ps | None => [] end)
  end.

Definition bind_retargeted (hs : list (Z * list layer)) (parents : list (Z * list Z)) (V : Z) (s : snref) : vres :=
  if memZ (sn_owner s) (ancestors (List.length parents) parents V)
  then resolve_in_view hs V (sn_cats s) (sn_name s) (sn_expected s)
  else bind_loaded hs s.

(* ---------- loading as a whole (strict mode) ---------- *)
Record lref := mkLR { lr_layer : Z; lr_ref : ref; lr_expected : list Z }.

Definition bind_ref (kind_of : Z -> Z) (ls : list llayer) (db : fdb) (q : lref) : option rres :=
  match find_ll (lr_layer q) ls with
  | None => Some (resolve_typed kind_of db (lr_ref q) (lr_expected q))     (* not inside a layer *)
  | Some L =>
    match layer_db kind_of ls db L with
    | Some d => Some (resolve_typed kind_of d (lr_ref q) (lr_expected q))
    | None => None
    end
  end.

Definition is_rok (r : option rres) : bool := match r with Some (ROk _) => true | _ => false end.
Definition is_vok (r : vres) : bool := match r with VOk _ => true | _ => false end.

(* strict loading succeeds iff every reference resolves; then these are the bindings *)
(* [probes]: the views every layer computes while it is finalised, whether or not a short-name
   reference looks into them; an inheritance conflict there makes loading fail *)
Definition view_ok (hs : list (Z * list layer)) (p : Z * list Z) : bool :=
  match view hs (snd p) (fst p) with IOk _ => true | _ => false end.

Definition load (kind_of : Z -> Z) (ls : list llayer) (es : list entry) (refs : list lref)
           (hs : list (Z * list layer)) (sns : list snref) (probes : list (Z * list Z))
  : option (list (option rres) * list vres) :=
  let db := update true [] es in
  let rb := map (bind_ref kind_of ls db) refs in
  let sb := map (bind_loaded hs) sns in
  if forallb is_rok rb && forallb is_vok sb && forallb (view_ok hs) probes then Some (rb, sb) else None.

(* ---------- wire ---------- *)
Definition nthZ (l : list tok) (n : nat) : Z := tz (tnth l n).
Definition ref_of (t : tok) : ref := mkRef (nthZ (tl t) 0) (tzs (tnth (tl t) 1)).
Definition entry_of (t : tok) : entry := mkE (nthZ (tl t) 0) (tzs (tnth (tl t) 1)) (nthZ (tl t) 2).
Definition pair_of (t : tok) : Z * Z := (nthZ (tl t) 0, nthZ (tl t) 1).
Definition llayer_of (t : tok) : llayer :=
  let l := tl t in
  mkLL (nthZ l 0) (tzs (tnth l 1)) (tbool (tnth l 2)) (map pair_of (tl (tnth l 3))) (map ref_of (tl (tnth l 4))).
Definition lref_of (t : tok) : lref :=
  let l := tl t in mkLR (nthZ l 0) (ref_of (tnth l 1)) (tzs (tnth l 2)).
Definition snref_of (t : tok) : snref :=
  let l := tl t in mkSn (nthZ l 0) (tzs (tnth l 1)) (nthZ l 2) (tzs (tnth l 3)).
Definition item_of (t : tok) : item := mkIt (nthZ (tl t) 0) (nthZ (tl t) 1) (nthZ (tl t) 2).
Definition hier_of (t : tok) : Z * list layer := (nthZ (tl t) 0, map layer_of (tl (tnth (tl t) 1))).
Definition parents_of (t : tok) : Z * list Z := (nthZ (tl t) 0, tzs (tnth (tl t) 1)).

Definition rres_tok (r : option rres) : tok :=
  match r with
  | Some (ROk o) => TL [TZ 0; TZ o]
  | Some RKey => TL [TZ 1]
  | Some (RType o) => TL [TZ 2; TZ o]
  | None => TL [TZ 3]
  end.
Definition vobj_tok (o : vobj) : tok := TL [TZ (v_cat o); TZ (v_name o); TZ (v_src o)].
Definition vres_tok (r : vres) : tok :=
  match r with
  | VOk o => TL [TZ 0; vobj_tok o]
  | VNone => TL [TZ 1]
  | VAmbiguous => TL [TZ 2]
  | VType o => TL [TZ 3; vobj_tok o]
  | VConflict => TL [TZ 4]
  end.
Definition sres_tok (r : sres) : tok :=
  match r with
  | SOk o => TL [TZ 0; TZ o] | SNone => TL [TZ 1] | SAmbiguous => TL [TZ 2] | SType o => TL [TZ 3; TZ o]
  end.
Definition kind_fn (kinds : list (Z * Z)) (o : Z) : Z := match aget o kinds with Some k => k | None => 0 end.

(* op 1: [1; kinds; layers; entries; refs; hierarchies; snrefs; parents; retarget targets; direct refs; probes]
      -> [ok?; ref bindings; snref bindings; per target: snref bindings after retarget; direct resolves]
   op 2: [2; name; items; expected] -> resolve_snref on an explicit list
   op 3: [3; entries; overwrite; more entries; queries [[frag; id]...]] -> lookups after update *)
Definition run_case (t : tok) : tok :=
  let l := tl t in
  let op := nthZ l 0 in
  if op =? 1 then
    let kinds := map pair_of (tl (tnth l 1)) in
    let ls := map llayer_of (tl (tnth l 2)) in
    let es := map entry_of (tl (tnth l 3)) in
    let refs := map lref_of (tl (tnth l 4)) in
    let hs := map hier_of (tl (tnth l 5)) in
    let sns := map snref_of (tl (tnth l 6)) in
    let parents := map parents_of (tl (tnth l 7)) in
    let db := update true [] es in
    TL [ TB (match load (kind_fn kinds) ls es refs hs sns (map parents_of (tl (tnth l 10))) with Some _ => true | None => false end);
         TL (map (fun q => rres_tok (bind_ref (kind_fn kinds) ls db q)) refs);
         TL (map (fun s => vres_tok (bind_loaded hs s)) sns);
         TL (map (fun V => TL (map (fun s => vres_tok (bind_retargeted hs parents (tz V) s)) sns)) (tl (tnth l 8)));
         TL (map (fun q => let r := ref_of q in
                           TL [rres_tok (Some (resolve_typed (kind_fn kinds) db r []));
                               TZs (unknown_in db (r_id r) (rev (r_docs r)))]) (tl (tnth l 9))) ]
  else if op =? 2 then
    sres_tok (resolve_snref (nthZ l 1) (map item_of (tl (tnth l 2))) (tzs (tnth l 3)))
  else
    let db := update (tbool (tnth l 2)) (update true [] (map entry_of (tl (tnth l 1)))) (map entry_of (tl (tnth l 3))) in
    TL (map (fun q => TOpt (option_map TZ (db_get db (nthZ (tl q) 0) (nthZ (tl q) 1)))) (tl (tnth l 4))).
