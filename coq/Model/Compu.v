(* Executable model of odxtools/compumethods (integer internal and physical types,
   integer coefficients; exact arithmetic, results rounded half-even like Python's
   round()).  Text values are lists of code points. *)
From Coq Require Import ZArith List Bool.
From OV Require Import Base.Bytes Base.Wire.
Import ListNotations.
Open Scope Z_scope.

(* ---------- outcomes ---------- *)
Inductive cerr := CDecode | CEncode | COdx | CForeign.
Inductive cres (A : Type) := COk (a : A) | CErr (e : cerr).
Arguments COk {A} a.
Arguments CErr {A} e.

(* values: integers or text *)
Inductive cval := CInt (z : Z) | CText (t : list Z).

(* ---------- rounding: Python's round() on the exact quotient n/d ---------- *)
Definition round_div_pos (n d : Z) : Z :=   (* d > 0 *)
  let fl := n / d in
  let r2 := 2 * (n - fl * d) in
  if r2 <? d then fl else if d <? r2 then fl + 1 else if Z.even fl then fl else fl + 1.

Definition rdiv (n d : Z) : Z := if 0 <? d then round_div_pos n d else round_div_pos (- n) (- d).

(* ---------- limits ---------- *)
Inductive itype := IOpen | IClosed | IInfinite.
Record limit := mkLimit { lval : option Z; ltype : option itype }.

Definition complies_lower (l : limit) (x : Z) : bool :=
  match lval l with
  | None => true
  | Some v => match ltype l with
              | None | Some IClosed => v <=? x
              | Some IOpen => v <? x
              | Some IInfinite => true
              end
  end.
Definition complies_upper (l : limit) (x : Z) : bool :=
  match lval l with
  | None => true
  | Some v => match ltype l with
              | None | Some IClosed => x <=? v
              | Some IOpen => x <? v
              | Some IInfinite => true
              end
  end.
Definition ol_lower (o : option limit) (x : Z) := match o with Some l => complies_lower l x | None => true end.
Definition ol_upper (o : option limit) (x : Z) := match o with Some l => complies_upper l x | None => true end.

(* ---------- linear segments ---------- *)
Record lseg := mkSeg { off : Z; num : Z; den : Z; slo : option limit; shi : option limit; sinv : Z }.

Definition seg_i2p (s : lseg) (x : Z) : Z := rdiv (off s + num s * x) (den s).
Definition seg_p2i (s : lseg) (y : Z) : Z :=
  if num s =? 0 then sinv s else rdiv (y * den s - off s) (num s).

Definition conv_limit (s : lseg) (o : option limit) : option limit :=
  match o with
  | None => None
  | Some l => match lval l with
              | None => None
              | Some v => Some (mkLimit (Some (seg_i2p s v)) (ltype l))
              end
  end.
Definition phys_lo (s : lseg) := if 0 <=? num s * den s then conv_limit s (slo s) else conv_limit s (shi s).
Definition phys_hi (s : lseg) := if 0 <=? num s * den s then conv_limit s (shi s) else conv_limit s (slo s).

Definition int_applies (s : lseg) (x : Z) : bool := ol_lower (slo s) x && ol_upper (shi s) x.
Definition phys_applies (s : lseg) (y : Z) : bool := ol_lower (phys_lo s) y && ol_upper (phys_hi s) y.

(* ---------- SCALE-LINEAR invertibility analysis ---------- *)
Definition lim_usable (o : option limit) : option Z :=
  match o with
  | Some l => match lval l, ltype l with
              | Some v, Some IInfinite => None
              | Some v, _ => Some v
              | None, _ => None
              end
  | None => None
  end.

Fixpoint invertible_from (ref : Z) (segs : list lseg) : bool :=
  match segs with
  | s0 :: ((s1 :: _) as rest) =>
    (* since the fix commit: the sign of the slope num / den is that of num * den *)
    if ref * (num s1 * den s1) <? 0 then false else
    let ref' := if num s1 =? 0 then ref else num s1 * den s1 in
    match lim_usable (shi s0), lim_usable (slo s1) with
    | Some x, Some x' =>
      if negb (x =? x') then false
      else if negb (seg_i2p s0 x =? seg_i2p s1 x) then false
      else invertible_from ref' rest
    | _, _ => false
    end
  | _ => true
  end.
Definition invertible (segs : list lseg) : bool :=
  match segs with [] => true | s :: _ => invertible_from (num s * den s) segs end.

(* ---------- text tables ---------- *)
Record tscale := mkT { tlo : option limit; thi : option limit; tconst : option (list Z); tinv : option Z }.

Definition opt_eqb (o : option Z) (x : Z) : bool := match o with Some v => v =? x | None => false end.
Definition tscale_applies (s : tscale) (x : Z) : bool :=
  match tlo s, thi s with
  | None, None => true
  | Some l, None => opt_eqb (lval l) x
  | None, Some u => opt_eqb (lval u) x
  | Some l, Some u => complies_lower l x && complies_upper u x
  end.

(* the internal value which stands for the text of a scale: the inverse value, else the first of lower limit, its
   upper neighbour, upper limit, its lower neighbour which the scale applies to (since the fix commit "TEXTTABLE encoded
   a text by a limit of interval type OPEN"; before, the lower limit was taken whatever its interval type) *)
Definition limit_cands (o : option limit) (step : Z) : list Z :=
  match o with Some (mkLimit (Some x) _) => [x; x + step] | _ => [] end.
Definition tscale_internal (s : tscale) : option Z :=
  match tinv s with
  | Some x => Some x
  | None => find (tscale_applies s) (limit_cands (tlo s) 1 ++ limit_cands (thi s) (-1))
  end.

(* ---------- rational functions ---------- *)
Record rseg := mkR { rnum : list Z; rden : list Z; rlo : option limit; rhi : option limit }.
Fixpoint horner (cs : list Z) (x : Z) : Z :=
  match cs with [] => 0 | c :: r => c + x * horner r x end.
Definition rseg_applies (s : rseg) (x : Z) : bool := ol_lower (rlo s) x && ol_upper (rhi s) x.
(* a pole of the rational function: since the fix commit the ZeroDivisionError is reported as the
   decode / encode error [e] of the calling direction *)
Definition rseg_convert (e : cerr) (s : rseg) (x : Z) : cres Z :=
  let d := horner (rden s) x in
  if d =? 0 then CErr e else COk (rdiv (horner (rnum s) x) d).

(* ---------- compu methods ---------- *)
Inductive compu :=
| MIdent
| MLinear (s : lseg)
| MScaleLinear (segs : list lseg)
| MTextTable (scales : list tscale) (pdefault : option (list Z)) (idefault : option Z)
| MTabIntp (pts : list (Z * Z))
| MRatFunc (i2p : rseg) (p2i : option rseg)
| MScaleRatFunc (i2p : list rseg) (p2i : option (list rseg)).

Fixpoint interp (pts : list (Z * Z)) (x : Z) : option (cres Z) :=
  match pts with
  | (x0, y0) :: (((x1, y1) :: _) as rest) =>
    if (Z.min x0 x1 <=? x) && (x <=? Z.max x0 x1) then
      Some (if x1 =? x0 then COk y0
            else COk (rdiv (y0 * (x1 - x0) + (x - x0) * (y1 - y0)) (x1 - x0)))
    else interp rest x
  | _ => None
  end.

Definition zmin_list (l : list Z) : Z := fold_right Z.min (hd 0 l) l.
Definition zmax_list (l : list Z) : Z := fold_right Z.max (hd 0 l) l.
Definition swap_pts (pts : list (Z * Z)) := map (fun p => (snd p, fst p)) pts.

Definition valid_int (c : compu) (v : cval) : bool :=
  match c, v with
  | MIdent, CInt _ => true
  | MLinear s, CInt x => int_applies s x
  | MScaleLinear segs, CInt x => existsb (fun s => int_applies s x) segs
  | MTextTable scales pdef _, CInt x =>
    match pdef with Some _ => true | None => existsb (fun s => tscale_applies s x) scales end
  | MTabIntp pts, CInt x => (zmin_list (map fst pts) <=? x) && (x <=? zmax_list (map fst pts))
  | MRatFunc s _, CInt x => rseg_applies s x
  | MScaleRatFunc segs _, CInt x => existsb (fun s => rseg_applies s x) segs
  | _, _ => false
  end.

Definition text_eqb (o : option (list Z)) (t : list Z) : bool :=
  match o with Some c => bytes_eqb c t | None => false end.

Definition valid_phys (c : compu) (v : cval) : bool :=
  match c, v with
  | MIdent, CInt _ => true
  | MLinear s, CInt y => phys_applies s y
  | MScaleLinear segs, CInt y => existsb (fun s => phys_applies s y) segs
  | MTextTable scales _ idef, CText t =>
    match idef with
    | Some _ => true
    | None => existsb (fun s => text_eqb (tconst s) t && match tscale_internal s with Some _ => true | None => false end) scales
    end
  | MTextTable scales _ idef, CInt _ => match idef with Some _ => true | None => false end
  | MTabIntp pts, CInt y => (zmin_list (map snd pts) <=? y) && (y <=? zmax_list (map snd pts))
  | MRatFunc _ (Some s), CInt y => rseg_applies s y
  | MScaleRatFunc _ (Some segs), CInt y => existsb (fun s => rseg_applies s y) segs
  | _, _ => false
  end.

Definition first_seg {A} (f : A -> bool) (l : list A) : option A := find f l.

Definition i2p (c : compu) (v : cval) : cres cval :=
  match c, v with
  | MIdent, _ => COk v
  | MLinear s, CInt x => if int_applies s x then COk (CInt (seg_i2p s x)) else CErr CDecode
  | MScaleLinear segs, CInt x =>
    match first_seg (fun s => int_applies s x) segs with
    | Some s => COk (CInt (seg_i2p s x))
    | None => CErr CDecode
    end
  | MTextTable scales pdef _, CInt x =>
    match filter (fun s => tscale_applies s x) scales with
    | [] => match pdef with Some t => COk (CText t) | None => CErr CDecode end
    | [s] => match tconst s with Some t => COk (CText t) | None => CErr COdx end
    | _ => CErr CDecode
    end
  | MTabIntp pts, CInt x =>
    match interp pts x with
    | Some (COk y) => COk (CInt y)
    | Some (CErr e) => CErr e
    | None => CErr CDecode
    end
  | MRatFunc s _, CInt x =>
    if rseg_applies s x then match rseg_convert CDecode s x with COk y => COk (CInt y) | CErr e => CErr e end
    else CErr CDecode
  | MScaleRatFunc segs _, CInt x =>
    match first_seg (fun s => rseg_applies s x) segs with
    | Some s => match rseg_convert CDecode s x with COk y => COk (CInt y) | CErr e => CErr e end
    | None => CErr CDecode
    end
  | _, _ => CErr COdx
  end.

Definition p2i (c : compu) (v : cval) : cres cval :=
  match c, v with
  | MIdent, _ => COk v
  | MLinear s, CInt y => if phys_applies s y then COk (CInt (seg_p2i s y)) else CErr CEncode
  | MScaleLinear segs, CInt y =>
    if negb (invertible segs) then CErr CEncode else
    match first_seg (fun s => phys_applies s y) segs with
    | Some s => COk (CInt (seg_p2i s y))
    | None => CErr CEncode
    end
  | MTextTable scales _ idef, _ =>
    let matching := match v with
                    | CText t => filter (fun s => text_eqb (tconst s) t) scales
                    | CInt _ => []
                    end in
    match matching with
    | [] => match idef with Some x => COk (CInt x) | None => CErr CEncode end
    | [s] =>
      match tscale_internal s with
      | Some x => COk (CInt x)
      | None => CErr CEncode
      end
    | _ => CErr CEncode
    end
  | MTabIntp pts, CInt y =>
    match interp (swap_pts pts) y with
    | Some (COk x) => COk (CInt x)
    | Some (CErr e) => CErr e
    | None => CErr CEncode
    end
  | MRatFunc _ (Some s), CInt y =>
    if rseg_applies s y then match rseg_convert CEncode s y with COk x => COk (CInt x) | CErr e => CErr e end
    else CErr CEncode
  | MRatFunc _ None, _ => CErr CEncode
  | MScaleRatFunc _ (Some segs), CInt y =>
    match first_seg (fun s => rseg_applies s y) segs with
    | Some s => match rseg_convert CEncode s y with COk x => COk (CInt x) | CErr e => CErr e end
    | None => CErr CEncode
    end
  | MScaleRatFunc _ None, _ => CErr CEncode
  | _, _ => CErr COdx
  end.

(* ---------- wire ---------- *)
Definition nthZ (l : list tok) (n : nat) : Z := tz (tnth l n).
Definition optZ (t : tok) : option Z := match tl t with [x] => Some (tz x) | _ => None end.
Definition limit_of (t : tok) : option limit :=
  match tl t with
  | [] => None
  | l => Some (mkLimit (optZ (tnth l 0))
                       (match optZ (tnth l 1) with
                        | None => None
                        | Some z => Some (if z =? 0 then IOpen else if z =? 1 then IClosed else IInfinite)
                        end))
  end.
Definition lseg_of (t : tok) : lseg :=
  let l := tl t in mkSeg (nthZ l 0) (nthZ l 1) (nthZ l 2) (limit_of (tnth l 3)) (limit_of (tnth l 4)) (nthZ l 5).
Definition rseg_of (t : tok) : rseg :=
  let l := tl t in mkR (tzs (tnth l 0)) (tzs (tnth l 1)) (limit_of (tnth l 2)) (limit_of (tnth l 3)).
Definition otext (t : tok) : option (list Z) := match tl t with [x] => Some (tzs x) | _ => None end.
Definition tscale_of (t : tok) : tscale :=
  let l := tl t in mkT (limit_of (tnth l 0)) (limit_of (tnth l 1)) (otext (tnth l 2)) (optZ (tnth l 3)).

Definition compu_of (t : tok) : compu :=
  let l := tl t in
  let c := nthZ l 0 in
  if c =? 0 then MIdent
  else if c =? 1 then MLinear (lseg_of (tnth l 1))
  else if c =? 2 then MScaleLinear (map lseg_of (tl (tnth l 1)))
  else if c =? 3 then MTextTable (map tscale_of (tl (tnth l 1))) (otext (tnth l 2)) (optZ (tnth l 3))
  else if c =? 4 then MTabIntp (map (fun p => (nthZ (tl p) 0, nthZ (tl p) 1)) (tl (tnth l 1)))
  else if c =? 5 then MRatFunc (rseg_of (tnth l 1)) (match tl (tnth l 2) with [x] => Some (rseg_of x) | _ => None end)
  else MScaleRatFunc (map rseg_of (tl (tnth l 1)))
                     (match tl (tnth l 2) with [x] => Some (map rseg_of (tl x)) | _ => None end).

Definition cval_of (t : tok) : cval :=
  let l := tl t in if nthZ l 0 =? 0 then CInt (nthZ l 1) else CText (tzs (tnth l 1)).
Definition tok_of_cval (v : cval) : tok :=
  match v with CInt z => TL [TZ 0; TZ z] | CText t => TL [TZ 1; TZs t] end.
Definition tok_of_cres (r : cres cval) : tok :=
  match r with
  | COk v => TL [TZ 0; tok_of_cval v]
  | CErr CDecode => TL [TZ (-1); TZ 2]
  | CErr CEncode => TL [TZ (-1); TZ 1]
  | CErr COdx => TL [TZ (-1); TZ 4]
  | CErr CForeign => TL [TZ (-1); TZ 5]
  end.

(* case: [compu; values] -> per value [valid_int; valid_phys; i2p; p2i] *)
Definition run_case (t : tok) : tok :=
  let l := tl t in
  let c := compu_of (tnth l 0) in
  TL (map (fun vt => let v := cval_of vt in
                     TL [TB (valid_int c v); TB (valid_phys c v); tok_of_cres (i2p c v); tok_of_cres (p2i c v)])
          (tl (tnth l 1))).
