(* Executable model of odxtools/cli/compare.py: Comparison.compare_parameters -- which properties of two
   parameters are reported as changed. Attribute values are abstracted to integers (equal integers = equal
   values); the DOP and the unit carry an identity (dataclass equality of the real objects) beside the
   attributes the tool looks at. *)
From Coq Require Import ZArith List Bool.
From OV Require Import Base.Bytes Base.Wire.
Import ListNotations.
Open Scope Z_scope.

Record qunit := mkQU { u_id : Z; u_name : Z; u_disp : Z }.
Inductive qextra := XPhysConst (v : Z) | XValue (dflt : option Z) | XOther.
Inductive qkind :=
| QCoded (dt : Z) (value : Z)
| QNrc (dt : Z) (values : list Z)
| QDop (dop_id dop_name : Z) (unit : option qunit) (phys : option Z) (extra : qextra)
| QOther.
(* (q_bitpos, the BIT-POSITION, is compared since the fix commit) *)
Record qpar := mkQ { q_name : Z; q_type : Z; q_pos : option Z; q_bits : option Z; q_sem : option Z; q_kind : qkind;
                     q_bitpos : option Z }.

Definition oZ_eqb (a b : option Z) : bool :=
  match a, b with Some x, Some y => x =? y | None, None => true | _, _ => false end.
Fixpoint lZ_eqb (a b : list Z) : bool :=
  match a, b with
  | [], [] => true
  | x :: r, y :: s => (x =? y) && lZ_eqb r s
  | _, _ => false
  end.

(* the labels of the properties, in the order of the tool *)
Definition L_name := 1. Definition L_pos := 2. Definition L_bits := 3. Definition L_sem := 4. Definition L_type := 5.
Definition L_dt := 6. Definition L_value := 7. Definition L_values := 8. Definition L_dop := 9. Definition L_dopname := 10.
Definition L_unitname := 11. Definition L_unitdisp := 12. Definition L_unitobj := 13. Definition L_phys := 14.
Definition L_const := 15. Definition L_default := 16. Definition L_bitpos := 17.

Definition when (b : bool) (l : Z) : list Z := if b then [l] else [].

Definition cmp_unit (u1 u2 : option qunit) : list Z :=
  match u1, u2 with
  | Some a, Some b =>
    if u_id a =? u_id b then []
    else if negb (u_name a =? u_name b) then [L_unitname]
    else if negb (u_disp a =? u_disp b) then [L_unitdisp]
    else [L_unitobj]
  | _, _ => []
  end.

(* equality of the resolved unit objects (None: the DOP has no unit) *)
Definition unit_same (u1 u2 : option qunit) : bool :=
  match u1, u2 with
  | Some a, Some b => u_id a =? u_id b
  | None, None => true
  | _, _ => false
  end.

Definition cmp_phys (p1 p2 : option Z) : list Z :=
  match p1, p2 with Some a, Some b => when (negb (a =? b)) L_phys | _, _ => [] end.

Definition cmp_extra (e1 e2 : qextra) : list Z :=
  match e1, e2 with
  | XPhysConst a, XPhysConst b => when (negb (a =? b)) L_const
  (* since the fix commit: a default value which appears or disappears is reported, too *)
  | XValue a, XValue b => when (negb (oZ_eqb a b)) L_default
  | _, _ => []
  end.

Definition cmp_kind (k1 k2 : qkind) : list Z :=
  match k1, k2 with
  | QCoded d1 v1, QCoded d2 v2 => when (negb (d1 =? d2)) L_dt ++ when (negb (v1 =? v2)) L_value
  | QNrc d1 v1, QNrc d2 v2 => when (negb (d1 =? d2)) L_dt ++ when (negb (lZ_eqb v1 v2)) L_values
  | QDop i1 n1 u1 p1 e1, QDop i2 n2 u2 p2 e2 =>
    (* (since the fix commit a unit which was modified in place counts too: the DOP only refers to it) *)
    (if (i1 =? i2) && unit_same u1 u2 then []
     else [L_dop] ++ when (negb (n1 =? n2)) L_dopname ++ cmp_unit u1 u2 ++ cmp_phys p1 p2)
    ++ cmp_extra e1 e2
  | _, _ => []
  end.

(* the bit position, then what depends on the kind of the parameter *)
Definition cmp_tail (p1 p2 : qpar) : list Z :=
  when (negb (oZ_eqb (q_bitpos p1) (q_bitpos p2))) L_bitpos ++ cmp_kind (q_kind p1) (q_kind p2).

Definition compare_params (p1 p2 : qpar) : list Z :=
  when (negb (q_name p1 =? q_name p2)) L_name ++
  when (negb (oZ_eqb (q_pos p1) (q_pos p2))) L_pos ++
  when (negb (oZ_eqb (q_bits p1) (q_bits p2))) L_bits ++
  when (negb (oZ_eqb (q_sem p1) (q_sem p2))) L_sem ++
  when (negb (q_type p1 =? q_type p2)) L_type ++
  cmp_tail p1 p2.

(* compare_services, per message: the parameters are compared by position if the lists are equally long,
   else the whole list is reported (None) *)
Fixpoint compare_lists (l1 l2 : list qpar) : list (Z * list Z) :=
  match l1, l2 with
  | p1 :: r1, p2 :: r2 =>
    let c := compare_params p1 p2 in
    (if match c with [] => true | _ => false end then [] else [(q_name p2, c)]) ++ compare_lists r1 r2
  | _, _ => []
  end.
Definition compare_message (l1 l2 : list qpar) : option (list (Z * list Z)) :=
  if Nat.eqb (length l1) (length l2) then Some (compare_lists l1 l2) else None.

(* ---------- wire ---------- *)
Definition oz_of (t : tok) : option Z := match tl t with [x] => Some (tz x) | _ => None end.
Definition unit_of (t : tok) : option qunit :=
  match tl t with [a; b; c] => Some (mkQU (tz a) (tz b) (tz c)) | _ => None end.
Definition extra_of (t : tok) : qextra :=
  let l := tl t in
  let tag := tz (tnth l 0) in
  if tag =? 0 then XPhysConst (tz (tnth l 1))
  else if tag =? 1 then XValue (oz_of (tnth l 1))
  else XOther.
Definition kind_of (t : tok) : qkind :=
  let l := tl t in
  let tag := tz (tnth l 0) in
  if tag =? 0 then QCoded (tz (tnth l 1)) (tz (tnth l 2))
  else if tag =? 1 then QNrc (tz (tnth l 1)) (tzs (tnth l 2))
  else if tag =? 2 then QDop (tz (tnth l 1)) (tz (tnth l 2)) (unit_of (tnth l 3)) (oz_of (tnth l 4)) (extra_of (tnth l 5))
  else QOther.
Definition par_of (t : tok) : qpar :=
  let l := tl t in
  mkQ (tz (tnth l 0)) (tz (tnth l 1)) (oz_of (tnth l 2)) (oz_of (tnth l 3)) (oz_of (tnth l 4)) (kind_of (tnth l 5))
      (oz_of (tnth l 6)).

(* case: [new parameter list, old parameter list] -> [] (lists of different length) or [[[name, labels], ...]] *)
Definition run_case (t : tok) : tok :=
  let l := tl t in
  match compare_message (map par_of (tl (tnth l 0))) (map par_of (tl (tnth l 1))) with
  | None => TL []
  | Some r => TL [TL (map (fun x => TL [TZ (fst x); TZs (snd x)]) r)]
  end.
