(* String codecs as Python's str.encode / bytes.decode(errors='strict')
   implement them: strings are lists of code points. *)
From Coq Require Import ZArith List Bool.
From OV Require Import Base.Bytes.
Import ListNotations.
Open Scope Z_scope.

Inductive codec := Latin1 | Utf8 | Utf16LE | Utf16BE.

Definition is_surrogate (c : Z) : bool := (55296 <=? c) && (c <=? 57343).
Definition cp_ok (c : Z) : bool := (0 <=? c) && (c <? 1114112).

(* ---- encoders: None = UnicodeEncodeError ---- *)
Fixpoint latin1_enc (s : list Z) : option bytes :=
  match s with
  | [] => Some []
  | c :: r => if (0 <=? c) && (c <? 256)
              then match latin1_enc r with Some b => Some (c :: b) | None => None end
              else None
  end.

Definition utf8_enc1 (c : Z) : option bytes :=
  if negb (cp_ok c) || is_surrogate c then None
  else if c <? 128 then Some [c]
  else if c <? 2048 then Some [192 + c / 64; 128 + c mod 64]
  else if c <? 65536 then Some [224 + c / 4096; 128 + (c / 64) mod 64; 128 + c mod 64]
  else Some [240 + c / 262144; 128 + (c / 4096) mod 64; 128 + (c / 64) mod 64; 128 + c mod 64].

Fixpoint utf8_enc (s : list Z) : option bytes :=
  match s with
  | [] => Some []
  | c :: r => match utf8_enc1 c, utf8_enc r with
              | Some a, Some b => Some (a ++ b)
              | _, _ => None
              end
  end.

Definition u16 (be : bool) (w : Z) : bytes := if be then [w / 256; w mod 256] else [w mod 256; w / 256].

Definition utf16_enc1 (be : bool) (c : Z) : option bytes :=
  if negb (cp_ok c) || is_surrogate c then None
  else if c <? 65536 then Some (u16 be c)
  else let v := c - 65536 in Some (u16 be (55296 + v / 1024) ++ u16 be (56320 + v mod 1024)).

Fixpoint utf16_enc (be : bool) (s : list Z) : option bytes :=
  match s with
  | [] => Some []
  | c :: r => match utf16_enc1 be c, utf16_enc be r with
              | Some a, Some b => Some (a ++ b)
              | _, _ => None
              end
  end.

Definition str_enc (k : codec) (s : list Z) : option bytes :=
  match k with
  | Latin1 => latin1_enc s
  | Utf8 => utf8_enc s
  | Utf16LE => utf16_enc false s
  | Utf16BE => utf16_enc true s
  end.

(* ---- decoders (strict): None = UnicodeDecodeError ---- *)
Definition cont (b : Z) : bool := (128 <=? b) && (b <=? 191).

(* fuel-recursive: every step consumes at least one byte *)
Fixpoint utf8_dec (fuel : nat) (b : bytes) : option (list Z) :=
  match fuel with
  | O => match b with [] => Some [] | _ => None end
  | S f =>
    match b with
    | [] => Some []
    | b0 :: r =>
      let k (c : Z) (rest : bytes) := match utf8_dec f rest with Some s => Some (c :: s) | None => None end in
      if b0 <? 128 then k b0 r
      else if (194 <=? b0) && (b0 <=? 223) then
        match r with
        | b1 :: r1 => if cont b1 then k ((b0 - 192) * 64 + (b1 - 128)) r1 else None
        | _ => None end
      else if (224 <=? b0) && (b0 <=? 239) then
        match r with
        | b1 :: b2 :: r2 =>
          let lo := if b0 =? 224 then 160 else 128 in
          let hi := if b0 =? 237 then 159 else 191 in
          if (lo <=? b1) && (b1 <=? hi) && cont b2
          then k ((b0 - 224) * 4096 + (b1 - 128) * 64 + (b2 - 128)) r2 else None
        | _ => None end
      else if (240 <=? b0) && (b0 <=? 244) then
        match r with
        | b1 :: b2 :: b3 :: r3 =>
          let lo := if b0 =? 240 then 144 else 128 in
          let hi := if b0 =? 244 then 143 else 191 in
          if (lo <=? b1) && (b1 <=? hi) && cont b2 && cont b3
          then k ((b0 - 240) * 262144 + (b1 - 128) * 4096 + (b2 - 128) * 64 + (b3 - 128)) r3 else None
        | _ => None end
      else None
    end
  end.

Fixpoint utf16_dec (fuel : nat) (be : bool) (b : bytes) : option (list Z) :=
  match fuel with
  | O => match b with [] => Some [] | _ => None end
  | S f =>
    match b with
    | [] => Some []
    | x :: y :: r =>
      let w := if be then x * 256 + y else y * 256 + x in
      let k (c : Z) (rest : bytes) := match utf16_dec f be rest with Some s => Some (c :: s) | None => None end in
      if (55296 <=? w) && (w <=? 56319) then
        match r with
        | x2 :: y2 :: r2 =>
          let w2 := if be then x2 * 256 + y2 else y2 * 256 + x2 in
          if (56320 <=? w2) && (w2 <=? 57343)
          then k (65536 + (w - 55296) * 1024 + (w2 - 56320)) r2 else None
        | _ => None end
      else if (56320 <=? w) && (w <=? 57343) then None
      else k w r
    | _ => None
    end
  end.

Definition str_dec (k : codec) (b : bytes) : option (list Z) :=
  match k with
  | Latin1 => Some b
  | Utf8 => utf8_dec (List.length b) b
  | Utf16LE => utf16_dec (List.length b) false b
  | Utf16BE => utf16_dec (List.length b) true b
  end.
