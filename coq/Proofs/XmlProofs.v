(* Proofs about Model/Xml.v *)
From Coq Require Import ZArith List Bool Lia ZifyBool Permutation.
From OV Require Import Base.Wire Model.Xml.
Import ListNotations.
Open Scope Z_scope.

Lemma omap_cons {A} (c : A) o l : option_map (cons c) o = Some l -> exists l', o = Some l' /\ l = c :: l'.
Proof. destruct o; simpl; intros H; inversion H. eauto. Qed.

(* one escaped character is read back as that character *)
Lemma unesc_esc_char F c r :
  memZ 60 F = true \/ F = F -> (forall x, memZ x F = true -> x = 60 \/ x = 34) ->
  unesc F None (esc_char c ++ r) = option_map (cons c) (unesc F None r).
Proof.
  intros _ HF. unfold esc_char.
  destruct (c =? 38) eqn:E38; [apply Z.eqb_eq in E38; subst; reflexivity|].
  destruct (c =? 60) eqn:E60; [apply Z.eqb_eq in E60; subst; reflexivity|].
  destruct (c =? 62) eqn:E62; [apply Z.eqb_eq in E62; subst; reflexivity|].
  destruct (c =? 34) eqn:E34; [apply Z.eqb_eq in E34; subst; reflexivity|].
  destruct (c =? 39) eqn:E39; [apply Z.eqb_eq in E39; subst; reflexivity|].
  simpl. rewrite E38. destruct (memZ c F) eqn:Em; [|reflexivity].
  destruct (HF c Em) as [->| ->]; discriminate.
Qed.

Lemma unesc_attr_char F c r :
  (forall x, memZ x F = true -> x = 60 \/ x = 34) ->
  unesc F None (attr_char c ++ r) = option_map (cons c) (unesc F None r).
Proof.
  intros HF. unfold attr_char.
  destruct (c =? 38) eqn:E38; [apply Z.eqb_eq in E38; subst; reflexivity|].
  destruct (c =? 60) eqn:E60; [apply Z.eqb_eq in E60; subst; reflexivity|].
  destruct (c =? 62) eqn:E62; [apply Z.eqb_eq in E62; subst; reflexivity|].
  destruct (c =? 34) eqn:E34; [apply Z.eqb_eq in E34; subst; reflexivity|].
  simpl. rewrite E38. destruct (memZ c F) eqn:Em; [|reflexivity].
  destruct (HF c Em) as [->| ->]; discriminate.
Qed.

Lemma forbidden_text x : memZ x [60] = true -> x = 60 \/ x = 34.
Proof. unfold memZ. simpl. rewrite orb_false_r. intros H. apply Z.eqb_eq in H. now left. Qed.
Lemma forbidden_attr x : memZ x [60; 34] = true -> x = 60 \/ x = 34.
Proof.
  unfold memZ. simpl. rewrite orb_false_r. intros H. apply orb_true_iff in H as [H|H]; apply Z.eqb_eq in H; auto.
Qed.

(* element text written through |e is read back unchanged, whatever it contains *)
Theorem text_roundtrip s : parse_text (escape s) = Some s.
Proof.
  unfold parse_text, escape. induction s as [|c s IH]; [reflexivity|]. simpl.
  rewrite (unesc_esc_char [60] c _ (or_intror eq_refl) forbidden_text), IH. reflexivity.
Qed.

(* ... also inside an attribute value *)
Theorem text_in_attr_roundtrip s : parse_attr (escape s) = Some s.
Proof.
  unfold parse_attr, escape. induction s as [|c s IH]; [reflexivity|]. simpl.
  rewrite (unesc_esc_char [60; 34] c _ (or_intror eq_refl) forbidden_attr), IH. reflexivity.
Qed.

(* attribute values written by make_xml_attrib are read back unchanged *)
Theorem attr_roundtrip s : parse_attr (attr_escape s) = Some s.
Proof.
  unfold parse_attr, attr_escape. induction s as [|c s IH]; [reflexivity|]. simpl.
  rewrite (unesc_attr_char [60; 34] c _ forbidden_attr), IH. reflexivity.
Qed.

(* the escaped value cannot end the attribute or open a tag *)
Theorem attr_escape_no_meta s : forall c, In c (attr_escape s) -> c <> 60 /\ c <> 34.
Proof.
  unfold attr_escape. intros c Hc. apply in_flat_map in Hc as (x & _ & Hx). unfold attr_char in Hx.
  destruct (x =? 38); [|destruct (x =? 60) eqn:E60; [|destruct (x =? 62); [|destruct (x =? 34) eqn:E34]]];
    simpl in Hx; try (repeat destruct Hx as [<-|Hx]; try (split; discriminate); contradiction).
  destruct Hx as [<-|[]]. split; intros ->; discriminate.
Qed.

Theorem escape_no_meta s : forall c, In c (escape s) -> c <> 60 /\ c <> 34.
Proof.
  unfold escape. intros c Hc. apply in_flat_map in Hc as (x & _ & Hx). unfold esc_char in Hx.
  destruct (x =? 38); [|destruct (x =? 60) eqn:E60; [|destruct (x =? 62); [|destruct (x =? 34) eqn:E34; [|destruct (x =? 39)]]]];
    simpl in Hx; try (repeat destruct Hx as [<-|Hx]; try (split; discriminate); contradiction).
  destruct Hx as [<-|[]]. split; intros ->; discriminate.
Qed.

(* the writer before the fix commit: a value is NOT read back in general *)
Theorem attr_verbatim_refuted : exists s, parse_attr (attr_verbatim s) <> Some s.
Proof. exists [97; 38; 98]. vm_compute. discriminate. Qed.

(* ---------- assembly: the canonical view does not depend on the file order ---------- *)
Lemma insert_comm x y l : fst x <> fst y -> insert x (insert y l) = insert y (insert x l).
Proof.
  intros Hn. induction l as [|z l IH]; simpl.
  - destruct (fst x <=? fst y) eqn:E1, (fst y <=? fst x) eqn:E2; try reflexivity; lia.
  - repeat (match goal with
            | |- context [if ?a <=? ?b then _ else _] => destruct (a <=? b) eqn:?
            end; simpl); try reflexivity; try lia; now rewrite IH.
Qed.

Lemma canon_perm l l' : Permutation l l' -> NoDup (map fst l) -> canon l = canon l'.
Proof.
  induction 1 as [|x l l' HP IH|x y l|l l' l'' H1 IH1 H2 IH2]; intros ND; simpl in *.
  - reflexivity.
  - inversion ND. subst. now rewrite IH.
  - inversion ND as [|? ? Hx ND']. subst. apply insert_comm. intros E. apply Hx. simpl. now left.
  - rewrite IH1 by exact ND. apply IH2.
    eapply Permutation_NoDup; [apply Permutation_map; exact H1 | exact ND].
Qed.

Lemma assemble_id files : assemble files = files.
Proof.
  unfold assemble. assert (G : forall (fs acc : list (Z * Z)), fold_left (fun db f => db ++ [f]) fs acc = acc ++ fs).
  { induction fs as [|f fs IH]; intros acc; simpl; [now rewrite app_nil_r|]. rewrite IH, <- app_assoc. reflexivity. }
  apply G.
Qed.

(* two file orders of the same documents (distinct short names) give the same database *)
Theorem order_independent fs fs' :
  Permutation fs fs' -> NoDup (map fst fs) -> canon (assemble fs) = canon (assemble fs').
Proof. intros P N. rewrite !assemble_id. now apply canon_perm. Qed.

Example order_example :
  canon (assemble [(3, 30); (1, 10); (2, 20)]) = [(1, 10); (2, 20); (3, 30)] /\
  canon (assemble [(2, 20); (3, 30); (1, 10)]) = [(1, 10); (2, 20); (3, 30)] /\
  parse_text (escape [97; 38; 60; 62; 34; 39; 98]) = Some [97; 38; 60; 62; 34; 39; 98] /\
  attr_escape [34; 38] = e_quot ++ e_amp.
Proof. vm_compute. repeat split. Qed.
