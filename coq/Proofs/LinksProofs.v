(* Proofs about Model/Links.v *)
From Coq Require Import ZArith List Bool Lia.
From OV Require Import Base.Wire Model.Inherit Model.Links.
Import ListNotations.
Open Scope Z_scope.

(* ---------- association lists ---------- *)
Lemma aget_aset {A} k k' (v : A) m : aget k (aset k' v m) = if k =? k' then Some v else aget k m.
Proof.
  induction m as [|[k0 v0] m IH]; simpl.
  - reflexivity.
  - destruct (k' =? k0) eqn:E0; simpl.
    + apply Z.eqb_eq in E0. subst k0. destruct (k =? k'); reflexivity.
    + destruct (k =? k0) eqn:E1.
      * apply Z.eqb_eq in E1. subst k0.
        destruct (k =? k') eqn:E2; [|reflexivity].
        apply Z.eqb_eq in E2. subst k'. rewrite Z.eqb_refl in E0. discriminate.
      * exact IH.
Qed.

Lemma frag_map_aset db f m f' : frag_map (aset f m db) f' = if f' =? f then m else frag_map db f'.
Proof. unfold frag_map. rewrite aget_aset. destruct (f' =? f); reflexivity. Qed.

Definition put_res (ov : bool) (old : option Z) (o : Z) : option Z :=
  match old with Some x => if ov then Some o else Some x | None => Some o end.

Lemma put_res_idem ov old o : put_res ov (put_res ov old o) o = put_res ov old o.
Proof. destruct old, ov; reflexivity. Qed.

Lemma db_get_put ov db f id o f' id' :
  db_get (db_put ov db f id o) f' id' =
  if (f' =? f) && (id' =? id) then put_res ov (db_get db f id) o else db_get db f' id'.
Proof.
  unfold db_put, db_get, put_res.
  destruct (f' =? f) eqn:Ef; simpl.
  - apply Z.eqb_eq in Ef. subst f'.
    destruct (aget id (frag_map db f)) eqn:E.
    + destruct ov; rewrite frag_map_aset, Z.eqb_refl.
      * rewrite aget_aset. destruct (id' =? id); reflexivity.
      * destruct (id' =? id) eqn:Ei; [|reflexivity]. apply Z.eqb_eq in Ei. now subst id'.
    + rewrite frag_map_aset, Z.eqb_refl, aget_aset. destruct (id' =? id); reflexivity.
  - destruct (aget id (frag_map db f)); [destruct ov|]; rewrite frag_map_aset, Ef; reflexivity.
Qed.

Definition matches (e : entry) (f id : Z) : bool := memZ f (e_frags e) && (id =? e_id e).

Lemma db_get_put_frags ov id o : forall fs db f id',
  db_get (fold_left (fun d f0 => db_put ov d f0 id o) fs db) f id' =
  if memZ f fs && (id' =? id) then put_res ov (db_get db f id') o else db_get db f id'.
Proof.
  induction fs as [|f0 fs IH]; intros db f id'; simpl; [reflexivity|].
  rewrite IH, !db_get_put. unfold memZ. simpl.
  destruct (id' =? id) eqn:Ei.
  - apply Z.eqb_eq in Ei. subst id'. rewrite !andb_true_r.
    destruct (f =? f0) eqn:Ef; simpl.
    + apply Z.eqb_eq in Ef. subst f0.
      destruct (existsb (Z.eqb f) fs); [apply put_res_idem | reflexivity].
    + reflexivity.
  - rewrite !andb_false_r. reflexivity.
Qed.

Lemma db_get_put_entry ov db e f id :
  db_get (put_entry ov db e) f id =
  if matches e f id then put_res ov (db_get db f id) (e_obj e) else db_get db f id.
Proof. unfold put_entry, matches. apply db_get_put_frags. Qed.

(* the lookups after update are a fold over the entries which mention (fragment, id) *)
Definition step_get (ov : bool) (f id : Z) (acc : option Z) (e : entry) : option Z :=
  if matches e f id then put_res ov acc (e_obj e) else acc.

Lemma db_get_update ov : forall es db f id,
  db_get (update ov db es) f id = fold_left (step_get ov f id) es (db_get db f id).
Proof.
  induction es as [|e es IH]; intros db f id; simpl; [reflexivity|].
  unfold update in *. simpl. rewrite IH, db_get_put_entry. reflexivity.
Qed.

Lemma fold_no_match ov f id : forall es acc,
  (forall e, In e es -> matches e f id = false) -> fold_left (step_get ov f id) es acc = acc.
Proof.
  induction es as [|e es IH]; intros acc H; simpl; [reflexivity|].
  unfold step_get at 2. rewrite (H e (or_introl eq_refl)). apply IH. intros x Hx. apply H. now right.
Qed.

Lemma fold_keep_false f id : forall es x, fold_left (step_get false f id) es (Some x) = Some x.
Proof.
  induction es as [|e es IH]; intros x; simpl; [reflexivity|].
  unfold step_get at 2. destruct (matches e f id); simpl; apply IH.
Qed.

(* overwrite = True: the LAST entry which carries the id in this fragment wins *)
Theorem update_true_last db pre e post f id :
  matches e f id = true -> (forall x, In x post -> matches x f id = false) ->
  db_get (update true db (pre ++ e :: post)) f id = Some (e_obj e).
Proof.
  intros He Hpost. rewrite db_get_update, fold_left_app. simpl.
  rewrite fold_no_match by exact Hpost.
  unfold step_get. rewrite He. destruct (fold_left _ pre _); reflexivity.
Qed.

(* ... so with ids unique per fragment a lookup yields the object carrying the id *)
Corollary build_unique es e f id :
  In e es -> matches e f id = true ->
  (forall x, In x es -> matches x f id = true -> x = e) ->
  db_get (update true [] es) f id = Some (e_obj e).
Proof.
  intros Hin He Hu. apply in_split in Hin as (pre & post & ->).
  assert (D : forall x, In x post -> matches x f id = false \/ e_obj x = e_obj e).
  { intros x Hx. destruct (matches x f id) eqn:Ex; [right|now left].
    f_equal. apply Hu; [apply in_or_app; right; now right | exact Ex]. }
  rewrite db_get_update, fold_left_app. simpl.
  assert (S0 : step_get true f id (fold_left (step_get true f id) pre (db_get [] f id)) e = Some (e_obj e)).
  { unfold step_get. rewrite He. destruct (fold_left _ pre _); reflexivity. }
  rewrite S0. clear S0 Hu. induction post as [|x post IH]; simpl; [reflexivity|].
  assert (Sx : step_get true f id (Some (e_obj e)) x = Some (e_obj e)).
  { unfold step_get. destruct (D x (or_introl eq_refl)) as [->|Ho]; [reflexivity|].
    destruct (matches x f id); simpl; [now rewrite Ho | reflexivity]. }
  rewrite Sx. apply IH. intros y Hy. apply D. now right.
Qed.

(* an id nobody registered in the fragment is unbound *)
Theorem update_unbound ov db es f id :
  (forall e, In e es -> matches e f id = false) -> db_get (update ov db es) f id = db_get db f id.
Proof. intros H. rewrite db_get_update. now apply fold_no_match. Qed.

(* overwrite = False (imports): bound ids are never shadowed ... *)
Theorem update_false_keeps db es f id o :
  db_get db f id = Some o -> db_get (update false db es) f id = Some o.
Proof. intros H. rewrite db_get_update, H. apply fold_keep_false. Qed.

(* ... and an unbound id gets the FIRST entry which carries it *)
Theorem update_false_first db pre e post f id :
  db_get db f id = None -> matches e f id = true -> (forall x, In x pre -> matches x f id = false) ->
  db_get (update false db (pre ++ e :: post)) f id = Some (e_obj e).
Proof.
  intros Hn He Hpre. rewrite db_get_update, fold_left_app, Hn. rewrite (fold_no_match false f id pre None Hpre).
  simpl. unfold step_get at 2. rewrite He. simpl. apply fold_keep_false.
Qed.

(* ---------- resolve ---------- *)
Lemma resolve_in_some db id : forall l o,
  resolve_in db id l = Some o <->
  exists pre f post, l = pre ++ f :: post /\ db_get db f id = Some o /\
                     forall f', In f' pre -> db_get db f' id = None.
Proof.
  induction l as [|f l IH]; intros o; simpl.
  - split; [discriminate|]. intros (pre & f & post & H & _). destruct pre; discriminate.
  - destruct (db_get db f id) eqn:E.
    + split.
      * intros H. inversion H. subst. exists [], f, l. repeat split; auto. intros ? [].
      * intros (pre & f0 & post & H & Hg & Hn). destruct pre as [|p pre]; simpl in H; inversion H; subst.
        -- congruence.
        -- rewrite (Hn p (or_introl eq_refl)) in E. discriminate.
    + rewrite IH. split.
      * intros (pre & f0 & post & -> & Hg & Hn). exists (f :: pre), f0, post. repeat split; auto.
        intros f' [<-|Hf]; auto.
      * intros (pre & f0 & post & H & Hg & Hn). destruct pre as [|p pre]; simpl in H; inversion H; subst.
        -- congruence.
        -- exists pre, f0, post. repeat split; auto. intros f' Hf. apply Hn. now right.
Qed.

(* the reference binds to what the innermost (= last) of its fragments binding the id holds *)
Theorem resolve_innermost db r o :
  resolve db r = Some o <->
  exists outer f inner, r_docs r = outer ++ f :: inner /\ db_get db f (r_id r) = Some o /\
                        forall f', In f' inner -> db_get db f' (r_id r) = None.
Proof.
  unfold resolve. rewrite resolve_in_some. split.
  - intros (pre & f & post & H & Hg & Hn). exists (rev post), f, (rev pre). repeat split; auto.
    + rewrite <- (rev_involutive (r_docs r)), H, rev_app_distr. simpl. now rewrite <- app_assoc.
    + intros f' Hf. apply Hn. now apply in_rev.
  - intros (outer & f & inner & H & Hg & Hn). exists (rev inner), f, (rev outer). repeat split; auto.
    + rewrite H, rev_app_distr. simpl. now rewrite <- app_assoc.
    + intros f' Hf. apply Hn. now apply in_rev in Hf.
Qed.

Lemma resolve_in_none db id : forall l,
  resolve_in db id l = None <-> forall f, In f l -> db_get db f id = None.
Proof.
  induction l as [|f l IH]; simpl.
  - split; [intros _ ? [] | reflexivity].
  - destruct (db_get db f id) eqn:E.
    + split; [discriminate|]. intros H. rewrite (H f (or_introl eq_refl)) in E. discriminate.
    + rewrite IH. split.
      * intros H f' [<-|Hf]; auto.
      * intros H f' Hf. apply H. now right.
Qed.

(* a reference is unresolvable exactly if none of its fragments binds the id *)
Theorem resolve_none db r :
  resolve db r = None <-> forall f, In f (r_docs r) -> db_get db f (r_id r) = None.
Proof.
  unfold resolve. rewrite resolve_in_none. split; intros H f Hf; apply H; [now apply -> in_rev | now apply in_rev].
Qed.

(* a DOCREF reference (one fragment) is scoped to that fragment alone *)
Corollary resolve_docref db id f : resolve db (mkRef id [f]) = db_get db f id.
Proof. unfold resolve. simpl. destruct (db_get db f id); reflexivity. Qed.

(* typed resolution binds to nothing else than what resolve finds, and only to the expected kind *)
Theorem resolve_typed_ok kind_of db r expected o :
  resolve_typed kind_of db r expected = ROk o <->
  resolve db r = Some o /\ (expected = [] \/ memZ (kind_of o) expected = true).
Proof.
  unfold resolve_typed, type_ok. destruct (resolve db r) as [x|]; [|split; [discriminate | intros [H _]; discriminate]].
  destruct expected as [|k ks].
  - split; [intros H; inversion H; auto | intros [H _]; now inversion H].
  - destruct (memZ (kind_of x) (k :: ks)) eqn:E.
    + split; [intros H; inversion H; subst; auto | intros [H _]; now inversion H].
    + split; [discriminate|]. intros [H [H'|H']]; [discriminate|]. inversion H. subst. congruence.
Qed.

(* ---------- imports ---------- *)
Lemma layer_db_no_imports kind_of ls db L : ll_imports L = [] -> layer_db kind_of ls db L = Some db.
Proof. unfold layer_db. now intros ->. Qed.

(* whatever a layer imports: ids which are bound are not shadowed, and nothing changes outside
   the fragments of the importing layer *)
Theorem import_never_shadows kind_of ls db L d f id o :
  layer_db kind_of ls db L = Some d -> db_get db f id = Some o -> db_get d f id = Some o.
Proof.
  unfold layer_db. destruct (ll_imports L); [intros H; now inversion H|].
  destruct (imported _ _ _ _ _); [|discriminate]. intros H Hg. inversion H. subst.
  now apply update_false_keeps.
Qed.

Theorem import_scoped kind_of ls db L d f id :
  layer_db kind_of ls db L = Some d -> memZ f (ll_frags L) = false -> db_get d f id = db_get db f id.
Proof.
  unfold layer_db. destruct (ll_imports L); [intros H; now inversion H|].
  destruct (imported _ _ _ _ _); [|discriminate]. intros H Hf. inversion H. subst.
  apply update_unbound. intros e He. apply in_map_iff in He as (p & <- & _).
  unfold matches. simpl. now rewrite Hf.
Qed.

Lemma aget_first {A} k (m : list (Z * A)) v :
  aget k m = Some v -> exists pre post, m = pre ++ (k, v) :: post /\ forall p, In p pre -> (k =? fst p) = false.
Proof.
  induction m as [|[k0 v0] m IH]; simpl; [discriminate|].
  destruct (k =? k0) eqn:E.
  - intros H. inversion H. subst. apply Z.eqb_eq in E. subst. exists [], m. split; [reflexivity | intros ? []].
  - intros H. destruct (IH H) as (pre & post & -> & Hp). exists ((k0, v0) :: pre), post. split; [reflexivity|].
    intros p [<-|Hin]; auto.
Qed.

(* an imported id which is unbound in a fragment of the importing layer becomes visible there *)
Theorem import_visible kind_of ls db L d m f id o :
  ll_imports L <> [] -> imported kind_of ls db (ll_imports L) [] = Some m ->
  layer_db kind_of ls db L = Some d ->
  aget id m = Some o -> memZ f (ll_frags L) = true -> db_get db f id = None ->
  db_get d f id = Some o.
Proof.
  intros Hne Him. unfold layer_db. destruct (ll_imports L) eqn:EI; [congruence|]. rewrite Him.
  intros H Hm Hf Hn. inversion H. subst. clear H.
  destruct (aget_first id m o Hm) as (pre & post & -> & Hpre).
  rewrite map_app. simpl.
  apply (update_false_first db (map _ pre) (mkE id (ll_frags L) o)); auto.
  - unfold matches. simpl. now rewrite Hf, Z.eqb_refl.
  - intros x Hx. apply in_map_iff in Hx as (p & <- & Hp). unfold matches. simpl.
    rewrite (Hpre p Hp). apply andb_false_r.
Qed.

(* only shared-data layers can be imported *)
Lemma imported_esd kind_of ls db : forall imps acc m r,
  imported kind_of ls db imps acc = Some m -> In r imps ->
  exists o IL, resolve db r = Some o /\ find_ll o ls = Some IL /\ ll_esd IL = true.
Proof.
  induction imps as [|r0 imps IH]; intros acc m r H Hin; [contradiction|]. simpl in H.
  destruct (resolve_typed kind_of db r0 [k_layer; k_esd]) as [o| |o] eqn:ER; try discriminate.
  destruct (find_ll o ls) as [IL|] eqn:EF; [|discriminate].
  destruct (ll_esd IL) eqn:EE; [|discriminate].
  destruct Hin as [<-|Hin].
  - apply resolve_typed_ok in ER as [ER _]. now exists o, IL.
  - eapply IH; eauto.
Qed.

(* ---------- short-name references ---------- *)
Theorem resolve_snref_ok name items expected o :
  resolve_snref name items expected = SOk o <->
  exists x, filter (fun it => it_name it =? name) items = [x] /\ it_obj x = o /\
            (expected = [] \/ memZ (it_kind x) expected = true).
Proof.
  unfold resolve_snref. destruct (filter _ items) as [|x [|y l]].
  - split; [discriminate | intros (x & H & _); discriminate].
  - destruct expected as [|k ks].
    + split; [intros H; inversion H; exists x; auto | intros (x' & H & <- & _); now inversion H].
    + destruct (memZ (it_kind x) (k :: ks)) eqn:E.
      * split; [intros H; inversion H; exists x; auto | intros (x' & H & <- & _); now inversion H].
      * split; [discriminate|]. intros (x' & H & _ & [H'|H']); [discriminate|]. inversion H. subst. congruence.
  - split; [discriminate | intros (x' & H & _); discriminate].
Qed.

Lemma filter_singleton {A} (p : A -> bool) l x :
  filter p l = [x] -> In x l /\ p x = true /\ forall y, In y l -> p y = true -> y = x \/ False.
Proof.
  intros H. assert (Hx : In x (filter p l)) by (rewrite H; now left). apply filter_In in Hx as [Hin Hp].
  repeat split; auto. intros y Hy Hpy. assert (In y (filter p l)) by (apply filter_In; auto).
  rewrite H in H0. destruct H0 as [->|[]]. now left.
Qed.

(* the bound object is in the list, carries the name, and no other element of the list does *)
Corollary resolve_snref_unique name items expected o :
  resolve_snref name items expected = SOk o ->
  exists x, In x items /\ it_name x = name /\ it_obj x = o /\
            forall y, In y items -> it_name y = name -> y = x.
Proof.
  intros H. apply resolve_snref_ok in H as (x & Hf & Ho & _).
  destruct (filter_singleton _ _ _ Hf) as (Hin & Hp & Hu).
  exists x. repeat split; auto; [now apply Z.eqb_eq|].
  intros y Hy Hn. destruct (Hu y Hy) as [E|[]]; [now apply Z.eqb_eq | exact E].
Qed.

(* the same for a reference resolved in the inherited view of a layer *)
Theorem resolve_in_view_ok hs lid cats name expected x :
  resolve_in_view hs lid cats name expected = VOk x ->
  exists os, view hs cats lid = IOk os /\ In x os /\ v_name x = name /\
             (forall y, In y os -> v_name y = name -> y = x) /\
             (expected = [] \/ memZ (v_cat x) expected = true).
Proof.
  unfold resolve_in_view. destruct (view hs cats lid) as [os| |]; try discriminate.
  destruct (filter _ os) as [|x0 [|y l]] eqn:Ef; try discriminate.
  intros H. assert (E : x0 = x /\ (expected = [] \/ memZ (v_cat x) expected = true)).
  { destruct expected as [|k ks]; [inversion H; auto|].
    destruct (memZ (v_cat x0) (k :: ks)) eqn:Em; inversion H. subst. auto. }
  destruct E as [-> Ht]. destruct (filter_singleton _ _ _ Ef) as (Hin & Hp & Hu).
  exists os. repeat split; auto; [now apply Z.eqb_eq|].
  intros y Hy Hn. destruct (Hu y Hy) as [E|[]]; [now apply Z.eqb_eq | exact E].
Qed.

(* ---------- retargeting ---------- *)
Lemma ancestors_self fuel parents V : In V (ancestors fuel parents V).
Proof. destruct fuel; simpl; now left. Qed.

Lemma ancestors_step fuel parents V ps P A :
  aget V parents = Some ps -> In P ps -> In A (ancestors fuel parents P) -> In A (ancestors (S fuel) parents V).
Proof.
  intros Hp HP HA. simpl. right. rewrite Hp. apply in_flat_map. now exists P.
Qed.

Lemma memZ_In x l : memZ x l = true <-> In x l.
Proof.
  unfold memZ. rewrite existsb_exists. split.
  - intros (y & Hy & E). apply Z.eqb_eq in E. now subst.
  - intros H. exists x. split; [exact H | apply Z.eqb_refl].
Qed.

(* after retarget_snrefs(V): a reference owned by V or one of its (transitive) parents binds as V's
   view prescribes; every other reference keeps its binding *)
Theorem retarget_rebinds hs parents V s :
  In (sn_owner s) (ancestors (List.length parents) parents V) ->
  bind_retargeted hs parents V s = resolve_in_view hs V (sn_cats s) (sn_name s) (sn_expected s).
Proof. intros H. unfold bind_retargeted. apply memZ_In in H. now rewrite H. Qed.

Theorem retarget_keeps_others hs parents V s :
  ~ In (sn_owner s) (ancestors (List.length parents) parents V) ->
  bind_retargeted hs parents V s = bind_loaded hs s.
Proof.
  intros H. unfold bind_retargeted. destruct (memZ _ _) eqn:E; [|reflexivity].
  apply memZ_In in E. contradiction.
Qed.

(* ---------- strict loading ---------- *)
Lemma forallb_map_In {A B} (f : A -> B) (p : B -> bool) l x :
  forallb p (map f l) = true -> In x l -> p (f x) = true.
Proof. intros H Hin. rewrite forallb_forall in H. apply H. now apply in_map. Qed.

(* if loading succeeds every ODXLINK reference is bound to what resolve finds in the database of
   its layer, every short-name reference to the unique object of its view *)
Theorem load_sound kind_of ls es refs hs sns probes rb sb :
  load kind_of ls es refs hs sns probes = Some (rb, sb) ->
  (forall q, In q refs -> exists o, bind_ref kind_of ls (update true [] es) q = Some (ROk o)) /\
  (forall s, In s sns -> exists x, bind_loaded hs s = VOk x) /\
  (forall p, In p probes -> exists os, view hs (snd p) (fst p) = IOk os).
Proof.
  unfold load. destruct (forallb is_rok _) eqn:E1; [|discriminate].
  destruct (forallb is_vok _) eqn:E2; [|discriminate].
  destruct (forallb (view_ok hs) probes) eqn:E3; [|discriminate]. intros _. repeat split.
  - intros q Hq. pose proof (forallb_map_In _ _ _ _ E1 Hq) as H.
    destruct (bind_ref _ _ _ q) as [[o| |o]|]; try discriminate. now exists o.
  - intros s Hs. pose proof (forallb_map_In _ _ _ _ E2 Hs) as H.
    destruct (bind_loaded hs s); try discriminate. eauto.
  - intros p Hp. rewrite forallb_forall in E3. specialize (E3 p Hp). unfold view_ok in E3.
    destruct (view hs (snd p) (fst p)); try discriminate. eauto.
Qed.

(* a single dangling, mistyped or ambiguous reference makes loading fail *)
Theorem load_fails_on_bad_ref kind_of ls es refs hs sns probes q :
  In q refs -> is_rok (bind_ref kind_of ls (update true [] es) q) = false ->
  load kind_of ls es refs hs sns probes = None.
Proof.
  intros Hq Hb. unfold load.
  destruct (forallb is_rok _) eqn:E1; [|reflexivity].
  rewrite (forallb_map_In _ _ _ _ E1 Hq) in Hb. discriminate.
Qed.

Theorem load_fails_on_bad_snref kind_of ls es refs hs sns probes s :
  In s sns -> is_vok (bind_loaded hs s) = false ->
  load kind_of ls es refs hs sns probes = None.
Proof.
  intros Hs Hb. unfold load.
  destruct (forallb is_vok _) eqn:E2; [|now rewrite andb_false_r].
  rewrite (forallb_map_In _ _ _ _ E2 Hs) in Hb. discriminate.
Qed.

(* non-vacuity: two containers, the id 7 in both; a layer importing a shared-data layer *)
Example links_example :
  let es := [mkE 7 [1; 11] 100; mkE 7 [2; 21] 200; mkE 8 [2; 22] 300] in
  let db := update true [] es in
  resolve db (mkRef 7 [1; 11]) = Some 100 /\ resolve db (mkRef 7 [2; 21]) = Some 200 /\
  resolve db (mkRef 7 [2; 22]) = Some 200 /\ resolve db (mkRef 7 [1]) = Some 100 /\
  resolve db (mkRef 9 [2; 22]) = None /\
  (* layer with fragments [2;22] imports the shared-data layer 500 of container 1, which holds id 9 *)
  let E := mkLL 500 [1; 12] true [(9, 400); (7, 401)] [] in
  let A := mkLL 501 [2; 22] false [(8, 300)] [mkRef 50 [1]] in
  let db2 := update true db [mkE 50 [1; 12] 500] in
  let kind := fun o => if o =? 500 then 10 else 1 in
  match layer_db kind [E; A] db2 A with
  | Some d => resolve d (mkRef 9 [2; 22]) = Some 400 /\ resolve d (mkRef 7 [2; 22]) = Some 401 /\
              resolve d (mkRef 7 [2; 21]) = Some 200 /\ resolve db2 (mkRef 9 [2; 22]) = None
  | None => False
  end.
Proof. vm_compute. repeat split. Qed.
