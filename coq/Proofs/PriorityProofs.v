(* C09: which of several same-named parent objects a layer sees -- the one of a parent of
   maximal priority among the parents exposing the name, and all exposing parents of that
   priority expose the same object (otherwise loading reports a conflict) *)
From Coq Require Import ZArith List Bool Lia.
From OV Require Import Base.Wire Model.Inherit Proofs.InheritProofs.
Import ListNotations.
Open Scope Z_scope.

Lemma obj_eqb_refl o : obj_eqb o o = true.
Proof. unfold obj_eqb. now rewrite !Z.eqb_refl. Qed.

(* E n o q: "parent layer q exposes object o under the name n" has been merged already *)
Definition expo := Z -> obj -> Z -> Prop.

Definition pinv (H : list layer) (locals : list Z) (E : expo) (d : list entry) : Prop :=
  (forall n o via, dget n d = Some (o, via) ->
     forall o' q, E n o' q ->
       layer_prio H q <= layer_prio H via /\
       (layer_prio H q = layer_prio H via -> obj_eqb o' o = true \/ memZ n locals = true)) /\
  (forall n o' q, E n o' q -> dget n d <> None).

Definition add_expo (E : expo) (n : Z) (o : obj) (q : Z) : expo :=
  fun n' o' q' => E n' o' q' \/ (n' = n /\ o' = o /\ q' = q).

Lemma pinv_ext H locals (E E' : expo) d : (forall n o q, E' n o q <-> E n o q) -> pinv H locals E d -> pinv H locals E' d.
Proof.
  intros X [A B]. split.
  - intros n o via G o' q He. apply (A n o via G o' q). now apply X.
  - intros n o' q He. apply (B n o' q). now apply X.
Qed.

(* one object of the parent pid *)
Lemma pinv_step H locals E d o pid d1 :
  pinv H locals E d ->
  (match dget (o_name o) d with
   | None => Some (dset (o_name o) (o, pid) d)
   | Some (o', via) =>
     if layer_prio H pid <? layer_prio H via then Some d
     else if layer_prio H via <? layer_prio H pid then Some (dset (o_name o) (o, pid) d)
     else if memZ (o_name o) locals then Some d
     else if obj_eqb o o' then Some d else None
   end) = Some d1 ->
  pinv H locals (add_expo E (o_name o) o pid) d1.
Proof.
  intros [A B] Hs. set (n := o_name o) in *.
  destruct (dget n d) as [[o' via]|] eqn:G.
  - destruct (layer_prio H pid <? layer_prio H via) eqn:L1.
    + injection Hs as <-. apply Z.ltb_lt in L1. split.
      * intros m om vm Gm x q [He|(-> & -> & ->)]; [now apply (A m om vm Gm)|].
        rewrite G in Gm. injection Gm as <- <-. split; lia.
      * intros m x q [He|(-> & _)]; [now apply (B m x q) | congruence].
    + apply Z.ltb_ge in L1. destruct (layer_prio H via <? layer_prio H pid) eqn:L2.
      * injection Hs as <-. apply Z.ltb_lt in L2. split.
        -- intros m om vm Gm x q He. destruct (Z.eq_dec m n) as [->|Ne].
           ++ rewrite dget_dset_same in Gm. injection Gm as <- <-.
              destruct He as [He|(_ & -> & ->)].
              ** destruct (A n o' via G x q He) as [P _]. split; lia.
              ** split; [lia | intros _; left; apply obj_eqb_refl].
           ++ rewrite dget_dset_other in Gm by exact Ne.
              destruct He as [He|(-> & _)]; [now apply (A m om vm Gm) | contradiction].
        -- intros m x q He. destruct (Z.eq_dec m n) as [->|Ne]; [rewrite dget_dset_same; discriminate|].
           rewrite dget_dset_other by exact Ne. destruct He as [He|(-> & _)]; [now apply (B m x q) | contradiction].
      * apply Z.ltb_ge in L2. assert (Eq : layer_prio H pid = layer_prio H via) by lia.
        destruct (memZ n locals) eqn:Lc.
        -- injection Hs as <-. split.
           ++ intros m om vm Gm x q [He|(-> & -> & ->)]; [now apply (A m om vm Gm)|].
              rewrite G in Gm. injection Gm as <- <-. split; [lia | intros _; now right].
           ++ intros m x q [He|(-> & _)]; [now apply (B m x q) | congruence].
        -- destruct (obj_eqb o o') eqn:Eo; [|discriminate]. injection Hs as <-. split.
           ++ intros m om vm Gm x q [He|(-> & -> & ->)]; [now apply (A m om vm Gm)|].
              rewrite G in Gm. injection Gm as <- <-. split; [lia | intros _; now left].
           ++ intros m x q [He|(-> & _)]; [now apply (B m x q) | congruence].
  - injection Hs as <-. split.
    + intros m om vm Gm x q He. destruct (Z.eq_dec m n) as [->|Ne].
      * rewrite dget_dset_same in Gm. injection Gm as <- <-.
        destruct He as [He|(_ & -> & ->)]; [exfalso; now apply (B n x q He)|].
        split; [lia | intros _; left; apply obj_eqb_refl].
      * rewrite dget_dset_other in Gm by exact Ne.
        destruct He as [He|(-> & _)]; [now apply (A m om vm Gm) | contradiction].
    + intros m x q He. destruct (Z.eq_dec m n) as [->|Ne]; [rewrite dget_dset_same; discriminate|].
      rewrite dget_dset_other by exact Ne. destruct He as [He|(-> & _)]; [now apply (B m x q) | contradiction].
Qed.

(* all objects of one parent *)
Definition add_all (E : expo) (objs : list obj) (pid : Z) : expo :=
  fun n o q => E n o q \/ (In o objs /\ o_name o = n /\ q = pid).

Lemma merge_pinv H locals pid : forall objs E d d',
  pinv H locals E d -> merge_objs H locals pid objs d = IOk d' -> pinv H locals (add_all E objs pid) d'.
Proof.
  induction objs as [|o r IH]; intros E d d' P M; cbn [merge_objs] in M.
  - injection M as <-. eapply pinv_ext; [|exact P]. intros n o q. unfold add_all. cbn. tauto.
  - (* one step, then the rest *)
    assert (S1 : exists d1,
               (match dget (o_name o) d with
                | None => Some (dset (o_name o) (o, pid) d)
                | Some (o', via) =>
                  if layer_prio H pid <? layer_prio H via then Some d
                  else if layer_prio H via <? layer_prio H pid then Some (dset (o_name o) (o, pid) d)
                  else if memZ (o_name o) locals then Some d
                  else if obj_eqb o o' then Some d else None
                end) = Some d1 /\ merge_objs H locals pid r d1 = IOk d').
    { destruct (dget (o_name o) d) as [[o' via]|]; [|eauto].
      destruct (layer_prio H pid <? layer_prio H via); [eauto|].
      destruct (layer_prio H via <? layer_prio H pid); [eauto|].
      destruct (memZ (o_name o) locals); [eauto|].
      destruct (obj_eqb o o'); [eauto | discriminate]. }
    destruct S1 as (d1 & Hs & M1).
    pose proof (pinv_step H locals E d o pid d1 P Hs) as P1.
    eapply pinv_ext; [|exact (IH _ _ _ P1 M1)].
    intros n x q. unfold add_all, add_expo. cbn [In]. split.
    + intros [He|([<-|Hi] & Hn & Hq)]; [left; now left | left; right; auto | right; auto].
    + intros [[He|(-> & -> & ->)]|(Hi & Hn & Hq)]; [now left | right; auto | right; auto].
Qed.

(* the exposures of a list of parent references *)
Definition exposed (rec : layer -> ires (list obj)) (H : list layer) (ps : list pref) : expo :=
  fun n o q => exists p PL objs, In p ps /\ find_layer (p_target p) H = Some PL /\ rec PL = IOk objs /\
                                 In o objs /\ o_name o = n /\ memZ n (p_excl p) = false /\ q = l_id PL.

Lemma go_parents_pinv rec H L : forall ps E d d',
  pinv H (l_locals L) E d -> go_parents rec H L ps d = IOk d' ->
  pinv H (l_locals L) (fun n o q => E n o q \/ exposed rec H ps n o q) d'.
Proof.
  induction ps as [|p r IH]; intros E d d' P G; cbn [go_parents] in G.
  - injection G as <-. eapply pinv_ext; [|exact P]. intros n o q. split; [intros [A|(? & ? & ? & [] & _)]; exact A | now left].
  - destruct (find_layer (p_target p) H) as [PL|] eqn:F.
    + destruct (rec PL) as [objs| |] eqn:R; try discriminate.
      set (inh := filter (fun o => negb (memZ (o_name o) (p_excl p))) objs) in *.
      destruct (merge_objs H (l_locals L) (l_id PL) inh d) as [d1| |] eqn:M; try discriminate.
      pose proof (merge_pinv H (l_locals L) (l_id PL) inh E d d1 P M) as P1.
      eapply pinv_ext; [|exact (IH _ _ _ P1 G)].
      intros n o q. unfold add_all, exposed. split.
      * intros [A|(p' & PL' & objs' & [<-|Hp] & F' & R' & Io & Hn & Hx & Hq)].
        -- left. now left.
        -- rewrite F in F'. injection F' as <-. rewrite R in R'. injection R' as <-.
           left. right. split; [|auto]. unfold inh. apply filter_In. split; [exact Io|]. rewrite Hn, Hx. reflexivity.
        -- right. exists p', PL', objs'. repeat split; auto.
      * intros [[A|(Hi & Hn & Hq)]|(p' & PL' & objs' & Hp & Rest)].
        -- now left.
        -- right. unfold inh in Hi. apply filter_In in Hi as [Io Hx]. apply negb_true_iff in Hx.
           exists p, PL, objs. repeat split; auto; [now left | now rewrite <- Hn].
        -- right. exists p', PL', objs'. split; [now right | exact Rest].
    + eapply pinv_ext; [|exact (IH _ _ _ P G)].
      intros n o q. unfold exposed. split.
      * intros [A|(p' & PL' & objs' & [<-|Hp] & F' & Rest)]; [now left | congruence |].
        right. exists p', PL', objs'. repeat split; auto; apply Rest.
      * intros [A|(p' & PL' & objs' & Hp & Rest)]; [now left|].
        right. exists p', PL', objs'. split; [now right | exact Rest].
Qed.

Lemma pinv_nil H locals : pinv H locals (fun _ _ _ => False) [].
Proof. split; [intros n o via G; discriminate | intros n o q []]. Qed.

Lemma in_sort_desc H p l : In p (sort_desc H l) <-> In p l.
Proof.
  unfold sort_desc.
  assert (R : forall q acc0, In p (ins_desc H q acc0) <-> p = q \/ In p acc0).
  { intros q. induction acc0 as [|a acc0 IHa]; cbn [ins_desc].
    - cbn. intuition (auto; congruence).
    - destruct (_ <? _); cbn [In].
      + intuition (auto; congruence).
      + rewrite IHa. intuition (auto; congruence). }
  assert (Q : forall l acc, In p (fold_left (fun acc p0 => ins_desc H p0 acc) l acc) <-> In p l \/ In p acc).
  { induction l0 as [|q l0 IH]; intros acc; cbn [fold_left In]; [tauto|]. rewrite IH, R. intuition (auto; congruence). }
  rewrite Q. cbn. tauto.
Qed.

(* ---------- the theorem ---------- *)
(* an object seen under a name which the layer does not define itself comes through a parent (via)
   of maximal priority among all parents exposing that name, and every exposing parent of the same
   priority exposes the very same object *)
Theorem avail_priority f H L os o :
  avail (S f) H L = IOk os -> In o os -> ~ In (o_name o) (l_locals L) ->
  exists via,
    (exists p PL objs, In p (l_parents L) /\ find_layer (p_target p) H = Some PL /\ avail f H PL = IOk objs /\
                       In o objs /\ memZ (o_name o) (p_excl p) = false /\ via = l_id PL) /\
    forall p PL objs o',
      In p (l_parents L) -> find_layer (p_target p) H = Some PL -> avail f H PL = IOk objs ->
      In o' objs -> o_name o' = o_name o -> memZ (o_name o) (p_excl p) = false ->
      layer_prio H (l_id PL) <= layer_prio H via /\
      (layer_prio H (l_id PL) = layer_prio H via -> obj_eqb o' o = true).
Proof.
  cbn [avail].
  destruct (go_parents (avail f H) H L (sort_desc H (l_parents L)) []) as [d| |] eqn:G; try discriminate.
  intros [= <-] Ho Hnl.
  destruct (go_parents_spec _ _ _ _ _ _ dwf_nil G) as (Wd & Or0 & _).
  destruct (add_locals_spec L d Wd) as ((N & Wn) & _ & Or & _).
  pose proof (go_parents_pinv (avail f H) H L _ _ _ _ (pinv_nil H (l_locals L)) G) as [PA PB].
  apply in_map_iff in Ho as ([k [o' via]] & E & Hin). cbn in E. subst o'.
  assert (Ek : o_name o = k) by (eapply Wn; exact Hin).
  destruct (Or _ Hin) as [[A _]|[A _]]; cbn in A; [rewrite <- Ek in A; contradiction|].
  exists via. split.
  - destruct (Or0 _ A) as [[]|(p & PL & objs & Hp & F & R & Io & Ex & Hv)]. cbn in Io, Ex, Hv.
    exists p, PL, objs. repeat split; auto. now apply in_sort_desc in Hp.
  - intros p PL objs o' Hp F R Io Hn Ex.
    (* the dictionary entry for the name *)
    assert (Gd : dget k d = Some (o, via)).
    { destruct Wd as [Nd Wd']. clear -A Nd. induction d as [|[k0 v0] d IH]; [contradiction|].
      cbn [dget]. inversion Nd as [|? ? Hk Nd']. subst. destruct A as [E|A].
      - injection E as -> ->. now rewrite Z.eqb_refl.
      - destruct (k0 =? k) eqn:E0; [|now apply IH].
        apply Z.eqb_eq in E0. subst k0. exfalso. apply Hk. apply in_map_iff. exists (k, (o, via)). auto. }
    assert (Hex : exposed (avail f H) H (sort_desc H (l_parents L)) k o' (l_id PL)).
    { exists p, PL, objs. repeat split; auto; [now apply in_sort_desc | congruence | now rewrite <- Ek]. }
    destruct (PA k o via Gd o' (l_id PL) (or_intror Hex)) as [P1 P2].
    split; [exact P1|]. intros Eq. destruct (P2 Eq) as [X|X]; [exact X|].
    exfalso. apply Hnl. rewrite Ek. unfold memZ in X. apply existsb_exists in X as (y & Hy & Ey).
    apply Z.eqb_eq in Ey. now subst.
Qed.

Example priority_example :
  (* shared data (priority 100) and a base variant expose n1: the shared-data object wins; two base
     variants exposing different objects are a conflict *)
  let H := [mkLayer 0 TEcuShared [] [1]; mkLayer 1 TBaseVariant [] [1];
            mkLayer 2 TEcuVariant [mkPref 1 []; mkPref 0 []] []] in
  avail 5 H (mkLayer 2 TEcuVariant [mkPref 1 []; mkPref 0 []] []) = IOk [mkObj 1 0].
Proof. vm_compute. reflexivity. Qed.
