(* Proofs about Model/NamedList.v: the list view and the name view stay
   consistent over every operation history. *)
From Coq Require Import ZArith List Bool Lia Permutation Ascii String DecimalString DecimalNat.
From OV Require Import Base.Wire Generated Model.NamedList.
Import ListNotations.
Open Scope Z_scope.

(* ---------- reflection of the boolean equalities ---------- *)
Lemma name_eqb_eq a b : name_eqb a b = true <-> a = b.
Proof.
  revert b; induction a as [|x a IH]; intros [|y b]; simpl; split; intros H;
    try reflexivity; try discriminate.
  - apply andb_true_iff in H as [H1 H2]. apply Z.eqb_eq in H1. apply IH in H2. congruence.
  - injection H as -> ->. rewrite Z.eqb_refl. simpl. now apply IH.
Qed.

Lemma name_eqb_refl a : name_eqb a a = true.
Proof. now apply name_eqb_eq. Qed.

Lemma mem_name_In k l : mem_name k l = true <-> In k l.
Proof.
  unfold mem_name. rewrite existsb_exists. split.
  - intros (x & Hx & E). apply name_eqb_eq in E. now subst.
  - intros H. exists k. split; [assumption | apply name_eqb_refl].
Qed.

Lemma mem_name_false k l : mem_name k l = false <-> ~ In k l.
Proof.
  rewrite <- mem_name_In. destruct (mem_name k l); split; intros; congruence.
Qed.

Lemma item_is_eq a b : item_is a b = true <-> a = b.
Proof.
  unfold item_is. destruct a as [u1 n1 p1], b as [u2 n2 p2]. simpl.
  rewrite !andb_true_iff, !Z.eqb_eq, name_eqb_eq. split.
  - intros [[-> ->] ->]. reflexivity.
  - intros [= -> -> ->]. auto.
Qed.

(* ---------- the decimal suffix is injective ---------- *)
Lemma codes_inj s t : codes_of_string s = codes_of_string t -> s = t.
Proof.
  unfold codes_of_string. intros H.
  rewrite <- (string_of_list_ascii_of_string s), <- (string_of_list_ascii_of_string t).
  f_equal. revert H. generalize (list_ascii_of_string s) (list_ascii_of_string t).
  induction l as [|a l IH]; intros [|b m]; simpl; intros H; try discriminate; try reflexivity.
  injection H as H1 H2. apply Nat2Z.inj in H1.
  f_equal; [| now apply IH].
  rewrite <- (ascii_nat_embedding a), <- (ascii_nat_embedding b). now f_equal.
Qed.

Lemma digits_inj n m : digits n = digits m -> n = m.
Proof.
  unfold digits. intros H. apply codes_inj in H.
  apply Unsigned.to_uint_inj.
  assert (E : Some (Nat.to_uint n) = Some (Nat.to_uint m)).
  { rewrite <- (NilEmpty.usu (Nat.to_uint n)), <- (NilEmpty.usu (Nat.to_uint m)). now rewrite H. }
  now injection E.
Qed.

Lemma candidate_inj k n m : candidate k n = candidate k m -> n = m.
Proof.
  unfold candidate. destruct (ends_with_underscore k); intros H.
  - apply app_inv_head in H. now apply digits_inj.
  - apply app_inv_head in H. injection H as H. now apply digits_inj.
Qed.

(* ---------- the uniquification loop ---------- *)
Definition taken_list (s : st) : list name := reserved ++ map fst (names s).

Lemma taken_In s k : taken s k = true <-> In k (taken_list s).
Proof.
  unfold taken, taken_list. rewrite orb_true_iff, !mem_name_In, in_app_iff. reflexivity.
Qed.

Lemma first_free_some s k i f c :
  first_free s k i f = Some c -> taken s c = false /\ exists n, c = candidate k n.
Proof.
  revert i; induction f as [|f IH]; intros i; simpl; [discriminate|].
  destruct (taken s (candidate k i)) eqn:T.
  - apply IH.
  - intros [= <-]. split; [assumption | now exists i].
Qed.

Lemma first_free_none s k i f :
  first_free s k i f = None ->
  forall j, (i <= j < i + f)%nat -> In (candidate k j) (taken_list s).
Proof.
  revert i; induction f as [|f IH]; intros i; simpl.
  - intros _ j Hj. lia.
  - destruct (taken s (candidate k i)) eqn:T; [|discriminate].
    intros H j Hj. destruct (Nat.eq_dec j i) as [->|Hne].
    + now apply taken_In.
    + apply (IH (S i) H). lia.
Qed.

Lemma seq_candidates_nodup k i f : NoDup (map (candidate k) (seq i f)).
Proof.
  apply FinFun.Injective_map_NoDup; [| apply seq_NoDup].
  intros a b. apply candidate_inj.
Qed.

(* the fuel of the model always suffices: the loop of the real code terminates *)
Lemma first_free_total s k : first_free s k 2 (fresh_fuel s) <> None.
Proof.
  intros H. pose proof (first_free_none _ _ _ _ H) as A.
  assert (L : (List.length (map (candidate k) (seq 2 (fresh_fuel s))) <= List.length (taken_list s))%nat).
  { apply NoDup_incl_length; [apply seq_candidates_nodup|].
    intros c Hc. apply in_map_iff in Hc as (j & <- & Hj). apply in_seq in Hj. apply A. lia. }
  rewrite map_length, seq_length in L. unfold fresh_fuel, taken_list in L.
  rewrite app_length, map_length in L. lia.
Qed.

Definition wf_key (k : name) (x : item) : Prop :=
  k = item_key x \/ exists n, k = candidate (item_key x) n.

Lemma fresh_name_spec s k :
  exists c, fresh_name s k = Some c /\ taken s c = false /\ (c = k \/ exists n, c = candidate k n).
Proof.
  unfold fresh_name. destruct (taken s k) eqn:T.
  - destruct (first_free s k 2 (fresh_fuel s)) as [c|] eqn:F.
    + exists c. apply first_free_some in F as [F1 F2]. auto.
    + exfalso. now apply (first_free_total s k).
  - exists k. auto.
Qed.

(* ---------- the invariant ---------- *)
Definition Inv (s : st) : Prop :=
  Permutation (map snd (names s)) (items s) /\
  NoDup (map fst (names s)) /\
  (forall k x, In (k, x) (names s) -> mem_name k reserved = false /\ wf_key k x).

Lemma inv_init : Inv init.
Proof. repeat split; simpl; try constructor; intros; contradiction. Qed.

Lemma add_attr_spec s x :
  exists k, add_attr s x = Some (mkSt (items s) (names s ++ [(k, x)])) /\
            taken s k = false /\ wf_key k x.
Proof.
  unfold add_attr. destruct (fresh_name_spec s (item_key x)) as (c & -> & T & W).
  exists c. repeat split; assumption.
Qed.

Lemma NoDup_snoc {A} (l : list A) (a : A) : NoDup l -> ~ In a l -> NoDup (l ++ [a]).
Proof.
  induction l as [|b l IH]; simpl; intros N H.
  - repeat constructor. intros [].
  - inversion N as [|? ? Hb N']; subst. constructor.
    + rewrite in_app_iff. simpl. intros [Hi|[->|[]]]; tauto.
    + apply IH; tauto.
Qed.

Lemma names_ext_ok s k x :
  Inv s -> taken s k = false -> wf_key k x ->
  NoDup (map fst (names s ++ [(k, x)])) /\
  (forall k' x', In (k', x') (names s ++ [(k, x)]) -> mem_name k' reserved = false /\ wf_key k' x').
Proof.
  intros (P & N & W) T Wk.
  assert (T' : ~ In k (taken_list s)) by (rewrite <- taken_In; congruence).
  unfold taken_list in T'. rewrite in_app_iff in T'.
  split.
  - rewrite map_app. simpl. apply NoDup_snoc; tauto.
  - intros k' x' H. apply in_app_iff in H as [H|[[= <- <-]|[]]]; [now apply W|].
    split; [| assumption]. apply mem_name_false. tauto.
Qed.

Lemma append_inv s x : Inv s -> exists s', append s x = Some s' /\ Inv s'.
Proof.
  intros I. unfold append. destruct (add_attr_spec s x) as (k & -> & T & W).
  eexists. split; [reflexivity|]. simpl.
  destruct (names_ext_ok s k x I T W) as [N' W'].
  destruct I as (P & _ & _).
  split; [|split]; simpl; try assumption.
  rewrite map_app. simpl. now apply Permutation_app_tail.
Qed.

Lemma extend_inv xs : forall s, Inv s -> exists s', extend s xs = Some s' /\ Inv s'.
Proof.
  induction xs as [|x xs IH]; intros s I; simpl.
  - now exists s.
  - destruct (append_inv s x I) as (s1 & -> & I1). now apply IH.
Qed.

Lemma insert_inv s i x : Inv s -> exists s', insert s i x = Some s' /\ Inv s'.
Proof.
  intros I. unfold insert. destruct (add_attr_spec s x) as (k & -> & T & W).
  eexists. split; [reflexivity|]. simpl.
  destruct (names_ext_ok s k x I T W) as [N' W'].
  destruct I as (P & _ & _).
  split; [|split]; simpl; try assumption.
  rewrite map_app. simpl.
  set (p := insert_pos _ i).
  rewrite <- (firstn_skipn p (items s)) in P.
  apply Permutation_trans with (l' := x :: firstn p (items s) ++ skipn p (items s)).
  - apply Permutation_trans with (l' := x :: map snd (names s)).
    + apply Permutation_sym, Permutation_cons_append.
    + now constructor.
  - apply Permutation_middle.
Qed.

Lemma remove_first_split {A} (f : A -> bool) l :
  (exists y, In y l /\ f y = true) ->
  exists l1 y l2, l = l1 ++ y :: l2 /\ f y = true /\ remove_first f l = l1 ++ l2.
Proof.
  induction l as [|a l IH]; intros (y & Hy & Fy); [contradiction|]. simpl.
  destruct (f a) eqn:Fa.
  - exists [], a, l. auto.
  - destruct Hy as [->|Hy]; [congruence|].
    destruct IH as (l1 & z & l2 & -> & Fz & R); [now exists y|].
    exists (a :: l1), z, l2. simpl. rewrite R. auto.
Qed.

Lemma pop_at_inv s p : Inv s -> Inv (fst (pop_at true s p)).
Proof.
  intros I. unfold pop_at. destruct (nth_error (items s) p) as [r|] eqn:E; [|exact I].
  cbn [fst]. destruct I as (P & N & W).
  apply nth_error_split in E as (l1 & l2 & Hitems & Hlen).
  assert (Hin : In r (map snd (names s))).
  { eapply Permutation_in; [apply Permutation_sym, P|]. rewrite Hitems. apply in_elt. }
  apply in_map_iff in Hin as ([k0 r0] & Hr & Hin). simpl in Hr. subst r0.
  destruct (remove_first_split (fun kv => item_is (snd kv) r) (names s))
    as (n1 & [k1 r1] & n2 & Hn & Fy & R).
  { exists (k0, r). split; [assumption|]. simpl. now apply item_is_eq. }
  simpl in Fy. apply item_is_eq in Fy. subst r1.
  unfold Inv, drop_names. cbn [items names]. rewrite R. rewrite Hn in P, N, W.
  assert (F : firstn p (items s) ++ skipn (S p) (items s) = l1 ++ l2).
  { rewrite Hitems, <- Hlen. clear.
    induction l1 as [|a l1 IH]; [reflexivity|].
    change (a :: (firstn (List.length l1) (l1 ++ r :: l2) ++ skipn (S (List.length l1)) (l1 ++ r :: l2)) = a :: (l1 ++ l2)).
    now f_equal. }
  rewrite F. split; [|split].
  - rewrite map_app in *. simpl in P. rewrite Hitems in P.
    now apply Permutation_app_inv in P.
  - rewrite map_app in *. simpl in N. now apply NoDup_remove_1 in N.
  - intros k x H. apply W. apply in_app_iff in H. apply in_app_iff. simpl. tauto.
Qed.

Lemma step_inv s o : Inv s -> Inv (fst (step true s o)).
Proof.
  intros I. destruct o as [x|i x|xs|x|i| | |g]; simpl.
  - destruct (append_inv s x I) as (s' & -> & I'). exact I'.
  - destruct (insert_inv s i x I) as (s' & -> & I'). exact I'.
  - destruct (extend_inv xs s I) as (s' & -> & I'). exact I'.
  - unfold remove. destruct (find_index _ _ _); [now apply pop_at_inv | exact I].
  - unfold pop. destruct (_ || _); [exact I | now apply pop_at_inv].
  - apply inv_init.
  - exact I.
  - unfold rebuild. destruct (extend_inv (map (refresh g) (items s)) init inv_init) as (s' & -> & I').
    exact I'.
Qed.

Lemma run_inv ops : forall s, Inv s -> Inv (run true ops s).
Proof.
  induction ops as [|o ops IH]; intros s I; simpl; [exact I|].
  apply IH. now apply step_inv.
Qed.

(* the model never runs out of fuel: every operation's outcome is a Python one *)
Lemma step_no_fuel s o : Inv s -> snd (step true s o) <> OOutOfFuel.
Proof.
  intros I. destruct o as [x|i x|xs|x|i| | |g]; simpl.
  - destruct (append_inv s x I) as (s' & -> & _). discriminate.
  - destruct (insert_inv s i x I) as (s' & -> & _). discriminate.
  - destruct (extend_inv xs s I) as (s' & -> & _). discriminate.
  - unfold remove. destruct (find_index _ _ _); [|discriminate].
    unfold pop_at. destruct (nth_error _ _); discriminate.
  - unfold pop. destruct (_ || _); [discriminate|].
    unfold pop_at. destruct (nth_error _ _); discriminate.
  - discriminate.
  - discriminate.
  - unfold rebuild. destruct (extend_inv (map (refresh g) (items s)) init inv_init) as (s' & -> & _).
    discriminate.
Qed.

(* ---------- consequences of the invariant ---------- *)
Lemma get_In ns k x : NoDup (map fst ns) -> (get ns k = Some x <-> In (k, x) ns).
Proof.
  induction ns as [|[k' v] ns IH]; simpl; intros N.
  - split; [discriminate | contradiction].
  - inversion N as [|? ? Hnot N']; subst.
    destruct (name_eqb k k') eqn:E.
    + apply name_eqb_eq in E. subst k'. split.
      * intros [= ->]. now left.
      * intros [[= ->]|H]; [reflexivity|]. exfalso. apply Hnot.
        apply in_map_iff. now exists (k, x).
    + rewrite (IH N'). split; [tauto|]. intros [[= -> ->]|H]; [|assumption].
      rewrite name_eqb_refl in E. discriminate.
Qed.

Lemma count_names s (eq_dec : forall a b : item, {a = b} + {a <> b}) x :
  Inv s -> count_occ eq_dec (map snd (names s)) x = count_occ eq_dec (items s) x.
Proof.
  intros (P & _ & _). revert x. now apply (Permutation_count_occ eq_dec).
Qed.

(* the behaviour before the fix commit (names deleted by equality) breaks the invariant *)
Definition old_witness : list op :=
  let a1 := mkItem 1 [97] 0 in let a2 := mkItem 2 [97] 0 in
  [OpAppend a1; OpAppend a2; OpPop (-1)].

Lemma old_remove_breaks :
  let s := run false old_witness init in
  List.length (items s) = 1%nat /\ List.length (names s) = 0%nat.
Proof. vm_compute. split; reflexivity. Qed.

(* non-vacuity: a concrete non-trivial history and the state it reaches *)
Lemma example_history :
  let a1 := mkItem 1 [97] 0 in let a2 := mkItem 2 [97] 0 in let c := mkItem 3 [99;111;112;121] 0 in
  map fst (names (run true [OpAppend a1; OpAppend a2; OpAppend c; OpRemove a2; OpAppend a1] init))
  = [[97;95;50]; [99;111;112;121;95;50]; [97]].
Proof. vm_compute. reflexivity. Qed.

Definition item_eq_dec (a b : item) : {a = b} + {a <> b}.
Proof. decide equality; try apply Z.eq_dec. apply (list_eq_dec Z.eq_dec). Defined.
