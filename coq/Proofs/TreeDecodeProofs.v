(* C05 for structures nested to any depth: decoding ANY byte string with a message whose parameters are
   standard-length CODED-CONST / VALUE parameters or STRUCTUREs of such, recursively, returns values or a
   decode error; a PDU shorter than the described length is never decoded. *)
From Coq Require Import ZArith List Bool Lia ZifyBool.
From OV Require Import Base.Bytes Base.Wire Generated Model.Str Model.Codec
     Proofs.BytesProofs Proofs.AtomicProofs Proofs.CodecProps Proofs.FlatProofs Proofs.FlatDecodeProofs.
Import ListNotations.
Open Scope Z_scope.

(* the shape of a description: leaves and named structures *)
Inductive dtree := DLeaf (x : fdesc) | DNode (nm : name) (cs : list dtree).

Fixpoint d_p (t : dtree) : param :=
  match t with
  | DLeaf x => mkp x
  | DNode nm cs => P nm None None (KValue (DStruct (map d_p cs) None) None)
  end.

Fixpoint d_bytes (t : dtree) : Z :=
  match t with
  | DLeaf x => fbytes x
  | DNode _ cs => fold_right (fun c a => d_bytes c + a) 0 cs
  end.

Fixpoint d_depth (t : dtree) : nat :=
  match t with
  | DLeaf _ => 0
  | DNode _ cs => S (fold_right (fun c a => Nat.max (d_depth c) a) 0%nat cs)
  end.

Fixpoint d_wf (t : dtree) : Prop :=
  match t with
  | DLeaf x => fwf x
  | DNode _ cs => (fix all (l : list dtree) : Prop := match l with [] => True | c :: r => d_wf c /\ all r end) cs
  end.

Lemma d_wf_children nm cs : d_wf (DNode nm cs) -> forall c, In c cs -> d_wf c.
Proof.
  cbn [d_wf]. induction cs as [|c cs IH]; intros Hall x Hx; [contradiction|]. destruct Hall as [Hc Hr].
  destruct Hx as [<-|Hx]; [exact Hc | now apply IH].
Qed.

Lemma d_depth_children nm cs c : In c cs -> (d_depth c < d_depth (DNode nm cs))%nat.
Proof.
  cbn [d_depth]. induction cs as [|x cs IH]; intros H; [contradiction|]. cbn [fold_right].
  destruct H as [<-|H]; [lia|]. specialize (IH H). lia.
Qed.

(* the state after n more bytes *)
Definition dres (s : dstate) (n : Z) (s' : dstate) : Prop :=
  d_msg s' = d_msg s /\ d_origin s' = d_origin s /\ d_cur s' = d_cur s + n /\ d_lkeys s' = d_lkeys s.

(* decoding p from a state inside the message: n more bytes are consumed, or a decode error *)
Definition dcases (fd : nat) (p : param) (n : Z) : Prop :=
  forall s, d_cur s <= blen (d_msg s) ->
    (exists v s', dec_param fd p s = Ok (v, s') /\ dres s n s' /\ d_cur s + n <= blen (d_msg s)) \/
    derr (dec_param fd p s).
Definition dcases_ge (k : nat) (p : param) (n : Z) : Prop := forall fd, (k <= fd)%nat -> dcases fd p n.

Lemma leaf_dcases x : fwf x -> dcases_ge 2 (mkp x) (fbytes x).
Proof.
  intros W fd Hfd s _. destruct fd as [|[|f]]; try lia.
  destruct (dec_flat_param_cases f x s W) as [(v & E & Hle)|E]; [|now right].
  left. exists v, (mkD (d_msg s) (d_origin s) (d_cur s + fbytes x) 0 (d_lkeys s)).
  split; [exact E|]. split; [repeat split|exact Hle].
Qed.

(* a sequence of parameters *)
Lemma dec_go_dcases fd : forall (ts : list (param * Z)) s acc,
  (forall pn, In pn ts -> dcases fd (fst pn) (snd pn)) -> d_cur s <= blen (d_msg s) ->
  (exists kv s', dec_go fd (map fst ts) s acc = Ok (kv, s') /\
                 dres s (fold_right (fun pn a => snd pn + a) 0 ts) s' /\
                 d_cur s + fold_right (fun pn a => snd pn + a) 0 ts <= blen (d_msg s)) \/
  derr (dec_go fd (map fst ts) s acc).
Proof.
  induction ts as [|[p n] ts IH]; intros s acc Hd Hin; cbn [map dec_go fold_right fst snd].
  - left. exists acc, s. split; [reflexivity|]. split; [unfold dres; repeat split; lia | lia].
  - destruct (Hd (p, n) (or_introl eq_refl) s Hin) as [(v & s1 & E & (R1 & R2 & R3 & R4) & Hle)|[E|E]]; cbn [fst snd] in *.
    + rewrite E. cbn [bind].
      assert (Hin1 : d_cur s1 <= blen (d_msg s1)) by (rewrite R1, R3; exact Hle).
      destruct (IH s1 (update (pname p) v acc) (fun y Hy => Hd y (or_intror Hy)) Hin1)
        as [(kv & s2 & G & (Q1 & Q2 & Q3 & Q4) & Hl)|G].
      * left. exists kv, s2. split; [exact G|]. split.
        -- unfold dres. repeat split; try congruence. rewrite Q3, R3. lia.
        -- rewrite R1, R3 in Hl. lia.
      * right. exact G.
    + right. left. rewrite E. reflexivity.
    + right. right. rewrite E. reflexivity.
Qed.

(* a structure whose members behave so *)
Lemma struct_dcases k nm (ts : list (param * Z)) :
  (forall pn, In pn ts -> dcases_ge k (fst pn) (snd pn)) ->
  dcases_ge (3 + k) (P nm None None (KValue (DStruct (map fst ts) None) None)) (fold_right (fun pn a => snd pn + a) 0 ts).
Proof.
  intros Hm fd Hfd s Hin. destruct fd as [|[|[|fd]]]; try lia.
  assert (Hk : (k <= fd)%nat) by lia.
  cbn [dec_param opt_or0]. cbn [dec_dop]. cbn [dec_composite].
  set (s00 := dset_origin (dset_bit s 0) (d_cur (dset_bit s 0))).
  assert (Hin0 : d_cur s00 <= blen (d_msg s00)) by exact Hin.
  destruct (dec_go_dcases fd ts s00 [] (fun pn Hp => Hm pn Hp fd Hk) Hin0) as [(kv & s1 & G & (Q1 & Q2 & Q3 & Q4) & Hl)|G].
  - left. unfold dec_go in G.
    match goal with |- context [bind (bind ?X _) _] => change X with (dec_go fd (map fst ts) s00 []) end.
    unfold dec_go. rewrite G. cbn [bind fst snd].
    eexists _, _. split; [reflexivity|]. split; [|exact Hl].
    unfold dres. cbn [dset_bit dset_origin d_msg d_origin d_cur d_lkeys] in *. repeat split; auto.
  - right. unfold dec_go in G.
    match goal with |- derr (bind (bind (bind ?X _) _) _) => change X with (dec_go fd (map fst ts) s00 []) end.
    unfold dec_go. destruct G as [G|G]; rewrite G; [left | right]; reflexivity.
Qed.

(* ---------- trees ---------- *)
Theorem tree_dcases : forall d t,
  (d_depth t <= d)%nat -> d_wf t -> dcases_ge (3 * d + 2) (d_p t) (d_bytes t).
Proof.
  induction d as [|d IH]; intros t Hd Hw.
  - destruct t as [x|nm cs]; [|cbn [d_depth] in Hd; lia]. cbn [d_p d_bytes]. now apply leaf_dcases.
  - destruct t as [x|nm cs].
    + cbn [d_p d_bytes]. intros fd Hfd. apply (leaf_dcases x Hw). lia.
    + cbn [d_p d_bytes].
      set (ts := map (fun c => (d_p c, d_bytes c)) cs).
      assert (E1 : map d_p cs = map fst ts) by (unfold ts; rewrite map_map; reflexivity).
      assert (E2 : fold_right (fun c a => d_bytes c + a) 0 cs = fold_right (fun pn a => snd pn + a) 0 ts).
      { unfold ts. clear. induction cs as [|c cs IHc]; cbn [map fold_right snd]; [reflexivity | now rewrite IHc]. }
      rewrite E1, E2.
      replace (3 * S d + 2)%nat with (3 + (3 * d + 2))%nat by lia.
      apply struct_dcases. intros pn Hp. unfold ts in Hp. apply in_map_iff in Hp as (c & <- & Hc). cbn [fst snd].
      apply IH; [pose proof (d_depth_children nm cs c Hc); lia | now apply (d_wf_children nm cs Hw)].
Qed.

(* ---------- messages ---------- *)
Definition msg_bytes (ts : list dtree) : Z := fold_right (fun t a => d_bytes t + a) 0 ts.

Lemma decode_msg_loop ps m F :
  fuel_of ps = S F ->
  decode_msg ps m =
  match dec_go F ps (mkD m 0 0 0 []) [] with
  | Ok (kv, s1) => Ok (VDict kv)
  | Err e => Err e
  end.
Proof.
  intros Hk. unfold decode_msg. rewrite Hk. cbn [dec_composite dstate0 d_origin d_cur dset_origin d_msg d_bit d_lkeys].
  change (dset_origin (dstate0 m) 0) with (mkD m 0 0 0 []).
  unfold dec_go. apply bind_shape.
Qed.

Lemma tree_msg_cases ts d m :
  (forall t, In t ts -> (d_depth t <= d)%nat /\ d_wf t) ->
  (3 * d + 3 <= fuel_of (map d_p ts))%nat ->
  (exists v, decode_msg (map d_p ts) m = Ok v /\ msg_bytes ts <= blen m) \/
  derr (decode_msg (map d_p ts) m).
Proof.
  intros Hts Hfuel. destruct (fuel_of (map d_p ts)) as [|F] eqn:EF; [lia|].
  rewrite (decode_msg_loop _ m F EF).
  set (tl := map (fun c => (d_p c, d_bytes c)) ts).
  assert (E1 : map d_p ts = map fst tl) by (unfold tl; rewrite map_map; reflexivity).
  assert (E2 : msg_bytes ts = fold_right (fun pn a => snd pn + a) 0 tl).
  { unfold tl, msg_bytes. clear. induction ts as [|c cs IHc]; cbn [map fold_right snd]; [reflexivity | now rewrite IHc]. }
  rewrite E1.
  destruct (dec_go_dcases F tl (mkD m 0 0 0 []) []) as [(kv & s' & G & _ & Hl)|G].
  - intros pn Hp. unfold tl in Hp. apply in_map_iff in Hp as (c & <- & Hc). cbn [fst snd].
    destruct (Hts c Hc) as [Hd Hw]. apply (tree_dcases d c Hd Hw). lia.
  - cbn. pose proof (blen_nonneg m). lia.
  - left. rewrite G. eexists. split; [reflexivity|]. cbn [d_cur d_msg] in Hl. rewrite E2. lia.
  - right. destruct G as [G|G]; rewrite G; [left | right]; reflexivity.
Qed.

(* every byte string: values or a decode error *)
Theorem tree_decode_total ts d m :
  (forall t, In t ts -> (d_depth t <= d)%nat /\ d_wf t) ->
  (3 * d + 3 <= fuel_of (map d_p ts))%nat ->
  dec_outcome_ok (decode_msg (map d_p ts) m).
Proof.
  intros Hts Hfuel. destruct (tree_msg_cases ts d m Hts Hfuel) as [(v & -> & _)|[->| ->]]; exact I.
Qed.

(* a PDU which ends before the last described parameter is rejected *)
Theorem tree_truncated_rejected ts d m :
  (forall t, In t ts -> (d_depth t <= d)%nat /\ d_wf t) ->
  (3 * d + 3 <= fuel_of (map d_p ts))%nat ->
  blen m < msg_bytes ts ->
  decode_msg (map d_p ts) m = Err EDecode \/ decode_msg (map d_p ts) m = Err EMismatch.
Proof.
  intros Hts Hfuel Hs. destruct (tree_msg_cases ts d m Hts Hfuel) as [(v & _ & Hl)|G]; [lia | exact G].
Qed.

Example tree_decode_example :
  let u8 nm := mkF nm 8 BUint None true BUint None in
  let ts := [DLeaf (mkF [115] 8 BUint None true BUint (Some (VInt 34)));
             DNode [111] [DLeaf (u8 [97]); DNode [105] [DLeaf (mkF [98] 12 BUint None false BUint None); DLeaf (u8 [99])]];
             DLeaf (u8 [122])] in
  (forall t, In t ts -> (d_depth t <= 2)%nat /\ d_wf t) /\
  (3 * 2 + 3 <= fuel_of (map d_p ts))%nat /\ msg_bytes ts = 6 /\
  decode_msg (map d_p ts) [34; 1; 188; 10; 3] = Err EDecode /\
  (exists v, decode_msg (map d_p ts) [34; 1; 188; 10; 3; 255; 9] = Ok v).
Proof.
  intros u8 ts. split; [|split; [|split; [|split]]].
  - assert (W : forall nm bl hl c, 0 < bl -> fwf (mkF nm bl BUint None hl BUint c)) by (intros; split; [assumption | reflexivity]).
    intros t [<-|[<-|[<-|[]]]]; (split; [cbn; lia|]); cbn [d_wf]; repeat split; apply W; lia.
  - vm_compute. lia.
  - reflexivity.
  - vm_compute. reflexivity.
  - eexists. vm_compute. reflexivity.
Qed.
