(* C01 / C02 for multiplexers, every way of selecting a case: by name, by switch-key number, the default case by a name
   no case carries or by None; cases with and without content.  Generalises MuxProofs.v: the selection on the encoding
   side and the selection on the decoding side are hypotheses, discharged for each way of selecting below. *)
From Coq Require Import ZArith List Bool Lia.
From OV Require Import Base.Bytes Base.Wire Generated Model.Str Model.Codec
     Proofs.BytesProofs Proofs.AtomicProofs Proofs.CodecProps Proofs.FlatProofs Proofs.TreeProofs Proofs.TreeWireProofs
     Proofs.FieldProofs Proofs.MuxProofs.
Import ListNotations.
Open Scope Z_scope.

(* what the encoder selects for a case specification: the content of the case and the value of the switch key *)
Definition mux_select (cases : list mcase) (dflt : option mcase) (spec : value) : res (option dop * Z) :=
  match spec with
  | VStr nm =>
    match filter (fun c => bytes_eqb (mc_name c) nm) cases with
    | [] => match dflt with Some c => Ok (mc_struct c, 0) | None => Err ERej end
    | [c] => Ok (mc_struct c, mc_lo c)
    | _ => Err ERej
    end
  | VInt n =>
    match filter (mc_applies n) cases with
    | [] => match dflt with Some c => Ok (mc_struct c, n) | None => Err ERej end
    | c :: _ => Ok (mc_struct c, n)
    end
  | VNone => match dflt with Some c => Ok (mc_struct c, 0) | None => Err ERej end
  | _ => Err ERej
  end.
(* what the decoder selects for a switch key *)
Definition mux_case_of (cases : list mcase) (dflt : option mcase) (key : Z) : option mcase :=
  match find (mc_applies key) cases with Some c => Some c | None => dflt end.

Lemma enc_dop_mux_sel f bp kb kbit kd cases dflt spec cv s :
  enc_dop (S f) (DMux bp kb kbit kd cases dflt) (VList [spec; cv]) s =
  (do _ <- guard (e_bit s =? 0) ERej;
   let orig_origin := e_origin s in
   let s := set_origin s (e_cur s) in
   do sel <- mux_select cases dflt spec;
   let '(st, key) := sel in
   let s := set_bit (set_cur s (e_origin s + kb)) kbit in
   do s1 <- enc_dop f kd (VInt key) s;
   let s1 := set_bit s1 0 in
   do s2 <- match st with
            | Some sd => do s3 <- enc_dop f sd cv (set_cur s1 (e_origin s1 + bp));
                         Ok (set_cur s3 (Z.max (e_cur s3) (e_cur s1)))
            | None => Ok s1
            end;
   Ok (set_origin s2 orig_origin)).
Proof. reflexivity. Qed.

Lemma dec_dop_mux_sel f bp kb kbit kd cases dflt s :
  dec_dop (S f) (DMux bp kb kbit kd cases dflt) s =
  (let orig_origin := d_origin s in
   let s := dset_origin s (d_cur s) in
   let s := dset_bit (dset_cur s (d_origin s + kb)) kbit in
   do ks <- dec_dop f kd s;
   let '(kv, s1) := ks in
   let s1 := dset_bit s1 0 in
   match kv with
   | VInt key =>
     match mux_case_of cases dflt key with
     | Some c =>
       do r <- match mc_struct c with
               | Some sd => do r' <- dec_dop f sd (dset_cur s1 (d_origin s1 + bp));
                            Ok (fst r', dset_cur (snd r') (Z.max (d_cur (snd r')) (d_cur s1)))
               | None => Ok (VDict [], s1)
               end;
       Ok (VList [VStr (mc_name c); fst r], dset_origin (snd r) orig_origin)
     | None => Err EDecode
     end
   | _ => Err EOdx
   end).
Proof. reflexivity. Qed.

Section Sel.
Variables (nm : name) (kbl : Z) (hl : bool) (cases : list mcase) (dflt : option mcase) (c : mcase) (spec : value) (key : Z).
Hypothesis Hbl : 0 < kbl <= 64.
Hypothesis Hkey : 0 <= key < 2 ^ kbl.
Hypothesis Hsel : mux_select cases dflt spec = Ok (mc_struct c, key).
Hypothesis Hdsel : mux_case_of cases dflt key = Some c.

Let p := mux_param nm kbl hl cases dflt.

(* ---------- a case with content ---------- *)
Section Content.
Variables (k : nat) (rs : list rmem).
Hypothesis Hstruct : mc_struct c = Some (DStruct (map m_p (rms rs)) None).
Hypothesis Hg : forall x, In x rs -> rgood k x.
Hypothesis ND : NoDup (map m_name (rms rs)).

Let vin := Some (VList [spec; VDict (in_dict (rms rs))]).
Let vout := VList [VStr (mc_name c); VDict (out_dict (rms rs))].
Let wbytes := key_bytes kbl hl key ++ rbytes rs.

Lemma sel_core fe fd : (k <= fe)%nat -> (k <= fd)%nat -> forall s kv, at_end s -> lookup nm kv = vin ->
  exists s', enc_param (S (S (S (S fe)))) p kv s = Ok s' /\ at_end s' /\ e_warn s' = e_warn s /\ e_origin s' = e_origin s /\
             e_msg s' = e_msg s ++ wbytes /\
             forall r o lk, dec_param (S (S (S (S fd)))) p (mkD (e_msg s' ++ r) o (e_cur s) 0 lk) =
                            Ok (vout, mkD (e_msg s' ++ r) o (e_cur s') 0 lk).
Proof.
  intros Hfe Hfd s kv Hend Hl.
  pose proof Hend as (Hbit & Hcur & Hused & Hokm).
  set (sa := set_bit (set_cur (set_origin (set_bit s 0) (e_cur s)) (e_cur s + 0)) 0).
  assert (Henda : at_end sa).
  { unfold sa, at_end. cbn [set_bit set_cur set_origin e_bit e_cur e_msg e_used]. repeat split; auto; lia. }
  destruct (key_rt kbl hl key (S fe) sa Hbl Hkey Henda) as (s1 & He1 & Hend1 & Hm1 & Hc1 & Hw1 & Ho1 & Hd1).
  assert (Hmsa : e_msg sa = e_msg s) by reflexivity.
  assert (Hcsa : e_cur sa = e_cur s) by (unfold sa; cbn [set_bit set_cur e_cur]; lia).
  assert (Hosa : e_origin sa = e_cur s) by reflexivity.
  assert (Hwsa : e_warn sa = e_warn s) by reflexivity.
  set (sb := set_cur (set_bit s1 0) (e_origin s1 + nbytes_of kbl 0)).
  assert (Hendb : at_end sb).
  { pose proof Hend1 as (A & B & C & D). unfold sb, at_end. cbn [set_bit set_cur e_bit e_cur e_msg e_used e_origin].
    rewrite Ho1, Hosa. repeat split; auto; lia. }
  destruct (composite_rt k rs fe fd sb Hg ND Hfe Hfd Hendb) as (s2 & He2 & Hend2 & Hw2 & Ho2 & Hm2 & Hd2).
  assert (Hmsb : e_msg sb = e_msg s1) by reflexivity.
  assert (Hcsb : e_cur sb = e_cur s1).
  { unfold sb. cbn [set_bit set_cur e_cur e_origin]. rewrite Ho1, Hosa. lia. }
  assert (Hmax : Z.max (e_cur s2) (e_cur s1) = e_cur s2).
  { pose proof Hend2 as (_ & B2 & _). pose proof Hend1 as (_ & B1 & _). rewrite B2, B1, Hm2, Hmsb, blen_app.
    pose proof (blen_nonneg (rbytes rs)). lia. }
  exists (set_bit (set_origin (set_cur s2 (Z.max (e_cur s2) (e_cur s1))) (e_origin s)) 0).
  split; [|split; [|split; [|split; [|split]]]].
  - unfold p, mux_param. cbn [enc_param]. unfold is_required. cbn [pkind_of]. unfold vin in Hl. rewrite Hl.
    cbn [negb orb guard bind]. unfold vget. rewrite Hl. cbn [is_none negb guard bind opt_or0].
    rewrite enc_dop_mux_sel. cbn [set_bit e_bit]. cbn [Z.eqb guard bind].
    rewrite Hsel. cbn [bind].
    cbn [e_cur e_origin set_origin set_bit].
    fold sa. rewrite He1. cbn [bind]. rewrite Hstruct.
    fold sb. rewrite enc_dop_struct. rewrite He2. cbn [bind]. cbn [set_bit e_cur]. reflexivity.
  - pose proof Hend2 as (A & B & C & D). unfold at_end. cbn [set_bit set_origin set_cur e_bit e_cur e_msg e_used]. rewrite Hmax. repeat split; auto.
  - cbn [set_bit set_origin set_cur e_warn]. rewrite Hw2. unfold sb. cbn [set_cur set_bit e_warn]. rewrite Hw1. exact Hwsa.
  - reflexivity.
  - cbn [set_bit set_origin set_cur e_msg]. rewrite Hm2, Hmsb, Hm1, Hmsa. unfold wbytes. now rewrite app_assoc.
  - intros r o lk. unfold p, mux_param. cbn [dec_param]. cbn [opt_or0].
    cbn [set_bit set_origin set_cur e_msg e_cur].
    change (dset_bit (mkD (e_msg s2 ++ r) o (e_cur s) 0 lk) 0) with (mkD (e_msg s2 ++ r) o (e_cur s) 0 lk).
    rewrite dec_dop_mux_sel. unfold dset_origin, dset_cur, dset_bit. cbn [d_origin d_cur d_msg d_bit d_lkeys].
    replace (e_cur s + 0) with (e_cur sa) by lia.
    assert (R1 : e_msg s2 ++ r = e_msg s1 ++ (rbytes rs ++ r)) by (rewrite Hm2, Hmsb; now rewrite <- app_assoc).
    rewrite R1. rewrite Hd1. cbn [bind]. rewrite <- R1.
    cbn [d_msg d_origin d_cur d_bit d_lkeys].
    rewrite Hdsel. rewrite Hstruct.
    replace (e_cur s + nbytes_of kbl 0) with (e_cur sb) by (rewrite Hcsb, Hc1, Hcsa; reflexivity).
    rewrite dec_dop_struct. rewrite Hd2. cbn [bind fst snd d_msg d_origin d_cur d_bit d_lkeys].
    reflexivity.
Qed.

Theorem sel_content_rt :
  appends_ge (4 + k) (4 + k) p vin vout /\ writes_ge (4 + k) p vin wbytes /\ no_lenkey p.
Proof.
  split; [|split].
  - intros fe fd Hfe Hfd s kv Hend Hl. destruct fe as [|[|[|[|fe]]]]; try lia. destruct fd as [|[|[|[|fd]]]]; try lia.
    destruct (sel_core fe fd ltac:(lia) ltac:(lia) s kv Hend Hl) as (s' & A & B & C & D & E & F).
    exists s', wbytes. repeat split; auto; apply B.
  - intros fe Hfe s kv Hend Hl. destruct fe as [|[|[|[|fe]]]]; try lia.
    destruct (sel_core fe k ltac:(lia) (le_n k) s kv Hend Hl) as (s' & A & B & C & D & E & _).
    exists s'. repeat split; auto; apply B.
  - exact I.
Qed.
End Content.

(* ---------- a case without content: the switch key is all there is; whatever the caller passes as content is ignored,
   decoding returns the empty dictionary ---------- *)
Section NoContent.
Variable cv : value.
Hypothesis Hnone : mc_struct c = None.

Let vin := Some (VList [spec; cv]).
Let vout := VList [VStr (mc_name c); VDict []].
Let wbytes := key_bytes kbl hl key.

Lemma sel_empty_core fe fd : forall s kv, at_end s -> lookup nm kv = vin ->
  exists s', enc_param (S (S (S fe))) p kv s = Ok s' /\ at_end s' /\ e_warn s' = e_warn s /\ e_origin s' = e_origin s /\
             e_msg s' = e_msg s ++ wbytes /\
             forall r o lk, dec_param (S (S (S fd))) p (mkD (e_msg s' ++ r) o (e_cur s) 0 lk) =
                            Ok (vout, mkD (e_msg s' ++ r) o (e_cur s') 0 lk).
Proof.
  intros s kv Hend Hl.
  pose proof Hend as (Hbit & Hcur & Hused & Hokm).
  set (sa := set_bit (set_cur (set_origin (set_bit s 0) (e_cur s)) (e_cur s + 0)) 0).
  assert (Henda : at_end sa).
  { unfold sa, at_end. cbn [set_bit set_cur set_origin e_bit e_cur e_msg e_used]. repeat split; auto; lia. }
  destruct (key_rt kbl hl key fe sa Hbl Hkey Henda) as (s1 & He1 & Hend1 & Hm1 & Hc1 & Hw1 & Ho1 & Hd1).
  assert (Hmsa : e_msg sa = e_msg s) by reflexivity.
  assert (Hcsa : e_cur sa = e_cur s) by (unfold sa; cbn [set_bit set_cur e_cur]; lia).
  exists (set_bit (set_origin (set_bit s1 0) (e_origin s)) 0).
  split; [|split; [|split; [|split; [|split]]]].
  - unfold p, mux_param. cbn [enc_param]. unfold is_required. cbn [pkind_of]. unfold vin in Hl. rewrite Hl.
    cbn [negb orb guard bind]. unfold vget. rewrite Hl. cbn [is_none negb guard bind opt_or0].
    rewrite enc_dop_mux_sel. cbn [set_bit e_bit]. cbn [Z.eqb guard bind].
    rewrite Hsel. cbn [bind].
    cbn [e_cur e_origin set_origin set_bit].
    fold sa. rewrite He1. cbn [bind]. rewrite Hnone. cbn [bind]. reflexivity.
  - pose proof Hend1 as (A & B & C & D). unfold at_end. cbn [set_bit set_origin e_bit e_cur e_msg e_used]. repeat split; auto.
  - cbn [set_bit set_origin e_warn]. rewrite Hw1. reflexivity.
  - reflexivity.
  - cbn [set_bit set_origin e_msg]. rewrite Hm1, Hmsa. reflexivity.
  - intros r o lk. unfold p, mux_param. cbn [dec_param]. cbn [opt_or0].
    cbn [set_bit set_origin e_msg e_cur].
    change (dset_bit (mkD (e_msg s1 ++ r) o (e_cur s) 0 lk) 0) with (mkD (e_msg s1 ++ r) o (e_cur s) 0 lk).
    rewrite dec_dop_mux_sel. unfold dset_origin, dset_cur, dset_bit. cbn [d_origin d_cur d_msg d_bit d_lkeys].
    replace (e_cur s + 0) with (e_cur sa) by lia.
    rewrite Hd1. cbn [bind]. cbn [d_msg d_origin d_cur d_bit d_lkeys].
    rewrite Hdsel. rewrite Hnone. cbn [bind fst snd d_msg d_origin d_cur d_bit d_lkeys].
    reflexivity.
Qed.

Theorem sel_empty_rt :
  appends_ge 3 3 p vin vout /\ writes_ge 3 p vin wbytes /\ no_lenkey p.
Proof.
  split; [|split].
  - intros fe fd Hfe Hfd s kv Hend Hl. destruct fe as [|[|[|fe]]]; try lia. destruct fd as [|[|[|fd]]]; try lia.
    destruct (sel_empty_core fe fd s kv Hend Hl) as (s' & A & B & C & D & E & F).
    exists s', wbytes. repeat split; auto; apply B.
  - intros fe Hfe s kv Hend Hl. destruct fe as [|[|[|fe]]]; try lia.
    destruct (sel_empty_core fe 0 s kv Hend Hl) as (s' & A & B & C & D & E & _).
    exists s'. repeat split; auto; apply B.
  - exact I.
Qed.
End NoContent.
End Sel.

(* ---------- the ways of selecting a case meet the two selection hypotheses ---------- *)
Lemma find_of_filter {A} (f : A -> bool) : forall l x r, filter f l = x :: r -> find f l = Some x.
Proof.
  induction l as [|a l IH]; intros x r H; cbn in *; [discriminate|].
  destruct (f a); [injection H as -> _; reflexivity | now apply (IH x r)].
Qed.
Lemma find_none_of_filter {A} (f : A -> bool) : forall l, filter f l = [] -> find f l = None.
Proof.
  induction l as [|a l IH]; intros H; cbn in *; [reflexivity|]. destruct (f a); [discriminate | now apply IH].
Qed.

(* by switch-key number: the first case whose range holds the number *)
Lemma select_by_number cases dflt n c rest :
  filter (mc_applies n) cases = c :: rest ->
  mux_select cases dflt (VInt n) = Ok (mc_struct c, n) /\ mux_case_of cases dflt n = Some c.
Proof.
  intros H. split.
  - unfold mux_select. rewrite H. reflexivity.
  - unfold mux_case_of. now rewrite (find_of_filter _ _ _ _ H).
Qed.

(* by number, no case holds it: the default case *)
Lemma select_default_by_number cases c n :
  filter (mc_applies n) cases = [] ->
  mux_select cases (Some c) (VInt n) = Ok (mc_struct c, n) /\ mux_case_of cases (Some c) n = Some c.
Proof.
  intros H. split.
  - unfold mux_select. rewrite H. reflexivity.
  - unfold mux_case_of. now rewrite (find_none_of_filter _ _ H).
Qed.

(* the default case by None, or by a name no case carries: key 0, which no case may claim *)
Lemma select_default_by_none cases c :
  filter (mc_applies 0) cases = [] ->
  mux_select cases (Some c) VNone = Ok (mc_struct c, 0) /\ mux_case_of cases (Some c) 0 = Some c.
Proof.
  intros H. split; [reflexivity|]. unfold mux_case_of. now rewrite (find_none_of_filter _ _ H).
Qed.
Lemma select_default_by_name cases c nm :
  filter (fun c' => bytes_eqb (mc_name c') nm) cases = [] -> filter (mc_applies 0) cases = [] ->
  mux_select cases (Some c) (VStr nm) = Ok (mc_struct c, 0) /\ mux_case_of cases (Some c) 0 = Some c.
Proof.
  intros H1 H2. split.
  - unfold mux_select. rewrite H1. reflexivity.
  - unfold mux_case_of. now rewrite (find_none_of_filter _ _ H2).
Qed.

(* by name (MuxProofs.v): the unique case of that name, which is the first one holding its own lower limit *)
Lemma select_by_name cases dflt c :
  filter (fun c' => bytes_eqb (mc_name c') (mc_name c)) cases = [c] -> find (mc_applies (mc_lo c)) cases = Some c ->
  mux_select cases dflt (VStr (mc_name c)) = Ok (mc_struct c, mc_lo c) /\ mux_case_of cases dflt (mc_lo c) = Some c.
Proof.
  intros H1 H2. split.
  - unfold mux_select. rewrite H1. reflexivity.
  - unfold mux_case_of. now rewrite H2.
Qed.

(* ---------- members ---------- *)
Definition mux_sel_rm (nm : name) (kbl : Z) (hl : bool) (cases : list mcase) (dflt : option mcase) (c : mcase)
           (spec : value) (key : Z) (rs : list rmem) : rmem :=
  mkRM (mkM (mux_param nm kbl hl cases dflt) (Some (VList [spec; VDict (in_dict (rms rs))]))
            (VList [VStr (mc_name c); VDict (out_dict (rms rs))]))
       (key_bytes kbl hl key ++ rbytes rs).
Definition mux_empty_rm (nm : name) (kbl : Z) (hl : bool) (cases : list mcase) (dflt : option mcase) (c : mcase)
           (spec cv : value) (key : Z) : rmem :=
  mkRM (mkM (mux_param nm kbl hl cases dflt) (Some (VList [spec; cv])) (VList [VStr (mc_name c); VDict []]))
       (key_bytes kbl hl key).

Lemma mux_sel_rgood k nm kbl hl cases dflt c spec key rs :
  0 < kbl <= 64 -> 0 <= key < 2 ^ kbl ->
  mux_select cases dflt spec = Ok (mc_struct c, key) -> mux_case_of cases dflt key = Some c ->
  mc_struct c = Some (DStruct (map m_p (rms rs)) None) ->
  (forall x, In x rs -> rgood k x) -> NoDup (map m_name (rms rs)) ->
  rgood (4 + k) (mux_sel_rm nm kbl hl cases dflt c spec key rs).
Proof.
  intros H1 H2 H3 H4 H5 H6 H7. unfold rgood, mux_sel_rm. cbn [r_m r_w m_p m_in m_out].
  exact (sel_content_rt nm kbl hl cases dflt c spec key H1 H2 H3 H4 k rs H5 H6 H7).
Qed.

Lemma mux_empty_rgood nm kbl hl cases dflt c spec cv key :
  0 < kbl <= 64 -> 0 <= key < 2 ^ kbl ->
  mux_select cases dflt spec = Ok (mc_struct c, key) -> mux_case_of cases dflt key = Some c ->
  mc_struct c = None ->
  rgood 3 (mux_empty_rm nm kbl hl cases dflt c spec cv key).
Proof.
  intros H1 H2 H3 H4 H5. unfold rgood, mux_empty_rm. cbn [r_m r_w m_p m_in m_out].
  exact (sel_empty_rt nm kbl hl cases dflt c spec key H1 H2 H3 H4 cv H5).
Qed.

(* a request: id, a multiplexer (key 16..31: {a: 8 bit}; key 32: nothing; default: {d: 16 bit}), a trailing byte --
   selected by number (20), by name of the empty case, by None (default case, key 0) and by a number no case holds (99) *)
Example mux_sel_example :
  let u8 nm := mkF nm 8 BUint None true BUint None in
  let u16 nm := mkF nm 16 BUint None true BUint None in
  let vv (z : Z) := fun _ : name => VInt z in
  let in1 := [leaf_rm (u8 [97]) (vv 7) (wire_bytes (u8 [97]) 7)] in
  let ind := [leaf_rm (u16 [100]) (vv 258) (wire_bytes (u16 [100]) 258)] in
  let c1 := MC [120] 16 31 (Some (DStruct (map m_p (rms in1)) None)) in
  let c2 := MC [121] 32 32 None in
  let cd := MC [122] 0 0 (Some (DStruct (map m_p (rms ind)) None)) in
  let sid := leaf_rm (mkF [115] 8 BUint None true BUint (Some (VInt 34))) (vv 34) [34] in
  let tail := leaf_rm (u8 [116]) (vv 9) [9] in
  let m1 := [sid; mux_sel_rm [109] 8 true [c1; c2] (Some cd) c1 (VInt 20) 20 in1; tail] in
  let m2 := [sid; mux_empty_rm [109] 8 true [c1; c2] (Some cd) c2 (VStr [121]) (VInt 5) 32; tail] in
  let m3 := [sid; mux_sel_rm [109] 8 true [c1; c2] (Some cd) cd VNone 0 ind; tail] in
  let m4 := [sid; mux_sel_rm [109] 8 true [c1; c2] (Some cd) cd (VInt 99) 99 ind; tail] in
  let ok m := encode_msg (map m_p (rms m)) None (VDict (in_dict (rms m))) = Ok (rbytes m, false) /\
              decode_msg (map m_p (rms m)) (rbytes m) = Ok (VDict (out_dict (rms m))) in
  rbytes m1 = [34; 20; 7; 9] /\ rbytes m2 = [34; 32; 9] /\ rbytes m3 = [34; 0; 1; 2; 9] /\ rbytes m4 = [34; 99; 1; 2; 9] /\
  ok m1 /\ ok m2 /\ ok m3 /\ ok m4.
Proof. cbv zeta. repeat split; vm_compute; reflexivity. Qed.

Example mux_sel_premises :
  let u8 nm := mkF nm 8 BUint None true BUint None in
  let u16 nm := mkF nm 16 BUint None true BUint None in
  let vv (z : Z) := fun _ : name => VInt z in
  let in1 := [leaf_rm (u8 [97]) (vv 7) (wire_bytes (u8 [97]) 7)] in
  let ind := [leaf_rm (u16 [100]) (vv 258) (wire_bytes (u16 [100]) 258)] in
  let c1 := MC [120] 16 31 (Some (DStruct (map m_p (rms in1)) None)) in
  let c2 := MC [121] 32 32 None in
  let cd := MC [122] 0 0 (Some (DStruct (map m_p (rms ind)) None)) in
  rgood 6 (mux_sel_rm [109] 8 true [c1; c2] (Some cd) c1 (VInt 20) 20 in1) /\
  rgood 3 (mux_empty_rm [109] 8 true [c1; c2] (Some cd) c2 (VStr [121]) (VInt 5) 32) /\
  rgood 6 (mux_sel_rm [109] 8 true [c1; c2] (Some cd) cd VNone 0 ind) /\
  rgood 6 (mux_sel_rm [109] 8 true [c1; c2] (Some cd) cd (VInt 99) 99 ind).
Proof.
  intros u8 u16 vv in1 ind c1 c2 cd.
  assert (G1 : forall y, In y in1 -> rgood 2 y) by (intros y [<-|[]]; apply uint_leaf_rgood; cbn; try lia; exact I).
  assert (Gd : forall y, In y ind -> rgood 2 y) by (intros y [<-|[]]; apply uint_leaf_rgood; cbn; try lia; exact I).
  assert (ND1 : NoDup (map m_name (rms in1))) by (repeat constructor; cbn; intuition discriminate).
  assert (NDd : NoDup (map m_name (rms ind))) by (repeat constructor; cbn; intuition discriminate).
  split; [|split; [|split]].
  - change 6%nat with (4 + 2)%nat.
    apply mux_sel_rgood; [lia | lia | | | reflexivity | exact G1 | exact ND1].
    + apply (select_by_number [c1; c2] (Some cd) 20 c1 []). vm_compute. reflexivity.
    + apply (select_by_number [c1; c2] (Some cd) 20 c1 []). vm_compute. reflexivity.
  - apply mux_empty_rgood; [lia | lia | | | reflexivity].
    + apply (select_by_name [c1; c2] (Some cd) c2); vm_compute; reflexivity.
    + apply (select_by_name [c1; c2] (Some cd) c2); vm_compute; reflexivity.
  - change 6%nat with (4 + 2)%nat.
    apply mux_sel_rgood; [lia | lia | | | reflexivity | exact Gd | exact NDd].
    + apply (select_default_by_none [c1; c2] cd). vm_compute. reflexivity.
    + apply (select_default_by_none [c1; c2] cd). vm_compute. reflexivity.
  - change 6%nat with (4 + 2)%nat.
    apply mux_sel_rgood; [lia | lia | | | reflexivity | exact Gd | exact NDd].
    + apply (select_default_by_number [c1; c2] cd 99). vm_compute. reflexivity.
    + apply (select_default_by_number [c1; c2] cd 99). vm_compute. reflexivity.
Qed.
