(* Proofs about Model/Compu.v *)
From Coq Require Import ZArith List Bool Lia.
From OV Require Import Base.Bytes Base.Wire Model.Compu.
Import ListNotations.
Open Scope Z_scope.

Ltac Zify.zify_post_hook ::= Z.div_mod_to_equations.

(* ---------- rounding to nearest, ties to even ---------- *)
Lemma round_div_pos_bound n d : 0 < d -> 2 * Z.abs (n - round_div_pos n d * d) <= d.
Proof.
  intros Hd. unfold round_div_pos.
  destruct (2 * (n - n / d * d) <? d) eqn:E1; [lia|].
  destruct (d <? 2 * (n - n / d * d)) eqn:E2; [lia|].
  destruct (Z.even (n / d)); lia.
Qed.

Lemma round_div_pos_near n d z : 0 < d -> 2 * Z.abs (n - z * d) < d -> round_div_pos n d = z.
Proof.
  intros Hd H. unfold round_div_pos.
  assert (Q : n / d = z \/ n / d = z - 1) by nia.
  destruct (2 * (n - n / d * d) <? d) eqn:E1; destruct (d <? 2 * (n - n / d * d)) eqn:E2;
    try destruct (Z.even (n / d)); nia.
Qed.

Lemma round_div_pos_tie_even n d : 0 < d -> 2 * (n - n / d * d) = d -> Z.even (round_div_pos n d) = true.
Proof.
  intros Hd H. unfold round_div_pos. rewrite H.
  replace (d <? d) with false by lia.
  destruct (Z.even (n / d)) eqn:E; [exact E|].
  rewrite Z.even_add, E. reflexivity.
Qed.

Lemma rdiv_bound n d : d <> 0 -> 2 * Z.abs (n - rdiv n d * d) <= Z.abs d.
Proof.
  intros Hd. unfold rdiv. destruct (0 <? d) eqn:E.
  - pose proof (round_div_pos_bound n d ltac:(lia)). lia.
  - pose proof (round_div_pos_bound (- n) (- d) ltac:(lia)). lia.
Qed.

Lemma rdiv_near n d z : d <> 0 -> 2 * Z.abs (n - z * d) < Z.abs d -> rdiv n d = z.
Proof.
  intros Hd H. unfold rdiv. destruct (0 <? d) eqn:E.
  - apply round_div_pos_near; lia.
  - apply round_div_pos_near; lia.
Qed.

(* exact quotients are returned unchanged *)
Lemma rdiv_exact z d : d <> 0 -> rdiv (z * d) d = z.
Proof. intros Hd. apply rdiv_near; [assumption|]. replace (z * d - z * d) with 0 by lia. simpl. lia. Qed.

(* ---------- limits ---------- *)
Lemma complies_lower_spec l x :
  complies_lower l x = true <->
  match lval l, ltype l with
  | None, _ => True
  | Some v, (None | Some IClosed) => v <= x
  | Some v, Some IOpen => v < x
  | Some v, Some IInfinite => True
  end.
Proof. unfold complies_lower. destruct (lval l), (ltype l) as [[]|]; lia || tauto. Qed.

Lemma complies_upper_spec l x :
  complies_upper l x = true <->
  match lval l, ltype l with
  | None, _ => True
  | Some v, (None | Some IClosed) => x <= v
  | Some v, Some IOpen => x < v
  | Some v, Some IInfinite => True
  end.
Proof. unfold complies_upper. destruct (lval l), (ltype l) as [[]|]; lia || tauto. Qed.

(* ---------- linear segments ---------- *)
(* for slopes of magnitude larger than one the physical image of every internal
   value converts back to it, whatever offset, numerator, denominator and value *)
Lemma linear_inverse s x :
  den s <> 0 -> Z.abs (den s) < Z.abs (num s) -> seg_p2i s (seg_i2p s x) = x.
Proof.
  intros Hd Hn. unfold seg_p2i, seg_i2p.
  replace (num s =? 0) with false by lia.
  pose proof (rdiv_bound (off s + num s * x) (den s) Hd) as B.
  apply rdiv_near; [lia|]. nia.
Qed.

(* the forward conversion is the exact formula rounded to nearest *)
Lemma linear_formula s x : den s <> 0 ->
  2 * Z.abs ((off s + num s * x) - seg_i2p s x * den s) <= Z.abs (den s).
Proof. intros Hd. apply rdiv_bound. exact Hd. Qed.

(* LINEAR: an internal value is valid exactly if it lies inside the limits *)
Lemma linear_valid_internal s x :
  valid_int (MLinear s) (CInt x) = true <-> ol_lower (slo s) x = true /\ ol_upper (shi s) x = true.
Proof. simpl. unfold int_applies. apply andb_true_iff. Qed.

(* every physical value declared valid converts without error *)
Lemma linear_valid_phys_converts s y :
  valid_phys (MLinear s) (CInt y) = true -> exists x, p2i (MLinear s) (CInt y) = COk (CInt x).
Proof. simpl. intros H. rewrite H. eexists. reflexivity. Qed.

(* ---------- SCALE-LINEAR: continuous and strictly increasing => invertible ---------- *)
(* the slope of a segment is num / den: it is positive iff num * den is (either may be negative) *)
Fixpoint continuous_increasing (segs : list lseg) : Prop :=
  match segs with
  | s0 :: ((s1 :: _) as rest) =>
    0 < num s1 * den s1 /\
    (exists x, lim_usable (shi s0) = Some x /\ lim_usable (slo s1) = Some x /\ seg_i2p s0 x = seg_i2p s1 x) /\
    continuous_increasing rest
  | _ => True
  end.

Lemma invertible_from_ok segs : forall ref,
  0 < ref -> continuous_increasing segs -> invertible_from ref segs = true.
Proof.
  induction segs as [|s0 segs IH]; intros ref Href H; [reflexivity|].
  destruct segs as [|s1 rest]; [reflexivity|].
  destruct H as (Hn & (x & E1 & E2 & E3) & Hrest).
  cbn [invertible_from]. replace (ref * (num s1 * den s1) <? 0) with false by nia.
  rewrite E1, E2, Z.eqb_refl, E3, Z.eqb_refl. cbn [negb].
  replace (num s1 =? 0) with false by nia. apply IH; assumption.
Qed.

Lemma scale_linear_invertible s segs :
  0 < num s * den s -> continuous_increasing (s :: segs) -> invertible (s :: segs) = true.
Proof. intros Hs H. unfold invertible. now apply invertible_from_ok. Qed.

(* ... and therefore every physical value some segment accepts can be encoded *)
Lemma scale_linear_encodes s segs y :
  0 < num s * den s -> continuous_increasing (s :: segs) ->
  valid_phys (MScaleLinear (s :: segs)) (CInt y) = true ->
  exists x, p2i (MScaleLinear (s :: segs)) (CInt y) = COk (CInt x).
Proof.
  intros Hs Hc Hv. cbn [p2i]. rewrite (scale_linear_invertible s segs Hs Hc). cbn [negb].
  cbn [valid_phys] in Hv. unfold first_seg.
  destruct (find (fun s0 => phys_applies s0 y) (s :: segs)) as [s'|] eqn:F.
  - eexists. reflexivity.
  - apply existsb_exists in Hv as (s' & Hin & Hp). eapply find_none in F; [|exact Hin]. simpl in F. congruence.
Qed.

(* the same for strictly decreasing methods: "monotone" in the property text covers both directions *)
Fixpoint continuous_decreasing (segs : list lseg) : Prop :=
  match segs with
  | s0 :: ((s1 :: _) as rest) =>
    num s1 * den s1 < 0 /\
    (exists x, lim_usable (shi s0) = Some x /\ lim_usable (slo s1) = Some x /\ seg_i2p s0 x = seg_i2p s1 x) /\
    continuous_decreasing rest
  | _ => True
  end.

Lemma invertible_from_ok_neg segs : forall ref,
  ref < 0 -> continuous_decreasing segs -> invertible_from ref segs = true.
Proof.
  induction segs as [|s0 segs IH]; intros ref Href H; [reflexivity|].
  destruct segs as [|s1 rest]; [reflexivity|].
  destruct H as (Hn & (x & E1 & E2 & E3) & Hrest).
  cbn [invertible_from]. replace (ref * (num s1 * den s1) <? 0) with false by nia.
  rewrite E1, E2, Z.eqb_refl, E3, Z.eqb_refl. cbn [negb].
  replace (num s1 =? 0) with false by nia. apply IH; assumption.
Qed.

Lemma scale_linear_encodes_decreasing s segs y :
  num s * den s < 0 -> continuous_decreasing (s :: segs) ->
  valid_phys (MScaleLinear (s :: segs)) (CInt y) = true ->
  exists x, p2i (MScaleLinear (s :: segs)) (CInt y) = COk (CInt x).
Proof.
  intros Hs Hc Hv. cbn [p2i].
  assert (Hi : invertible (s :: segs) = true) by (unfold invertible; now apply invertible_from_ok_neg).
  rewrite Hi. cbn [negb].
  cbn [valid_phys] in Hv. unfold first_seg.
  destruct (find (fun s0 => phys_applies s0 y) (s :: segs)) as [s'|] eqn:F.
  - eexists. reflexivity.
  - apply existsb_exists in Hv as (s' & Hin & Hp). eapply find_none in F; [|exact Hin]. simpl in F. congruence.
Qed.

(* ---------- TAB-INTP: every value between the smallest and the largest sample
   point lies in some segment (discrete intermediate value theorem), so valid
   values always convert ---------- *)
Lemma fold_min_le l d : forall x, In x l -> fold_right Z.min d l <= x.
Proof. induction l as [|a l IH]; intros x H; [contradiction|]. destruct H as [->|H]; simpl; [lia|]. specialize (IH x H). lia. Qed.
Lemma fold_max_ge l d : forall x, In x l -> x <= fold_right Z.max d l.
Proof. induction l as [|a l IH]; intros x H; [contradiction|]. destruct H as [->|H]; simpl; [lia|]. specialize (IH x H). lia. Qed.

Lemma interp_total : forall pts x,
  (2 <= List.length pts)%nat ->
  (exists a, In a (map fst pts) /\ a <= x) -> (exists b, In b (map fst pts) /\ x <= b) ->
  interp pts x <> None.
Proof.
  induction pts as [|[x0 y0] pts IH]; intros x Hl Hlo Hhi; [simpl in Hl; lia|].
  destruct pts as [|[x1 y1] rest]; [simpl in Hl; lia|].
  cbn [interp]. destruct ((Z.min x0 x1 <=? x) && (x <=? Z.max x0 x1)) eqn:E; [discriminate|].
  destruct rest as [|p rest'].
  - (* only two points: x is between them *)
    exfalso. destruct Hlo as (a & Ha & La), Hhi as (b & Hb & Lb).
    simpl in Ha, Hb. apply andb_false_iff in E. lia.
  - apply IH; [simpl; lia | |].
    + destruct Hlo as (a & Ha & La). apply andb_false_iff in E.
      destruct Ha as [<-|Ha]; [|exists a; auto].
      (* x0 <= x but x not in the first segment: x1 is below x *)
      simpl fst in *. exists x1. split; [now left | lia].
    + destruct Hhi as (b & Hb & Lb). apply andb_false_iff in E.
      destruct Hb as [<-|Hb]; [|exists b; auto].
      simpl fst in *. exists x1. split; [now left | lia].
Qed.

Lemma min_witness l d x : fold_right Z.min d l <= x -> d <= x \/ exists a, In a l /\ a <= x.
Proof.
  induction l as [|b l IH]; simpl; intros H; [now left|].
  destruct (Z_le_gt_dec b x); [right; exists b; split; [now left | lia]|].
  destruct IH as [D|(a & Ha & La)]; [lia | now left | right; exists a; split; [now right | lia]].
Qed.
Lemma max_witness l d x : x <= fold_right Z.max d l -> x <= d \/ exists a, In a l /\ x <= a.
Proof.
  induction l as [|b l IH]; simpl; intros H; [now left|].
  destruct (Z_le_gt_dec x b); [right; exists b; split; [now left | lia]|].
  destruct IH as [D|(a & Ha & La)]; [lia | now left | right; exists a; split; [now right | lia]].
Qed.

Lemma tabintp_valid_converts pts x :
  (2 <= List.length pts)%nat ->
  valid_int (MTabIntp pts) (CInt x) = true ->
  exists y, i2p (MTabIntp pts) (CInt x) = COk (CInt y).
Proof.
  intros Hl Hv. cbn [valid_int] in Hv. apply andb_true_iff in Hv as [H1 H2].
  unfold zmin_list, zmax_list in *. apply Z.leb_le in H1, H2.
  assert (N : interp pts x <> None).
  { destruct pts as [|[x0 y0] pts']; [simpl in Hl; lia|]. cbn [map fst hd] in H1, H2.
    apply interp_total; [assumption| |].
    - destruct (min_witness _ _ _ H1) as [D|(a & Ha & La)]; [exists x0; split; [now left | lia] | exists a; auto].
    - destruct (max_witness _ _ _ H2) as [D|(a & Ha & La)]; [exists x0; split; [now left | lia] | exists a; auto]. }
  cbn [i2p]. destruct (interp pts x) as [[y|e]|] eqn:E; [eexists; reflexivity | | congruence].
  (* interp never returns an error *)
  exfalso. clear -E. revert E. induction pts as [|[x0 y0] pts IH]; [discriminate|].
  destruct pts as [|[x1 y1] rest]; [discriminate|]. cbn [interp].
  destruct ((Z.min x0 x1 <=? x) && (x <=? Z.max x0 x1)); [destruct (x1 =? x0); discriminate | exact IH].
Qed.

(* ---------- text tables: a text is encoded by a value of its own scale ---------- *)
Lemma tscale_internal_in_scale s x :
  tinv s = None -> tscale_internal s = Some x -> tscale_applies s x = true.
Proof.
  intros Hi H. unfold tscale_internal in H. rewrite Hi in H. apply find_some in H. exact (proj2 H).
Qed.

(* whatever the interval types of the limits are, a text without COMPU-INVERSE-VALUE which is encoded at all is
   encoded by an internal value its scale applies to *)
Theorem texttable_encodes_inside scales pd idf t s x :
  filter (fun s => text_eqb (tconst s) t) scales = [s] -> tinv s = None ->
  p2i (MTextTable scales pd idf) (CText t) = COk (CInt x) -> tscale_applies s x = true.
Proof.
  intros Hm Hi H. cbn [p2i] in H. rewrite Hm in H.
  destruct (tscale_internal s) as [x'|] eqn:E; [|discriminate].
  injection H as <-. now apply tscale_internal_in_scale.
Qed.

(* ... hence it is read back as that text when no other scale claims the value *)
Theorem texttable_roundtrip scales pd idf t s x :
  filter (fun s => text_eqb (tconst s) t) scales = [s] -> tinv s = None ->
  p2i (MTextTable scales pd idf) (CText t) = COk (CInt x) ->
  filter (fun s' => tscale_applies s' x) scales = [s] ->
  exists t', tconst s = Some t' /\ bytes_eqb t' t = true /\ i2p (MTextTable scales pd idf) (CInt x) = COk (CText t').
Proof.
  intros Hm Hi H Hu. cbn [i2p]. rewrite Hu.
  assert (In s (filter (fun s => text_eqb (tconst s) t) scales)) as Hin by (rewrite Hm; now left).
  apply filter_In in Hin as [_ Ht]. unfold text_eqb in Ht.
  destruct (tconst s) as [t'|]; [|discriminate]. exists t'. auto.
Qed.

(* a text declared valid (no default for the encoding direction, matched by one scale) is encoded *)
Theorem texttable_valid_encodes scales pd t s :
  filter (fun s => text_eqb (tconst s) t) scales = [s] ->
  valid_phys (MTextTable scales pd None) (CText t) = true ->
  exists x, p2i (MTextTable scales pd None) (CText t) = COk (CInt x).
Proof.
  intros Hm Hv. cbn [valid_phys] in Hv. apply existsb_exists in Hv as (s' & Hin & Hs').
  apply andb_true_iff in Hs' as [Ht Hi].
  assert (In s' (filter (fun s => text_eqb (tconst s) t) scales)) as Hf by (apply filter_In; auto).
  rewrite Hm in Hf. destruct Hf as [<-|[]].
  cbn [p2i]. rewrite Hm. destruct (tscale_internal s) as [x|]; [eexists; reflexivity | discriminate].
Qed.

(* the scales ]5, 10] "high" and [0, 5] "low": "high" is encoded as 6 (before the fix commit: as 5, which is "low"),
   an open range without integer is not encodable and its text not valid *)
Example texttable_open_limit_example :
  let lim v t := Some (mkLimit (Some v) (Some t)) in
  let low := mkT (lim 0 IClosed) (lim 5 IClosed) (Some [108]) None in
  let high := mkT (lim 5 IOpen) (lim 10 IClosed) (Some [104]) None in
  let none := mkT (lim 20 IOpen) (lim 21 IOpen) (Some [110]) None in
  let m := MTextTable [low; high; none] None None in
  p2i m (CText [104]) = COk (CInt 6) /\ i2p m (CInt 6) = COk (CText [104]) /\ i2p m (CInt 5) = COk (CText [108]) /\
  p2i m (CText [110]) = CErr CEncode /\ valid_phys m (CText [110]) = false /\ valid_phys m (CText [104]) = true.
Proof. vm_compute. repeat split. Qed.

(* non-vacuity *)
Example compu_examples :
  seg_i2p (mkSeg 1 3 2 None None 0) 3 = 5 /\ seg_p2i (mkSeg 1 3 2 None None 0) 5 = 3 /\
  rdiv 9 2 = 4 /\ rdiv 7 2 = 4 /\ rdiv (-9) 2 = -4 /\
  i2p (MTabIntp [(0, 0); (10, 45)]) (CInt 1) = COk (CInt 4) /\
  i2p (MTabIntp [(0, 0); (10, 45)]) (CInt 3) = COk (CInt 14).
Proof. vm_compute. repeat split. Qed.
