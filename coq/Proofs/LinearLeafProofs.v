(* C01 / C02 for a LINEAR computational method at message level: an unsigned standard-length object whose physical
   value is offset + factor * internal value (integer coefficients, denominator 1, any non-zero factor, optional
   internal limits). For EVERY internal value x inside the limits and the bit length, the physical value
   off + num * x encodes to the bytes of x and decodes to itself: a further good member for FieldProofs.v. *)
From Coq Require Import ZArith QArith List Bool Lia.
From OV Require Import Base.Bytes Base.Wire Generated Model.Str Model.Codec
     Proofs.BytesProofs Proofs.AtomicProofs Proofs.CodecProps Proofs.FlatProofs Proofs.TreeProofs Proofs.TreeWireProofs
     Proofs.FieldProofs.
Import ListNotations.
Open Scope Z_scope.

(* ---------- rounding an exact quotient ---------- *)
Lemma rhe_exact a d : d <> 0 -> round_half_even (Qmake (a * d) 1 / inject_Z d) = a.
Proof.
  intros Hd. unfold round_half_even, Qdiv, Qmult, Qinv, inject_Z. cbn [Qnum Qden].
  destruct d as [|p|p]; [contradiction| |]; cbn [Qnum Qden Z.sgn]; rewrite ?Pos.mul_1_l.
  - replace (a * Z.pos p * 1) with (a * Z.pos p) by lia.
    rewrite Z.div_mul by discriminate.
    replace (2 * (a * Z.pos p - a * Z.pos p)) with 0 by lia.
    replace (0 <? Z.pos p) with true by (symmetry; apply Z.ltb_lt; lia). reflexivity.
  - replace (a * Z.neg p * Z.neg 1) with (a * Z.pos p) by lia.
    rewrite Z.div_mul by discriminate.
    replace (2 * (a * Z.pos p - a * Z.pos p)) with 0 by lia.
    replace (0 <? Z.pos p) with true by (symmetry; apply Z.ltb_lt; lia). reflexivity.
Qed.

Lemma lin_i2p_int off num x : lin_i2p off num 1 x = off + num * x.
Proof.
  unfold lin_i2p. cbn [Z.eqb]. replace (off + num * x) with ((off + num * x) * 1) at 1 by lia.
  apply rhe_exact. discriminate.
Qed.

Lemma lin_p2i_int off num lo hi x : num <> 0 ->
  p2i (CLinear off num 1 lo hi) (VInt (off + num * x)) = Ok (VInt x).
Proof.
  intros Hn. cbn [p2i]. replace (num =? 0) with false by (symmetry; apply Z.eqb_neq; exact Hn).
  replace ((off + num * x) * 1 - off) with (x * num) by lia. now rewrite rhe_exact.
Qed.

(* the physical limits derived from the internal ones contain the image of every internal value inside its limits *)
Lemma lin_valid_phys off num lo hi x : in_limits lo hi x = true ->
  valid_phys (CLinear off num 1 lo hi) BInt (VInt (off + num * x)) = true.
Proof.
  intros H. unfold in_limits in H. apply andb_true_iff in H as [Hl Hh].
  cbn [valid_phys]. unfold in_limits. apply andb_true_iff.
  destruct (0 <=? num) eqn:S; [apply Z.leb_le in S | apply Z.leb_gt in S]; split.
  - destruct lo as [l|]; cbn [option_map]; [|reflexivity]. rewrite lin_i2p_int. apply Z.leb_le in Hl. apply Z.leb_le. nia.
  - destruct hi as [h|]; cbn [option_map]; [|reflexivity]. rewrite lin_i2p_int. apply Z.leb_le in Hh. apply Z.leb_le. nia.
  - destruct hi as [h|]; cbn [option_map]; [|reflexivity]. rewrite lin_i2p_int. apply Z.leb_le in Hh. apply Z.leb_le. nia.
  - destruct lo as [l|]; cbn [option_map]; [|reflexivity]. rewrite lin_i2p_int. apply Z.leb_le in Hl. apply Z.leb_le. nia.
Qed.

(* ---------- the parameter ---------- *)
Definition lin_param (nm : name) (bl : Z) (hl : bool) (off num : Z) (lo hi : option Z) : param :=
  P nm None None (KValue (DSimple (Std BUint None hl bl None) (CLinear off num 1 lo hi) BInt) None).
Definition raw_fd (nm : name) (bl : Z) (hl : bool) : fdesc := mkF nm bl BUint None hl BUint None.

Theorem linear_leaf_rt nm bl hl off num lo hi x :
  0 < bl <= 64 -> num <> 0 -> 0 <= x < 2 ^ bl -> in_limits lo hi x = true ->
  let p := lin_param nm bl hl off num lo hi in
  let y := VInt (off + num * x) in
  appends_ge 2 2 p (Some y) y /\ writes_ge 2 p (Some y) (wire_bytes (raw_fd nm bl hl) x) /\ no_lenkey p.
Proof.
  intros Hbl Hn Hx Hlim p y.
  assert (Core : forall fe fd s kv, at_end s -> lookup nm kv = Some y ->
            exists s', enc_param (S (S fe)) p kv s = Ok s' /\ at_end s' /\ e_warn s' = e_warn s /\ e_origin s' = e_origin s /\
                       e_msg s' = e_msg s ++ wire_bytes (raw_fd nm bl hl) x /\
                       forall r o lk, dec_param (S (S fd)) p (mkD (e_msg s' ++ r) o (e_cur s) 0 lk) =
                                      Ok (y, mkD (e_msg s' ++ r) o (e_cur s') 0 lk)).
  { intros fe fd s kv Hend Hl.
    assert (Hendb : at_end (set_bit s 0)) by (now apply at_end_set_bit).
    assert (Hwide : is_numeric BUint && (64 <? bl) = false) by (cbn; apply Z.ltb_ge; lia).
    destruct (emplace_val_at_end (set_bit s 0) (VInt x) bl BUint None hl Hendb ltac:(lia) Hwide
                (codable_uint x bl hl ltac:(lia) ltac:(lia)))
      as (s1 & w1 & He1 & Hend1 & Hm1 & Hw1 & Hc1 & Hwarn1 & Ho1 & Heop1 & _ & _ & _ & Hread1).
    assert (Hcan : canon (fun _ => VInt x) (raw_fd nm bl hl) (wire_bytes (raw_fd nm bl hl) x)).
    { apply wire_bytes_canon; cbn [raw_fd f_bl f_bt f_en f_hl fname f_name]; try lia.
      - apply raw_of_uint; lia.
      - destruct (uint_raw_roundtrip x bl None hl x ltac:(lia) (or_introl eq_refl)
                    (raw_of_uint x bl hl ltac:(lia) ltac:(lia))) as [_ Hv]. exact Hv. }
    pose proof (canon_raw_nonneg _ _ _ Hcan) as Hnn. destruct Hcan as (Hok & Hlen & Hlt & Hv & Hr).
    cbn [raw_fd f_bl f_bt f_en f_hl fname f_name fbytes] in Hok, Hlen, Hlt, Hv, Hr, Hnn.
    destruct (emplace_reproduces (set_bit s 0) (VInt x) bl BUint None hl (wire_bytes (raw_fd nm bl hl) x) _
                Hendb ltac:(lia) Hwide Hok Hlen eq_refl (conj Hnn Hlt) Hr) as (s1' & He1' & _ & Hm1' & _).
    rewrite He1 in He1'. injection He1' as <-.
    cbn [set_bit e_msg e_cur e_warn e_origin] in Hm1', Hwarn1, Ho1, Hread1, Hc1.
    exists (set_bit s1 0).
    split; [|split; [|split; [|split; [|split]]]].
    - unfold p, lin_param. cbn [enc_param]. unfold is_required. cbn [pkind_of]. rewrite Hl.
      cbn [negb orb guard bind]. unfold vget. rewrite Hl. unfold y. cbn [is_none negb guard bind opt_or0].
      cbn [enc_dop]. rewrite (lin_valid_phys off num lo hi x Hlim). cbn [guard bind].
      rewrite (lin_p2i_int off num lo hi x Hn). cbn [bind valid_int dct_bt]. rewrite Hlim. cbn [guard bind].
      cbn [enc_dct std_apply_mask std_used_mask bind]. rewrite He1. reflexivity.
    - now apply at_end_set_bit.
    - cbn [set_bit e_warn]. exact Hwarn1.
    - cbn [set_bit e_origin]. exact Ho1.
    - cbn [set_bit e_msg]. exact Hm1'.
    - intros r o lk. unfold p, lin_param. cbn [dec_param]. cbn [opt_or0 set_bit e_msg e_cur].
      cbn [dec_dop dec_dct]. unfold dset_bit at 1. cbn [d_msg d_origin d_cur d_lkeys].
      rewrite Hread1. cbn [bind valid_int dct_bt]. rewrite Hlim. cbn [i2p bind]. rewrite lin_i2p_int.
      cbn [fst snd dset_bit d_msg d_origin d_cur d_lkeys]. reflexivity. }
  split; [|split].
  - intros fe fd Hfe Hfd s kv Hend Hl. destruct fe as [|[|fe]]; try lia. destruct fd as [|[|fd]]; try lia.
    destruct (Core fe fd s kv Hend Hl) as (s' & A & B & C & D & E & F).
    exists s', (wire_bytes (raw_fd nm bl hl) x). repeat split; auto; apply B.
  - intros fe Hfe s kv Hend Hl. destruct fe as [|[|fe]]; try lia.
    destruct (Core fe 0%nat s kv Hend Hl) as (s' & A & B & C & D & E & _).
    exists s'. repeat split; auto; apply B.
  - exact I.
Qed.

Definition lin_rm (nm : name) (bl : Z) (hl : bool) (off num : Z) (lo hi : option Z) (x : Z) : rmem :=
  mkRM (mkM (lin_param nm bl hl off num lo hi) (Some (VInt (off + num * x))) (VInt (off + num * x)))
       (wire_bytes (raw_fd nm bl hl) x).

Lemma lin_rgood nm bl hl off num lo hi x :
  0 < bl <= 64 -> num <> 0 -> 0 <= x < 2 ^ bl -> in_limits lo hi x = true ->
  rgood 2 (lin_rm nm bl hl off num lo hi x).
Proof.
  intros Hbl Hn Hx Hlim. unfold rgood, lin_rm. cbn [r_m r_w m_p m_in m_out].
  exact (linear_leaf_rt nm bl hl off num lo hi x Hbl Hn Hx Hlim).
Qed.

(* a request: service id, a temperature (-40 + 2 * x, one byte, x <= 200), a signed-looking ramp (1000 - 3 * x,
   little-endian word) *)
Example linear_example :
  let vv (z : Z) := fun _ : name => VInt z in
  let rs := [leaf_rm (mkF [115] 8 BUint None true BUint (Some (VInt 34))) (vv 34) [34];
             lin_rm [116] 8 true (-40) 2 (Some 0) (Some 200) 100;
             lin_rm [114] 16 false 1000 (-3) None None 513] in
  rbytes rs = [34; 100; 1; 2] /\
  in_dict (rms rs) = [([116], VInt 160); ([114], VInt (-539))] /\
  encode_msg (map m_p (rms rs)) None (VDict (in_dict (rms rs))) = Ok (rbytes rs, false) /\
  decode_msg (map m_p (rms rs)) (rbytes rs) = Ok (VDict (out_dict (rms rs))).
Proof. cbv zeta. repeat split; vm_compute; reflexivity. Qed.

Example linear_premises :
  let vv (z : Z) := fun _ : name => VInt z in
  let rs := [leaf_rm (mkF [115] 8 BUint None true BUint (Some (VInt 34))) (vv 34) (wire_bytes (mkF [115] 8 BUint None true BUint (Some (VInt 34))) 34);
             lin_rm [116] 8 true (-40) 2 (Some 0) (Some 200) 100;
             lin_rm [114] 16 false 1000 (-3) None None 513] in
  (forall x, In x rs -> rgood 2 x) /\ NoDup (map m_name (rms rs)) /\ (2 + 1 <= fuel_of (map m_p (rms rs)))%nat.
Proof.
  intros vv rs. split; [|split].
  - intros x [<-|[<-|[<-|[]]]].
    + apply uint_leaf_rgood; cbn; try lia; reflexivity.
    + apply lin_rgood; cbn; try lia; reflexivity.
    + apply lin_rgood; cbn; try lia; reflexivity.
  - repeat constructor; cbn; intuition discriminate.
  - vm_compute. lia.
Qed.
