(* C01 / C02 for messages which end in an END-OF-PDU-FIELD: good members (FieldProofs.v) followed by a list
   of structures which extends to the end of the PDU. The field is no good member -- what its decoder returns
   depends on everything behind it -- so the statement is about whole messages: the PDU is the member bytes
   followed by the item bytes, and decoding it returns the member values and the list of item dictionaries,
   for any number of items (none included) of any non-zero sizes. *)
From Coq Require Import ZArith List Bool Lia.
From OV Require Import Base.Bytes Base.Wire Generated Model.Str Model.Codec
     Proofs.BytesProofs Proofs.AtomicProofs Proofs.CodecProps Proofs.FlatProofs Proofs.TreeProofs Proofs.TreeWireProofs
     Proofs.FieldProofs Proofs.DynFieldProofs.
Import ListNotations.
Open Scope Z_scope.

(* ---------- the loops of a composite over an appended parameter list ---------- *)
Lemma enc_go_app f kv n oe : forall l1 l2 i s,
  enc_go f kv n oe (l1 ++ l2) i s = bind (enc_go f kv n oe l1 i s) (fun s1 => enc_go f kv n oe l2 (i + zlen l1) s1).
Proof.
  induction l1 as [|p l1 IH]; intros l2 i s.
  - cbn [app enc_go bind]. unfold zlen. cbn [length]. now rewrite Z.add_0_r.
  - cbn [app enc_go]. destruct (enc_param f p kv (if i =? n - 1 then set_eop s oe else s)) as [s1|e]; cbn [bind]; [|reflexivity].
    rewrite IH. replace (i + 1 + zlen l1) with (i + zlen (p :: l1)) by (unfold zlen; cbn [length]; lia). reflexivity.
Qed.

Lemma dec_go_app f : forall l1 l2 s acc,
  dec_go f (l1 ++ l2) s acc = bind (dec_go f l1 s acc) (fun r => dec_go f l2 (snd r) (fst r)).
Proof.
  induction l1 as [|p l1 IH]; intros l2 s acc.
  - reflexivity.
  - cbn [app dec_go]. destruct (dec_param f p s) as [[v s1]|e]; cbn [bind]; [|reflexivity]. apply IH.
Qed.

(* ---------- a run of good members inside a longer parameter list ---------- *)
Lemma rseq_loop k rs fe fd kv n oe s i :
  (forall x, In x rs -> rgood k x) ->
  (forall x, In x rs -> lookup (m_name (r_m x)) kv = m_in (r_m x)) ->
  (k <= fe)%nat -> (k <= fd)%nat -> at_end s ->
  exists s',
    enc_go fe kv n oe (map m_p (rms rs)) i s = Ok s' /\ at_end s' /\ e_warn s' = e_warn s /\
    e_origin s' = e_origin s /\ e_msg s' = e_msg s ++ rbytes rs /\
    forall r o lk acc,
      dec_go fd (map m_p (rms rs)) (mkD (e_msg s' ++ r) o (e_cur s) 0 lk) acc =
      Ok (fold_left out_step (rms rs) acc, mkD (e_msg s' ++ r) o (e_cur s') 0 lk).
Proof.
  intros Hg Hl Hfe Hfd Hend.
  assert (Hga : forall x, In x (rms rs) -> appends fe fd (m_p x) (m_in x) (m_out x) /\ lookup (m_name x) kv = m_in x).
  { intros x Hx. unfold rms in Hx. apply in_map_iff in Hx as (y & <- & Hy). split; [|now apply Hl].
    apply (proj1 (Hg y Hy)); assumption. }
  destruct (seq_loop fe fd kv n oe (rms rs) s i Hend Hga) as (s' & w & He & Hend' & Hwarn & Ho & Hmsg & Hdec).
  set (ws := map (fun x => mkW (m_p (r_m x)) (m_in (r_m x)) (r_w x)) rs).
  assert (Hps : map w_p ws = map m_p (rms rs)) by (unfold ws, rms; rewrite !map_map; reflexivity).
  assert (Hgw : forall x, In x ws -> writes fe (w_p x) (w_in x) (w_bytes x) /\ lookup (pname (w_p x)) kv = w_in x).
  { intros x Hx. unfold ws in Hx. apply in_map_iff in Hx as (y & <- & Hy). cbn [w_p w_in w_bytes]. split.
    - apply (proj1 (proj2 (Hg y Hy))). assumption.
    - exact (Hl y Hy). }
  destruct (seq_writes fe kv n oe ws s i Hend Hgw) as (s'' & He2 & _ & _ & _ & Hmsg2).
  rewrite Hps in He2. rewrite He in He2. injection He2 as <-.
  assert (Hb : concat (map w_bytes ws) = rbytes rs) by (unfold ws, rbytes; rewrite map_map; reflexivity).
  rewrite Hb in Hmsg2.
  exists s'. repeat (split; [assumption|]). exact Hdec.
Qed.

(* ---------- the decoder loop of the END-OF-PDU-FIELD as a standalone function ---------- *)
Definition edec_go (f : nat) (sd : dop) :=
  fix go (k : nat) (s : dstate) (acc : list value) : res (list value * dstate) :=
    if blen (d_msg s) <=? d_cur s then Ok (rev acc, s) else
    match k with
    | O => Err EFuel
    | S k' =>
      let oc := d_cur s in
      do vs <- dec_dop f sd s;
      let '(v, s1) := vs in
      if d_cur s1 <=? oc then Err EDecode else go k' s1 (v :: acc)
    end.

(* an item: a structure of good members which occupies at least one byte *)
Definition eitem_ok (k : nat) (ps : list param) (rs : list rmem) : Prop :=
  ditem_ok k ps rs /\ 0 < blen (rbytes rs).

Lemma blen_nonneg (l : list Z) : 0 <= blen l.
Proof. unfold blen. lia. Qed.

Lemma eop_loop k fe fd ps n oe :
  (k <= fe)%nat -> (k <= fd)%nat ->
  forall (items : list (list rmem)) s i,
  at_end s -> (forall rs, In rs items -> eitem_ok k ps rs) ->
  exists s',
    yenc_go (S (S fe)) (DStruct ps None) n oe (map item_in items) i s = Ok s' /\
    at_end s' /\ e_warn s' = e_warn s /\ e_origin s' = e_origin s /\
    e_msg s' = e_msg s ++ concat (map rbytes items) /\
    forall o lk acc kf, (length items <= kf)%nat ->
      edec_go (S (S fd)) (DStruct ps None) kf (mkD (e_msg s') o (e_cur s) 0 lk) acc =
      Ok (rev acc ++ map item_out items, mkD (e_msg s') o (e_cur s') 0 lk).
Proof.
  intros Hfe Hfd. induction items as [|rs items IH]; intros s i Hend Hit.
  - exists s. cbn [map yenc_go concat length]. rewrite !app_nil_r.
    split; [reflexivity|]. split; [exact Hend|]. do 3 (split; [reflexivity|]).
    intros o lk acc kf _. destruct Hend as (_ & Hcur & _).
    destruct kf; cbn [edec_go d_msg d_cur]; rewrite Hcur, Z.leb_refl, app_nil_r; reflexivity.
  - destruct (Hit rs (or_introl eq_refl)) as ((Hps & Hg & ND) & Hpos).
    set (s0 := if i =? n - 1 then set_eop s oe else s).
    assert (Hend0 : at_end s0) by (unfold s0; destruct (i =? n - 1); auto using at_end_set_eop).
    assert (E0 : e_msg s0 = e_msg s /\ e_cur s0 = e_cur s /\ e_warn s0 = e_warn s /\ e_origin s0 = e_origin s)
      by (unfold s0; destruct (i =? n - 1); repeat split; reflexivity).
    destruct E0 as (Em0 & Ec0 & Ew0 & Eo0).
    destruct (composite_rt k rs fe fd s0 Hg ND Hfe Hfd Hend0) as (s1 & He1 & Hend1 & Hw1 & Ho1 & Hm1 & Hd1).
    rewrite Hps in He1, Hd1.
    destruct (IH s1 (i + 1) Hend1 (fun y Hy => Hit y (or_intror Hy))) as (s' & He2 & Hend2 & Hw2 & Ho2 & Hm2 & Hd2).
    assert (Hcur1 : e_cur s1 = e_cur s + blen (rbytes rs)).
    { destruct Hend1 as (_ & C1 & _). destruct Hend0 as (_ & C0 & _). rewrite C1, Hm1, blen_app, <- C0, Ec0. reflexivity. }
    exists s'. split; [|split; [|split; [|split; [|split]]]].
    + cbn [map yenc_go]. change (item_in rs) with (VDict (in_dict (rms rs))). fold s0.
      cbn [enc_dop]. rewrite He1. cbn [bind]. exact He2.
    + exact Hend2.
    + congruence.
    + congruence.
    + rewrite Hm2, Hm1, Em0. cbn [map concat]. now rewrite app_assoc.
    + intros o lk acc kf Hkf. cbn [length] in Hkf. destruct kf as [|kf]; [lia|].
      assert (R1 : e_msg s' = e_msg s1 ++ concat (map rbytes items)) by exact Hm2.
      assert (Hlong : blen (e_msg s') <=? e_cur s = false).
      { apply Z.leb_gt. destruct Hend as (_ & Hcur & _). rewrite R1, Hm1, Em0, !blen_app, Hcur.
        pose proof (blen_nonneg (concat (map rbytes items))). lia. }
      cbn [edec_go d_msg d_cur]. rewrite Hlong.
      cbn [dec_dop]. rewrite R1 at 1. rewrite <- Ec0. rewrite Hd1. cbn [bind d_cur].
      rewrite <- R1.
      replace (e_cur s1 <=? e_cur s0) with false by (symmetry; apply Z.leb_gt; lia).
      change (VDict (out_dict (rms rs))) with (item_out rs).
      rewrite (Hd2 o lk (item_out rs :: acc) kf ltac:(lia)).
      cbn [rev map]. rewrite <- app_assoc. reflexivity.
Qed.

(* the fuel of the decoder loop: one step per item, and every item is at least one byte *)
Lemma items_le_bytes k ps : forall (items : list (list rmem)),
  (forall rs, In rs items -> eitem_ok k ps rs) -> (length items <= length (concat (map rbytes items)))%nat.
Proof.
  induction items as [|rs items IH]; intros H; cbn [map concat length]; [lia|].
  rewrite app_length. pose proof (IH (fun y Hy => H y (or_intror Hy))) as IH'.
  destruct (H rs (or_introl eq_refl)) as (_ & Hpos). unfold blen in Hpos. lia.
Qed.

(* ---------- the field as the last parameter ---------- *)
Definition eop_param (nm : name) (ps : list param) : param :=
  P nm None None (KValue (DEop (DStruct ps None)) None).

(* appended at the end of the message by an encoder which knows that nothing follows (e_eop), read back from
   exactly that message *)
Lemma eop_field_last k nm ps (items : list (list rmem)) :
  (forall rs, In rs items -> eitem_ok k ps rs) ->
  let p := eop_param nm ps in
  let vin := Some (VList (map item_in items)) in
  forall fe fd, (k <= fe)%nat -> (k <= fd)%nat -> forall s kv, at_end s -> e_eop s = true -> lookup nm kv = vin ->
  exists s', enc_param (S (S (S (S fe)))) p kv s = Ok s' /\ at_end s' /\ e_warn s' = e_warn s /\ e_origin s' = e_origin s /\
             e_msg s' = e_msg s ++ concat (map rbytes items) /\
             forall o lk, dec_param (S (S (S (S fd)))) p (mkD (e_msg s') o (e_cur s) 0 lk) =
                          Ok (VList (map item_out items), mkD (e_msg s') o (e_cur s') 0 lk).
Proof.
  intros Hit p vin fe fd Hfe Hfd s kv Hend Heop Hl.
  pose proof Hend as (Hbit & _).
  set (sb := set_eop (set_bit s 0) false).
  assert (Hendb : at_end sb) by (destruct Hend as (A & B & C & D); repeat split; auto).
  destruct (eop_loop k fe fd ps (zlen (map item_in items)) true Hfe Hfd items sb 0 Hendb Hit)
    as (s' & He & Hend' & Hw & Ho & Hm & Hd).
  exists (set_bit (set_eop s' true) 0).
  split; [|split; [|split; [|split; [|split]]]].
  - unfold p, eop_param. cbn [enc_param]. unfold is_required. cbn [pkind_of]. unfold vin in Hl. rewrite Hl.
    cbn [negb orb guard bind]. unfold vget. rewrite Hl. cbn [is_none negb guard bind opt_or0].
    cbn [enc_dop]. cbn [set_bit e_bit e_eop Z.eqb guard bind]. rewrite Heop. cbn [guard bind].
    match goal with |- bind (bind ?X _) _ = _ =>
      change X with (yenc_go (S (S fe)) (DStruct ps None) (zlen (map item_in items)) true (map item_in items) 0 sb) end.
    rewrite He. cbn [bind]. reflexivity.
  - destruct Hend' as (A & B & C & D). repeat split; auto.
  - cbn. exact Hw.
  - cbn. exact Ho.
  - cbn. exact Hm.
  - intros o lk. unfold p, eop_param. cbn [dec_param]. cbn [opt_or0].
    cbn [set_bit set_eop e_msg e_cur].
    change (dset_bit (mkD (e_msg s') o (e_cur s) 0 lk) 0) with (mkD (e_msg s') o (e_cur s) 0 lk).
    cbn [dec_dop]. cbn [d_bit Z.eqb guard bind d_origin d_cur d_msg].
    change (dset_origin (mkD (e_msg s') o (e_cur s) 0 lk) (e_cur s)) with (mkD (e_msg s') (e_cur s) (e_cur s) 0 lk).
    assert (Hfuel : (length items <= S (length (e_msg s')))%nat).
    { rewrite Hm, app_length. pose proof (items_le_bytes k ps items Hit). lia. }
    specialize (Hd (e_cur s) lk [] (S (length (e_msg s'))) Hfuel). cbn [sb set_eop set_bit e_cur] in Hd.
    match goal with |- bind (bind ?X _) _ = _ =>
      change X with (edec_go (S (S fd)) (DStruct ps None) (S (length (e_msg s'))) (mkD (e_msg s') (e_cur s) (e_cur s) 0 lk) []) end.
    rewrite Hd. cbn [bind rev app fst snd dset_origin dset_bit d_msg d_origin d_cur d_bit d_lkeys].
    reflexivity.
Qed.

(* ---------- messages: good members, then the field ---------- *)
Definition eop_member (nm : name) (ps : list param) (items : list (list rmem)) : member :=
  mkM (eop_param nm ps) (Some (VList (map item_in items))) (VList (map item_out items)).

Lemma in_dict_app a b : in_dict (a ++ b) = in_dict a ++ in_dict b.
Proof. unfold in_dict. apply flat_map_app. Qed.

Theorem eop_message_roundtrip k rs nm psi (items : list (list rmem)) :
  (forall x, In x rs -> rgood k x) ->
  (forall it, In it items -> eitem_ok k psi it) ->
  let ms := rms rs ++ [eop_member nm psi items] in
  NoDup (map m_name ms) ->
  let ps := map m_p ms in
  (k + 5 <= fuel_of ps)%nat ->
  let pdu := rbytes rs ++ concat (map rbytes items) in
  encode_msg ps None (VDict (in_dict ms)) = Ok (pdu, false) /\
  decode_msg ps pdu = Ok (VDict (out_dict ms)).
Proof.
  intros Hg Hit ms ND ps Hfuel pdu.
  destruct (fuel_of ps) as [|[|[|[|[|F]]]]] eqn:EF; try lia.
  set (me := eop_member nm psi items) in *.
  set (kv := in_dict ms).
  assert (Hps : ps = map m_p (rms rs) ++ [eop_param nm psi]) by (unfold ps, ms; rewrite map_app; reflexivity).
  assert (Hlk : forall x, In x ms -> lookup (m_name x) kv = m_in x) by (intros x Hx; now apply lookup_in_dict).
  set (s0 := set_eop (set_origin (estate0 None) (e_cur (estate0 None))) false).
  assert (Hend0 : at_end s0) by (repeat split; reflexivity).
  assert (Hl1 : forall x, In x rs -> lookup (m_name (r_m x)) kv = m_in (r_m x)).
  { intros x Hx. apply Hlk. unfold ms. apply in_or_app. left. unfold rms. now apply in_map. }
  destruct (rseq_loop k rs (S (S (S (S F)))) (S (S (S (S F)))) kv (zlen ps) true s0 0 Hg Hl1 ltac:(lia) ltac:(lia) Hend0)
    as (s1 & He1 & Hend1 & Hw1 & Ho1 & Hm1 & Hd1).
  (* the field *)
  set (s1e := set_eop s1 true).
  assert (Hend1e : at_end s1e) by (now apply at_end_set_eop).
  assert (Hlf : lookup nm kv = Some (VList (map item_in items))).
  { apply (Hlk me). unfold ms. apply in_or_app. right. now left. }
  destruct (eop_field_last k nm psi items Hit F F ltac:(lia) ltac:(lia) s1e kv Hend1e eq_refl Hlf)
    as (s2 & He2 & Hend2 & Hw2 & Ho2 & Hm2 & Hd2).
  assert (Hmsg : e_msg s2 = pdu).
  { rewrite Hm2. cbn [s1e set_eop e_msg]. rewrite Hm1. reflexivity. }
  assert (Hwarn : e_warn s2 = false) by (rewrite Hw2; cbn [s1e set_eop e_warn]; rewrite Hw1; reflexivity).
  assert (Hlast : 0 + zlen (map m_p (rms rs)) =? zlen ps - 1 = true).
  { apply Z.eqb_eq. rewrite Hps. unfold zlen. rewrite app_length. cbn [length]. lia. }
  split.
  - unfold encode_msg. rewrite EF. cbn [enc_composite].
    no_own_keys ltac:(intros q Hq; rewrite Hps in Hq; apply in_app_or in Hq as [Hq|[<-|[]]]; [|exact I];
                      unfold rms in Hq; rewrite map_map in Hq; apply in_map_iff in Hq as (x & <- & Hx);
                      apply (proj2 (proj2 (Hg x Hx)))).
    cbn [estate0 e_bit Z.eqb guard bind].
    pose proof (known_members ms ms (incl_refl ms)) as Hkm. fold ps in Hkm. fold kv in Hkm. fold kv. rewrite Hkm. cbn [guard bind].
    match goal with |- bind (bind ?X _) _ = _ =>
      change X with (enc_go (S (S (S (S F)))) kv (zlen ps) true ps 0 s0) end.
    rewrite Hps at 2. rewrite enc_go_app, He1. cbn [bind enc_go]. rewrite Hlast. fold s1e. rewrite He2. cbn [bind].
    pose proof (keys_none (S (S (S (S F)))) ps (set_eop s2 false)) as Hkeys. unfold keys_go in Hkeys.
    rewrite Hkeys.
    + cbn [bind e_msg e_warn set_origin set_cur set_eop]. rewrite Hmsg, Hwarn. reflexivity.
    + intros q Hq. rewrite Hps in Hq. apply in_app_or in Hq as [Hq|[<-|[]]]; [|exact I].
      unfold rms in Hq. rewrite map_map in Hq. apply in_map_iff in Hq as (x & <- & Hx). apply (proj2 (proj2 (Hg x Hx))).
  - unfold decode_msg. rewrite EF. cbn [dec_composite dstate0 d_origin d_cur dset_origin d_msg d_bit d_lkeys].
    change (dset_origin (dstate0 pdu) 0) with (mkD pdu 0 0 0 []).
    match goal with |- bind (bind ?X _) _ = _ =>
      change X with (dec_go (S (S (S (S F)))) ps (mkD pdu 0 0 0 []) []) end.
    rewrite Hps. rewrite dec_go_app.
    specialize (Hd1 (concat (map rbytes items)) 0 [] []). cbn [s0 estate0 e_cur set_eop set_origin] in Hd1.
    assert (Hp1 : e_msg s1 ++ concat (map rbytes items) = pdu) by (rewrite Hm1; reflexivity).
    rewrite Hp1 in Hd1. rewrite Hd1. cbn [bind fst snd dec_go].
    specialize (Hd2 0 []). cbn [s1e set_eop e_cur] in Hd2. rewrite Hmsg in Hd2. rewrite Hd2. cbn [bind fst snd].
    cbn [dset_origin d_msg d_origin d_cur d_bit d_lkeys].
    change (pname (eop_param nm psi)) with (m_name me).
    change (update (m_name me) (VList (map item_out items)) (fold_left out_step (rms rs) [])) with
           (fold_left out_step [me] (fold_left out_step (rms rs) [])).
    rewrite <- fold_left_app. fold ms. rewrite fold_out_nodup; auto.
Qed.

(* a request: service id, a counter, then records {a: 8 bit, b: 16 bit little endian} to the end of the PDU *)
Example eop_example :
  let u8 nm := mkF nm 8 BUint None true BUint None in
  let u16le nm := mkF nm 16 BUint None false BUint None in
  let vv (z : Z) := fun _ : name => VInt z in
  let item (a b : Z) := [leaf_rm (u8 [97]) (vv a) (wire_bytes (u8 [97]) a); leaf_rm (u16le [98]) (vv b) (wire_bytes (u16le [98]) b)] in
  let items := [item 1 258; item 2 772; item 255 65535] in
  let ps_item := map m_p (rms (item 0 0)) in
  let rs := [leaf_rm (mkF [115] 8 BUint None true BUint (Some (VInt 34))) (vv 34) [34];
             leaf_rm (u8 [122]) (vv 9) [9]] in
  let ms := rms rs ++ [eop_member [102] ps_item items] in
  let pdu := rbytes rs ++ concat (map rbytes items) in
  pdu = [34; 9; 1; 2; 1; 2; 4; 3; 255; 255; 255] /\
  encode_msg (map m_p ms) None (VDict (in_dict ms)) = Ok (pdu, false) /\
  decode_msg (map m_p ms) pdu = Ok (VDict (out_dict ms)) /\
  (* no items: the field is empty *)
  encode_msg (map m_p (rms rs ++ [eop_member [102] ps_item []])) None (VDict (in_dict (rms rs ++ [eop_member [102] ps_item []]))) = Ok ([34; 9], false) /\
  decode_msg (map m_p (rms rs ++ [eop_member [102] ps_item []])) [34; 9] = Ok (VDict (out_dict (rms rs ++ [eop_member [102] ps_item []]))).
Proof. cbv zeta. split; [vm_compute; reflexivity|]. repeat split; vm_compute; reflexivity. Qed.

(* the premises of eop_message_roundtrip are met by the example *)
Example eop_premises :
  let u8 nm := mkF nm 8 BUint None true BUint None in
  let u16le nm := mkF nm 16 BUint None false BUint None in
  let vv (z : Z) := fun _ : name => VInt z in
  let item (a b : Z) := [leaf_rm (u8 [97]) (vv a) (wire_bytes (u8 [97]) a); leaf_rm (u16le [98]) (vv b) (wire_bytes (u16le [98]) b)] in
  let items := [item 1 258; item 2 772; item 255 65535] in
  let ps_item := map m_p (rms (item 0 0)) in
  let rs := [leaf_rm (mkF [115] 8 BUint None true BUint (Some (VInt 34))) (vv 34) (wire_bytes (mkF [115] 8 BUint None true BUint (Some (VInt 34))) 34);
             leaf_rm (u8 [122]) (vv 9) (wire_bytes (u8 [122]) 9)] in
  let ms := rms rs ++ [eop_member [102] ps_item items] in
  (forall x, In x rs -> rgood 2 x) /\ (forall it, In it items -> eitem_ok 2 ps_item it) /\
  NoDup (map m_name ms) /\ (2 + 5 <= fuel_of (map m_p ms))%nat.
Proof.
  intros u8 u16le vv item items ps_item rs ms.
  assert (Hitem : forall a b, 0 <= a < 256 -> 0 <= b < 65536 -> eitem_ok 2 ps_item (item a b)).
  { intros a b Ha Hb. split; [split; [reflexivity|split]|].
    - intros x [<-|[<-|[]]]; apply uint_leaf_rgood; cbn; try lia; exact I.
    - repeat constructor; cbn; intuition discriminate.
    - unfold rbytes, item, u8, u16le. cbn [map r_w leaf_rm concat]. rewrite !blen_app.
      unfold wire_bytes, fbytes, nbytes_of. cbn [f_bl f_hl f_bt is_numeric negb andb].
      rewrite blen_rev. unfold blen. rewrite !to_be_length. cbn. lia. }
  split; [|split; [|split]].
  - intros x [<-|[<-|[]]]; apply uint_leaf_rgood; cbn; try lia; first [reflexivity | exact I].
  - intros r [<-|[<-|[<-|[]]]]; apply Hitem; lia.
  - repeat constructor; cbn; intuition discriminate.
  - vm_compute. lia.
Qed.
