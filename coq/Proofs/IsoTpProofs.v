(* Proofs about Model/IsoTp.v *)
From Coq Require Import ZArith List Bool Lia.
From OV Require Import Base.Wire Generated Model.IsoTp.
Import ListNotations.
Open Scope Z_scope.

Ltac Zify.zify_post_hook ::= Z.div_mod_to_equations.

(* ------------------------------------------------------------------ *)
(* basic list / length facts *)
Lemma blen_app a b : blen (a ++ b) = blen a + blen b.
Proof. unfold blen. rewrite app_length. lia. Qed.

Lemma blen_nonneg a : 0 <= blen a.
Proof. unfold blen. lia. Qed.

Lemma blen_cons x a : blen (x :: a) = 1 + blen a.
Proof. unfold blen. simpl List.length. lia. Qed.

Lemma take_app_exact a b : take (blen a) (a ++ b) = a.
Proof.
  unfold take, blen. rewrite Nat2Z.id.
  rewrite firstn_app, Nat.sub_diag, firstn_all. simpl. apply app_nil_r.
Qed.

Lemma take_drop n a : take n a ++ drop n a = a.
Proof. apply firstn_skipn. Qed.

Lemma blen_take n a : 0 <= n <= blen a -> blen (take n a) = n.
Proof. unfold blen, take. intros H. rewrite firstn_length. lia. Qed.

Lemma blen_drop n a : 0 <= n <= blen a -> blen (drop n a) = blen a - n.
Proof. unfold blen, drop. intros H. rewrite skipn_length. lia. Qed.

(* ------------------------------------------------------------------ *)
(* running the frames addressed to one slot *)
Fixpoint slot_run (s : slot) (ds : list bytes) : slot * list bytes :=
  match ds with
  | [] => (s, [])
  | d :: r => let '(s1, ts, _) := slot_step s d in
              let '(s2, ts2) := slot_run s1 r in (s2, ts ++ ts2)
  end.

Lemma slot_run_cons s d r :
  slot_run s (d :: r) = let '(s1, ts, _) := slot_step s d in
                        let '(s2, ts2) := slot_run s1 r in (s2, ts ++ ts2).
Proof. reflexivity. Qed.

Lemma slot_run_app s a b :
  slot_run s (a ++ b) =
  let '(s1, t1) := slot_run s a in let '(s2, t2) := slot_run s1 b in (s2, t1 ++ t2).
Proof.
  revert s; induction a as [|d a IH]; intros s; simpl.
  - destruct (slot_run s b). reflexivity.
  - destruct (slot_step s d) as [[s1 ts] cbs]. rewrite IH.
    destruct (slot_run s1 a) as [s2 t2]. destruct (slot_run s2 b) as [s3 t3].
    now rewrite app_assoc.
Qed.

(* ---------- single frames ---------- *)
Lemma sf_step s t pad :
  1 <= blen t <= 7 ->
  exists c, slot_step s (blen t :: t ++ pad) = (s, [t], c).
Proof.
  intros H. unfold slot_step.
  replace (blen t / 16) with 0 by lia. replace (blen t mod 16) with (blen t) by lia.
  unfold isotp_frame_type_single. simpl (0 =? 0).
  replace (blen t =? 0) with false by lia. simpl andb.
  unfold drop. simpl skipn. rewrite take_app_exact. eexists. reflexivity.
Qed.

Lemma sf_esc_step s t pad :
  8 <= blen t <= 255 ->
  exists c, slot_step s (0 :: blen t :: t ++ pad) = (s, [t], c).
Proof.
  intros H. unfold slot_step.
  change (0 / 16) with 0. change (0 mod 16) with 0.
  unfold isotp_frame_type_single. simpl (0 =? 0).
  replace (8 <? blen (0 :: blen t :: t ++ pad)) with true.
  2:{ rewrite !blen_cons, blen_app. pose proof (blen_nonneg pad). lia. }
  simpl andb. simpl nth. unfold drop. simpl skipn. rewrite take_app_exact. eexists. reflexivity.
Qed.

(* ---------- first frame ---------- *)
Lemma ff_step s n pl :
  0 < n <= 4095 ->
  exists c, slot_step s ((16 + n / 256) :: (n mod 256) :: pl) = (mkSlot n (Some pl) 0, [], c).
Proof.
  intros H. unfold slot_step.
  replace ((16 + n / 256) / 16) with 1 by lia.
  replace ((16 + n / 256) mod 16) with (n / 256) by lia.
  unfold isotp_frame_type_single, isotp_frame_type_first. simpl (1 =? 0). simpl (1 =? 1).
  replace (n / 256 * 256 + n mod 256) with n by lia.
  replace (n =? 0) with false by lia. cbn [andb]. eexists. reflexivity.
Qed.

(* the escape of ISO 15765-2:2016: a first frame announcing its length as 32 bit number *)
Lemma be_len_be4 n : 0 <= n < 4294967296 -> be_len (be4 n) = n.
Proof. intros H. unfold be_len, be4. cbn [fold_left]. lia. Qed.

Lemma ff_esc_step s n pl :
  0 <= n < 4294967296 ->
  exists c, slot_step s (16 :: 0 :: be4 n ++ pl) = (mkSlot n (Some pl) 0, [], c).
Proof.
  intros H. unfold slot_step.
  change (16 / 16) with 1. change (16 mod 16) with 0.
  unfold isotp_frame_type_single, isotp_frame_type_first. simpl (1 =? 0). simpl (1 =? 1).
  change (0 * 256 + 0 =? 0) with true.
  replace (6 <=? blen (16 :: 0 :: be4 n ++ pl)) with true.
  2:{ unfold be4. cbn [app]. rewrite !blen_cons. pose proof (blen_nonneg pl). lia. }
  cbn [andb].
  assert (T : take 4 (be4 n ++ pl) = be4 n) by reflexivity.
  assert (D : drop 4 (be4 n ++ pl) = pl) by reflexivity.
  rewrite T, D, be_len_be4 by exact H. eexists. reflexivity.
Qed.

(* ---------- consecutive frames ---------- *)
Lemma cf_step_last n acc lastv k rest pad :
  (lastv + 1) mod 16 = k mod 16 ->
  n = blen acc + blen rest ->
  exists c, slot_step (mkSlot n (Some acc) lastv) ((32 + k mod 16) :: rest ++ pad)
            = (mkSlot n None (k mod 16), [acc ++ rest], c).
Proof.
  intros Hk Hn. unfold slot_step.
  replace ((32 + k mod 16) / 16) with 2 by lia.
  replace ((32 + k mod 16) mod 16) with (k mod 16) by lia.
  unfold isotp_frame_type_single, isotp_frame_type_first, isotp_frame_type_consecutive.
  simpl (2 =? 0). simpl (2 =? 1). simpl (2 =? 2). cbn [data last_idx spec_len].
  rewrite Hk, Z.eqb_refl.
  replace (n <=? blen (acc ++ rest ++ pad)) with true.
  2:{ rewrite !blen_app. pose proof (blen_nonneg pad). lia. }
  rewrite app_assoc, Hn, <- blen_app, take_app_exact. eexists. reflexivity.
Qed.

Lemma cf_step_mid n acc lastv k chunk :
  (lastv + 1) mod 16 = k mod 16 ->
  blen acc + blen chunk < n ->
  exists c, slot_step (mkSlot n (Some acc) lastv) ((32 + k mod 16) :: chunk)
            = (mkSlot n (Some (acc ++ chunk)) (k mod 16), [], c).
Proof.
  intros Hk Hn. unfold slot_step.
  replace ((32 + k mod 16) / 16) with 2 by lia.
  replace ((32 + k mod 16) mod 16) with (k mod 16) by lia.
  unfold isotp_frame_type_single, isotp_frame_type_first, isotp_frame_type_consecutive.
  simpl (2 =? 0). simpl (2 =? 1). simpl (2 =? 2). cbn [data last_idx spec_len].
  rewrite Hk, Z.eqb_refl.
  replace (n <=? blen (acc ++ chunk)) with false by (rewrite blen_app; lia).
  eexists. reflexivity.
Qed.

Lemma cfs_run fuel : forall fsz k rest pad acc n lastv,
  8 <= fsz -> (List.length rest <= fuel)%nat -> 1 <= blen rest ->
  n = blen acc + blen rest ->
  (lastv + 1) mod 16 = k mod 16 ->
  exists s', slot_run (mkSlot n (Some acc) lastv) (cfs fuel fsz k rest pad) = (s', [acc ++ rest])
             /\ data s' = None.
Proof.
  induction fuel as [|f IH]; intros fsz k rest pad acc n lastv Hf Hl Hr Hn Hk.
  - unfold blen in Hr. lia.
  - cbn [cfs]. destruct (blen rest <=? fsz - 1) eqn:E.
    + rewrite slot_run_cons. destruct (cf_step_last n acc lastv k rest pad Hk Hn) as [c ->].
      eexists. split; reflexivity.
    + apply Z.leb_gt in E.
      rewrite slot_run_cons.
      assert (Ht : blen (take (fsz - 1) rest) = fsz - 1) by (apply blen_take; lia).
      destruct (cf_step_mid n acc lastv k (take (fsz - 1) rest) Hk) as [c ->]; [lia|].
      assert (Hd : blen (drop (fsz - 1) rest) = blen rest - (fsz - 1)) by (apply blen_drop; lia).
      assert (A1 : (List.length (drop (fsz - 1) rest) <= f)%nat) by (unfold blen in *; lia).
      assert (A2 : 1 <= blen (drop (fsz - 1) rest)) by lia.
      assert (A3 : n = blen (acc ++ take (fsz - 1) rest) + blen (drop (fsz - 1) rest))
        by (rewrite blen_app; lia).
      assert (A4 : (k mod 16 + 1) mod 16 = (k + 1) mod 16) by lia.
      destruct (IH fsz (k + 1) (drop (fsz - 1) rest) pad (acc ++ take (fsz - 1) rest) n (k mod 16)
                   Hf A1 A2 A3 A4) as (s' & R & D).
      exists s'. rewrite R. rewrite <- app_assoc, take_drop. split; [reflexivity | exact D].
Qed.

(* ---------- one whole transfer, from ANY slot state ---------- *)
Lemma seg_run s fsz t pad :
  8 <= fsz -> 1 <= blen t < 4294967296 ->
  exists s', slot_run s (segment fsz t pad) = (s', [t]).
Proof.
  intros Hf Ht. unfold segment.
  destruct (blen t <=? 7) eqn:E1.
  - apply Z.leb_le in E1. rewrite slot_run_cons.
    destruct (sf_step s t pad) as [c ->]; [lia|]. eexists. reflexivity.
  - apply Z.leb_gt in E1. destruct (blen t <=? fsz - 2) eqn:E2.
    + apply Z.leb_le in E2. rewrite slot_run_cons.
      destruct (Z.le_gt_cases (blen t) 255) as [L|G].
      * destruct (sf_esc_step s t pad) as [c ->]; [lia|]. eexists. reflexivity.
      * (* escape single frames longer than 255 bytes do not exist: fsz - 2 >= 256 *)
        unfold slot_step. change (0 / 16) with 0. change (0 mod 16) with 0.
        unfold isotp_frame_type_single. simpl (0 =? 0).
        replace (8 <? blen (0 :: blen t :: t ++ pad)) with true.
        2:{ rewrite !blen_cons, blen_app. pose proof (blen_nonneg pad). lia. }
        simpl andb. simpl nth. unfold drop. simpl skipn. rewrite take_app_exact.
        eexists. reflexivity.
    + apply Z.leb_gt in E2. destruct (blen t <=? 4095) eqn:E3.
      * apply Z.leb_le in E3. rewrite slot_run_cons.
        destruct (ff_step s (blen t) (take (fsz - 2) t)) as [c ->]; [lia|].
        assert (Hd : blen (drop (fsz - 2) t) = blen t - (fsz - 2)) by (apply blen_drop; lia).
        assert (A1 : (List.length (drop (fsz - 2) t) <= List.length t)%nat)
          by (unfold drop; rewrite skipn_length; lia).
        assert (A2 : 1 <= blen (drop (fsz - 2) t)) by lia.
        assert (A3 : blen t = blen (take (fsz - 2) t) + blen (drop (fsz - 2) t))
          by (rewrite blen_take by lia; lia).
        assert (A4 : (0 + 1) mod 16 = 1 mod 16) by reflexivity.
        destruct (cfs_run (List.length t) fsz 1 (drop (fsz - 2) t) pad (take (fsz - 2) t) (blen t) 0
                          Hf A1 A2 A3 A4) as (s' & R & _).
        rewrite R, take_drop. eexists. reflexivity.
      * (* more than 4095 bytes: the first frame carries the length as 32 bit number and fsz - 6 bytes *)
        apply Z.leb_gt in E3. rewrite slot_run_cons.
        destruct (ff_esc_step s (blen t) (take (fsz - 6) t)) as [c ->]; [lia|].
        assert (Hd : blen (drop (fsz - 6) t) = blen t - (fsz - 6)) by (apply blen_drop; lia).
        assert (A1 : (List.length (drop (fsz - 6) t) <= List.length t)%nat)
          by (unfold drop; rewrite skipn_length; lia).
        assert (A2 : 1 <= blen (drop (fsz - 6) t)) by lia.
        assert (A3 : blen t = blen (take (fsz - 6) t) + blen (drop (fsz - 6) t))
          by (rewrite blen_take by lia; lia).
        assert (A4 : (0 + 1) mod 16 = 1 mod 16) by reflexivity.
        destruct (cfs_run (List.length t) fsz 1 (drop (fsz - 6) t) pad (take (fsz - 6) t) (blen t) 0
                          Hf A1 A2 A3 A4) as (s' & R & _).
        rewrite R, take_drop. eexists. reflexivity.
Qed.

(* a sequence of transfers: exactly the telegrams, in order, each once *)
Definition transfer := (Z * bytes * bytes)%type.   (* frame size, telegram, padding *)
Definition tr_ok (x : transfer) : Prop :=
  let '(fsz, t, _) := x in 8 <= fsz /\ 1 <= blen t < 4294967296.
Definition tr_frames (x : transfer) : list bytes := let '(fsz, t, pad) := x in segment fsz t pad.
Definition tr_tele (x : transfer) : bytes := let '(_, t, _) := x in t.

Lemma transfers_run xs : forall s,
  Forall tr_ok xs ->
  exists s', slot_run s (flat_map tr_frames xs) = (s', map tr_tele xs).
Proof.
  induction xs as [|[[fsz t] pad] xs IH]; intros s H; simpl.
  - now exists s.
  - inversion H as [|? ? Hx H3]; subst. cbn in Hx. destruct Hx as [H1 H2].
    rewrite slot_run_app.
    destruct (seg_run s fsz t pad H1 H2) as [s1 ->].
    destruct (IH s1 H3) as [s2 ->]. eexists. reflexivity.
Qed.

(* ------------------------------------------------------------------ *)
(* flow-control frames are neutral *)
Definition is_fc (d : bytes) : bool :=
  match d with b0 :: _ => b0 / 16 =? 3 | [] => false end.

Lemma fc_step s d : is_fc d = true -> exists c, slot_step s d = (s, [], c).
Proof.
  destruct d as [|b0 r]; [discriminate|]. unfold is_fc. intros H. apply Z.eqb_eq in H.
  unfold slot_step. rewrite H.
  unfold isotp_frame_type_single, isotp_frame_type_first, isotp_frame_type_consecutive,
    isotp_frame_type_flow_control.
  simpl. eexists. reflexivity.
Qed.

Lemma slot_run_filter_fc ds : forall s,
  slot_run s (filter (fun d => negb (is_fc d)) ds) = slot_run s ds.
Proof.
  induction ds as [|d ds IH]; intros s; simpl; [reflexivity|].
  destruct (is_fc d) eqn:E; simpl.
  - destruct (fc_step s d E) as [c ->]. rewrite IH. destruct (slot_run s ds). reflexivity.
  - destruct (slot_step s d) as [[s1 ts] c]. rewrite IH. reflexivity.
Qed.

(* ------------------------------------------------------------------ *)
(* machine level: frames of other ids never disturb an id *)
Definition wfm (m : machine) : Prop := List.length (slots m) = List.length (ids m).

Lemma set_nth_length {A} n (x : A) l : List.length (set_nth n x l) = List.length l.
Proof. revert n; induction l as [|y l IH]; intros [|n]; simpl; auto. Qed.

Lemma nth_set_nth_same {A} n (x d : A) l : (n < List.length l)%nat -> nth n (set_nth n x l) d = x.
Proof. revert n; induction l as [|y l IH]; intros [|n] H; simpl in *; try lia; auto. apply IH. lia. Qed.

Lemma nth_set_nth_other {A} n m (x d : A) l : n <> m -> nth m (set_nth n x l) d = nth m l d.
Proof.
  revert n m; induction l as [|y l IH]; intros [|n] [|m] H; simpl; auto; try congruence.
Qed.

Lemma index_of_spec x l : forall n i,
  index_of x l n = Some i -> (n <= i < n + List.length l)%nat /\ nth (i - n) l 0 = x.
Proof.
  induction l as [|y l IH]; intros n i; simpl; [discriminate|].
  destruct (x =? y) eqn:E.
  - intros [= <-]. apply Z.eqb_eq in E. rewrite Nat.sub_diag. split; [lia | now subst].
  - intros H. apply IH in H as [H1 H2]. split; [lia|].
    destruct (i - n)%nat eqn:D; [lia|]. replace (i - S n)%nat with n0 in H2 by lia. exact H2.
Qed.

Lemma index_of_inj x y l i :
  index_of x l 0 = Some i -> index_of y l 0 = Some i -> x = y.
Proof.
  intros H1 H2. apply index_of_spec in H1 as [_ H1]. apply index_of_spec in H2 as [_ H2]. congruence.
Qed.

Lemma step_wfm m f : wfm m -> wfm (fst (fst (step m f))).
Proof.
  unfold wfm, step. destruct f as [rx d]. destruct (index_of rx (ids m) 0); [|auto].
  destruct (slot_step _ d) as [[s' ts] c]. simpl. now rewrite set_nth_length.
Qed.

Definition tele_of (a : Z) (ts : list (Z * bytes)) := filter (fun p => fst p =? a) ts.

Lemma tele_of_app a x y : tele_of a (x ++ y) = tele_of a x ++ tele_of a y.
Proof. apply filter_app. Qed.

Lemma tele_of_map_same a ts : tele_of a (map (fun t => (a, t)) ts) = map (fun t => (a, t)) ts.
Proof. induction ts; simpl; [reflexivity|]. rewrite Z.eqb_refl. now f_equal. Qed.

Lemma tele_of_map_other a b ts : a <> b -> tele_of a (map (fun t => (b, t)) ts) = [].
Proof.
  intros H. induction ts; simpl; [reflexivity|].
  replace (b =? a) with false by lia. assumption.
Qed.

Definition same_slot (a : Z) (m1 m2 : machine) : Prop :=
  ids m1 = ids m2 /\ wfm m1 /\ wfm m2 /\
  forall i, index_of a (ids m1) 0 = Some i -> nth i (slots m1) slot0 = nth i (slots m2) slot0.

Lemma projection_gen a fs : forall m1 m2,
  same_slot a m1 m2 ->
  tele_of a (snd (run m1 fs)) = tele_of a (snd (run m2 (filter (fun f => fst f =? a) fs))).
Proof.
  induction fs as [|[rx d] fs IH]; intros m1 m2 S; [reflexivity|].
  cbn [filter fst]. destruct (rx =? a) eqn:E.
  - apply Z.eqb_eq in E. subst rx. cbn [run].
    destruct S as (I & W1 & W2 & Sl).
    destruct (step m1 (a, d)) as [[m1' ts1] c1] eqn:S1.
    destruct (step m2 (a, d)) as [[m2' ts2] c2] eqn:S2.
    unfold step in S1, S2. rewrite <- I in S2.
    destruct (index_of a (ids m1) 0) as [i|] eqn:Ix.
    + rewrite <- (Sl i eq_refl) in S2.
      destruct (slot_step (nth i (slots m1) slot0) d) as [[s' ts] c].
      injection S1 as <- <- <-. injection S2 as <- <- <-.
      specialize (IH (mkMachine (ids m1) (set_nth i s' (slots m1)))
                     (mkMachine (ids m1) (set_nth i s' (slots m2)))).
      destruct (run (mkMachine (ids m1) (set_nth i s' (slots m1))) fs) as [ma ta].
      destruct (run (mkMachine (ids m1) (set_nth i s' (slots m2))) _) as [mb tb].
      simpl. rewrite !tele_of_app. f_equal. apply IH.
      apply index_of_spec in Ix as Hi. destruct Hi as [Hi _].
      unfold same_slot, wfm in *. rewrite <- I in W2. simpl. rewrite !set_nth_length.
      repeat split; try assumption; try congruence.
      intros j Hj. assert (j = i) by congruence. subst j.
      rewrite !nth_set_nth_same; try reflexivity; lia.
    + injection S1 as <- <- <-. injection S2 as <- <- <-.
      specialize (IH m1 m2). destruct (run m1 fs), (run m2 _). simpl. apply IH.
      unfold same_slot. repeat split; try assumption. intros j Hj. congruence.
  - apply Z.eqb_neq in E. cbn [run].
    destruct (step m1 (rx, d)) as [[m1' ts1] c1] eqn:S1.
    specialize (IH m1' m2).
    destruct (run m1' fs) as [ma ta]. simpl. rewrite tele_of_app.
    unfold step in S1.
    destruct S as (I & W1 & W2 & Sl).
    destruct (index_of rx (ids m1) 0) as [i|] eqn:Ix.
    + destruct (slot_step (nth i (slots m1) slot0) d) as [[s' ts] c].
      injection S1 as <- <- <-.
      rewrite tele_of_map_other by congruence. simpl. apply IH.
      unfold same_slot, wfm in *. simpl. rewrite set_nth_length.
      repeat split; try assumption.
      intros j Hj. rewrite nth_set_nth_other; [now apply Sl|].
      intros ->. apply E. eapply index_of_inj; eassumption.
    + injection S1 as <- <- <-. simpl. apply IH. unfold same_slot. auto.
Qed.

Lemma machine0_wfm l : wfm (machine0 l).
Proof. unfold wfm, machine0. simpl. apply map_length. Qed.

Lemma projection a l fs :
  tele_of a (telegrams l fs) = tele_of a (telegrams l (filter (fun f => fst f =? a) fs)).
Proof.
  unfold telegrams. apply projection_gen. unfold same_slot.
  repeat split; auto using machine0_wfm.
Qed.

(* a run over frames of one id is a slot run *)
Lemma run_single_id a ds : forall m i,
  wfm m -> index_of a (ids m) 0 = Some i ->
  snd (run m (map (fun d => (a, d)) ds)) =
  map (fun t => (a, t)) (snd (slot_run (nth i (slots m) slot0) ds)).
Proof.
  induction ds as [|d ds IH]; intros m i W Ix; [reflexivity|].
  cbn [map run slot_run]. unfold step. rewrite Ix.
  destruct (slot_step (nth i (slots m) slot0) d) as [[s' ts] c].
  specialize (IH (mkMachine (ids m) (set_nth i s' (slots m))) i).
  destruct (run (mkMachine (ids m) (set_nth i s' (slots m))) (map (fun d => (a, d)) ds)) as [m2 t2].
  simpl in IH |- *.
  apply index_of_spec in Ix as Hi. destruct Hi as [Hi _]. unfold wfm in W.
  rewrite IH; [| unfold wfm; simpl; now rewrite set_nth_length | assumption].
  rewrite nth_set_nth_same by lia.
  destruct (slot_run s' ds). simpl. now rewrite map_app.
Qed.

Lemma In_index_of a l : In a l -> exists i, index_of a l 0 = Some i.
Proof.
  generalize 0%nat. induction l as [|y l IH]; intros n H; [contradiction|]. simpl.
  destruct (a =? y) eqn:E; [eauto|]. apply IH. destruct H as [->|H]; [lia | assumption].
Qed.

Lemma filter_id_split a fs :
  filter (fun f : frame => fst f =? a) fs = map (fun d => (a, d)) (map snd (filter (fun f : frame => fst f =? a) fs)).
Proof.
  induction fs as [|[rx d] fs IH]; simpl; [reflexivity|].
  destruct (rx =? a) eqn:E; simpl; [|assumption].
  apply Z.eqb_eq in E. subst. now f_equal.
Qed.

(* The main reassembly theorem: any interleaving. *)
Lemma reassembly l fs a xs :
  In a l -> Forall tr_ok xs ->
  filter (fun d => negb (is_fc d)) (map snd (filter (fun f : frame => fst f =? a) fs))
    = flat_map tr_frames xs ->
  tele_of a (telegrams l fs) = map (fun x => (a, tr_tele x)) xs.
Proof.
  intros Hin Hok Hfs. rewrite projection, filter_id_split.
  destruct (In_index_of a l Hin) as [i Ix].
  unfold telegrams. rewrite (run_single_id a _ (machine0 l) i (machine0_wfm l) Ix).
  rewrite tele_of_map_same, <- slot_run_filter_fc, Hfs.
  destruct (transfers_run xs (nth i (slots (machine0 l)) slot0) Hok) as [s' ->].
  simpl. now rewrite map_map.
Qed.

(* recovery: whatever happened before, a well-formed transfer is reassembled *)
Lemma recovery l hist a x :
  In a l -> tr_ok x ->
  snd (run (fst (run (machine0 l) hist)) (map (fun d => (a, d)) (tr_frames x))) = [(a, tr_tele x)].
Proof.
  intros Hin Hok.
  assert (W : forall fs m, wfm m -> wfm (fst (run m fs)) /\ ids (fst (run m fs)) = ids m).
  { induction fs as [|f fs IH]; intros m Wm; [auto|]. cbn [run].
    pose proof (step_wfm m f Wm) as W1.
    assert (I1 : ids (fst (fst (step m f))) = ids m).
    { unfold step. destruct f as [rx d]. destruct (index_of rx (ids m) 0); [|reflexivity].
      destruct (slot_step _ d) as [[? ?] ?]. reflexivity. }
    destruct (step m f) as [[m1 ts] c]. simpl in W1, I1.
    destruct (IH m1 W1) as [A B]. destruct (run m1 fs). simpl in *. split; congruence. }
  destruct (W hist (machine0 l) (machine0_wfm l)) as [Wm Im].
  destruct (In_index_of a l Hin) as [i Ix].
  rewrite (run_single_id a _ _ i Wm) by (rewrite Im; exact Ix).
  destruct x as [[fsz t] pad]. destruct Hok as [H1 H2].
  destruct (seg_run (nth i (slots (fst (run (machine0 l) hist))) slot0) fsz t pad H1 H2) as [s' R].
  simpl. rewrite R. reflexivity.
Qed.

(* ------------------------------------------------------------------ *)
(* at most one telegram per first frame *)
Definition is_ff (d : bytes) : bool :=
  match d with b0 :: _ :: _ => b0 / 16 =? 1 | _ => false end.
Definition is_sf (d : bytes) : bool :=
  match d with b0 :: _ => b0 / 16 =? 0 | [] => false end.
Definition pending (s : slot) : nat := match data s with Some _ => 1 | None => 0 end.

Lemma step_count s d :
  is_ff d = false ->
  let '(s', ts, _) := slot_step s d in
  (List.length ts + pending s' <= (if is_sf d then 1 else 0) + pending s)%nat.
Proof.
  intros F. unfold slot_step. destruct d as [|b0 rest]; [simpl; lia|].
  unfold is_sf, is_ff in *.
  unfold isotp_frame_type_single, isotp_frame_type_first, isotp_frame_type_consecutive,
    isotp_frame_type_flow_control.
  destruct (b0 / 16 =? 0) eqn:E0.
  - destruct ((b0 mod 16 =? 0) && (8 <? blen (b0 :: rest))); simpl; lia.
  - destruct (b0 / 16 =? 1) eqn:E1.
    + destruct rest; [simpl; lia | discriminate].
    + destruct (b0 / 16 =? 2).
      * unfold pending. destruct (data s) as [td|] eqn:D; [|simpl; rewrite D; lia].
        destruct ((last_idx s + 1) mod 16 =? b0 mod 16); [|simpl; rewrite D; lia].
        destruct (spec_len s <=? blen (td ++ rest)); simpl; lia.
      * destruct (b0 / 16 =? 3); simpl; lia.
Qed.

Lemma run_count ds : forall s,
  forallb (fun d => negb (is_ff d)) ds = true ->
  (List.length (snd (slot_run s ds)) <= List.length (filter is_sf ds) + pending s)%nat.
Proof.
  induction ds as [|d ds IH]; intros s H; [simpl; lia|].
  cbn [forallb] in H. apply andb_true_iff in H as [H1 H2]. apply negb_true_iff in H1.
  cbn [slot_run filter]. pose proof (step_count s d H1) as C.
  destruct (slot_step s d) as [[s1 ts] c]. specialize (IH s1 H2).
  destruct (slot_run s1 ds) as [s2 t2]. simpl in *. rewrite app_length.
  destruct (is_sf d); simpl; lia.
Qed.

(* ------------------------------------------------------------------ *)
(* provenance: every reported telegram is justified by the history *)
Inductive Subseq {A} : list A -> list A -> Prop :=
| sub_nil l : Subseq [] l
| sub_take x l1 l2 : Subseq l1 l2 -> Subseq (x :: l1) (x :: l2)
| sub_skip x l1 l2 : Subseq l1 l2 -> Subseq l1 (x :: l2).

Lemma subseq_app_r {A} (l h x : list A) : Subseq l h -> Subseq l (h ++ x).
Proof. induction 1; simpl; constructor; auto. Qed.

Lemma subseq_snoc {A} (l h : list A) d : Subseq l h -> Subseq (l ++ [d]) (h ++ [d]).
Proof.
  induction 1 as [h| |]; simpl.
  - induction h; simpl; repeat constructor. assumption.
  - now constructor.
  - now constructor.
Qed.

Lemma subseq_last {A} (h : list A) d : Subseq [d] (h ++ [d]).
Proof. apply (subseq_snoc [] h d). constructor. Qed.

(* consecutive frames carrying the sequence numbers k, k+1, ... (mod 16) *)
Fixpoint seq_from (k : Z) (cs : list bytes) : Prop :=
  match cs with
  | [] => True
  | c :: r => (exists p, c = (32 + k mod 16) :: p) /\ seq_from (k + 1) r
  end.

Lemma seq_from_snoc cs : forall k p,
  seq_from k cs -> seq_from k (cs ++ [(32 + (k + Z.of_nat (List.length cs)) mod 16) :: p]).
Proof.
  induction cs as [|c cs IH]; intros k p H; simpl.
  - rewrite Z.add_0_r. split; [eauto | exact I].
  - destruct H as [H1 H2]. split; [assumption|].
    replace (k + Z.pos (Pos.of_succ_nat (List.length cs))) with (k + 1 + Z.of_nat (List.length cs)) by lia.
    now apply IH.
Qed.

(* the announced length and the payload of a first frame: the 12 bit length, or -- when that is zero and the frame has at
   least six bytes (ISO 15765-2:2016) -- the 32 bit number which follows it *)
Definition ff_esc (d : bytes) : bool := ((nth 0 d 0 mod 16) * 256 + nth 1 d 0 =? 0) && (6 <=? blen d).
Definition ff_len (d : bytes) : Z :=
  if ff_esc d then be_len (take 4 (skipn 2 d)) else (nth 0 d 0 mod 16) * 256 + nth 1 d 0.
Definition ff_pl (d : bytes) : bytes := if ff_esc d then drop 4 (skipn 2 d) else skipn 2 d.
Definition cf_pl (d : bytes) : bytes := skipn 1 d.
Definition sf_pl (d : bytes) : bytes :=
  let lo := nth 0 d 0 mod 16 in
  if (lo =? 0) && (8 <? blen d) then take (nth 1 d 0) (drop 2 d) else take lo (drop 1 d).

(* what a history justifies *)
Definition justified (h : list bytes) (t : bytes) : Prop :=
  (exists d, In d h /\ is_sf d = true /\ t = sf_pl d) \/
  (exists f cs, Subseq (f :: cs) h /\ is_ff f = true /\ seq_from 1 cs /\
                t = take (ff_len f) (ff_pl f ++ concat (map cf_pl cs))).

Definition slot_inv (h : list bytes) (s : slot) : Prop :=
  match data s with
  | None => True
  | Some td => exists f cs, Subseq (f :: cs) h /\ is_ff f = true /\ seq_from 1 cs /\
                            td = ff_pl f ++ concat (map cf_pl cs) /\
                            spec_len s = ff_len f /\
                            last_idx s mod 16 = Z.of_nat (List.length cs) mod 16
  end.

Lemma justified_mono h x t : justified h t -> justified (h ++ x) t.
Proof.
  intros [(d & H1 & H2)|(f & cs & H1 & H2)]; [left | right].
  - exists d. split; [apply in_app_iff; now left | assumption].
  - exists f, cs. split; [now apply subseq_app_r | assumption].
Qed.

Lemma step_provenance h s d :
  slot_inv h s ->
  let '(s', ts, _) := slot_step s d in
  slot_inv (h ++ [d]) s' /\ forall t, In t ts -> justified (h ++ [d]) t.
Proof.
  intros Inv.
  assert (Keep : slot_inv (h ++ [d]) s).
  { unfold slot_inv in *. destruct (data s); [|exact I].
    destruct Inv as (f & cs & H1 & H2). exists f, cs. split; [now apply subseq_app_r | assumption]. }
  unfold slot_step. destruct d as [|b0 rest]; [split; [assumption | intros t []]|].
  unfold isotp_frame_type_single, isotp_frame_type_first, isotp_frame_type_consecutive,
    isotp_frame_type_flow_control.
  destruct (b0 / 16 =? 0) eqn:E0.
  - (* single frame *)
    assert (J : justified (h ++ [b0 :: rest]) (sf_pl (b0 :: rest))).
    { left. exists (b0 :: rest). split; [apply in_app_iff; right; now left|].
      split; [exact E0 | reflexivity]. }
    unfold sf_pl in J. cbn [nth] in J.
    destruct ((b0 mod 16 =? 0) && (8 <? blen (b0 :: rest)));
      (split; [assumption | intros t [<-|[]]; exact J]).
  - destruct (b0 / 16 =? 1) eqn:E1.
    + (* first frame *)
      destruct rest as [|b1 pl]; [split; [assumption | intros t []]|].
      destruct ((b0 mod 16 * 256 + b1 =? 0) && (6 <=? blen (b0 :: b1 :: pl))) eqn:Esc;
        (split; [| intros t []]);
        unfold slot_inv; cbn [data spec_len last_idx];
        exists (b0 :: b1 :: pl), []; (split; [apply subseq_last|]);
        (split; [exact E1|]); (split; [exact I|]);
        unfold ff_pl, ff_len, ff_esc; cbn [nth]; rewrite Esc; cbn [skipn concat map];
        (split; [now rewrite app_nil_r|]); split; reflexivity.
    + destruct (b0 / 16 =? 2) eqn:E2.
      * (* consecutive frame *)
        destruct (data s) as [td|] eqn:D; [|split; [assumption | intros t []]].
        destruct ((last_idx s + 1) mod 16 =? b0 mod 16) eqn:Ek;
          [|split; [assumption | intros t []]].
        apply Z.eqb_eq in Ek. apply Z.eqb_eq in E2.
        unfold slot_inv in Inv. rewrite D in Inv.
        destruct Inv as (f & cs & S1 & F1 & Q1 & T1 & L1 & X1).
        assert (Hb : b0 = 32 + (1 + Z.of_nat (List.length cs)) mod 16) by lia.
        assert (S2 : Subseq (f :: cs ++ [b0 :: rest]) (h ++ [b0 :: rest]))
          by (apply (subseq_snoc (f :: cs) h), S1).
        assert (Q2 : seq_from 1 (cs ++ [b0 :: rest])) by (rewrite Hb; now apply seq_from_snoc).
        assert (T2 : td ++ rest = ff_pl f ++ concat (map cf_pl (cs ++ [b0 :: rest]))).
        { rewrite map_app, concat_app. simpl. rewrite app_nil_r, app_assoc. now rewrite T1. }
        destruct (spec_len s <=? blen (td ++ rest)).
        -- split; [exact I|]. intros t [<-|[]]. right. exists f, (cs ++ [b0 :: rest]).
           repeat split; try assumption. now rewrite L1, T2.
        -- split; [| intros t []]. unfold slot_inv. cbn [data spec_len last_idx].
           exists f, (cs ++ [b0 :: rest]). repeat split; try assumption.
           rewrite app_length. simpl List.length. lia.
      * destruct (b0 / 16 =? 3); (split; [assumption | intros t []]).
Qed.

Lemma run_provenance ds : forall h s,
  slot_inv h s -> forall t, In t (snd (slot_run s ds)) -> justified (h ++ ds) t.
Proof.
  induction ds as [|d ds IH]; intros h s Inv t Ht; [contradiction|].
  cbn [slot_run] in Ht. pose proof (step_provenance h s d Inv) as P.
  destruct (slot_step s d) as [[s1 ts] c]. destruct P as [Inv1 J1].
  specialize (IH (h ++ [d]) s1 Inv1 t).
  destruct (slot_run s1 ds) as [s2 t2]. simpl in Ht, IH.
  replace (h ++ d :: ds) with ((h ++ [d]) ++ ds) by (now rewrite <- app_assoc).
  apply in_app_iff in Ht as [Ht|Ht]; [apply justified_mono; now apply J1 | now apply IH].
Qed.

(* non-vacuity: a concrete padded CAN-FD transfer and a classic one *)
Lemma example_segment :
  segment 8 [1;2;3;4;5;6;7;8;9;10] [170] = [[16;10;1;2;3;4;5;6]; [33;7;8;9;10;170]]
  /\ telegrams [2024] (map (fun d => (2024, d)) (segment 8 [1;2;3;4;5;6;7;8;9;10] [170]))
     = [(2024, [1;2;3;4;5;6;7;8;9;10])].
Proof. vm_compute. split; reflexivity. Qed.

(* ------------------------------------------------------------------ *)
(* active decoder: a first frame is answered by exactly one clear-to-send frame *)
Lemma ff_callbacks s d : is_ff d = true ->
  exists s', slot_step s d = (s', [], [CbFirst d]).
Proof.
  destruct d as [|b0 [|b1 pl]]; try discriminate. unfold is_ff. intros H.
  apply Z.eqb_eq in H. unfold slot_step. rewrite H.
  unfold isotp_frame_type_single, isotp_frame_type_first. simpl (1 =? 0). simpl (1 =? 1). cbn match.
  destruct ((b0 mod 16 * 256 + b1 =? 0) && (6 <=? blen (b0 :: b1 :: pl))); eexists; reflexivity.
Qed.

Lemma active_ff tx psize pval m as_ rx d r i :
  index_of rx (ids m) 0 = Some i -> is_ff d = true ->
  exists ts cbs, hd_error (run_trace tx psize pval m as_ ((rx, d) :: r))
  = Some (ts, cbs, [(nth i tx 0, pad_to psize pval
                       [isotp_frame_type_flow_control * 16 + isotp_flow_control_continue; 255; 0])]).
Proof.
  intros Ix F. cbn [run_trace]. unfold step. rewrite Ix.
  destruct (ff_callbacks (nth i (slots m) slot0) d F) as [s' ->].
  cbn [map active_cbs active_cb]. eexists. eexists. reflexivity.
Qed.
