(* C09, the converse of PriorityProofs: a conflict is reported ONLY when it is real -- two parents of
   the same priority expose different objects under one name which the layer does not define
   itself -- or when a parent's own view is in conflict already. *)
From Coq Require Import ZArith List Bool Lia.
From OV Require Import Base.Wire Model.Inherit Proofs.InheritProofs Proofs.PriorityProofs.
Import ListNotations.
Open Scope Z_scope.

(* every dictionary entry has been exposed *)
Definition oinv (E : expo) (d : list entry) : Prop :=
  forall n o via, dget n d = Some (o, via) -> E n o via.

Definition clash (H : list layer) (locals : list Z) (E : expo) : Prop :=
  exists n o q o' q', E n o q /\ E n o' q' /\ layer_prio H q = layer_prio H q' /\
                      obj_eqb o o' = false /\ memZ n locals = false.

Lemma clash_mono H locals (E E' : expo) : (forall n o q, E n o q -> E' n o q) -> clash H locals E -> clash H locals E'.
Proof. intros X (n & o & q & o' & q' & A & B & R). exists n, o, q, o', q'. split; [auto | split; [auto | exact R]]. Qed.

Lemma oinv_dset (E : expo) d o pid :
  oinv E d -> oinv (add_expo E (o_name o) o pid) (dset (o_name o) (o, pid) d).
Proof.
  intros I n x via G. destruct (Z.eq_dec n (o_name o)) as [->|Ne].
  - rewrite dget_dset_same in G. injection G as <- <-. right. auto.
  - rewrite dget_dset_other in G by exact Ne. left. now apply I.
Qed.

Lemma oinv_keep (E : expo) d o pid : oinv E d -> oinv (add_expo E (o_name o) o pid) d.
Proof. intros I n x via G. left. now apply I. Qed.

Lemma oinv_ext (E E' : expo) d : (forall n o q, E n o q -> E' n o q) -> oinv E d -> oinv E' d.
Proof. intros X I n o via G. apply X. now apply I. Qed.

Lemma merge_conflict H locals pid : forall objs E d,
  oinv E d ->
  match merge_objs H locals pid objs d with
  | IOk d' => oinv (add_all E objs pid) d'
  | IConflict => clash H locals (add_all E objs pid)
  | IFuel => False
  end.
Proof.
  induction objs as [|o r IH]; intros E d I; cbn [merge_objs].
  - eapply oinv_ext; [|exact I]. intros n x q A. now left.
  - assert (Up : forall n x q, add_all (add_expo E (o_name o) o pid) r pid n x q -> add_all E (o :: r) pid n x q).
    { intros n x q [[A|(-> & -> & ->)]|(Hi & Hn & Hq)]; unfold add_all; cbn [In]; [now left | right; auto | right; auto]. }
    assert (Rest : forall d1, oinv (add_expo E (o_name o) o pid) d1 ->
                   match merge_objs H locals pid r d1 with
                   | IOk d' => oinv (add_all E (o :: r) pid) d'
                   | IConflict => clash H locals (add_all E (o :: r) pid)
                   | IFuel => False
                   end).
    { intros d1 I1. specialize (IH _ _ I1). destruct (merge_objs H locals pid r d1).
      - eapply oinv_ext; [exact Up | exact IH].
      - eapply clash_mono; [exact Up | exact IH].
      - exact IH. }
    destruct (dget (o_name o) d) as [[o' via]|] eqn:G.
    + destruct (layer_prio H pid <? layer_prio H via) eqn:L1; [apply Rest, oinv_keep, I|].
      destruct (layer_prio H via <? layer_prio H pid) eqn:L2; [apply Rest, oinv_dset, I|].
      destruct (memZ (o_name o) locals) eqn:Ml; [apply Rest, oinv_keep, I|].
      destruct (obj_eqb o o') eqn:Eo; [apply Rest, oinv_keep, I|].
      apply Z.ltb_ge in L1, L2.
      exists (o_name o), o, pid, o', via. split; [right; cbn [In]; auto|].
      split; [left; now apply I|]. split; [lia|]. split; assumption.
    + apply Rest, oinv_dset, I.
Qed.

(* a parent whose own view is in conflict *)
Definition parent_conflict (rec : layer -> ires (list obj)) (H : list layer) (ps : list pref) : Prop :=
  exists p PL, In p ps /\ find_layer (p_target p) H = Some PL /\ rec PL = IConflict.

Lemma go_parents_conflict rec H L : forall ps E d,
  oinv E d ->
  match go_parents rec H L ps d with
  | IOk d' => oinv (fun n o q => E n o q \/ exposed rec H ps n o q) d'
  | IConflict => parent_conflict rec H ps \/
                 clash H (l_locals L) (fun n o q => E n o q \/ exposed rec H ps n o q)
  | IFuel => exists p PL, In p ps /\ find_layer (p_target p) H = Some PL /\ rec PL = IFuel
  end.
Proof.
  induction ps as [|p r IH]; intros E d I; cbn [go_parents].
  - eapply oinv_ext; [|exact I]. intros n o q A. now left.
  - destruct (find_layer (p_target p) H) as [PL|] eqn:F.
    + destruct (rec PL) as [objs| |] eqn:R.
      * set (inh := filter (fun o => negb (memZ (o_name o) (p_excl p))) objs) in *.
        assert (Up : forall n o q, (add_all E inh (l_id PL) n o q \/ exposed rec H r n o q) ->
                                   (E n o q \/ exposed rec H (p :: r) n o q)).
        { intros n o q [[A|(Hi & Hn & Hq)]|(p' & PL' & objs' & Hp & Rest)].
          - now left.
          - right. unfold inh in Hi. apply filter_In in Hi as [Io Hx]. apply negb_true_iff in Hx.
            exists p, PL, objs. repeat split; auto; [now left | now rewrite <- Hn].
          - right. exists p', PL', objs'. split; [now right | exact Rest]. }
        pose proof (merge_conflict H (l_locals L) (l_id PL) inh E d I) as M.
        destruct (merge_objs H (l_locals L) (l_id PL) inh d) as [d1| |].
        -- specialize (IH _ _ M). destruct (go_parents rec H L r d1).
           ++ eapply oinv_ext; [exact Up | exact IH].
           ++ destruct IH as [(p' & PL' & Hp & Rest)|C].
              ** left. exists p', PL'. split; [now right | exact Rest].
              ** right. eapply clash_mono; [exact Up | exact C].
           ++ destruct IH as (p' & PL' & Hp & Rest). exists p', PL'. split; [now right | exact Rest].
        -- right. eapply clash_mono; [|exact M]. intros n o q A. apply Up. now left.
        -- contradiction.
      * left. exists p, PL. split; [now left | split; assumption].
      * exists p, PL. split; [now left | split; assumption].
    + specialize (IH _ _ I).
      assert (Up : forall n o q, (E n o q \/ exposed rec H r n o q) -> (E n o q \/ exposed rec H (p :: r) n o q)).
      { intros n o q [A|(p' & PL' & objs' & Hp & Rest)]; [now left|].
        right. exists p', PL', objs'. split; [now right | exact Rest]. }
      destruct (go_parents rec H L r d).
      * eapply oinv_ext; [exact Up | exact IH].
      * destruct IH as [(p' & PL' & Hp & Rest)|C].
        -- left. exists p', PL'. split; [now right | exact Rest].
        -- right. eapply clash_mono; [exact Up | exact C].
      * destruct IH as (p' & PL' & Hp & Rest). exists p', PL'. split; [now right | exact Rest].
Qed.

(* ---------- the theorem ---------- *)
Theorem conflict_is_real f H L :
  avail (S f) H L = IConflict ->
  (exists p PL, In p (l_parents L) /\ find_layer (p_target p) H = Some PL /\ avail f H PL = IConflict) \/
  (exists p PL objs o p' PL' objs' o',
      In p (l_parents L) /\ find_layer (p_target p) H = Some PL /\ avail f H PL = IOk objs /\
      In o objs /\ memZ (o_name o) (p_excl p) = false /\
      In p' (l_parents L) /\ find_layer (p_target p') H = Some PL' /\ avail f H PL' = IOk objs' /\
      In o' objs' /\ memZ (o_name o') (p_excl p') = false /\
      o_name o = o_name o' /\ obj_eqb o o' = false /\
      layer_prio H (l_id PL) = layer_prio H (l_id PL') /\
      ~ In (o_name o) (l_locals L)).
Proof.
  cbn [avail].
  pose proof (go_parents_conflict (avail f H) H L (sort_desc H (l_parents L)) (fun _ _ _ => False) []) as G.
  destruct (go_parents (avail f H) H L (sort_desc H (l_parents L)) []) as [d| |]; try discriminate.
  intros _. destruct G as [(p & PL & Hp & F & R)|C].
  - intros n o via Gd. discriminate.
  - left. exists p, PL. split; [now apply in_sort_desc in Hp | split; assumption].
  - right. destruct C as (n & o & q & o' & q' & [[]|A] & [[]|B] & Pq & Ne & Nl).
    destruct A as (p & PL & objs & Hp & F & R & Io & Hn & Hx & Hq).
    destruct B as (p' & PL' & objs' & Hp' & F' & R' & Io' & Hn' & Hx' & Hq').
    exists p, PL, objs, o, p', PL', objs', o'. subst q q'.
    apply in_sort_desc in Hp, Hp'.
    repeat (split; [first [assumption | congruence]|]).
    intros Hin. rewrite Hn in Hin. unfold memZ in Nl.
    assert (X : existsb (Z.eqb n) (l_locals L) = true) by (apply existsb_exists; exists n; split; [exact Hin | apply Z.eqb_refl]).
    congruence.
Qed.

(* running out of fuel happens only below: a layer whose parents all have a view has one or a conflict *)
Theorem fuel_only_from_parents f H L :
  avail (S f) H L = IFuel ->
  exists p PL, In p (l_parents L) /\ find_layer (p_target p) H = Some PL /\ avail f H PL = IFuel.
Proof.
  cbn [avail].
  pose proof (go_parents_conflict (avail f H) H L (sort_desc H (l_parents L)) (fun _ _ _ => False) []) as G.
  destruct (go_parents (avail f H) H L (sort_desc H (l_parents L)) []) as [d| |]; try discriminate.
  intros _. destruct G as (p & PL & Hp & F & R).
  - intros n o via Gd. discriminate.
  - exists p, PL. split; [now apply in_sort_desc in Hp | split; assumption].
Qed.
