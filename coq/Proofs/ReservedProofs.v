(* C01 / C02 for RESERVED parameters: the encoder skips the reserved bits (whole bytes of zeros when the parameter
   has an implicit position), the decoder steps over them. A further good member for FieldProofs.v. *)
From Coq Require Import ZArith List Bool Lia.
From OV Require Import Base.Bytes Base.Wire Generated Model.Str Model.Codec
     Proofs.BytesProofs Proofs.AtomicProofs Proofs.CodecProps Proofs.FlatProofs Proofs.TreeProofs Proofs.TreeWireProofs
     Proofs.FieldProofs Proofs.CompareProofs Proofs.PadProofs Proofs.LinearLeafProofs.
Import ListNotations.
Open Scope Z_scope.

Definition reserved_param (nm : name) (bl : Z) : param := P nm None None (KReserved bl).

Lemma to_le_zero : forall n, to_le n 0 = repeat 0 n.
Proof. induction n as [|n IH]; cbn [to_le repeat]; [reflexivity|]. rewrite Z.mod_0_l, Z.div_0_l by lia. now rewrite IH. Qed.

Lemma to_be_zero n : to_be n 0 = repeat 0 n.
Proof. unfold to_be. rewrite to_le_zero. apply rev_repeat0. Qed.

Lemma wire_bytes_zero nm bl hl : wire_bytes (raw_fd nm bl hl) 0 = zeros (nbytes_of bl 0).
Proof.
  unfold wire_bytes, raw_fd, fbytes, zeros. cbn [f_bl f_hl f_bt is_numeric].
  destruct (negb hl && true); rewrite to_be_zero; [apply rev_repeat0 | reflexivity].
Qed.

(* moving the cursor forward from the end of the message and emplacing nothing pads the message with zeros *)
Lemma emplace_skip_at_end s nb : at_end s -> 0 <= nb ->
  exists s', emplace_bytes (set_bit (set_cur s (e_cur s + nb)) 0) [] None = Ok s' /\ at_end s' /\
             e_msg s' = e_msg s ++ zeros nb /\ e_cur s' = e_cur s + nb /\ e_warn s' = e_warn s /\ e_origin s' = e_origin s.
Proof.
  intros (Hb & Hc & Hu & Hok) Hn. unfold emplace_bytes. cbn [set_bit set_cur e_bit Z.eqb negb e_cur e_msg e_used].
  cbn [blen List.length Z.of_nat]. rewrite Z.add_0_r.
  rewrite (grow_at_end (e_cur s) nb (e_msg s)) by auto.
  rewrite (grow_at_end (e_cur s) nb (e_used s)) by auto.
  assert (S1 : forall m : list Z, e_cur s + nb = blen m -> splice (e_cur s + nb) [] m = m).
  { intros m Hm. unfold splice, take, drop. cbn [app blen List.length Z.of_nat]. rewrite Z.add_0_r, Hm.
    unfold blen. rewrite Nat2Z.id, firstn_all, skipn_all. apply app_nil_r. }
  assert (Lm : e_cur s + nb = blen (e_msg s ++ zeros nb)) by (rewrite blen_app, zeros_blen by lia; lia).
  assert (Lu : e_cur s + nb = blen (e_used s ++ zeros nb)) by (rewrite blen_app, zeros_blen by lia; lia).
  eexists. split; [reflexivity|]. cbn [e_msg e_cur e_used e_bit e_warn e_origin].
  change (ffs 0) with (@nil Z). rewrite (S1 _ Lm), (S1 _ Lu).
  split; [|split; [reflexivity | split; [reflexivity | split; [|reflexivity]]]].
  - unfold at_end. cbn [e_bit e_cur e_msg e_used]. split; [reflexivity|]. split; [exact Lm|]. split; [symmetry; exact Lu|].
    rewrite bytes_ok_app, Hok, bytes_ok_zeros. reflexivity.
  - unfold slice, take, drop. cbn [Z.to_nat firstn]. cbn. apply orb_false_r.
Qed.

Theorem reserved_rt nm bl :
  0 < bl <= 64 ->
  let p := reserved_param nm bl in
  appends_ge 1 1 p None (VInt 0) /\ writes_ge 1 p None (zeros (nbytes_of bl 0)) /\ no_lenkey p.
Proof.
  intros Hbl p.
  assert (Core : forall fe fd s kv, at_end s ->
            exists s', enc_param (S fe) p kv s = Ok s' /\ at_end s' /\ e_warn s' = e_warn s /\ e_origin s' = e_origin s /\
                       e_msg s' = e_msg s ++ zeros (nbytes_of bl 0) /\
                       forall r o lk, dec_param (S fd) p (mkD (e_msg s' ++ r) o (e_cur s) 0 lk) =
                                      Ok (VInt 0, mkD (e_msg s' ++ r) o (e_cur s') 0 lk)).
  { intros fe fd s kv Hend.
    pose proof Hend as (Hbit & _).
    assert (Hnb : 0 <= nbytes_of bl 0) by (unfold nbytes_of; apply Z.div_pos; lia).
    destruct (emplace_skip_at_end s (nbytes_of bl 0) Hend Hnb) as (s1 & He1 & Hend1 & Hm1 & Hc1 & Hw1 & Ho1).
    (* the same message arises from encoding the number 0, which is known to read back *)
    assert (Hendb : at_end (set_bit s 0)) by (now apply at_end_set_bit).
    assert (Hwide : is_numeric BUint && (64 <? bl) = false) by (cbn; apply Z.ltb_ge; lia).
    assert (Hp2 : 0 < 2 ^ bl) by (apply Z.pow_pos_nonneg; lia).
    destruct (emplace_val_at_end (set_bit s 0) (VInt 0) bl BUint None false Hendb ltac:(lia) Hwide
                (codable_uint 0 bl false ltac:(lia) ltac:(lia)))
      as (s2 & w2 & He2 & Hend2 & Hm2 & Hw2 & Hc2 & _ & _ & _ & _ & _ & _ & Hread2).
    assert (Hcan : canon (fun _ => VInt 0) (raw_fd nm bl false) (wire_bytes (raw_fd nm bl false) 0)).
    { apply wire_bytes_canon; cbn [raw_fd f_bl f_bt f_en f_hl fname f_name]; try lia.
      - apply raw_of_uint; lia.
      - destruct (uint_raw_roundtrip 0 bl None false 0 ltac:(lia) (or_introl eq_refl)
                    (raw_of_uint 0 bl false ltac:(lia) ltac:(lia))) as [_ Hv]. exact Hv. }
    pose proof (canon_raw_nonneg _ _ _ Hcan) as Hnn. destruct Hcan as (Hok & Hlen & Hlt & Hv & Hr).
    cbn [raw_fd f_bl f_bt f_en f_hl fname f_name fbytes] in Hok, Hlen, Hlt, Hv, Hr, Hnn.
    destruct (emplace_reproduces (set_bit s 0) (VInt 0) bl BUint None false (wire_bytes (raw_fd nm bl false) 0) _
                Hendb ltac:(lia) Hwide Hok Hlen eq_refl (conj Hnn Hlt) Hr) as (s2' & He2' & _ & Hm2' & _).
    rewrite He2 in He2'. injection He2' as <-.
    cbn [set_bit e_msg e_cur] in Hm2', Hc2, Hread2. rewrite wire_bytes_zero in Hm2'.
    assert (Emsg : e_msg s1 = e_msg s2) by congruence.
    assert (Ecur : e_cur s1 = e_cur s2) by congruence.
    exists (set_bit s1 0).
    split; [|split; [|split; [|split; [|split]]]].
    - unfold p, reserved_param. cbn [enc_param]. unfold is_required. cbn [pkind_of negb orb guard bind opt_or0].
      cbn [set_bit e_cur e_bit].
      replace ((0 + bl + 7) / 8) with (nbytes_of bl 0) by (unfold nbytes_of; f_equal; lia).
      change (set_bit (set_cur (set_bit s 0) (e_cur s + nbytes_of bl 0)) 0) with (set_bit (set_cur s (e_cur s + nbytes_of bl 0)) 0).
      rewrite He1. reflexivity.
    - now apply at_end_set_bit.
    - cbn [set_bit e_warn]. exact Hw1.
    - cbn [set_bit e_origin]. exact Ho1.
    - cbn [set_bit e_msg]. exact Hm1.
    - intros r o lk. unfold p, reserved_param. cbn [dec_param]. cbn [opt_or0 set_bit e_msg e_cur].
      unfold dset_bit at 1. cbn [d_msg d_origin d_cur d_lkeys].
      rewrite Emsg, Ecur. rewrite Hread2. cbn [bind fst snd dset_bit d_msg d_origin d_cur d_lkeys]. reflexivity. }
  split; [|split].
  - intros fe fd Hfe Hfd s kv Hend _. destruct fe as [|fe]; try lia. destruct fd as [|fd]; try lia.
    destruct (Core fe fd s kv Hend) as (s' & A & B & C & D & E & F).
    exists s', (zeros (nbytes_of bl 0)). repeat split; auto; apply B.
  - intros fe Hfe s kv Hend _. destruct fe as [|fe]; try lia.
    destruct (Core fe 0%nat s kv Hend) as (s' & A & B & C & D & E & _).
    exists s'. repeat split; auto; apply B.
  - exact I.
Qed.

Definition reserved_rm (nm : name) (bl : Z) : rmem :=
  mkRM (mkM (reserved_param nm bl) None (VInt 0)) (zeros (nbytes_of bl 0)).

Lemma reserved_rgood nm bl : 0 < bl <= 64 -> rgood 1 (reserved_rm nm bl).
Proof. intros H. unfold rgood, reserved_rm. cbn [r_m r_w m_p m_in m_out]. exact (reserved_rt nm bl H). Qed.

(* a request: service id, 12 reserved bits, a byte *)
Example reserved_example :
  let vv (z : Z) := fun _ : name => VInt z in
  let rs := [leaf_rm (mkF [115] 8 BUint None true BUint (Some (VInt 34))) (vv 34) [34];
             reserved_rm [114] 12;
             leaf_rm (mkF [122] 8 BUint None true BUint None) (vv 9) [9]] in
  rbytes rs = [34; 0; 0; 9] /\
  in_dict (rms rs) = [([122], VInt 9)] /\
  encode_msg (map m_p (rms rs)) None (VDict (in_dict (rms rs))) = Ok (rbytes rs, false) /\
  decode_msg (map m_p (rms rs)) (rbytes rs) = Ok (VDict (out_dict (rms rs))).
Proof. cbv zeta. repeat split; vm_compute; reflexivity. Qed.
