(* STATIC-FIELD items which are shorter than ITEM-BYTE-SIZE are padded with zero bytes: the padded variant of
   FieldProofs.static_field_rt *)
From Coq Require Import ZArith List Bool Lia.
From OV Require Import Base.Bytes Base.Wire Generated Model.Str Model.Codec
     Proofs.BytesProofs Proofs.AtomicProofs Proofs.CodecProps Proofs.FlatProofs Proofs.TreeProofs Proofs.TreeWireProofs
     Proofs.FieldProofs Proofs.CompareProofs.
Import ListNotations.
Open Scope Z_scope.

Lemma bytes_ok_zeros n : bytes_ok (zeros n) = true.
Proof. unfold zeros. induction (Z.to_nat n) as [|k IH]; [reflexivity|]. cbn [repeat bytes_ok forallb]. cbn. exact IH. Qed.

Lemma emplace_zeros_at_end s k :
  at_end s -> 0 < k ->
  exists s', emplace_bytes s (zeros k) None = Ok s' /\ at_end s' /\ e_msg s' = e_msg s ++ zeros k /\
             e_cur s' = e_cur s + k /\ e_warn s' = e_warn s /\ e_origin s' = e_origin s.
Proof.
  intros (Hb & Hc & Hu & Hok) Hk. unfold emplace_bytes. rewrite Hb. cbn [Z.eqb negb].
  assert (Z1 : blen (zeros k) = k) by (apply zeros_blen; lia).
  rewrite Z1.
  rewrite (grow_at_end (e_cur s) k (e_msg s)) by auto.
  rewrite (grow_at_end (e_cur s) k (e_used s)) by auto.
  assert (Su : slice (e_cur s) k (e_used s ++ zeros k) = zeros k).
  { rewrite <- Hu. rewrite <- Z1 at 1. apply slice_at_end. }
  rewrite Su. rewrite bytes_eqb_refl. cbn [negb].
  eexists. split; [reflexivity|]. cbn [e_msg e_cur e_warn e_origin e_bit e_used].
  assert (Sm : splice (e_cur s) (zeros k) (e_msg s ++ zeros k) = e_msg s ++ zeros k).
  { rewrite Hc. apply splice_at_end. reflexivity. }
  assert (Sf : splice (e_cur s) (ffs k) (e_used s ++ zeros k) = e_used s ++ ffs k).
  { rewrite <- Hu. apply splice_at_end. unfold blen, zeros, ffs. now rewrite !repeat_length. }
  rewrite Sm, Sf.
  split; [|split; [reflexivity | split; [reflexivity | split; [apply orb_false_r | reflexivity]]]].
  unfold at_end. cbn [e_msg e_cur e_used e_bit].
  split; [reflexivity|]. split; [rewrite blen_app, Z1; lia|]. split.
  - rewrite blen_app. assert (F : blen (ffs k) = k) by (unfold blen, ffs; rewrite repeat_length; lia). rewrite F. lia.
  - rewrite bytes_ok_app, Hok, bytes_ok_zeros. reflexivity.
Qed.

(* an item: members known to round-trip whose bytes do not exceed the item size *)
Definition pitem_ok (k : nat) (ps : list param) (isz : Z) (rs : list rmem) : Prop :=
  map m_p (rms rs) = ps /\ (forall x, In x rs -> rgood k x) /\ NoDup (map m_name (rms rs)) /\ blen (rbytes rs) <= isz.

Definition padded (isz : Z) (rs : list rmem) : list Z := rbytes rs ++ zeros (isz - blen (rbytes rs)).

Lemma padded_length isz rs : blen (rbytes rs) <= isz -> blen (padded isz rs) = isz.
Proof. intros H. unfold padded. rewrite blen_app, zeros_length. lia. Qed.

Lemma pstatic_loop k fe fd ps n oe isz :
  (k <= fe)%nat -> (k <= fd)%nat ->
  forall (items : list (list rmem)) s i,
  at_end s -> (forall rs, In rs items -> pitem_ok k ps isz rs) ->
  exists s',
    senc_go (S (S fe)) (DStruct ps None) n oe isz (map item_in items) i s = Ok s' /\
    at_end s' /\ e_warn s' = e_warn s /\ e_origin s' = e_origin s /\
    e_msg s' = e_msg s ++ concat (map (padded isz) items) /\
    forall r o lk acc,
      sdec_go (S (S fd)) (DStruct ps None) isz (length items) (mkD (e_msg s' ++ r) o (e_cur s) 0 lk) acc =
      Ok (rev acc ++ map item_out items, mkD (e_msg s' ++ r) o (e_cur s') 0 lk).
Proof.
  intros Hfe Hfd. induction items as [|rs items IH]; intros s i Hend Hit.
  - exists s. cbn [map senc_go sdec_go concat length]. rewrite !app_nil_r.
    split; [reflexivity|]. split; [exact Hend|]. do 3 (split; [reflexivity|]).
    intros r o lk acc. rewrite app_nil_r. reflexivity.
  - destruct (Hit rs (or_introl eq_refl)) as (Hps & Hg & ND & Hsz).
    set (s0 := if i =? n - 1 then set_eop s oe else s).
    assert (Hend0 : at_end s0) by (unfold s0; destruct (i =? n - 1); auto using at_end_set_eop).
    assert (E0 : e_msg s0 = e_msg s /\ e_cur s0 = e_cur s /\ e_warn s0 = e_warn s /\ e_origin s0 = e_origin s)
      by (unfold s0; destruct (i =? n - 1); repeat split; reflexivity).
    destruct E0 as (Em0 & Ec0 & Ew0 & Eo0).
    destruct (composite_rt k rs fe fd s0 Hg ND Hfe Hfd Hend0) as (s1 & He1 & Hend1 & Hw1 & Ho1 & Hm1 & Hd1).
    rewrite Hps in He1, Hd1.
    assert (Hcur1 : e_cur s1 = e_cur s0 + blen (rbytes rs)).
    { destruct Hend1 as (_ & C1 & _). destruct Hend0 as (_ & C0 & _). rewrite C1, Hm1, blen_app, C0. reflexivity. }
    (* the padding *)
    assert (Pad : exists s2, (if e_cur s1 - e_cur s0 <? isz then emplace_bytes s1 (zeros (isz - (e_cur s1 - e_cur s0))) None else Ok s1) = Ok s2 /\
                             at_end s2 /\ e_msg s2 = e_msg s1 ++ zeros (isz - blen (rbytes rs)) /\ e_cur s2 = e_cur s0 + isz /\
                             e_warn s2 = e_warn s1 /\ e_origin s2 = e_origin s1).
    { destruct (e_cur s1 - e_cur s0 <? isz) eqn:L.
      - apply Z.ltb_lt in L.
        destruct (emplace_zeros_at_end s1 (isz - (e_cur s1 - e_cur s0)) Hend1 ltac:(lia)) as (s2 & E & A & M & C & W & O).
        exists s2. replace (isz - (e_cur s1 - e_cur s0)) with (isz - blen (rbytes rs)) in * by lia.
        repeat split; auto; try apply A. lia.
      - apply Z.ltb_ge in L. exists s1. assert (Z0 : isz - blen (rbytes rs) = 0) by lia.
        rewrite Z0. cbn [zeros Z.to_nat repeat]. rewrite app_nil_r. repeat split; auto; try apply Hend1. lia. }
    destruct Pad as (s2 & Ep & Hend2 & Hm2 & Hc2 & Hw2 & Ho2).
    destruct (IH s2 (i + 1) Hend2 (fun y Hy => Hit y (or_intror Hy))) as (s' & He3 & Hend3 & Hw3 & Ho3 & Hm3 & Hd3).
    exists s'. split; [|split; [|split; [|split; [|split]]]].
    + cbn [map senc_go]. change (item_in rs) with (VDict (in_dict (rms rs))). cbn [guard bind]. fold s0.
      cbn [enc_dop]. rewrite He1. cbn [bind].
      replace (e_cur s1 - e_cur s0 <=? isz) with true by lia. cbn [guard bind].
      rewrite Ep. cbn [bind]. exact He3.
    + exact Hend3.
    + congruence.
    + congruence.
    + rewrite Hm3, Hm2, Hm1, Em0. cbn [map concat]. unfold padded. now rewrite <- !app_assoc.
    + intros r o lk acc. cbn [length sdec_go]. cbn [dec_dop].
      assert (R1 : e_msg s' ++ r = e_msg s1 ++ (zeros (isz - blen (rbytes rs)) ++ concat (map (padded isz) items) ++ r)).
      { rewrite Hm3, Hm2. now rewrite <- !app_assoc. }
      rewrite R1. rewrite <- Ec0. rewrite Hd1. cbn [bind d_cur dset_cur d_msg d_origin d_bit d_lkeys].
      rewrite <- R1.
      replace (e_cur s0 + isz) with (e_cur s2) by lia.
      change (dset_cur (mkD (e_msg s' ++ r) o (e_cur s1) 0 lk) (e_cur s2)) with (mkD (e_msg s' ++ r) o (e_cur s2) 0 lk).
      rewrite Hd3. cbn [rev map]. rewrite <- app_assoc. reflexivity.
Qed.

Theorem pstatic_field_rt k nm ps isz (items : list (list rmem)) :
  (forall rs, In rs items -> pitem_ok k ps isz rs) ->
  let p := static_param nm ps (zlen items) isz in
  let vin := Some (VList (map item_in items)) in
  appends_ge (4 + k) (4 + k) p vin (VList (map item_out items)) /\
  writes_ge (4 + k) p vin (concat (map (padded isz) items)) /\ no_lenkey p.
Proof.
  intros Hit p vin.
  assert (Core : forall fe fd, (k <= fe)%nat -> (k <= fd)%nat -> forall s kv, at_end s -> lookup nm kv = vin ->
            exists s', enc_param (S (S (S (S fe)))) p kv s = Ok s' /\ at_end s' /\ e_warn s' = e_warn s /\ e_origin s' = e_origin s /\
                       e_msg s' = e_msg s ++ concat (map (padded isz) items) /\
                       forall r o lk, dec_param (S (S (S (S fd)))) p (mkD (e_msg s' ++ r) o (e_cur s) 0 lk) =
                                      Ok (VList (map item_out items), mkD (e_msg s' ++ r) o (e_cur s') 0 lk)).
  { intros fe fd Hfe Hfd s kv Hend Hl.
    pose proof Hend as (Hbit & _).
    set (sb := set_eop (set_bit s 0) false).
    assert (Hendb : at_end sb) by (destruct Hend as (A & B & C & D); repeat split; auto).
    destruct (pstatic_loop k fe fd ps (zlen items) (e_eop (set_bit s 0)) isz Hfe Hfd items sb 0 Hendb Hit)
      as (s' & He & Hend' & Hw & Ho & Hm & Hd).
    exists (set_bit (set_eop s' (e_eop (set_bit s 0))) 0).
    split; [|split; [|split; [|split; [|split]]]].
    - unfold p, static_param. cbn [enc_param]. unfold is_required. cbn [pkind_of]. unfold vin in Hl. rewrite Hl.
      cbn [negb orb guard bind]. unfold vget. rewrite Hl. cbn [is_none negb guard bind opt_or0].
      cbn [enc_dop].
      assert (Hz : zlen (map item_in items) =? zlen items = true).
      { unfold zlen. rewrite map_length. apply Z.eqb_refl. }
      rewrite Hz. cbn [guard bind].
      match goal with |- bind (bind ?X _) _ = _ =>
        change X with (senc_go (S (S fe)) (DStruct ps None) (zlen items) (e_eop (set_bit s 0)) isz (map item_in items) 0 sb) end.
      rewrite He. cbn [bind]. reflexivity.
    - destruct Hend' as (A & B & C & D). repeat split; auto.
    - cbn. exact Hw.
    - cbn. exact Ho.
    - cbn. exact Hm.
    - intros r o lk. unfold p, static_param. cbn [dec_param]. cbn [opt_or0].
      cbn [set_bit set_eop e_msg e_cur].
      change (dset_bit (mkD (e_msg s' ++ r) o (e_cur s) 0 lk) 0) with (mkD (e_msg s' ++ r) o (e_cur s) 0 lk).
      cbn [dec_dop]. cbn [d_bit Z.eqb guard bind d_origin d_cur].
      change (dset_origin (mkD (e_msg s' ++ r) o (e_cur s) 0 lk) (e_cur s)) with (mkD (e_msg s' ++ r) (e_cur s) (e_cur s) 0 lk).
      specialize (Hd r (e_cur s) lk []). cbn [sb set_eop set_bit e_cur] in Hd.
      assert (Hn : Z.to_nat (zlen items) = length items) by (unfold zlen; apply Nat2Z.id).
      rewrite Hn.
      match goal with |- bind (bind ?X _) _ = _ =>
        change X with (sdec_go (S (S fd)) (DStruct ps None) isz (length items) (mkD (e_msg s' ++ r) (e_cur s) (e_cur s) 0 lk) []) end.
      rewrite Hd. cbn [bind rev app fst snd dset_origin dset_bit d_msg d_origin d_cur d_bit d_lkeys].
      reflexivity. }
  split; [|split].
  - intros fe fd Hfe Hfd s kv Hend Hl. destruct fe as [|[|[|[|fe]]]]; try lia. destruct fd as [|[|[|[|fd]]]]; try lia.
    destruct (Core fe fd ltac:(lia) ltac:(lia) s kv Hend Hl) as (s' & A & B & C & D & E & F).
    exists s', (concat (map (padded isz) items)). repeat split; auto; apply B.
  - intros fe Hfe s kv Hend Hl. destruct fe as [|[|[|[|fe]]]]; try lia.
    destruct (Core fe k ltac:(lia) (le_n k) s kv Hend Hl) as (s' & A & B & C & D & E & _).
    exists s'. repeat split; auto; apply B.
  - exact I.
Qed.

Definition pfield_rm (nm : name) (ps : list param) (isz : Z) (items : list (list rmem)) : rmem :=
  mkRM (mkM (static_param nm ps (zlen items) isz) (Some (VList (map item_in items))) (VList (map item_out items)))
       (concat (map (padded isz) items)).

Lemma pfield_rgood k nm ps isz items :
  (forall rs, In rs items -> pitem_ok k ps isz rs) -> rgood (4 + k) (pfield_rm nm ps isz items).
Proof. intros H. unfold rgood, pfield_rm. cbn [r_m r_w m_p m_in m_out]. exact (pstatic_field_rt k nm ps isz items H). Qed.

(* items of one byte in slots of three *)
Example padded_example :
  let u8 nm := mkF nm 8 BUint None true BUint None in
  let vv (z : Z) := fun _ : name => VInt z in
  let item (a : Z) := [leaf_rm (u8 [97]) (vv a) (wire_bytes (u8 [97]) a)] in
  let ps_item := map m_p (rms (item 0)) in
  let rs := [leaf_rm (mkF [115] 8 BUint None true BUint (Some (VInt 34))) (vv 34) [34];
             pfield_rm [102] ps_item 3 [item 7; item 8];
             leaf_rm (u8 [122]) (vv 9) [9]] in
  rbytes rs = [34; 7; 0; 0; 8; 0; 0; 9] /\
  encode_msg (map m_p (rms rs)) None (VDict (in_dict (rms rs))) = Ok (rbytes rs, false) /\
  decode_msg (map m_p (rms rs)) (rbytes rs) = Ok (VDict (out_dict (rms rs))).
Proof. cbv zeta. split; [vm_compute; reflexivity|]. split; vm_compute; reflexivity. Qed.
