(* C01 / C02 for counted lists of structures: a DYNAMIC-LENGTH-FIELD -- an item count followed by that many
   items, each a structure of good members (of any sizes). A further good member for FieldProofs.v. *)
From Coq Require Import ZArith List Bool Lia.
From OV Require Import Base.Bytes Base.Wire Generated Model.Str Model.Codec
     Proofs.BytesProofs Proofs.AtomicProofs Proofs.CodecProps Proofs.FlatProofs Proofs.TreeProofs Proofs.TreeWireProofs
     Proofs.FieldProofs.
Import ListNotations.
Open Scope Z_scope.

(* ---------- the item loops as standalone functions ---------- *)
Definition yenc_go (f : nat) (sd : dop) (n : Z) (orig_eop : bool) :=
  fix go (items : list value) (i : Z) (s : estate) : res estate :=
    match items with
    | [] => Ok s
    | it :: r =>
      let s := if i =? n - 1 then set_eop s orig_eop else s in
      do s1 <- enc_dop f sd it s;
      go r (i + 1) s1
    end.

Definition ydec_go (f : nat) (sd : dop) :=
  fix go (k : nat) (s : dstate) (acc : list value) : res (list value * dstate) :=
    match k with
    | O => Ok (rev acc, s)
    | S k' =>
      do vs <- dec_dop f sd s;
      let '(v, s1) := vs in
      go k' s1 (v :: acc)
    end.

Definition ditem_ok (k : nat) (ps : list param) (rs : list rmem) : Prop :=
  map m_p (rms rs) = ps /\ (forall x, In x rs -> rgood k x) /\ NoDup (map m_name (rms rs)).

Lemma dyn_loop k fe fd ps n oe :
  (k <= fe)%nat -> (k <= fd)%nat ->
  forall (items : list (list rmem)) s i,
  at_end s -> (forall rs, In rs items -> ditem_ok k ps rs) ->
  exists s',
    yenc_go (S (S fe)) (DStruct ps None) n oe (map item_in items) i s = Ok s' /\
    at_end s' /\ e_warn s' = e_warn s /\ e_origin s' = e_origin s /\
    e_msg s' = e_msg s ++ concat (map rbytes items) /\
    forall r o lk acc,
      ydec_go (S (S fd)) (DStruct ps None) (length items) (mkD (e_msg s' ++ r) o (e_cur s) 0 lk) acc =
      Ok (rev acc ++ map item_out items, mkD (e_msg s' ++ r) o (e_cur s') 0 lk).
Proof.
  intros Hfe Hfd. induction items as [|rs items IH]; intros s i Hend Hit.
  - exists s. cbn [map yenc_go ydec_go concat length]. rewrite !app_nil_r.
    split; [reflexivity|]. split; [exact Hend|]. do 3 (split; [reflexivity|]).
    intros r o lk acc. rewrite app_nil_r. reflexivity.
  - destruct (Hit rs (or_introl eq_refl)) as (Hps & Hg & ND).
    set (s0 := if i =? n - 1 then set_eop s oe else s).
    assert (Hend0 : at_end s0) by (unfold s0; destruct (i =? n - 1); auto using at_end_set_eop).
    assert (E0 : e_msg s0 = e_msg s /\ e_cur s0 = e_cur s /\ e_warn s0 = e_warn s /\ e_origin s0 = e_origin s)
      by (unfold s0; destruct (i =? n - 1); repeat split; reflexivity).
    destruct E0 as (Em0 & Ec0 & Ew0 & Eo0).
    destruct (composite_rt k rs fe fd s0 Hg ND Hfe Hfd Hend0) as (s1 & He1 & Hend1 & Hw1 & Ho1 & Hm1 & Hd1).
    rewrite Hps in He1, Hd1.
    destruct (IH s1 (i + 1) Hend1 (fun y Hy => Hit y (or_intror Hy))) as (s' & He2 & Hend2 & Hw2 & Ho2 & Hm2 & Hd2).
    exists s'. split; [|split; [|split; [|split; [|split]]]].
    + cbn [map yenc_go]. change (item_in rs) with (VDict (in_dict (rms rs))). fold s0.
      cbn [enc_dop]. rewrite He1. cbn [bind]. exact He2.
    + exact Hend2.
    + congruence.
    + congruence.
    + rewrite Hm2, Hm1, Em0. cbn [map concat]. now rewrite app_assoc.
    + intros r o lk acc. cbn [length ydec_go]. cbn [dec_dop].
      assert (R1 : e_msg s' ++ r = e_msg s1 ++ (concat (map rbytes items) ++ r)) by (rewrite Hm2; now rewrite <- app_assoc).
      rewrite R1. rewrite <- Ec0. rewrite Hd1. cbn [bind].
      rewrite <- R1. rewrite Hd2. cbn [rev map]. rewrite <- app_assoc. reflexivity.
Qed.

(* ---------- the field as a parameter ---------- *)
(* the count: an unsigned integer of bl bits at the start of the field; the items follow the count's bytes *)
Definition count_dop (bl : Z) (hl : bool) : dop := DSimple (Std BUint None hl bl None) CIdent BUint.
Definition dyn_param (nm : name) (ps : list param) (bl : Z) (hl : bool) : param :=
  P nm None None (KValue (DDynLen (DStruct ps None) (nbytes_of bl 0) 0 0 (count_dop bl hl)) None).
Definition count_fd (bl : Z) (hl : bool) : fdesc := mkF [] bl BUint None hl BUint None.

Theorem dyn_field_rt k nm ps bl hl (items : list (list rmem)) :
  0 < bl <= 64 -> zlen items < 2 ^ bl ->
  (forall rs, In rs items -> ditem_ok k ps rs) ->
  let p := dyn_param nm ps bl hl in
  let vin := Some (VList (map item_in items)) in
  let bytes := wire_bytes (count_fd bl hl) (zlen items) ++ concat (map rbytes items) in
  appends_ge (4 + k) (4 + k) p vin (VList (map item_out items)) /\
  writes_ge (4 + k) p vin bytes /\ no_lenkey p.
Proof.
  intros Hbl Hn Hit p vin bytes.
  assert (Hn0 : 0 <= zlen items) by (unfold zlen; lia).
  assert (Core : forall fe fd, (k <= fe)%nat -> (k <= fd)%nat -> forall s kv, at_end s -> lookup nm kv = vin ->
            exists s', enc_param (S (S (S (S fe)))) p kv s = Ok s' /\ at_end s' /\ e_warn s' = e_warn s /\ e_origin s' = e_origin s /\
                       e_msg s' = e_msg s ++ bytes /\
                       forall r o lk, dec_param (S (S (S (S fd)))) p (mkD (e_msg s' ++ r) o (e_cur s) 0 lk) =
                                      Ok (VList (map item_out items), mkD (e_msg s' ++ r) o (e_cur s') 0 lk)).
  { intros fe fd Hfe Hfd s kv Hend Hl.
    pose proof Hend as (Hbit & Hcur & Hused & Hokm).
    (* the count *)
    set (sc := set_cur (set_bit (set_origin (set_bit s 0) (e_cur (set_bit s 0))) 0) (e_origin (set_origin (set_bit s 0) (e_cur (set_bit s 0))) + 0)).
    assert (Hendc : at_end sc) by (repeat split; cbn; auto; lia).
    assert (Hwide : is_numeric BUint && (64 <? bl) = false) by (cbn; apply Z.ltb_ge; lia).
    destruct (emplace_val_at_end sc (VInt (zlen items)) bl BUint None hl Hendc ltac:(lia) Hwide
                (codable_uint (zlen items) bl hl ltac:(lia) ltac:(lia)))
      as (s1 & w1 & He1 & Hend1 & Hm1 & Hw1 & Hc1 & Hwarn1 & Ho1 & Heop1 & _ & _ & _ & Hread1).
    (* ... whose bytes are the wire bytes of the number *)
    assert (Hcan : canon (fun _ => VInt (zlen items)) (count_fd bl hl) (wire_bytes (count_fd bl hl) (zlen items))).
    { apply wire_bytes_canon; cbn [count_fd f_bl f_bt f_en f_hl fname f_name]; try lia.
      - apply raw_of_uint; lia.
      - destruct (uint_raw_roundtrip (zlen items) bl None hl (zlen items) ltac:(lia) (or_introl eq_refl)
                    (raw_of_uint (zlen items) bl hl ltac:(lia) ltac:(lia))) as [_ Hv]. exact Hv. }
    pose proof (canon_raw_nonneg _ _ _ Hcan) as Hnn. destruct Hcan as (Hok & Hlen & Hlt & Hv & Hr).
    cbn [count_fd f_bl f_bt f_en f_hl fname f_name fbytes] in Hok, Hlen, Hlt, Hv, Hr, Hnn.
    destruct (emplace_reproduces sc (VInt (zlen items)) bl BUint None hl (wire_bytes (count_fd bl hl) (zlen items)) _
                Hendc ltac:(lia) Hwide Hok Hlen eq_refl (conj Hnn Hlt) Hr) as (s1' & He1' & _ & Hm1' & _).
    rewrite He1 in He1'. injection He1' as <-.
    (* the items *)
    set (sb := set_eop (set_bit (set_cur s1 (e_origin s1 + nbytes_of bl 0)) 0) false).
    assert (Hcs : e_cur sc = e_cur s) by (cbn; lia).
    assert (Hos : e_origin sc = e_cur s) by reflexivity.
    assert (Hendb : at_end sb).
    { destruct Hend1 as (A & B & C & D). unfold sb. repeat split; cbn; auto; rewrite ?Ho1, ?Hos; lia. }
    destruct (dyn_loop k fe fd ps (zlen items) (e_eop (set_bit (set_cur s1 (e_origin s1 + nbytes_of bl 0)) 0)) Hfe Hfd items sb 0 Hendb Hit)
      as (s' & He & Hend' & Hw & Ho & Hm & Hd).
    assert (Hmsb : e_msg sb = e_msg s ++ wire_bytes (count_fd bl hl) (zlen items)) by (cbn; rewrite Hm1'; reflexivity).
    assert (Hcsb : e_cur sb = e_cur s + nbytes_of bl 0) by (cbn; rewrite Ho1, Hos; reflexivity).
    (* zero items: the final state after the empty emplace *)
    destruct (emplace_empty_at_end (set_eop s' (e_eop (set_bit (set_cur s1 (e_origin s1 + nbytes_of bl 0)) 0))))
      as (s3 & He3 & Hend3 & Hm3 & Hc3 & Hw3 & Ho3).
    { destruct Hend' as (A & B & C & D). repeat split; auto. }
    set (sfin := if zlen items =? 0 then s3 else set_eop s' (e_eop (set_bit (set_cur s1 (e_origin s1 + nbytes_of bl 0)) 0))).
    exists (set_bit (set_origin sfin (e_origin (set_bit s 0))) 0).
    assert (Fm : e_msg sfin = e_msg s' /\ e_cur sfin = e_cur s' /\ e_warn sfin = e_warn s' /\ at_end sfin).
    { unfold sfin. destruct (zlen items =? 0).
      - cbn [set_eop e_msg e_cur e_warn] in Hm3, Hc3, Hw3.
        split; [exact Hm3 | split; [exact Hc3 | split; [exact Hw3 | exact Hend3]]].
      - split; [reflexivity | split; [reflexivity | split; [reflexivity|]]].
        destruct Hend' as (A & B & C & D). repeat split; auto. }
    destruct Fm as (Fm1 & Fm2 & Fm3 & Fm4).
    split; [|split; [|split; [|split; [|split]]]].
    - unfold p, dyn_param. cbn [enc_param]. unfold is_required. cbn [pkind_of]. unfold vin in Hl. rewrite Hl.
      cbn [negb orb guard bind]. unfold vget. rewrite Hl. cbn [is_none negb guard bind opt_or0].
      cbn [enc_dop]. cbn [set_bit e_bit Z.eqb guard bind].
      fold sc.
      assert (Hz : zlen (map item_in items) = zlen items) by (unfold zlen; now rewrite map_length).
      rewrite Hz.
      cbn [count_dop valid_phys isinstance_bt guard bind p2i valid_int dct_bt enc_dct std_apply_mask std_used_mask].
      rewrite He1. cbn [bind].
      replace (e_cur s1 - e_origin s1 <=? nbytes_of bl 0) with true by (rewrite Hc1, Ho1, Hos, Hcs; lia).
      cbn [guard bind].
      match goal with |- bind (bind ?X _) _ = _ =>
        change X with (yenc_go (S (S fe)) (DStruct ps None) (zlen items) (e_eop (set_bit (set_cur s1 (e_origin s1 + nbytes_of bl 0)) 0)) (map item_in items) 0 sb) end.
      rewrite He. cbn [bind]. unfold sfin.
      destruct (zlen items =? 0).
      + rewrite set_bit_id in He3 by (cbn [set_eop e_bit]; apply Hend'). rewrite He3. cbn [bind]. reflexivity.
      + cbn [bind]. reflexivity.
    - destruct Fm4 as (A & B & C & D). repeat split; auto.
    - cbn. rewrite Fm3, Hw. cbn. rewrite Hwarn1. reflexivity.
    - reflexivity.
    - cbn. rewrite Fm1, Hm, Hmsb. unfold bytes. now rewrite app_assoc.
    - intros r o lk. unfold p, dyn_param. cbn [dec_param]. cbn [opt_or0].
      cbn [set_bit set_origin e_msg e_cur]. rewrite Fm1, Fm2.
      change (dset_bit (mkD (e_msg s' ++ r) o (e_cur s) 0 lk) 0) with (mkD (e_msg s' ++ r) o (e_cur s) 0 lk).
      cbn [dec_dop]. cbn [d_bit Z.eqb guard bind d_origin d_cur].
      change (dset_bit (dset_cur (dset_origin (mkD (e_msg s' ++ r) o (e_cur s) 0 lk) (e_cur s))
                                 (d_origin (dset_origin (mkD (e_msg s' ++ r) o (e_cur s) 0 lk) (e_cur s)) + 0)) 0)
        with (mkD (e_msg s' ++ r) (e_cur s) (e_cur s + 0) 0 lk).
      cbn [count_dop dec_dct].
      assert (R1 : e_msg s' ++ r = e_msg s1 ++ (concat (map rbytes items) ++ r)).
      { rewrite Hm. cbn [sb set_eop set_bit set_cur e_msg]. now rewrite <- app_assoc. }
      rewrite R1. rewrite Z.add_0_r. rewrite <- Hcs. rewrite Hread1. cbn [bind valid_int dct_bt isinstance_bt i2p].
      replace (0 <=? zlen items) with true by lia. cbn [guard bind].
      cbn [dset_cur d_origin d_msg d_cur d_bit d_lkeys].
      rewrite <- R1.
      assert (Hnat : Z.to_nat (zlen items) = length items) by (unfold zlen; apply Nat2Z.id).
      rewrite Hnat.
      specialize (Hd r (e_cur sc) lk []).
      match goal with |- bind (bind ?X _) _ = _ =>
        change X with (ydec_go (S (S fd)) (DStruct ps None) (length items)
                               (mkD (e_msg s' ++ r) (e_cur sc) (e_cur sc + nbytes_of bl 0) 0 lk) []) end.
      rewrite Hcs in *. rewrite <- Hcsb. rewrite Hd.
      cbn [bind rev app fst snd dset_origin dset_bit d_msg d_origin d_cur d_bit d_lkeys]. reflexivity. }
  split; [|split].
  - intros fe fd Hfe Hfd s kv Hend Hl. destruct fe as [|[|[|[|fe]]]]; try lia. destruct fd as [|[|[|[|fd]]]]; try lia.
    destruct (Core fe fd ltac:(lia) ltac:(lia) s kv Hend Hl) as (s' & A & B & C & D & E & F).
    exists s', bytes. repeat split; auto; apply B.
  - intros fe Hfe s kv Hend Hl. destruct fe as [|[|[|[|fe]]]]; try lia.
    destruct (Core fe k ltac:(lia) (le_n k) s kv Hend Hl) as (s' & A & B & C & D & E & _).
    exists s'. repeat split; auto; apply B.
  - exact I.
Qed.

Definition dyn_rm (nm : name) (ps : list param) (bl : Z) (hl : bool) (items : list (list rmem)) : rmem :=
  mkRM (mkM (dyn_param nm ps bl hl) (Some (VList (map item_in items))) (VList (map item_out items)))
       (wire_bytes (count_fd bl hl) (zlen items) ++ concat (map rbytes items)).

Lemma dyn_rgood k nm ps bl hl items :
  0 < bl <= 64 -> zlen items < 2 ^ bl -> (forall rs, In rs items -> ditem_ok k ps rs) ->
  rgood (4 + k) (dyn_rm nm ps bl hl items).
Proof. intros Hbl Hn H. unfold rgood, dyn_rm. cbn [r_m r_w m_p m_in m_out]. exact (dyn_field_rt k nm ps bl hl items Hbl Hn H). Qed.

(* a response: service id, a DYNAMIC-LENGTH-FIELD (8 bit count) of items {a: 8 bit, n: a STATIC-FIELD of two
   16 bit values}, a trailing byte: fields inside the items of a field *)
Example dyn_example :
  let u8 nm := mkF nm 8 BUint None true BUint None in
  let u16 nm := mkF nm 16 BUint None true BUint None in
  let vv (z : Z) := fun _ : name => VInt z in
  let inner (x : Z) := [leaf_rm (u16 [118]) (vv x) (wire_bytes (u16 [118]) x)] in
  let ps_inner := map m_p (rms (inner 0)) in
  let item (a x y : Z) := [leaf_rm (u8 [97]) (vv a) (wire_bytes (u8 [97]) a);
                           field_rm [110] ps_inner 2 [inner x; inner y]] in
  let ps_item := map m_p (rms (item 0 0 0)) in
  let rs := [leaf_rm (mkF [115] 8 BUint None true BUint (Some (VInt 89))) (vv 89) [89];
             dyn_rm [102] ps_item 8 true [item 1 258 772; item 2 1 65535];
             leaf_rm (u8 [122]) (vv 9) [9]] in
  rbytes rs = [89; 2; 1; 1; 2; 3; 4; 2; 0; 1; 255; 255; 9] /\
  encode_msg (map m_p (rms rs)) None (VDict (in_dict (rms rs))) = Ok (rbytes rs, false) /\
  decode_msg (map m_p (rms rs)) (rbytes rs) = Ok (VDict (out_dict (rms rs))).
Proof. cbv zeta. split; [vm_compute; reflexivity|]. split; vm_compute; reflexivity. Qed.

(* the premises of rmessage_roundtrip are met by the example *)
Example dyn_premises :
  let u8 nm := mkF nm 8 BUint None true BUint None in
  let u16 nm := mkF nm 16 BUint None true BUint None in
  let vv (z : Z) := fun _ : name => VInt z in
  let inner (x : Z) := [leaf_rm (u16 [118]) (vv x) (wire_bytes (u16 [118]) x)] in
  let ps_inner := map m_p (rms (inner 0)) in
  let item (a x y : Z) := [leaf_rm (u8 [97]) (vv a) (wire_bytes (u8 [97]) a);
                           field_rm [110] ps_inner 2 [inner x; inner y]] in
  let ps_item := map m_p (rms (item 0 0 0)) in
  let rs := [leaf_rm (mkF [115] 8 BUint None true BUint (Some (VInt 89))) (vv 89) (wire_bytes (mkF [115] 8 BUint None true BUint (Some (VInt 89))) 89);
             dyn_rm [102] ps_item 8 true [item 1 258 772; item 2 1 65535];
             leaf_rm (u8 [122]) (vv 9) (wire_bytes (u8 [122]) 9)] in
  (forall x, In x rs -> rgood 10 x) /\ NoDup (map m_name (rms rs)) /\ (10 + 1 <= fuel_of (map m_p (rms rs)))%nat.
Proof.
  intros u8 u16 vv inner ps_inner item ps_item rs.
  assert (Hinner : forall x, 0 <= x < 65536 -> item_ok 2 ps_inner 2 (inner x)).
  { intros x Hx. split; [reflexivity|]. split; [|split].
    - intros y [<-|[]]. apply uint_leaf_rgood; cbn; try lia; exact I.
    - repeat constructor; cbn; intuition discriminate.
    - unfold rbytes, inner, u16. cbn [map r_w leaf_rm concat]. rewrite app_nil_r.
      unfold wire_bytes, fbytes, nbytes_of. cbn [f_bl f_hl f_bt is_numeric negb andb].
      unfold blen. rewrite to_be_length. reflexivity. }
  assert (Hitem : forall a x y, 0 <= a < 256 -> 0 <= x < 65536 -> 0 <= y < 65536 -> ditem_ok 6 ps_item (item a x y)).
  { intros a x y Ha Hx Hy. split; [reflexivity|]. split.
    - intros m [<-|[<-|[]]].
      + eapply rgood_weaken; [apply uint_leaf_rgood; cbn; try lia; exact I | lia].
      + change 6%nat with (4 + 2)%nat. apply field_rgood. intros r [<-|[<-|[]]]; apply Hinner; lia.
    - repeat constructor; cbn; intuition discriminate. }
  split; [|split].
  - intros m [<-|[<-|[<-|[]]]].
    + eapply rgood_weaken; [apply uint_leaf_rgood; cbn; try lia; reflexivity | lia].
    + change 10%nat with (4 + 6)%nat. apply dyn_rgood; [lia | cbn; lia|].
      intros r [<-|[<-|[]]]; apply Hitem; lia.
    + eapply rgood_weaken; [apply uint_leaf_rgood; cbn; try lia; exact I | lia].
  - repeat constructor; cbn; intuition discriminate.
  - vm_compute. lia.
Qed.
