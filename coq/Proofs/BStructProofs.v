(* C01 / C02 for structures with a BYTE-SIZE: a structure of good members whose bytes do not exceed the declared
   size is followed by zero bytes up to that size when encoded, and the decoder continues behind the declared size.
   A further good member for FieldProofs.v (so it nests, and can be an item of the fields). *)
From Coq Require Import ZArith List Bool Lia.
From OV Require Import Base.Bytes Base.Wire Generated Model.Str Model.Codec
     Proofs.BytesProofs Proofs.AtomicProofs Proofs.CodecProps Proofs.FlatProofs Proofs.TreeProofs Proofs.TreeWireProofs
     Proofs.FieldProofs Proofs.CompareProofs Proofs.PadProofs.
Import ListNotations.
Open Scope Z_scope.

Definition bstruct_param (nm : name) (ps : list param) (b : Z) : param :=
  P nm None None (KValue (DStruct ps (Some b)) None).

Lemma blen_ffs n : 0 <= n -> blen (ffs n) = n.
Proof. intros H. unfold blen, ffs. rewrite repeat_length. lia. Qed.

Theorem bstruct_rt k nm rs b :
  (forall x, In x rs -> rgood k x) -> NoDup (map m_name (rms rs)) -> blen (rbytes rs) <= b ->
  let p := bstruct_param nm (map m_p (rms rs)) b in
  let vin := Some (VDict (in_dict (rms rs))) in
  appends_ge (3 + k) (3 + k) p vin (VDict (out_dict (rms rs))) /\
  writes_ge (3 + k) p vin (padded b rs) /\ no_lenkey p.
Proof.
  intros Hg ND Hsz p vin.
  assert (Core : forall fe fd, (k <= fe)%nat -> (k <= fd)%nat -> forall s kv, at_end s -> lookup nm kv = vin ->
            exists s', enc_param (S (S (S fe))) p kv s = Ok s' /\ at_end s' /\ e_warn s' = e_warn s /\ e_origin s' = e_origin s /\
                       e_msg s' = e_msg s ++ padded b rs /\
                       forall r o lk, dec_param (S (S (S fd))) p (mkD (e_msg s' ++ r) o (e_cur s) 0 lk) =
                                      Ok (VDict (out_dict (rms rs)), mkD (e_msg s' ++ r) o (e_cur s') 0 lk)).
  { intros fe fd Hfe Hfd s kv Hend Hl.
    pose proof Hend as (Hbit & Hcur & Hused & Hokm).
    assert (Hendb : at_end (set_bit s 0)) by (now apply at_end_set_bit).
    destruct (composite_rt k rs fe fd (set_bit s 0) Hg ND Hfe Hfd Hendb) as (s1 & He1 & Hend1 & Hw1 & Ho1 & Hm1 & Hd1).
    cbn [set_bit e_msg e_cur e_warn e_origin] in Hw1, Ho1, Hm1, Hd1.
    pose proof Hend1 as (Hbit1 & Hcur1 & Hused1 & Hokm1).
    assert (Hc1 : e_cur s1 = e_cur s + blen (rbytes rs)) by (rewrite Hcur1, Hm1, blen_app, Hcur; reflexivity).
    set (m := b - blen (rbytes rs)).
    assert (Hm0 : 0 <= m) by (unfold m; lia).
    (* the state behind the padding *)
    set (sp := if e_cur s1 - e_cur s <? b
               then mkE (e_msg s1 ++ zeros (e_cur s + b - blen (e_msg s1))) (e_used s1 ++ ffs (e_cur s + b - blen (e_msg s1)))
                        (e_origin s1) (e_cur s + b) (e_bit s1) (e_eop s1) (e_lkeys s1) (e_keypos s1) (e_req s1) (e_warn s1)
               else s1).
    assert (Hmiss : e_cur s + b - blen (e_msg s1) = m) by (unfold m; rewrite <- Hcur1, Hc1; lia).
    assert (Psp : at_end sp /\ e_msg sp = e_msg s1 ++ zeros m /\ e_cur sp = e_cur s + b /\ e_warn sp = e_warn s1 /\ e_origin sp = e_origin s1).
    { unfold sp. destruct (e_cur s1 - e_cur s <? b) eqn:El.
      - rewrite Hmiss. cbn [e_msg e_cur e_warn e_origin]. split; [|repeat split; reflexivity].
        unfold at_end. cbn [e_bit e_cur e_msg e_used]. split; [exact Hbit1|]. split; [|split].
        + rewrite blen_app, zeros_blen by lia. rewrite <- Hcur1, Hc1. unfold m. lia.
        + rewrite blen_app, blen_ffs by lia. rewrite Hused1, Hc1. unfold m. lia.
        + rewrite bytes_ok_app, Hokm1, bytes_ok_zeros. reflexivity.
      - apply Z.ltb_ge in El. assert (Hz : m = 0) by (unfold m; lia). rewrite Hz.
        change (zeros 0) with (@nil Z). rewrite app_nil_r. split; [exact Hend1|]. repeat split; try reflexivity. lia. }
    destruct Psp as (Hendp & Hmp & Hcp & Hwp & Hop).
    exists (set_bit sp 0).
    split; [|split; [|split; [|split; [|split]]]].
    - unfold p, bstruct_param. cbn [enc_param]. unfold is_required. cbn [pkind_of]. unfold vin in Hl. rewrite Hl.
      cbn [negb orb guard bind]. unfold vget. rewrite Hl. cbn [is_none negb guard bind opt_or0].
      cbn [enc_dop]. rewrite He1. cbn [bind set_bit e_cur].
      replace (b <? e_cur s1 - e_cur s) with false by (symmetry; apply Z.ltb_ge; lia).
      fold sp. destruct (e_cur s1 - e_cur s <? b); reflexivity.
    - now apply at_end_set_bit.
    - cbn [set_bit e_warn]. congruence.
    - cbn [set_bit e_origin]. congruence.
    - cbn [set_bit e_msg]. rewrite Hmp, Hm1. unfold padded. fold m. now rewrite app_assoc.
    - intros r o lk. unfold p, bstruct_param. cbn [dec_param]. cbn [opt_or0].
      cbn [set_bit e_msg e_cur].
      change (dset_bit (mkD (e_msg sp ++ r) o (e_cur s) 0 lk) 0) with (mkD (e_msg sp ++ r) o (e_cur s) 0 lk).
      cbn [dec_dop]. cbn [d_cur].
      assert (R1 : e_msg sp ++ r = e_msg s1 ++ (zeros m ++ r)) by (rewrite Hmp; now rewrite <- app_assoc).
      rewrite R1. rewrite Hd1. cbn [bind d_cur]. rewrite <- R1.
      replace (b <? e_cur s1 - e_cur s) with false by (symmetry; apply Z.ltb_ge; lia).
      cbn [bind fst snd dset_cur dset_bit d_msg d_origin d_cur d_bit d_lkeys]. rewrite Hcp. reflexivity. }
  split; [|split].
  - intros fe fd Hfe Hfd s kv Hend Hl. destruct fe as [|[|[|fe]]]; try lia. destruct fd as [|[|[|fd]]]; try lia.
    destruct (Core fe fd ltac:(lia) ltac:(lia) s kv Hend Hl) as (s' & A & B & C & D & E & F).
    exists s', (padded b rs). repeat split; auto; apply B.
  - intros fe Hfe s kv Hend Hl. destruct fe as [|[|[|fe]]]; try lia.
    destruct (Core fe k ltac:(lia) (le_n k) s kv Hend Hl) as (s' & A & B & C & D & E & _).
    exists s'. repeat split; auto; apply B.
  - exact I.
Qed.

Definition bstruct_rm (nm : name) (rs : list rmem) (b : Z) : rmem :=
  mkRM (mkM (bstruct_param nm (map m_p (rms rs)) b) (Some (VDict (in_dict (rms rs)))) (VDict (out_dict (rms rs))))
       (padded b rs).

Lemma bstruct_rgood k nm rs b :
  (forall x, In x rs -> rgood k x) -> NoDup (map m_name (rms rs)) -> blen (rbytes rs) <= b ->
  rgood (3 + k) (bstruct_rm nm rs b).
Proof. intros Hg ND Hsz. unfold rgood, bstruct_rm. cbn [r_m r_w m_p m_in m_out]. exact (bstruct_rt k nm rs b Hg ND Hsz). Qed.

Lemma bstruct_length nm rs b : blen (rbytes rs) <= b -> blen (r_w (bstruct_rm nm rs b)) = b.
Proof. intros H. cbn [bstruct_rm r_w]. now apply padded_length. Qed.

(* a request: service id, a structure {a: 8 bit, b: 16 bit} declared as 5 bytes, a trailing byte; and the same
   with the structure filling its size exactly *)
Example bstruct_example :
  let u8 nm := mkF nm 8 BUint None true BUint None in
  let u16 nm := mkF nm 16 BUint None true BUint None in
  let vv (z : Z) := fun _ : name => VInt z in
  let inner := [leaf_rm (u8 [97]) (vv 7) (wire_bytes (u8 [97]) 7); leaf_rm (u16 [98]) (vv 258) (wire_bytes (u16 [98]) 258)] in
  let mk b := [leaf_rm (mkF [115] 8 BUint None true BUint (Some (VInt 34))) (vv 34) [34];
               bstruct_rm [116] inner b;
               leaf_rm (u8 [122]) (vv 9) [9]] in
  rbytes (mk 5) = [34; 7; 1; 2; 0; 0; 9] /\ rbytes (mk 3) = [34; 7; 1; 2; 9] /\
  encode_msg (map m_p (rms (mk 5))) None (VDict (in_dict (rms (mk 5)))) = Ok (rbytes (mk 5), false) /\
  decode_msg (map m_p (rms (mk 5))) (rbytes (mk 5)) = Ok (VDict (out_dict (rms (mk 5)))) /\
  encode_msg (map m_p (rms (mk 3))) None (VDict (in_dict (rms (mk 3)))) = Ok (rbytes (mk 3), false) /\
  decode_msg (map m_p (rms (mk 3))) (rbytes (mk 3)) = Ok (VDict (out_dict (rms (mk 3)))).
Proof. cbv zeta. repeat split; vm_compute; reflexivity. Qed.

Example bstruct_premises :
  let u8 nm := mkF nm 8 BUint None true BUint None in
  let u16 nm := mkF nm 16 BUint None true BUint None in
  let vv (z : Z) := fun _ : name => VInt z in
  let inner := [leaf_rm (u8 [97]) (vv 7) (wire_bytes (u8 [97]) 7); leaf_rm (u16 [98]) (vv 258) (wire_bytes (u16 [98]) 258)] in
  let rs := [leaf_rm (mkF [115] 8 BUint None true BUint (Some (VInt 34))) (vv 34) (wire_bytes (mkF [115] 8 BUint None true BUint (Some (VInt 34))) 34);
             bstruct_rm [116] inner 5;
             leaf_rm (u8 [122]) (vv 9) (wire_bytes (u8 [122]) 9)] in
  (forall x, In x rs -> rgood 5 x) /\ NoDup (map m_name (rms rs)) /\ (5 + 1 <= fuel_of (map m_p (rms rs)))%nat.
Proof.
  intros u8 u16 vv inner rs.
  split; [|split].
  - intros x [<-|[<-|[<-|[]]]].
    + eapply rgood_weaken; [apply uint_leaf_rgood; cbn; try lia; reflexivity | lia].
    + change 5%nat with (3 + 2)%nat. apply bstruct_rgood.
      * intros y [<-|[<-|[]]]; apply uint_leaf_rgood; cbn; try lia; exact I.
      * repeat constructor; cbn; intuition discriminate.
      * vm_compute. discriminate.
    + eapply rgood_weaken; [apply uint_leaf_rgood; cbn; try lia; exact I | lia].
  - repeat constructor; cbn; intuition discriminate.
  - vm_compute. lia.
Qed.
